#!/usr/bin/env python3
"""tools/kf_add.py <id> <property> <open|fixed> <commit|-> <witness-relpath> <what...>  — dev helper that appends/updates an entry of known_findings.json."""
import json, sys, os
root = os.path.dirname(os.path.dirname(os.path.abspath(__file__)))
path = os.path.join(root, "known_findings.json")
d = json.load(open(path))
fid, prop, status, commit, witness = sys.argv[1:6]
what = " ".join(sys.argv[6:])
e = {"id": fid, "property": prop, "status": status, "what": what, "witness": witness}
if status == "fixed":
    e["commit"] = commit
    e["line"] = "fixed: property=%s %s %s" % (prop, commit, what)
else:
    e["line"] = "KNOWN-FINDING: property=%s %s: %s" % (prop, fid, what)
d["findings"] = [x for x in d["findings"] if x["id"] != fid] + [e]
d["findings"].sort(key=lambda x: (x["property"], x["id"]))
json.dump(d, open(path, "w"), indent=1)
open(path, "a").write("\n")
