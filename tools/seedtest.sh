#!/usr/bin/env bash
# tools/seedtest.sh <seed-dir (contains patch.diff, demo_test.go)> <Cxx> [tier]  — dev tool:
# confirm a seeded change (suite passes, demo fails with it / passes without) and run a check on it.
set -u
SEED="$(cd "$1" && pwd)"; ID="$2"; TIER="${3:-quick}"
ROOT="$(cd "$(dirname "${BASH_SOURCE[0]}")/.." && pwd)"
export GOFLAGS=-mod=mod GOPROXY=off
WT="$(mktemp -d /tmp/sv-XXXXXX)"; rmdir "$WT"
git -C /repo worktree add -q "$WT" HEAD || exit 2
trap 'git -C /repo worktree remove --force "$WT" >/dev/null 2>&1' EXIT
pkgdir="."
grep -q '^package reflect\|^package helpers\|^package formatter\|^package markdown' "$SEED/demo_test.go" && pkgdir="$(grep -l . /dev/null; sed -n 's/^package \([a-z]*\).*/\1/p' "$SEED/demo_test.go" | head -1)"
case "$pkgdir" in reflect|reflect_test) pkgdir=internal/reflect;; helpers|helpers_test) pkgdir=internal/helpers;; formatter|formatter_test) pkgdir=formatter;; markdown|markdown_test) pkgdir=markdown;; *) pkgdir=.;; esac
cp "$SEED/demo_test.go" "$WT/$pkgdir/zz_seeded_demo_test.go"
(cd "$WT" && go test -vet=off ${SEED_RACE:+-race} -run TestSeededDemo -count=1 "./$pkgdir" >/tmp/sv-demo0.log 2>&1); echo "demo without change: rc=$? (want 0)"
(cd "$WT" && git apply "$SEED/patch.diff") || { echo "PATCH DOES NOT APPLY"; exit 3; }
(cd "$WT" && go test -vet=off ${SEED_RACE:+-race} -run TestSeededDemo -count=1 "./$pkgdir" >/tmp/sv-demo1.log 2>&1); echo "demo with change:    rc=$? (want 1)"
rm -f "$WT/$pkgdir/zz_seeded_demo_test.go"
(cd "$WT" && go test -vet=off -count=1 . ./internal/... ./formatter ./markdown ./diff >/tmp/sv-suite.log 2>&1); echo "suite with change:   rc=$? (want 0)"
"$ROOT/tools/runon.sh" "$WT" "$ID" "$TIER" 2>&1 | grep -E "^(VIOLATION|FAILURE-DETAIL|OK|INCONCLUSIVE|KNOWN)" | cut -c1-400
echo "check exit: ${PIPESTATUS[0]}"
