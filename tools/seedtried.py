#!/usr/bin/env python3
"""tools/seedtried.py <round> — dev tool: write /tmp/seed<round>-Cxx-tried.txt for every property: one line per kept
seeded change (files + first 220 characters of what it breaks) and the list of vuego source files no kept
change for that property has touched."""
import json, glob, os, subprocess, sys
rnd = sys.argv[1]
root = os.path.dirname(os.path.dirname(os.path.abspath(__file__)))
src = subprocess.run(["git", "-C", "/repo", "ls-files", "*.go"], capture_output=True, text=True).stdout.split()
src = sorted(f for f in src if not f.endswith("_test.go") and not f.startswith(("cmd/", "tests/", "examples/", "docs/")))
for i in range(1, 21):
    pid = "C%02d" % i
    lines, touched = [], set()
    for d in sorted(glob.glob(os.path.join(root, "seeded", pid + "-*"))):
        m = json.load(open(os.path.join(d, "meta.json")))
        files = m.get("files_changed", [])
        if isinstance(files, str):
            files = [files]
        touched.update(files)
        what = " ".join(str(m.get("what_breaks", "")).split())[:220]
        lines.append("- [%s] %s" % (", ".join(files), what))
    rest = [f for f in src if f not in touched]
    open("/tmp/seed%s-%s-tried.txt" % (rnd, pid), "w").write("\n".join(lines) + "\n\nSource files no earlier change for this property has touched: " + ", ".join(rest) + "\n")
    print(pid, len(lines), "tried,", len(rest), "untouched files")
