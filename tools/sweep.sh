#!/usr/bin/env bash
# tools/sweep.sh <tier> <seed>...   — dev tool: run every claimed check at the given tier and seeds,
# print one line per run. Evidence files written by a sweep are NOT the committed evidence
# (when started through `vp run` they land in the run's snapshot).
ROOT="$(cd "$(dirname "${BASH_SOURCE[0]}")/.." && pwd)"
TIER="$1"; shift
cd "$ROOT"
for seed in "$@"; do
  for id in $(jq -r '.checks[].property_id' MANIFEST.json); do
    out=$(VERIF_SEED=$seed ./check $id $TIER 2>&1); rc=$?
    echo "seed=$seed $id $TIER rc=$rc $(echo "$out" | grep -E '^(OK|VIOLATION|INCONCLUSIVE)' | head -2 | tr '\n' ' ' | cut -c1-200)"
    if [ $rc -ne 0 ]; then echo "$out" | grep -E 'FAILURE-DETAIL|INCONCLUSIVE' | head -3 | cut -c1-600; fi
  done
done
