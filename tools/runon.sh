#!/usr/bin/env bash
# tools/runon.sh <vuego-dir> <Cxx> [quick|thorough]  — dev tool: run a check against another copy of
# titpetric/vuego (a scratch worktree with a mutation applied) without touching /repo or /verif.
set -u
SRC="$(cd "$1" && pwd)"; ID="$2"; shift 2; [ $# -eq 0 ] && set -- quick
ROOT="$(cd "$(dirname "${BASH_SOURCE[0]}")/.." && pwd)"
T="$(mktemp -d /tmp/runon-XXXXXX)"
trap 'rm -rf "$T"' EXIT
mkdir -p "$T/replays" "$T/evidence"
cp -r "$ROOT/harness" "$T/harness"
cp -r "$ROOT/replays/known" "$ROOT/replays/regress" "$T/replays/" 2>/dev/null
cp "$ROOT/known_findings.json" "$T/" 2>/dev/null
[ -d "$ROOT/findings.d" ] && cp -r "$ROOT/findings.d" "$T/"
sed -i "s#=> /repo#=> $SRC#" "$T/harness/go.mod"
export GOFLAGS=-mod=mod GOPROXY=off VERIF_ROOT="$T"
cd "$T/harness" && go run ./cmd/driver "$ID" "$@"
rc=$?
if [ -n "${KEEP_REPLAYS:-}" ]; then mkdir -p "$KEEP_REPLAYS"; cp "$T"/replays/*.json "$KEEP_REPLAYS"/ 2>/dev/null; fi
exit $rc
