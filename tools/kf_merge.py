#!/usr/bin/env python3
"""tools/kf_merge.py <pkg> [id=fixed:commit ...] — merge findings.d/<pkg>.json into known_findings.json, optionally flipping entries to fixed."""
import json, sys, os
root = os.path.dirname(os.path.dirname(os.path.abspath(__file__)))
src = os.path.join(root, "findings.d", sys.argv[1] + ".json")
flips = dict(a.split("=fixed:") for a in sys.argv[2:])
d = json.load(open(os.path.join(root, "known_findings.json")))
for e in json.load(open(src))["findings"]:
    if e["id"] in flips:
        e["status"] = "fixed"; e["commit"] = flips[e["id"]]
    if e["status"] == "fixed":
        e["line"] = "fixed: property=%s %s %s" % (e["property"], e.get("commit", "?"), e["what"])
    else:
        e["line"] = "KNOWN-FINDING: property=%s %s: %s" % (e["property"], e["id"], e["what"])
    d["findings"] = [x for x in d["findings"] if x["id"] != e["id"]] + [e]
d["findings"].sort(key=lambda x: (x["property"], x["id"]))
json.dump(d, open(os.path.join(root, "known_findings.json"), "w"), indent=1)
os.remove(src)
