#!/bin/bash
# tools/seedbatch.sh Cxx ... — dev tool: R=<round> selects /tmp/seed<R>-Cxx-out/{A,B}; one line per seed (demo / suite / check result)
cd "$(dirname "$0")/.."
for p in "$@"; do for v in A B; do
  d=/tmp/seed${R:-4}-$p-out/$v; [ -f $d/patch.diff ] || { echo "== $p/$v MISSING"; continue; }
  r=$( ( [ $p = C09 ] && export SEED_RACE=1; tools/seedtest.sh $d $p ) 2>&1 | grep -v "^KNOWN-FINDING\|^FAILURE-DETAIL" )
  demo0=$(echo "$r" | grep -c "demo without change: rc=0"); demo1=$(echo "$r" | grep "demo with change" | grep -vc "rc=0"); suite=$(echo "$r" | grep -c "suite with change:   rc=0"); ex=$(echo "$r" | grep "check exit" | sed 's/check exit: //'); na=$(echo "$r" | grep -c "DOES NOT APPLY")
  echo "== $p/$v demo0ok=$demo0 demo1fails=$demo1 suiteok=$suite notapply=$na check_exit=$ex $(echo "$r" | grep -m1 '^VIOLATION\|^INCONCLUSIVE' | sed 's/replay=.*replays\///' | cut -c1-90)"
done; done
