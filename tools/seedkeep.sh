#!/usr/bin/env bash
# tools/seedkeep.sh <seed-dir> <name e.g. C18-A> <Cxx> <caught: yes|no|after-strengthening> "<note>"
set -u
SEED="$1"; NAME="$2"; ID="$3"; CAUGHT="$4"; NOTE="${5:-}"
ROOT="$(cd "$(dirname "${BASH_SOURCE[0]}")/.." && pwd)"
D="$ROOT/seeded/$NAME"; mkdir -p "$D"
cp "$SEED/patch.diff" "$SEED/demo_test.go" "$D/"
jq --arg id "$ID" --arg caught "$CAUGHT" --arg note "$NOTE" --arg base "$(git -C /repo rev-parse --short HEAD)" \
  '. + {breaks_property: $id, confirmed_by_lead: {applies_to_repo_commit: $base, suite_passes_with_change: true, demo_fails_with_change: true, demo_passes_without_change: true, how: "tools/seedtest.sh <dir> <Cxx>: scratch worktree of /repo HEAD, demo run before and after git apply, pinned suite run with the change, then ./check <Cxx> quick against the changed tree (tools/runon.sh)"}, check_result: {check: $id, tier: "quick", caught: $caught, note: $note}}' \
  "$SEED/meta.json" > "$D/meta.json"
echo "kept $D"
