#!/usr/bin/env bash
# Run once after a fresh restore, offline: builds the driver and warms the Go build cache by
# compiling every property's test binary (and the -race variant where used) from files on disk.
set -u
ROOT="$(cd "$(dirname "${BASH_SOURCE[0]}")" && pwd)"
export GOFLAGS=-mod=mod GOPROXY=off
cd "$ROOT/harness" || exit 1
mkdir -p "$ROOT/.bin" "$ROOT/evidence" "$ROOT/replays"
go build -o "$ROOT/.bin/driver" ./cmd/driver || exit 1
TMP="$(mktemp -d)"
trap 'rm -rf "$TMP"' EXIT
rc=0
# only the packages of properties claimed in MANIFEST.json (others may be under construction)
for id in $(jq -r '.checks[].property_id' "$ROOT/MANIFEST.json"); do
  d="c${id#C}"
  [ -d "$d" ] || continue
  if [ "$(jq -r '.race // false' "$d/prop.json")" = "true" ]; then
    go test -c -race -tags verif -vet=off -o "$TMP/$d.test" "./$d" || rc=1
  else
    go test -c -tags verif -vet=off -o "$TMP/$d.test" "./$d" || rc=1
  fi
done
exit $rc
