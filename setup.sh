#!/usr/bin/env bash
# Run once after a fresh restore, offline: builds the driver and warms the Go build cache by
# compiling every property's test binary (and the -race variant where used) from files on disk.
set -u
ROOT="$(cd "$(dirname "${BASH_SOURCE[0]}")" && pwd)"
export GOFLAGS=-mod=mod GOPROXY=off
cd "$ROOT/harness" || exit 1
mkdir -p "$ROOT/.bin" "$ROOT/evidence" "$ROOT/replays"
go build -o "$ROOT/.bin/driver" ./cmd/driver || exit 1
TMP="$(mktemp -d)"
trap 'rm -rf "$TMP"' EXIT
rc=0
for d in c[0-9][0-9]; do
  [ -d "$d" ] || continue
  go test -c -tags verif -vet=off -o "$TMP/$d.test" "./$d" || rc=1
done
if [ -d c09 ]; then go test -c -race -tags verif -vet=off -o "$TMP/c09r.test" ./c09 || rc=1; fi
exit $rc
