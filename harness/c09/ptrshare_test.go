package c09

// Callers that share read-only data between requests: one value is the ROOT data of some
// requests and a nested pointer field / list element of the data of others.

import (
	"bytes"
	"context"
	"fmt"
	"runtime"
	"sort"
	"strings"
	"sync"
	"time"

	"github.com/titpetric/vuego"

	"verif/internal/memfs"
)

type psAuthor struct {
	Name string    `json:"name"`
	Bio  string    `json:"bio"`
	Boss *psAuthor `json:"boss"`
}

type psPost struct {
	Title  string      `json:"title"`
	Author *psAuthor   `json:"author"`
	Co     []*psAuthor `json:"co"`
}

var psFiles = map[string]string{
	"author.vuego": `<h1>{{ name }}</h1><p v-if="name == 'Ann'">is ann</p><p v-else>not ann</p><i :title="bio">{{ bio | upper }}</i><u v-if="boss.name == 'Bob'">boss bob</u>`,
	"post.vuego":   `<h2>{{ title }}</h2><p v-if="author.name == 'Ann'">by ann</p><p v-else>by other</p><b :title="author.bio" :class="{boss: author.boss.name == 'Bob'}">{{ author.name }}</b><i v-for="c in co" v-show="c.name == 'Ann'">{{ c.name }}</i><em>{{ author.boss.name | upper }}</em>`,
}

// psCall renders page with data through entry on root / vue.
func psCall(root vuego.Template, vue *vuego.Vue, entry, page string, data any) result {
	var buf bytes.Buffer
	var err error
	defer func() {
		if r := recover(); r != nil {
			_ = r
		}
	}()
	ctx := context.Background()
	switch entry {
	case "load":
		err = root.Load(page).Fill(data).Render(ctx, &buf)
	case "file":
		err = root.New().Fill(data).RenderFile(ctx, &buf, page)
	case "string":
		err = root.New().Fill(data).RenderString(ctx, &buf, psFiles[page])
	default:
		err = vue.Render(&buf, page, data)
	}
	return result{out: buf.String(), err: err != nil}
}

// checkPtrShare: expected results are computed alone, on fresh engines, BEFORE the shared value
// is used as root data anywhere in this process; then N goroutines render author pages (the
// shared value as root, by pointer) and post pages (the same value as a nested pointer) on one
// engine.
func checkPtrShare(c Case) error {
	if c.Procs > 0 {
		defer runtime.GOMAXPROCS(runtime.GOMAXPROCS(c.Procs))
	}
	bob := &psAuthor{Name: "Bob", Bio: "b-bio"}
	ann := &psAuthor{Name: "Ann", Bio: "a-bio", Boss: bob}
	post := &psPost{Title: "T", Author: ann, Co: []*psAuthor{ann, bob}}
	fresh := func() (vuego.Template, *vuego.Vue) {
		fsys := memfs.FromMap(psFiles)
		return vuego.NewFS(fsys), vuego.NewVue(fsys)
	}
	entries := c.Entries
	if len(entries) == 0 {
		entries = []string{"load", "file", "string", "vue"}
	}
	type want struct{ post, author, boss result }
	wants := map[string]want{}
	for _, e := range entries {
		r, v := fresh()
		w := want{post: psCall(r, v, e, "post.vuego", post)}
		wants[e] = w
	}
	for _, e := range entries {
		r, v := fresh()
		w := wants[e]
		w.author = psCall(r, v, e, "author.vuego", ann)
		r, v = fresh()
		w.boss = psCall(r, v, e, "author.vuego", bob)
		wants[e] = w
	}
	root, vue := fresh()
	// a shared BASE template filled once with struct data (by pointer and by value), used by
	// all goroutines at once through the stateless render methods, New and Load
	baseOf := func(data any) vuego.Template {
		return vuego.NewFS(memfs.FromMap(psFiles)).Fill(data)
	}
	basePost, baseAnn, basePostVal := baseOf(post), baseOf(ann), baseOf(*post)
	baseCall := func(base vuego.Template, how, page string) result {
		var buf bytes.Buffer
		var err error
		switch how {
		case "string":
			err = base.RenderString(context.Background(), &buf, psFiles[page])
		case "new":
			err = base.New().RenderString(context.Background(), &buf, psFiles[page])
		default:
			err = base.Load(page).Render(context.Background(), &buf)
		}
		return result{out: buf.String(), err: err != nil}
	}
	baseWant := map[string]result{}
	for _, how := range []string{"string", "new", "load"} {
		baseWant["post|"+how] = baseCall(baseOf(post), how, "post.vuego")
		baseWant["postval|"+how] = baseCall(baseOf(*post), how, "post.vuego")
		baseWant["ann|"+how] = baseCall(baseOf(ann), how, "author.vuego")
	}
	var mu sync.Mutex
	var failures []string
	var wg sync.WaitGroup
	start := make(chan struct{})
	for g := 0; g < c.N; g++ {
		g := g
		wg.Add(1)
		go func() {
			defer wg.Done()
			<-start
			for r := 0; r < c.Reps*3; r++ {
				e := entries[(g+r)%len(entries)]
				var got, exp result
				var what string
				switch (g + r) % 3 {
				case 0:
					got, exp, what = psCall(root, vue, e, "author.vuego", ann), wants[e].author, "author page, shared value as root data"
				case 1:
					got, exp, what = psCall(root, vue, e, "post.vuego", post), wants[e].post, "post page, shared value as nested pointer field"
				default:
					got, exp, what = psCall(root, vue, e, "author.vuego", bob), wants[e].boss, "author page, the boss as root data"
				}
				if got != exp {
					mu.Lock()
					failures = append(failures, fmt.Sprintf("%s, entry %s: returned %v, alone on a fresh engine it returns %v", what, e, got, exp))
					mu.Unlock()
				}
				how := []string{"string", "new", "load"}[(g+r)%3]
				var bgot result
				var key string
				switch (g + r/3) % 3 {
				case 0:
					bgot, key = baseCall(basePost, how, "post.vuego"), "post|"+how
				case 1:
					bgot, key = baseCall(basePostVal, how, "post.vuego"), "postval|"+how
				default:
					bgot, key = baseCall(baseAnn, how, "author.vuego"), "ann|"+how
				}
				if bgot != baseWant[key] {
					mu.Lock()
					failures = append(failures, fmt.Sprintf("shared base template filled with struct data (%s): returned %v, alone it returns %v", key, bgot, baseWant[key]))
					mu.Unlock()
				}
			}
		}()
	}
	close(start)
	done := make(chan struct{})
	go func() { wg.Wait(); close(done) }()
	select {
	case <-done:
	case <-time.After(stuckAfter):
		stuck.Store(true)
		return fmt.Errorf("the concurrent renders did not return within %v", stuckAfter)
	}
	if len(failures) > 0 {
		sort.Strings(failures)
		if len(failures) > 3 {
			failures = failures[:3]
		}
		return fmt.Errorf("cross-talk through shared read-only data: %s", strings.Join(failures, "\n"))
	}
	return nil
}
