package c09

// A file is replaced WHILE the engine reads it: the edit lands right after the engine's read of
// the file and before whatever the engine does next (memfs.OnClose). Once that render has
// returned the writer is done, so every later call - from any goroutine, through every file
// entry point - returns exactly what it returns alone on a fresh engine: the NEW version.

import (
	"context"
	"fmt"
	"runtime"
	"sort"
	"strings"
	"sync"
	"time"

	"verif/internal/cat"
	"verif/internal/memfs"
)

func checkSwap(c Case) error {
	p, ok := cat.ByName(c.Prog)
	if !ok || p.Fails || p.Store != "" {
		return nil
	}
	const file = "page.vuego"
	src, ok := p.Files[file]
	if !ok {
		return nil
	}
	if c.Procs > 0 {
		defer runtime.GOMAXPROCS(runtime.GOMAXPROCS(c.Procs))
	}
	var entries []string
	for _, e := range c.Entries {
		if (e == "load" || e == "file" || e == "assign" || e == "vue" || e == "frag") && applicable(p, e) {
			entries = append(entries, e)
		}
	}
	if len(entries) == 0 {
		return nil
	}
	// expected: the new version alone on fresh engines
	newer := p
	newer.Files = map[string]string{}
	for k, v := range p.Files {
		newer.Files[k] = v
	}
	newer.Files[file] = variantB(src)
	want := map[string]result{}
	for _, e := range entries {
		fsys := memfs.FromMap(newer.Files)
		want[e] = callMode(newer, newer.Engine(fsys), newer.NewVue(fsys), e, dataFor(newer, c.N), "", false, "")
	}
	var failures []string
	for _, firstEntry := range entries {
		w, err := newWorld(c.Prog, Case{N: c.N})
		if err != nil {
			return err
		}
		swapped := false
		w.fsys.OnClose(file, func() {
			swapped = true
			w.fsys.Write(file, variantB(src), time.Unix(3000, 0))
		})
		// the render during which the file is replaced (either version is a correct answer)
		callMode(p, w.root, w.vue, firstEntry, dataFor(p, c.N), "", false, "")
		if !swapped {
			continue
		}
		var mu sync.Mutex
		var wg sync.WaitGroup
		start := make(chan struct{})
		for g := 0; g < c.N; g++ {
			g := g
			wg.Add(1)
			go func() {
				defer wg.Done()
				<-start
				for r := 0; r < c.Reps; r++ {
					e := entries[(g+r)%len(entries)]
					if (e == "vue" || e == "frag") != (firstEntry == "vue" || firstEntry == "frag") {
						continue // the other engine of this world never saw the old version
					}
					got := callMode(p, w.root, w.vue, e, dataFor(p, c.N), "", false, "")
					if got != want[e] {
						mu.Lock()
						failures = append(failures, fmt.Sprintf("program %s: %s was replaced while the engine read it (first render through %s); a later %s call returned %v, a fresh engine over the new version returns %v", p.Name, file, firstEntry, e, got, want[e]))
						mu.Unlock()
					}
				}
			}()
		}
		close(start)
		done := make(chan struct{})
		go func() { wg.Wait(); close(done) }()
		select {
		case <-done:
		case <-time.After(stuckAfter):
			stuck.Store(true)
			return fmt.Errorf("the concurrent renders did not return within %v", stuckAfter)
		}
	}
	if len(failures) > 0 {
		sort.Strings(failures)
		if len(failures) > 2 {
			failures = failures[:2]
		}
		return fmt.Errorf("stale after a concurrent edit: %s", strings.Join(failures, "\n"))
	}
	return checkFaultThenRender(c, p, entries)
}

// checkFaultThenRender: one call FAILS on the shared engine - (a) the page cannot be opened
// once although Stat still works (a transient read error), (b) Load of a missing file followed
// by Assign of the program's own data keys and Render on the returned template - and then N
// goroutines render: every call returns what it returns alone on a fresh engine.
func checkFaultThenRender(c Case, p cat.Program, entries []string) error {
	want := map[string]result{}
	for _, e := range entries {
		fsys := memfs.FromMap(p.Files)
		want[e] = callMode(p, p.Engine(fsys), p.NewVue(fsys), e, dataFor(p, c.N), "", false, "")
	}
	// (for the failed Load the goroutines use the shared, once-filled BASE template directly:
	// a per-request Fill would overwrite - and hide - what leaked into the base)
	baseEntries := []string{"load", "file", "string", "reader"}
	baseWant := map[string]result{}
	for _, e := range baseEntries {
		if !applicable(p, e) {
			continue
		}
		fsys := memfs.FromMap(p.Files)
		baseWant[e] = callMode(p, p.Engine(fsys).Fill(dataFor(p, c.N)), nil, e, nil, "", true, "")
	}
	var failures []string
	for _, fault := range []string{"transient-open", "failed-load-assign"} {
		base := fault == "failed-load-assign"
		w, err := newWorld(c.Prog, Case{N: c.N, BaseTpl: base})
		if err != nil {
			return err
		}
		ents, wants := entries, want
		if base {
			ents, wants = nil, baseWant
			for _, e := range baseEntries {
				if _, ok := baseWant[e]; ok {
					ents = append(ents, e)
				}
			}
			if len(ents) == 0 {
				continue
			}
		}
		switch fault {
		case "transient-open":
			w.fsys.FailRead("page.vuego", fmt.Errorf("too many open files"))
			for _, e := range entries {
				callMode(p, w.root, w.vue, e, dataFor(p, c.N), "", false, "")
			}
			w.fsys.FailRead("page.vuego", nil)
		case "failed-load-assign":
			t := w.root.Load("no-such-page.vuego")
			for k := range p.GoData() {
				t = t.Assign(k, "LEAK-"+k)
			}
			t = t.Assign("who", "LEAK-who").Assign("title", "LEAK-title")
			var sink strings.Builder
			_ = t.Render(context.Background(), &sink)
		}
		var mu sync.Mutex
		var wg sync.WaitGroup
		start := make(chan struct{})
		for g := 0; g < c.N; g++ {
			g := g
			wg.Add(1)
			go func() {
				defer wg.Done()
				<-start
				for r := 0; r < c.Reps; r++ {
					e := ents[(g+r)%len(ents)]
					got := callMode(p, w.root, w.vue, e, dataFor(p, c.N), "", base, "")
					if got != wants[e] {
						mu.Lock()
						failures = append(failures, fmt.Sprintf("program %s: after one failed call on the engine (%s) a later %s call returned %v, alone on a fresh engine it returns %v", p.Name, fault, e, got, wants[e]))
						mu.Unlock()
					}
				}
			}()
		}
		close(start)
		done := make(chan struct{})
		go func() { wg.Wait(); close(done) }()
		select {
		case <-done:
		case <-time.After(stuckAfter):
			stuck.Store(true)
			return fmt.Errorf("the concurrent renders did not return within %v", stuckAfter)
		}
	}
	if len(failures) > 0 {
		sort.Strings(failures)
		if len(failures) > 2 {
			failures = failures[:2]
		}
		return fmt.Errorf("a failed call left something behind: %s", strings.Join(failures, "\n"))
	}
	return nil
}
