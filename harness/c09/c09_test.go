// Package c09 decides C09: one engine serves any number of concurrent renders without races
// or cross-talk. Built with -race. Oracle: (i) every concurrent call returns exactly the bytes
// and error-ness of the same call run alone on a fresh engine (for the file-changing variant:
// of the old or the new file version), (ii) the race detector reports nothing.
package c09

import (
	"bytes"
	"context"
	"encoding/json"
	"fmt"
	"io"
	"os"
	"path/filepath"
	"runtime"
	"sort"
	"strings"
	"sync"
	"sync/atomic"
	"testing"
	"time"

	"github.com/titpetric/vuego"
	"pgregory.net/rapid"

	"verif/internal/cat"
	"verif/internal/compose"
	"verif/internal/ev"
	"verif/internal/memfs"
	"verif/internal/run"
)

const prop = "C09"

// Case describes one concurrent execution.
type Case struct {
	// Gen, when set, is a generated composition program rendered instead of catalogue program Prog.
	Gen     *compose.Case `json:"gen,omitempty"`
	Prog    string        `json:"prog"`
	Second  string        `json:"second,omitempty"` // a second program rendered concurrently on its own engine (shared globals)
	N       int           `json:"n"`                // goroutines per program
	Reps    int           `json:"reps"`
	Entries []string      `json:"entries"`
	Warm    bool          `json:"warm,omitempty"`     // render once before the concurrent phase
	Shared  bool          `json:"shared,omitempty"`   // goroutines share one read-only data map
	Unique  bool          `json:"unique,omitempty"`   // string entries get a per-goroutine unique path + expression
	Writer  string        `json:"writer,omitempty"`   // file rewritten (content A/B, new mtime) during the run
	Procs   int           `json:"procs,omitempty"`    // GOMAXPROCS
	BaseTpl bool          `json:"base_tpl,omitempty"` // all goroutines use the single base template (Load/New from it)
	Failing bool          `json:"failing,omitempty"`  // a further goroutine keeps making renders that fail half-way
	NilData bool          `json:"nil_data,omitempty"` // every call passes no data at all (nil map)
	// PtrShare: the fixed site of ptrshare_test.go instead of a catalogue program: one struct value
	// is root data (by pointer) for some requests and a nested pointer field of others' data.
	PtrShare bool `json:"ptr_share,omitempty"`
	// Swap: page.vuego is replaced while the engine reads it (see swap_test.go); the renders
	// made after that one are compared with a fresh engine over the new version.
	Swap bool `json:"swap,omitempty"`
	// Less: the schedule of less_test.go: requests for pages with page-local LESS served one
	// after the other, by different goroutines, on ONE engine that has the LESS processor.
	Less []string `json:"less,omitempty"`
	// MD: the markdown kind of md_test.go: MD documents (reference links and images with the same
	// labels and different targets) rendered concurrently on ONE markdown renderer.
	MD int `json:"md,omitempty"`
}

// stuck is set once a concurrent phase did not finish: the blocked goroutines cannot be stopped
// and may hold engine locks, so the rest of the run is skipped.
var stuck atomic.Bool

// stuckAfter is the only clock of this check: a phase of at most a few hundred renders of tiny
// templates that has not finished after this long is reported as "did not return".
const stuckAfter = 90 * time.Second

// A render that fails after it has produced part of a text run and of an attribute value;
// whatever it leaves behind in process-wide pools must never surface in another render.
const failingTpl = `<p title="LEAKATTR-{{ n }}-{{ n | nosuchfilter }}">LEAKTEXT-{{ n }} {{ n | nosuchfilter }}</p>`

type result struct {
	out      string
	err      bool
	panicked bool
}

func (r result) String() string {
	if r.err {
		return "error"
	}
	return fmt.Sprintf("%q", r.out)
}

func uniqueSuffix(g int) string {
	return fmt.Sprintf(`<i data-g="%d">{{ uq.k%d.v }}|{{ unum + %d }}|{{ uq.k%d.v | upper }}</i>`, g, g, g+100, g)
}

func dataFor(p cat.Program, n int) map[string]any {
	d := p.GoData()
	uq := map[string]any{}
	for g := 0; g < n; g++ {
		uq[fmt.Sprintf("k%d", g)] = map[string]any{"v": fmt.Sprintf("u%dv", g)}
	}
	d["uq"] = uq
	d["unum"] = 1
	return d
}

// call renders program p through entry on the given engines.
func call(p cat.Program, root vuego.Template, vue *vuego.Vue, entry string, data map[string]any, suffix string) result {
	return callMode(p, root, vue, entry, data, suffix, false, "")
}

// callMode: with base=true the stateless render methods are called directly on the single shared
// base template (which was filled once before the concurrent phase), as the statement allows.
func callMode(p cat.Program, root vuego.Template, vue *vuego.Vue, entry string, data map[string]any, suffix string, base bool, page string) (res result) {
	if page == "" {
		page = "page.vuego"
	}
	defer func() {
		if r := recover(); r != nil {
			res = result{out: fmt.Sprintf("PANIC in render goroutine: %v", r), err: true, panicked: true}
		}
	}()
	var buf bytes.Buffer
	ctx := context.Background()
	var err error
	if base {
		switch entry {
		case "file":
			err = root.RenderFile(ctx, &buf, page)
			return result{out: buf.String(), err: err != nil}
		case "string":
			err = root.RenderString(ctx, &buf, p.Files[page]+suffix)
			return result{out: buf.String(), err: err != nil}
		case "reader":
			err = root.RenderReader(ctx, &buf, strings.NewReader(p.Files[page]+suffix))
			return result{out: buf.String(), err: err != nil}
		case "load":
			err = root.Load(page).Render(ctx, &buf)
			return result{out: buf.String(), err: err != nil}
		}
	}
	switch entry {
	case "load":
		err = root.Load(page).Fill(data).Render(ctx, &buf)
	case "assign":
		// per-request values assigned on top of (possibly shared, read-only) site data
		err = root.Load(page).Fill(data).Assign("reqid", "r"+suffix).Assign("unum", 1).Render(ctx, &buf)
	case "view":
		// the typed shim: bind file and data first, render later (a yield in between, as a
		// handler that does other work before it writes the response)
		t := vuego.View(root, page, data)
		runtime.Gosched()
		err = t.Render(ctx, &buf)
	case "file":
		err = root.New().Fill(data).RenderFile(ctx, &buf, page)
	case "string":
		err = root.New().Fill(data).RenderString(ctx, &buf, p.Files[page]+suffix)
	case "reader":
		err = root.New().Fill(data).RenderReader(ctx, &buf, strings.NewReader(p.Files[page]+suffix))
	case "vue":
		err = vue.Render(&buf, page, data)
	case "frag":
		err = vue.RenderFragment(&buf, page, data)
	default:
		return result{out: "unknown entry " + entry, err: true}
	}
	return result{out: buf.String(), err: err != nil}
}

func applicable(p cat.Program, entry string) bool {
	if entry == "reader" {
		entry = "string"
	}
	return p.Applicable(entry)
}

func variantB(src string) string {
	// same template with one more static element: output differs, still valid
	if i := strings.Index(src, "</body>"); i >= 0 {
		return src[:i] + "<u>vB</u>" + src[i:]
	}
	return src + "<u>vB</u>"
}

var raceSeen int64

func raceLogSize() (int64, string) {
	prefix := os.Getenv("VERIF_RACE_LOG")
	if prefix == "" {
		return 0, ""
	}
	names, _ := filepath.Glob(prefix + "*")
	sort.Strings(names)
	var total int64
	var text strings.Builder
	for _, n := range names {
		b, err := os.ReadFile(n)
		if err != nil {
			continue
		}
		total += int64(len(b))
		text.Write(b)
	}
	return total, text.String()
}

func raceSummary(all string, from int64) string {
	if int64(len(all)) > from {
		all = all[from:]
	}
	var frames []string
	for _, l := range strings.Split(all, "\n") {
		t := strings.TrimSpace(l)
		if strings.HasPrefix(t, "WARNING: DATA RACE") || strings.HasPrefix(t, "Write at") || strings.HasPrefix(t, "Read at") || strings.HasPrefix(t, "Previous write") || strings.HasPrefix(t, "Previous read") {
			frames = append(frames, t)
			continue
		}
		if strings.Contains(t, "github.com/titpetric/vuego") && strings.HasSuffix(t, ")") && len(frames) < 14 {
			frames = append(frames, "  "+t)
		}
		if len(frames) >= 14 {
			break
		}
	}
	return strings.Join(frames, "\n")
}

type world struct {
	p    cat.Program
	fsys *memfs.FS
	root vuego.Template
	vue  *vuego.Vue
	solo map[string][]result // entry(+suffix) -> allowed results
}

func newWorld(name string, c Case) (*world, error) {
	p, ok := cat.ByName(name)
	if name == "generated" && c.Gen != nil {
		p, ok = c.Gen.Program("generated"), true
	}
	if !ok {
		return nil, fmt.Errorf("unknown program %q", name)
	}
	w := &world{p: p, fsys: p.FS(), solo: map[string][]result{}}
	w.root = p.Engine(w.fsys)
	if c.BaseTpl {
		w.root = w.root.Fill(dataFor(p, c.N))
	}
	w.vue = p.NewVue(w.fsys)
	return w, nil
}

// soloResults computes what each call returns when run alone on a fresh engine, for the
// current files and (if a writer is active) for the B version of the rewritten file.
func soloResults(w *world, c Case, entry string, g int, page string) []result {
	suffix := ""
	if c.Unique && (entry == "string" || entry == "reader") {
		suffix = uniqueSuffix(g)
	}
	key := entry + "|" + suffix + "|" + page
	if r, ok := w.solo[key]; ok {
		return r
	}
	var out []result
	versions := []map[string]string{w.p.Files}
	if c.Writer != "" {
		if src, ok := w.p.Files[c.Writer]; ok {
			b := map[string]string{}
			for k, v := range w.p.Files {
				b[k] = v
			}
			b[c.Writer] = variantB(src)
			versions = append(versions, b)
		}
	}
	for _, files := range versions {
		pp := w.p
		pp.Files = files
		fsys := memfs.FromMap(files)
		root := pp.Engine(fsys)
		if c.BaseTpl {
			root = root.Fill(dataFor(pp, c.N))
		}
		soloData := dataFor(pp, c.N)
		if c.NilData {
			soloData = nil
		}
		out = append(out, callMode(pp, root, pp.NewVue(fsys), entry, soloData, suffix, c.BaseTpl, page))
	}
	w.solo[key] = out
	return out
}

func check(c Case) error {
	if c.N <= 0 || c.Reps <= 0 || len(c.Entries) == 0 {
		return nil
	}
	if stuck.Load() {
		return nil
	}
	if c.Swap {
		run.Inflight(prop, "case", c)
		before, _ := raceLogSize()
		if err := checkSwap(c); err != nil {
			return err
		}
		if after, text := raceLogSize(); after > before {
			return fmt.Errorf("the race detector reported a data race during this execution:\n%s", raceSummary(text, before))
		}
		return nil
	}
	if c.MD > 0 {
		run.Inflight(prop, "case", c)
		before, _ := raceLogSize()
		if err := checkMD(c); err != nil {
			return err
		}
		if after, text := raceLogSize(); after > before {
			return fmt.Errorf("the race detector reported a data race during this execution:\n%s", raceSummary(text, before))
		}
		return nil
	}
	if len(c.Less) > 0 {
		run.Inflight(prop, "case", c)
		before, _ := raceLogSize()
		if err := checkLess(c); err != nil {
			return err
		}
		if after, text := raceLogSize(); after > before {
			return fmt.Errorf("the race detector reported a data race during this execution:\n%s", raceSummary(text, before))
		}
		return nil
	}
	if c.PtrShare {
		run.Inflight(prop, "case", c)
		before, _ := raceLogSize()
		if err := checkPtrShare(c); err != nil {
			return err
		}
		if after, text := raceLogSize(); after > before {
			return fmt.Errorf("the race detector reported a data race during this execution:\n%s", raceSummary(text, before))
		}
		return nil
	}
	if c.Gen != nil && compose.TooLarge(*c.Gen) {
		return nil // expands to megabytes of output: outside this family's budget
	}
	run.Inflight(prop, "case", c)
	if c.Procs > 0 {
		defer runtime.GOMAXPROCS(runtime.GOMAXPROCS(c.Procs))
	}
	names := []string{c.Prog}
	if c.Second != "" {
		names = append(names, c.Second)
	}
	var worlds []*world
	for _, nm := range names {
		w, err := newWorld(nm, c)
		if err != nil {
			return err
		}
		worlds = append(worlds, w)
	}
	type job struct {
		w      *world
		g      int
		entry  string
		suffix string
		allow  []result // unused; expected results are computed after the run
		page   string   // "" = page.vuego; the program's Alt page for every other call of a site that has one
	}
	var jobs []job
	for _, w := range worlds {
		for g := 0; g < c.N; g++ {
			for r := 0; r < c.Reps; r++ {
				entry := c.Entries[(g+r)%len(c.Entries)]
				if !applicable(w.p, entry) {
					continue
				}
				suffix := ""
				if c.Unique && (entry == "string" || entry == "reader") {
					suffix = uniqueSuffix(g)
				}
				// expected results are computed AFTER the concurrent phase, so that the
				// process-global caches (parsed paths) are still cold when the goroutines start
				page := ""
				if w.p.Alt != "" && (g+r)%2 == 1 && (entry == "load" || entry == "file" || entry == "assign" || entry == "vue" || entry == "frag") {
					page = w.p.Alt
				}
				jobs = append(jobs, job{w, g, entry, suffix, nil, page})
			}
		}
	}
	if len(jobs) == 0 {
		return nil
	}
	if c.Warm {
		for _, w := range worlds {
			for _, e := range c.Entries {
				if applicable(w.p, e) {
					callMode(w.p, w.root, w.vue, e, dataFor(w.p, c.N), "", c.BaseTpl, "")
				}
			}
		}
	}
	before, _ := raceLogSize()

	start := make(chan struct{})
	var wg sync.WaitGroup
	var inflight, maxInflight int32
	var mu sync.Mutex
	var failures []string
	type obs struct {
		j   job
		got result
	}
	var observed []obs
	shared := map[*world]map[string]any{}
	for _, w := range worlds {
		shared[w] = dataFor(w.p, c.N)
	}
	byG := map[[2]int][]job{}
	for wi, w := range worlds {
		for _, j := range jobs {
			if j.w == w {
				k := [2]int{wi, j.g}
				byG[k] = append(byG[k], j)
			}
		}
	}
	for _, js := range byG {
		js := js
		wg.Add(1)
		go func() {
			defer wg.Done()
			<-start
			for _, j := range js {
				data := shared[j.w]
				if !c.Shared {
					data = dataFor(j.w.p, c.N)
				}
				if c.NilData {
					data = nil
				}
				n := atomic.AddInt32(&inflight, 1)
				for {
					m := atomic.LoadInt32(&maxInflight)
					if n <= m || atomic.CompareAndSwapInt32(&maxInflight, m, n) {
						break
					}
				}
				got := callMode(j.w.p, j.w.root, j.w.vue, j.entry, data, j.suffix, c.BaseTpl, j.page)
				atomic.AddInt32(&inflight, -1)
				mu.Lock()
				observed = append(observed, obs{j, got})
				mu.Unlock()
			}
		}()
	}
	stop := make(chan struct{})
	var wwg sync.WaitGroup
	if c.Writer != "" {
		for _, w := range worlds {
			src, ok := w.p.Files[c.Writer]
			if !ok {
				continue
			}
			w := w
			wwg.Add(1)
			go func() {
				defer wwg.Done()
				<-start
				for i := 1; ; i++ {
					select {
					case <-stop:
						// leave the original version behind
						w.fsys.Write(c.Writer, src, time.Unix(int64(5000+i), 0))
						return
					default:
					}
					content := src
					if i%2 == 1 {
						content = variantB(src)
					}
					w.fsys.Write(c.Writer, content, time.Unix(int64(2000+i), 0))
					runtime.Gosched()
				}
			}()
		}
	}
	if c.Failing {
		for k := 0; k < 2; k++ {
			k := k
			wwg.Add(1)
			go func() {
				defer wwg.Done()
				defer func() { _ = recover() }()
				<-start
				for i := 0; ; i++ {
					select {
					case <-stop:
						return
					default:
					}
					data := map[string]any{"n": fmt.Sprintf("secret-%d-%d", k, i)}
					if k == 0 {
						_ = vuego.New().Fill(data).RenderString(context.Background(), io.Discard, failingTpl)
					} else {
						_ = worlds[0].root.New().Fill(data).RenderString(context.Background(), io.Discard, failingTpl)
					}
					runtime.Gosched()
				}
			}()
		}
	}
	close(start)
	finished := make(chan struct{})
	go func() { wg.Wait(); close(finished) }()
	select {
	case <-finished:
	case <-time.After(stuckAfter):
		stuck.Store(true)
		close(stop)
		mu.Lock()
		done := len(observed)
		mu.Unlock()
		return fmt.Errorf("the concurrent renders did not return within %v: %d of %d calls finished (deadlock or livelock in the engine)", stuckAfter, done, len(jobs))
	}
	close(stop)
	wwg.Wait()

	after, text := raceLogSize()
	if after > before {
		return fmt.Errorf("the race detector reported a data race during this execution:\n%s", raceSummary(text, before))
	}
	// compare every concurrent result with the same call run alone on a fresh engine
	for _, o := range observed {
		if o.got.panicked {
			failures = append(failures, fmt.Sprintf("program %s, goroutine %d, entry %s: %s", o.j.w.p.Name, o.j.g, o.j.entry, o.got.out))
			continue
		}
		if c.Failing && (strings.Contains(o.got.out, "LEAKTEXT") || strings.Contains(o.got.out, "LEAKATTR") || strings.Contains(o.got.out, "secret-")) {
			failures = append(failures, fmt.Sprintf("program %s, goroutine %d, entry %s: output contains text of ANOTHER (failed) render: %v", o.j.w.p.Name, o.j.g, o.j.entry, o.got))
			continue
		}
		allow := soloResults(o.j.w, c, o.j.entry, o.j.g, o.j.page)
		ok := false
		for _, a := range allow {
			if a == o.got {
				ok = true
			}
		}
		if !ok {
			failures = append(failures, fmt.Sprintf("program %s, goroutine %d, entry %s %s: concurrent call returned %v, alone it returns %v", o.j.w.p.Name, o.j.g, o.j.entry, o.j.page, o.got, allow))
		}
	}
	if len(failures) > 0 {
		sort.Strings(failures)
		if len(failures) > 3 {
			failures = failures[:3]
		}
		return fmt.Errorf("cross-talk: %s", strings.Join(failures, "\n"))
	}
	atomic.StoreInt64(&raceSeen, int64(maxInflight))
	return nil
}

func classify(c Case) (bool, []string) {
	cls := []string{fmt.Sprintf("n=%d", c.N), fmt.Sprintf("procs=%d", c.Procs)}
	p, _ := cat.ByName(c.Prog)
	for _, f := range p.Feat {
		cls = append(cls, "feat="+f)
	}
	if c.Warm {
		cls = append(cls, "warm")
	} else {
		cls = append(cls, "cold")
	}
	if c.Shared {
		cls = append(cls, "shared-data")
	}
	if c.Unique {
		cls = append(cls, "unique-paths-and-expressions")
	}
	if c.Failing {
		cls = append(cls, "failing-renders-alongside")
	}
	if c.NilData {
		cls = append(cls, "calls-without-data")
	}
	if c.Writer != "" {
		cls = append(cls, "files-changing")
	}
	if c.Second != "" {
		cls = append(cls, "two-engines")
	}
	if c.BaseTpl {
		cls = append(cls, "calls-on-the-single-base-template")
	}
	for _, e := range c.Entries {
		cls = append(cls, "entry="+e)
	}
	return c.N >= 4, cls
}

func replay(kind string, raw json.RawMessage) error { return run.Decode(raw, check) }

var allEntries = []string{"load", "file", "string", "reader", "vue", "frag", "assign", "view"}

func TestProp(t *testing.T) {
	rec := ev.New(prop)
	defer run.Finish(t, rec)
	run.Witnesses(rec, prop, replay)
	shard, shards := run.Shard()
	progs := cat.All()
	i := 0
	reps := run.Pick(3, 6)
	rounds := run.Pick(1, 10)
	for round := 0; round < rounds; round++ {
		for pi, p := range progs {
			second := progs[(pi+3+round)%len(progs)].Name
			configs := []Case{
				{Prog: p.Name, N: 8, Reps: reps, Entries: allEntries, Shared: true, Unique: true, Procs: 16},
				{Prog: p.Name, N: 16, Reps: reps, Entries: []string{"vue", "load", "string"}, Warm: true, Writer: "page.vuego", Procs: 16},
				{Prog: p.Name, Second: second, N: 4, Reps: reps, Entries: []string{"load", "string", "vue", "file"}, Unique: true, Shared: true, Procs: 4},
				{Prog: p.Name, N: 32, Reps: 2, Entries: []string{"vue"}, Shared: true, Procs: 16},
				{Prog: p.Name, N: 6, Reps: reps, Entries: []string{"frag", "reader", "file"}, Warm: true, Procs: 1},
				{Prog: p.Name, N: 16, Reps: reps, Entries: []string{"string", "reader", "file", "load"}, BaseTpl: true, Unique: true, Procs: 16},
				{Prog: p.Name, N: 8, Reps: reps, Entries: []string{"string", "file", "vue"}, BaseTpl: true, Warm: true, Writer: "page.vuego", Procs: 4},
				{Prog: p.Name, N: 8, Reps: reps, Entries: allEntries, Failing: true, Unique: true, Procs: 4},
				{Prog: p.Name, N: 16, Reps: reps, Entries: []string{"vue", "frag", "vue", "load"}, NilData: true, Procs: 16},
			}
			if run.Thorough() {
				configs = append(configs,
					Case{Prog: p.Name, N: 64, Reps: 2, Entries: allEntries, Shared: true, Unique: true, Procs: 16},
					// (only the page is rewritten: it is read once per render, so every result is
					// that of the old or of the new version; a component that is included several
					// times may legitimately be seen in both versions within one render)
					Case{Prog: p.Name, Second: second, N: 16, Reps: reps, Entries: allEntries, Writer: "page.vuego", Procs: 16},
				)
			}
			for _, c := range configs {
				i++
				if i%shards != shard {
					continue
				}
				nt, cls := classify(c)
				run.Each(rec, "enum", c, nt, cls, check)
			}
		}
	}
	// a file replaced while the engine reads it, then concurrent renders
	for _, p := range progs {
		i++
		if i%shards != shard || p.Fails {
			continue
		}
		sc := Case{Prog: p.Name, Swap: true, N: 4, Reps: 2, Entries: []string{"load", "vue", "file", "frag"}, Procs: 4}
		run.Each(rec, "swap", sc, true, []string{"file-replaced-while-the-engine-reads-it"}, check)
	}
	// shared read-only values: root data of some requests, nested pointer of others
	for _, pc := range []Case{
		{Prog: "ptrshare", PtrShare: true, N: 1, Reps: 2, Entries: []string{"load"}, Procs: 1},
		{Prog: "ptrshare", PtrShare: true, N: 1, Reps: 2, Entries: []string{"vue"}, Procs: 1},
		{Prog: "ptrshare", PtrShare: true, N: 8, Reps: reps, Entries: []string{"load", "file", "string", "vue"}, Procs: 16},
		{Prog: "ptrshare", PtrShare: true, N: 16, Reps: reps, Entries: []string{"vue", "load"}, Procs: 4},
	} {
		i++
		if i%shards != shard {
			continue
		}
		run.Each(rec, "ptrshare", pc, true, []string{"shared-value-is-root-data-and-nested-pointer", fmt.Sprintf("n=%d", pc.N)}, check)
	}
	// markdown documents with reference-style links rendered concurrently on one renderer
	if run.First() {
		for _, mc := range []Case{
			{Prog: "markdown", MD: 2, N: 2, Reps: reps, Entries: []string{"bytes"}, Procs: 4},
			{Prog: "markdown", MD: 8, N: 8, Reps: reps * 4, Entries: []string{"bytes"}, Procs: 16},
			{Prog: "markdown", MD: 8, N: 8, Reps: reps * 4, Entries: []string{"load"}, Procs: 16},
			{Prog: "markdown", MD: 6, N: 12, Reps: reps * 4, Entries: []string{"bytes"}, Procs: 1},
		} {
			run.Each(rec, "markdown", mc, true, []string{"concurrent-markdown-renders-on-one-renderer", "via=" + mc.Entries[0]}, check)
		}
	}
	// requests for pages with page-local LESS on one engine with the LESS processor: every
	// schedule of up to three requests (four in the thorough tier), both ways of registering
	if run.First() {
		var seqs [][]string
		var grow func(prefix []string, d int)
		grow = func(prefix []string, d int) {
			if len(prefix) > 0 {
				seqs = append(seqs, append([]string(nil), prefix...))
			}
			if d == 0 {
				return
			}
			for _, f := range lessPages {
				grow(append(prefix, f), d-1)
			}
		}
		grow(nil, run.Pick(3, 4))
		for _, e := range []string{"load", "vue"} {
			for _, n := range []int{4, 16} {
				var sq []string
				for g := 0; g < n; g++ {
					sq = append(sq, lessPages[g%len(lessPages)])
				}
				lc := Case{Prog: "less-pages", Less: sq, N: n, Reps: reps, Entries: []string{e}}
				run.Each(rec, "less", lc, true, []string{"concurrent-requests-with-page-local-LESS-on-one-engine", "via=" + e}, check)
			}
		}
		for _, sq := range seqs {
			for _, e := range []string{"load", "vue"} {
				lc := Case{Prog: "less-pages", Less: sq, N: 1, Reps: 1, Entries: []string{e}}
				run.Each(rec, "less", lc, len(sq) > 1, []string{"requests-with-page-local-LESS-on-one-engine", "via=" + e}, check)
			}
		}
	}
	names := cat.Names()
	run.Rapid(t, rec, "random", func(t *rapid.T) Case {
		c := Case{
			Prog:    rapid.SampledFrom(names).Draw(t, "prog"),
			N:       rapid.SampledFrom([]int{2, 4, 8, 16}).Draw(t, "n"),
			Reps:    rapid.IntRange(1, 4).Draw(t, "reps"),
			Warm:    rapid.Bool().Draw(t, "warm"),
			Shared:  rapid.Bool().Draw(t, "shared"),
			Unique:  rapid.Bool().Draw(t, "unique"),
			Procs:   rapid.SampledFrom([]int{1, 4, 16}).Draw(t, "procs"),
			BaseTpl: rapid.Bool().Draw(t, "base"),
			Failing: rapid.IntRange(0, 2).Draw(t, "failing") == 0,
			NilData: rapid.IntRange(0, 4).Draw(t, "nildata") == 0,
		}
		k := rapid.IntRange(1, 4).Draw(t, "ne")
		for j := 0; j < k; j++ {
			c.Entries = append(c.Entries, rapid.SampledFrom(allEntries).Draw(t, "entry"))
		}
		if rapid.Bool().Draw(t, "two") {
			c.Second = rapid.SampledFrom(names).Draw(t, "second")
		}
		if rapid.IntRange(0, 2).Draw(t, "wr") == 0 {
			c.Writer = "page.vuego"
		}
		return c
	}, classify, check)
	run.Rapid(t, rec, "generated", func(t *rapid.T) Case {
		g := compose.Gen(t)
		return Case{Gen: &g, Prog: "generated", N: rapid.SampledFrom([]int{4, 8, 16}).Draw(t, "n"), Reps: 2,
			Entries: []string{"load", "file", "string"}, Shared: rapid.Bool().Draw(t, "shared"), BaseTpl: rapid.Bool().Draw(t, "base"),
			Warm: rapid.Bool().Draw(t, "warm"), Procs: rapid.SampledFrom([]int{4, 16}).Draw(t, "procs"), Failing: rapid.IntRange(0, 3).Draw(t, "failing") == 0}
	}, func(c Case) (bool, []string) { nt, cls := classify(c); return nt, append(cls, "generated-program") }, check)
	rec.Note("max goroutines observed in flight at once in the last case: %d", atomic.LoadInt64(&raceSeen))
}

func TestReplay(t *testing.T) { run.ReplayMain(t, prop, replay) }
