package c09

import (
	"bytes"
	"context"
	"fmt"
	"sync"

	"github.com/titpetric/vuego"

	"verif/internal/memfs"
)

// Pages with page-local LESS: two define a mixin of the same name with different bodies, one
// calls a mixin it never defines (alone, the call expands to nothing), one has no LESS at all.
var lessFiles = map[string]string{
	"a.vuego":     "<div>\n<style type=\"text/css+less\">\n  .rounded() {\n    border-radius: 4px;\n  }\n  .a {\n    color: red;\n    .rounded();\n  }\n</style>\n<p>{{ name }}</p>\n</div>",
	"c.vuego":     "<div>\n<style type=\"text/css+less\">\n  .rounded() {\n    border-radius: 8px;\n  }\n  .c {\n    .rounded();\n  }\n</style>\n<p>{{ name }}</p>\n</div>",
	"b.vuego":     "<div>\n<style type=\"text/css+less\">\n  @gap: 3px;\n  .b {\n    color: blue;\n    margin: @gap;\n    .rounded();\n  }\n</style>\n<p>{{ name }}</p>\n</div>",
	"plain.vuego": "<div><style>.p { color: black; }</style><p>{{ name }}</p></div>",
}

var lessPages = []string{"a.vuego", "b.vuego", "c.vuego", "plain.vuego"}

// checkLess serves the requests of c.Less on ONE engine with the LESS processor registered: one
// after the other, each from a goroutine of its own, handing over with a mutex (N = 1: the
// schedule is the case), or all at once (N > 1; the race detector watches). Every response must
// equal the response of the same request served alone by a fresh engine.
func checkLess(c Case) error {
	via := "load"
	if len(c.Entries) > 0 {
		via = c.Entries[0]
	}
	render := func(root vuego.Template, vue *vuego.Vue, f string) string {
		var buf bytes.Buffer
		var err error
		d := map[string]any{"name": f}
		if via == "vue" {
			err = vue.Render(&buf, f, d)
		} else {
			err = root.Load(f).Fill(d).Render(context.Background(), &buf)
		}
		if err != nil {
			return "ERROR: " + err.Error()
		}
		return buf.String()
	}
	engines := func() (vuego.Template, *vuego.Vue) {
		fsys := memfs.FromMap(lessFiles)
		if via == "vue" {
			return nil, vuego.NewVue(fsys).RegisterNodeProcessor(vuego.NewLessProcessor(fsys))
		}
		return vuego.NewFS(fsys, vuego.WithLessProcessor()), nil
	}
	alone := map[string]string{}
	for _, f := range c.Less {
		if _, ok := lessFiles[f]; !ok {
			return nil
		}
		if _, done := alone[f]; !done {
			r, v := engines()
			alone[f] = render(r, v, f)
		}
	}
	root, vue := engines()
	got := make([]string, len(c.Less))
	var mu sync.Mutex
	var wg sync.WaitGroup
	turn := 0
	cond := sync.NewCond(&mu)
	start := make(chan struct{})
	for i, f := range c.Less {
		wg.Add(1)
		go func(i int, f string) {
			defer wg.Done()
			if c.N > 1 {
				// truly concurrent requests (N > 1): all released together, Reps rounds each
				<-start
				for r := 0; r < c.Reps; r++ {
					got[i] = render(root, vue, f)
				}
				return
			}
			mu.Lock()
			for turn != i {
				cond.Wait()
			}
			got[i] = render(root, vue, f)
			turn++
			cond.Broadcast()
			mu.Unlock()
		}(i, f)
	}
	close(start)
	wg.Wait()
	for i, f := range c.Less {
		if got[i] != alone[f] {
			return fmt.Errorf("one engine with the LESS processor (via %s), requests %v: the response to request %d (%s) differs from the same request served alone by a fresh engine\n--- alone:\n%s\n--- on the shared engine:\n%s", via, c.Less, i, f, alone[f], got[i])
		}
	}
	return nil
}
