package c09

import (
	"bytes"
	"fmt"
	"runtime"
	"sync"

	"github.com/titpetric/vuego/markdown"

	"verif/internal/memfs"
)

// mdDoc is document i: reference-style links and images whose labels every document defines
// with a target of its own, next to the same links written inline.
func mdDoc(i int) string {
	return fmt.Sprintf("# Page %d\n\nGo to the [start page][home] or read the [docs][Docs] of page %d.\n\n![logo][img] and [inline](/inline/%d \"Inline %d\") and [undefined][nope%d].\n\n- item [home]\n- item %d\n\n[home]: /home/%d/ \"Home %d\"\n[docs]: /docs/%d/\n[img]: /img/%d.png \"Logo %d\"\n", i, i, i, i, i, i, i, i, i, i, i)
}

// checkMD renders MD documents concurrently (N goroutines, Reps rounds each) on ONE markdown
// renderer; every result must equal what a fresh renderer gives for that document alone.
func checkMD(c Case) error {
	if c.Procs > 0 {
		defer runtime.GOMAXPROCS(runtime.GOMAXPROCS(c.Procs))
	}
	files := map[string]string{}
	for i := 0; i < c.MD; i++ {
		files[fmt.Sprintf("d%d.md", i)] = mdDoc(i)
	}
	via := "bytes"
	if len(c.Entries) > 0 {
		via = c.Entries[0]
	}
	render := func(m *markdown.Markdown, i int) string {
		var buf bytes.Buffer
		var err error
		if via == "load" {
			var d *markdown.Document
			if d, err = m.Load(fmt.Sprintf("d%d.md", i)); err == nil {
				err = d.Render(&buf)
			}
		} else {
			err = m.RenderBytes(&buf, []byte(mdDoc(i)))
		}
		if err != nil {
			return "ERROR: " + err.Error()
		}
		return buf.String()
	}
	want := make([]string, c.MD)
	for i := range want {
		want[i] = render(markdown.New(memfs.FromMap(files)), i)
	}
	shared := markdown.New(memfs.FromMap(files))
	var wg sync.WaitGroup
	var mu sync.Mutex
	var firstErr error
	start := make(chan struct{})
	for g := 0; g < c.N; g++ {
		wg.Add(1)
		go func(g int) {
			defer wg.Done()
			<-start
			for r := 0; r < c.Reps; r++ {
				i := (g + r) % c.MD
				if got := render(shared, i); got != want[i] {
					mu.Lock()
					if firstErr == nil {
						firstErr = fmt.Errorf("one markdown renderer, %d goroutines (via %s): document %d rendered concurrently differs from the same document rendered alone by a fresh renderer\n--- alone:\n%s\n--- concurrently:\n%s", c.N, via, i, want[i], got)
					}
					mu.Unlock()
					return
				}
			}
		}(g)
	}
	close(start)
	wg.Wait()
	return firstErr
}
