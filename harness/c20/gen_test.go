package c20

// Document generator for C20: Markdown documents built by construction from a block/inline
// grammar. Every construct that lies in the region of an open known finding is replaced by a
// harmless neighbour behind allow(id), which also counts the exclusion. Markdown lets text leak out
// of a construct (an indented code line after a list item is a paragraph of that item, a "10)" after
// a paragraph line is text), so a document can still touch such a region by accident; the check
// recognises that from the reference parser's AST (analyse / stats.skip) and does not compare those
// few documents (about 2%, counted in the evidence) instead of reporting the known finding again.

import (
	"fmt"
	"strings"
	"unicode/utf8"

	"pgregory.net/rapid"
)

// finding ids (see /verif/findings.d/c20.json)
const (
	fTextUnescaped  = "C20-text-unescaped"         // literal < and & of text copied raw into the v-html sink
	fEscapes        = "C20-escapes-unresolved"     // backslash escapes / character references not resolved
	fHTMLClosure    = "C20-html-block-closure"     // closing line of an HTML block of type 1-5 dropped
	fHardBreak      = "C20-hard-break-doubled"     // <br></br> parses as two breaks (pinned by the repo's fixtures)
	fStartZero      = "C20-ol-start-zero"          // "0." list loses start="0"
	fInlineNewline  = "C20-inline-newline"         // newline inserted after every inline element
	fPrePadding     = "C20-pre-padding"            // "\n  " and "\n" inserted inside <pre> around <code>
	fLinkTextTrim   = "C20-inline-content-trim"    // leading/trailing space of link text trimmed
	fEmptyDest      = "C20-empty-destination"      // [a]() renders <a> without href
	fAltCodeRaw     = "C20-alt-code-span-resolved" // character references / escapes inside a code span of an image description are resolved
	fFalse          = "C20-string-false-dropped"   // the string "false" as info string, title or alt is dropped (treated as falsy)
	fCodeNL         = "C20-code-span-line-ending"  // a line ending inside a code span stays a line ending instead of a space
	fTrimNBSP       = "C20-content-trim-nbsp"      // v-html content is trimmed with Unicode TrimSpace: &nbsp; at the edges is lost
	fNUL            = "C20-nul-not-replaced"       // U+0000 in titles, image descriptions, info strings and HTML blocks is not replaced by U+FFFD
	fAltLineBreak   = "C20-alt-line-break"         // a line ending inside an image description is dropped
	fTightSeparator = "C20-tight-item-separator"   // no line break between a tight item's text and a following HTML block
	maxDocLines     = 40
	maxInlineDepth  = 3
	maxBlockDepth   = 3
	maxBlocksPerDoc = 6
)

type gen struct {
	t        *rapid.T
	open     func(id string) bool // is the finding open?
	excl     func(id string)      // count an exclusion
	refs     []string             // link reference definitions to append
	nlabel   int
	maxLines int  // 0 = maxDocLines
	binary   bool // bytes that are not UTF-8 may be drawn (the case is then stored as raw bytes)
	full     bool // ignore findings (used for the never-fails part, where only failure matters)
}

// allow reports whether a construct in the region of finding id may be generated.
func (g *gen) allow(id string) bool {
	if g.full || !g.open(id) {
		return true
	}
	g.excl(id)
	return false
}

func (g *gen) n(label string, lo, hi int) int { return rapid.IntRange(lo, hi).Draw(g.t, label) }
func (g *gen) of(label string, l []string) string {
	return l[rapid.IntRange(0, len(l)-1).Draw(g.t, label)]
}
func (g *gen) chance(label string, pct int) bool {
	// drawn so that shrinking (towards 0) switches the option off
	return rapid.IntRange(0, 99).Draw(g.t, label) >= 100-pct
}

// weighted choice: returns index
func (g *gen) pick(label string, weights []int) int {
	total := 0
	for _, w := range weights {
		total += w
	}
	r := rapid.IntRange(0, total-1).Draw(g.t, label)
	for i, w := range weights {
		if r < w {
			return i
		}
		r -= w
	}
	return len(weights) - 1
}

var (
	plainWords = []string{"東京", "Привет", "Zürich", "🎉", "e\u0301x", "naïve", "x\u2028y", "Jiří", "写真", "a", "b", "foo", "bar", "Baz", "x1", "lorem", "ipsum", "é", "日本", "z", "Q", "word", "I"}
	punctAfter = []string{".", ",", "!", "?", ":", ";", "'", "\"", ")", ">", "-", "=", "+", "#", "$", "%", "/", "^", "~", "}", "]"}
	strayDelim = []string{"*", "_", "`", "[", "]", "(", "!", "|", "~", "**", "#", "-", "+", ">", "=", "\"", "'", "{", "}", ":"}
	// literal < and & that are text, not markup
	literals = []string{"<", "&", "a<q", "x & y", "<3", "1 < 2 > 0", "&c", "&copy", "&#35", "R&D", "a<q>c", "< q >", "&&", "<<", "&;", "&x y;", "if (a<q && c>d)", "<q", "</ x>", "<1>", "&#;", "&#xZ;"}
	entities = []string{"&amp;", "&lt;", "&gt;", "&quot;", "&copy;", "&#35;", "&#x41;", "&#X3c;", "&nbsp;", "&ouml;", "&Dcaron;", "&frac34;", "&HilbertSpace;", "&ClockwiseContourIntegral;", "&#0;", "&#1234;", "&#x1F600;", "&ngE;", "&apos;"}
	// not entities by CommonMark, and the HTML parser agrees (unknown name with semicolon)
	nonEntities = []string{"&nosuchname;", "&x;"}
	escapes     = []string{"\\*", "\\_", "\\\\", "\\#", "\\[", "\\]", "\\<", "\\&", "\\`", "\\!", "\\.", "\\|", "\\~", "\\{\\{", "\\>", "\\-", "\\+", "\\(", "\\)", "\\\"", "\\'", "\\&amp;", "\\<br>"}
	// a backslash that is not an escape stays a backslash on both sides
	nonEscapes = []string{"\\a", "\\1", "\\é", "a\\b"}
	mustaches  = []string{"{{ content }}", "{{ x }}", "{{x}}", "{{ 1 + 1 }}", "{{ level }}", "{{ href }}", "{{ code }}", "{{", "}}", "{{ content | upper }}", "{ { x } }", "{{ title }}", "{{ label }}", "{{{ x }}}", "{{ items[0].a }}", "{{ '<q>' }}"}
	codeAtoms  = []string{"q\x00r", "\x01", "x", "a  b", "<q>", "&amp;", "&", "{{ x }}", "{{ content }}", "*a*", "\\*", "\\", "[l](u)", "a|b", "<!-- c -->", "'q'", "\"", "fn(a, b)", "é", "$1", "#", "-", "1.", ">", "</code>", "</pre>", "{{ code }}", "~~~", "}}"}
	dests      = []string{"/wiki/東京", "/Zürich", "/Jiří_Dvořák", "/写真.png", "/🎉", "/é?q=ö&r=1", "</東京 x>", "/e\u0301", "/Привет#якорь", "/a\u00a0b", "/東京(x)\"y", "/p", "http://x.y/a?b=1&c=2", "<x y>", "/u(v)", "#frag", "/ä", "/a%20b", "/q?x={{x}}", "", "<>", "/a_b*c", "mailto:a@b.c", "//h/p", "/a\"b", "/a'b", "/%zz", "/a+b", "/#{{href}}", "javascript:alert(1)", "/a~b|c"}
	destsEsc   = []string{"/a&amp;b", "/a\\*b", "/a\\)b", "/&copy;", "/a\\\\b", "<x\\>y>"}
	titlesSafe = []string{"Zürich 🎉", "東京 & <x>", "é\u00a0x", "Привет \u2028 мир", "e\u0301 ’q’", "t", "two words", "ti&tle", "a<q", "{{ title }}", "é", "it's", "a > b", "say (x)", "{{ x }}", "x  y", "<q>bold</q>", "&", "a & q < c"}
	titlesEsc  = []string{"a &amp; b", "q\\\"q", "&copy; me", "a\\*b", "&#35;1", "\\\\", "&lt;b&gt;"}
	infoSafe   = []string{"日本語", "Ünï", "🎉x", "язык {a}", "go", "c++", "go linenos", "html", "{{x}}", "a.b", "é", "x-y_z", "C#", "python3 {hl_lines=[1]}", "a<q", "a&b", "\"q\""}
	infoEsc    = []string{"a\\*b", "a&amp;b", "&copy;", "a\\_b"}
	urlsAngle  = []string{"https://例え.jp/パス?q=東京", "http://a.b/Zürich_é", "http://a.b/🎉", "http://a.b/c?d=e&f", "https://example.com/", "mailto:x@y.z", "ftp://h/p_q", "http://a.b/{{x}}", "http://a.b/a*b*", "irc://h/c#d", "http://é.fr/ä", "http://a.b/<", "http://a.b/a\\b"}
	emails     = []string{"jiří@example.com", "a@b.co", "foo.bar+x@example.com", "A_b@x-y.org"}
	bareLinks  = []string{"https://x.y/Zürich", "www.a.b/東京", "https://x.y/é_ö?ü=1", "www.example.com", "https://example.com/a_b", "http://a.b/?q=1&r=2", "www.a.b/c(d)", "https://x.y/p?a=b#f", "www.example.com/a~b", "http://a.b/{{x}}", "www.a.b/&amp;x", "foo@example.com", "https://a.b/*x*"}
)

// word draws a plain word that starts with a letter (so that no list marker, no digit run and no
// special character is produced by accident).
func (g *gen) word() string {
	if g.chance("ctl", 5) {
		w := g.of("ctlw", controlWords)
		if !g.binary && !utf8.ValidString(w) {
			return "a\x00b"
		}
		return w
	}
	return g.of("w", plainWords)
}

// controlWords: plain-word segments with U+0000 (CommonMark 2.3: replaced by U+FFFD in text), other
// control characters and bytes that are not UTF-8.
var controlWords = []string{"a\x00b", "\x00", "x\x00", "\x00\x00z", "x\x01y", "del\x7f", "\x1b[0m", "a\xffb", "\xc3", "z\xe2\x82", "\xf0\x9f"}

// sep draws what stands between two inline items.
func (g *gen) sep(oneLine bool) string {
	w := []int{55, 20, 15, 10}
	if oneLine {
		w = []int{75, 25, 0, 0}
	}
	switch g.pick("sep", w) {
	case 0:
		return " "
	case 1:
		return ""
	case 2:
		return "\n"
	default:
		if !g.allow(fHardBreak) {
			return " "
		}
		return g.of("hb", []string{"  \n", "\\\n", "    \n"})
	}
}

// inline draws a run of inline items.
func (g *gen) inline(depth int, oneLine bool) string {
	max := 4 - depth
	if max < 1 {
		max = 1
	}
	n := g.n("items", 1, max)
	var sb strings.Builder
	for i := 0; i < n; i++ {
		if i > 0 {
			sb.WriteString(g.sep(oneLine))
		}
		sb.WriteString(g.item(depth, oneLine))
	}
	return sb.String()
}

// tight draws inline content that starts and ends with a word character (what emphasis needs).
func (g *gen) tight(depth int, oneLine bool) string {
	if g.chance("nbspEdge", 4) && g.allow(fTrimNBSP) {
		// a no-break space at the edge of inline content: a character of the text, not white space
		return g.of("nbsp", []string{"&nbsp;", "\u00a0", "&#160;", "&emsp;"}) + g.word() + g.of("nbsp2", []string{"&nbsp;", "\u00a0", ""})
	}
	switch g.pick("tight", []int{50, 30, 20}) {
	case 0:
		return g.word()
	case 1:
		return g.word() + " " + g.word()
	default:
		if depth >= maxInlineDepth {
			return g.word()
		}
		return g.word() + g.sep(oneLine) + g.item(depth+1, oneLine) + g.sep(oneLine) + g.word()
	}
}

func (g *gen) linkDest() string {
	if g.chance("destEsc", 15) && g.allow(fEscapes) {
		return g.of("destE", destsEsc)
	}
	d := g.of("dest", dests)
	if (d == "" || d == "<>") && !g.allow(fEmptyDest) {
		return "/p"
	}
	return d
}

func (g *gen) linkTitle() string {
	if g.chance("hasTitle", 45) {
		return ""
	}
	var t string
	if g.chance("titleEsc", 25) && g.allow(fEscapes) {
		t = g.of("titleE", titlesEsc)
	} else {
		t = g.of("title", titlesSafe)
		if g.chance("titleFalse", 6) && g.allow(fFalse) {
			t = "false"
		}
		if g.chance("titleNUL", 4) && g.allow(fNUL) {
			t = "t\x00i"
		}
	}
	switch g.n("tq", 0, 3) {
	case 0:
		if !strings.Contains(t, "'") {
			return " '" + t + "'"
		}
	case 1:
		if !strings.ContainsAny(t, "()") {
			return " (" + t + ")"
		}
	case 2:
		if g.chance("emptyTitle", 20) {
			return ` ""`
		}
	}
	if strings.Contains(t, `"`) && !strings.Contains(t, `\"`) {
		t = strings.ReplaceAll(t, `"`, "'")
	}
	return ` "` + t + `"`
}

func (g *gen) linkText(depth int, oneLine bool) string {
	if depth >= maxInlineDepth {
		return g.word()
	}
	if g.chance("padText", 6) && g.allow(fLinkTextTrim) {
		return " " + g.word() + " "
	}
	if g.chance("emptyText", 4) {
		return ""
	}
	return g.inlineNoLink(depth+1, oneLine)
}

// inlineNoLink: links cannot contain links; keep it to items that are not links.
func (g *gen) inlineNoLink(depth int, oneLine bool) string {
	n := g.n("lt", 1, 2)
	var parts []string
	for i := 0; i < n; i++ {
		switch g.pick("lti", []int{50, 20, 15, 10, 5}) {
		case 0:
			parts = append(parts, g.word())
		case 1:
			parts = append(parts, g.emph(depth, oneLine, true))
		case 2:
			parts = append(parts, g.codeSpan(oneLine))
		case 3:
			parts = append(parts, g.of("mu", mustaches))
		default:
			parts = append(parts, "!["+g.word()+"](/i.png)")
		}
	}
	return strings.Join(parts, " ")
}

func (g *gen) emph(depth int, oneLine bool, noLink bool) string {
	var inner string
	if noLink || depth >= maxInlineDepth {
		inner = g.word()
		if g.chance("emw", 40) {
			inner += " " + g.word()
		}
	} else {
		inner = g.tight(depth, oneLine)
	}
	d := g.of("delim", []string{"*", "_", "**", "__", "***", "*", "**", "~~", "___"})
	return d + inner + d
}

func (g *gen) codeSpan(oneLine bool) string {
	n := g.n("csn", 1, 3)
	var parts []string
	for i := 0; i < n; i++ {
		parts = append(parts, g.of("csa", codeAtoms))
	}
	joiner := " "
	if !oneLine && g.chance("csnl", 10) && g.allow(fCodeNL) {
		joiner = "\n"
	}
	body := strings.Join(parts, joiner)
	if g.chance("cstick", 10) {
		body = "a`b " + body
	}
	if g.chance("cspad", 10) {
		body = " " + body + " "
	}
	if oneLine {
		body = strings.ReplaceAll(body, "|", "/")
	}
	// choose a delimiter longer than any backtick run in the body
	run, cur := 0, 0
	for _, c := range body {
		if c == '`' {
			cur++
			if cur > run {
				run = cur
			}
		} else {
			cur = 0
		}
	}
	d := strings.Repeat("`", run+1)
	if run > 0 || strings.HasPrefix(body, "`") || strings.HasSuffix(body, "`") {
		return d + " " + body + " " + d
	}
	return d + body + d
}

// rawTag starts raw HTML whose tag name is also produced by a default template (the override check
// must tell the two apart, which it does from the AST, see markRef).
func (g *gen) rawTag(tag string) string { return "<" + tag }

// rawInline draws inline raw HTML. Elements with content are never "formatting elements" of the
// HTML parser (a, b, i, u, em, code, ...): Markdown can split an inline element across blocks, and the
// parser's re-opening of formatting elements depends on white space between blocks, which is not
// compared.
func (g *gen) rawInline(depth int, oneLine bool) string {
	inner := g.word()
	if depth < maxInlineDepth && g.chance("rawInner", 40) {
		inner = g.tight(depth, oneLine)
	}
	switch g.n("raw", 0, 11) {
	case 0:
		return `<span class="x">` + inner + `</span>`
	case 1:
		return `<kbd>` + inner + `</kbd>`
	case 2:
		return g.rawTag("br") + ">"
	case 3:
		return g.rawTag("br") + "/>"
	case 4:
		// preceded by a word: a line that starts with <!-- is an HTML block, and the rest of that
		// line would be raw HTML
		return g.word() + " <!-- c " + g.word() + " -->"
	case 5:
		return g.rawTag("img") + ` src="a.png" alt="">`
	case 6:
		return `<mark title="a&amp;b">` + inner + `</mark>`
	case 7:
		return `<var data-x='{{ y }}'>` + inner + `</var>`
	case 8:
		return `<sup>` + g.of("mu", mustaches) + `</sup>`
	case 9:
		return `<span
 title="two lines">` + inner + `</span>`
	case 10:
		return `<samp class=c>` + inner + `</samp>`
	default:
		return `<abbr title="&lt;x&gt; &quot;q&quot;">` + inner + `</abbr>`
	}
}

func (g *gen) refLink(depth int, oneLine bool) string {
	g.nlabel++
	label := fmt.Sprintf("r%d", g.nlabel)
	if g.chance("reuse", 30) && len(g.refs) > 0 {
		label = "r1"
	} else {
		g.refs = append(g.refs, "["+label+"]: "+g.refDest()+g.linkTitle())
	}
	switch g.n("refform", 0, 3) {
	case 0:
		return "[" + g.linkText(depth, oneLine) + "][" + label + "]"
	case 1:
		return "[" + label + "][]"
	case 2:
		return "[" + label + "]"
	default:
		return "![" + g.word() + "][" + label + "]"
	}
}

func (g *gen) refDest() string {
	d := g.linkDest()
	if d == "" {
		return "/r"
	}
	return d
}

// item draws one inline item.
func (g *gen) item(depth int, oneLine bool) string {
	deep := depth >= maxInlineDepth
	w := []int{30, 8, 5, 6, 6, 6, 6, 10, 7, 6, 3, 4, 4, 5, 3}
	if deep {
		w = []int{60, 10, 5, 5, 5, 5, 5, 0, 5, 0, 0, 0, 0, 0, 0}
	}
	switch g.pick("item", w) {
	case 0:
		s := g.word()
		if g.chance("w2", 40) {
			s += " " + g.word()
		}
		return s
	case 1:
		return g.word() + g.of("punct", punctAfter)
	case 2:
		s := g.of("stray", strayDelim)
		if oneLine && s == "|" {
			return "/"
		}
		return s
	case 3:
		if !g.allow(fTextUnescaped) {
			return g.word()
		}
		return g.of("lit", literals)
	case 4:
		if g.chance("nonent", 15) {
			return g.of("nonent", nonEntities)
		}
		return g.of("ent", entities)
	case 5:
		if g.chance("nonesc", 20) {
			return g.of("nonesc", nonEscapes)
		}
		if !g.allow(fEscapes) {
			return g.word()
		}
		return g.of("esc", escapes)
	case 6:
		return g.of("mu", mustaches)
	case 7:
		return g.emph(depth, oneLine, false)
	case 8:
		return g.codeSpan(oneLine)
	case 9:
		return "[" + g.linkText(depth, oneLine) + "](" + g.linkDest() + g.linkTitle() + ")"
	case 10:
		return g.refLink(depth, oneLine)
	case 11:
		alt := g.word()
		switch g.n("alt", 0, 11) {
		case 9:
			if g.allow(fFalse) {
				alt = "false"
			}
		case 11:
			alt = g.of("altU", []string{"写真 🎉", "Zürich & <é>", "e\u0301 \u00a0x", "Привет"})
		case 10:
			if g.allow(fNUL) {
				alt = "a\x00lt"
			}
		case 8:
			if g.allow(fAltCodeRaw) {
				alt = g.word() + " `&amp; \\*` " + g.word() // code span content is literal, in a description too
			}
		case 6:
			if !oneLine && g.allow(fAltLineBreak) {
				alt = g.word() + "\n" + g.word() // a line ending inside the description
			}
		case 7:
			alt = g.word() + " `" + g.word() + "` ~~" + g.word() + "~~"
		case 0:
			alt = ""
		case 1:
			alt = g.word() + " *" + g.word() + "*"
		case 2:
			alt = "a<q & c"
		case 3:
			if g.allow(fEscapes) {
				alt = "x &copy; \\*y"
			}
		case 4:
			alt = "{{ alt }}"
		}
		return "![" + alt + "](" + g.refDest() + g.linkTitle() + ")"
	case 12:
		switch g.n("auto", 0, 2) {
		case 0:
			return "<" + g.of("url", urlsAngle) + ">"
		case 1:
			return "<" + g.of("email", emails) + ">"
		default:
			return g.of("bare", bareLinks)
		}
	case 13:
		return g.rawInline(depth, oneLine)
	default:
		return "~~" + g.tight(depth, oneLine) + "~~"
	}
}

// ---- blocks --------------------------------------------------------------------------------

func (g *gen) paragraph() []string {
	s := g.inline(0, false)
	if g.chance("para2", 30) {
		s += "\n" + g.inline(0, false)
	}
	return strings.Split(s, "\n")
}

func (g *gen) atx() []string {
	lvl := g.n("hl", 1, 6)
	s := strings.Repeat("#", lvl)
	if g.chance("emptyH", 4) {
		return []string{s}
	}
	s += " " + g.inline(1, true)
	switch g.n("hclose", 0, 5) {
	case 0:
		s += " " + strings.Repeat("#", g.n("hc", 1, 8))
	case 1:
		s += " #" // closing sequence
	}
	return []string{s}
}

func (g *gen) setext() []string {
	lines := []string{g.inline(1, true)}
	if g.chance("setext2", 25) {
		lines = append(lines, g.inline(1, true))
	}
	u := g.of("ul", []string{"===", "---", "=", "--", "=========="})
	return append(lines, u)
}

func (g *gen) codeLines(lo, hi int) []string {
	n := g.n("cl", lo, hi)
	var out []string
	for i := 0; i < n; i++ {
		if g.chance("blankCode", 12) {
			out = append(out, "")
			continue
		}
		k := g.n("ca", 1, 3)
		var parts []string
		for j := 0; j < k; j++ {
			parts = append(parts, g.of("csa", codeAtoms))
		}
		ind := g.of("cind", []string{"", "", "  ", "    ", "\t"})
		out = append(out, ind+strings.Join(parts, " "))
	}
	return out
}

func (g *gen) fenced() []string {
	fence := g.of("fence", []string{"```", "~~~", "````", "~~~~~", "```"})
	info := ""
	if g.chance("info", 55) {
		if g.chance("infoEsc", 20) && g.allow(fEscapes) {
			info = g.of("infoE", infoEsc)
		} else {
			info = g.of("infoS", infoSafe)
			if g.chance("infoNUL", 4) && g.allow(fNUL) {
				info = "a\x00b"
			}
			if g.chance("infoFalse", 8) && g.allow(fFalse) {
				info = g.of("infoF", []string{"false", "false x", "False", "falsey"})
			}
		}
		if fence[0] == '`' {
			info = strings.ReplaceAll(info, "`", "'")
		}
		if g.chance("infosp", 20) {
			info = " " + info
		}
	}
	body := g.codeLines(0, 4)
	for i, l := range body {
		// a body line must not close the fence
		if strings.HasPrefix(strings.TrimLeft(l, " "), fence[:3]) {
			body[i] = "x " + l
		}
	}
	out := append([]string{fence + info}, body...)
	if g.chance("unclosed", 8) {
		return out // runs to the end of its container
	}
	return append(out, fence)
}

func (g *gen) indented() []string {
	var out []string
	for _, l := range g.codeLines(1, 3) {
		if l == "" {
			out = append(out, "")
		} else {
			out = append(out, "    "+l)
		}
	}
	if strings.TrimSpace(out[0]) == "" {
		out[0] = "    x"
	}
	if strings.TrimSpace(out[len(out)-1]) == "" {
		out[len(out)-1] = "    y"
	}
	return out
}

func prefix(lines []string, first, rest string) []string {
	out := make([]string, len(lines))
	for i, l := range lines {
		p := rest
		if i == 0 {
			p = first
		}
		if l == "" {
			out[i] = strings.TrimRight(p, " ")
		} else {
			out[i] = p + l
		}
	}
	return out
}

func (g *gen) blocks(depth, lo, hi int) []string {
	n := g.n("nb", lo, hi)
	var out []string
	for i := 0; i < n; i++ {
		if i > 0 {
			out = append(out, "")
		}
		out = append(out, g.block(depth)...)
	}
	return out
}

func (g *gen) quote(depth int) []string {
	inner := g.blocks(depth+1, 1, 2)
	out := make([]string, len(inner))
	lazy := g.chance("lazy", 10)
	for i, l := range inner {
		switch {
		case l == "":
			out[i] = ">"
		case lazy && i > 0 && inner[i-1] != "" && isPlain(l) && isPlain(inner[i-1]):
			out[i] = l // lazy continuation line of a paragraph
		case g.chance("qsp", 10):
			out[i] = ">" + l
		default:
			out[i] = "> " + l
		}
	}
	return out
}

func isPlain(l string) bool {
	if l == "" {
		return false
	}
	c := l[0]
	return (c >= 'a' && c <= 'z') || (c >= 'A' && c <= 'Z')
}

func (g *gen) list(depth int, ordered bool) []string {
	items := g.n("li", 1, 3)
	loose := g.chance("loose", 30)
	bullet := g.of("bullet", []string{"-", "*", "+"})
	start := 1
	delim := g.of("odelim", []string{".", ")"})
	startTxt := ""
	if ordered {
		switch g.n("ostart", 0, 9) {
		case 0:
			if g.allow(fStartZero) {
				start, startTxt = 0, g.of("zero", []string{"0", "00", "000000000"})
			}
		case 1:
			start = 2
		case 2:
			start = 7
		case 3:
			start = 10
		case 4:
			start = 42
		case 5:
			start = 123456789
		case 6:
			start, startTxt = 7, "007"
		case 7:
			start = 999999999 - items + 1 // nine digits is the longest list marker
		}
	}
	var out []string
	for i := 0; i < items; i++ {
		marker := bullet
		if ordered {
			num := fmt.Sprint(start + i)
			if i == 0 && startTxt != "" {
				num = startTxt
			}
			if g.chance("samenum", 10) {
				num = fmt.Sprint(start)
				if startTxt != "" {
					num = startTxt
				}
			}
			marker = num + delim
		}
		var body []string
		switch g.pick("lib", []int{55, 15, 12, 10, 5, 3}) {
		case 0:
			body = g.paragraph()
		case 1: // paragraph + nested list (tight nesting)
			body = g.paragraph()
			if depth < maxBlockDepth {
				body = append(body, g.list(depth+1, g.chance("nestOrd", 40))...)
			}
		case 2: // task item
			body = g.paragraph()
			body[0] = g.of("task", []string{"[ ] ", "[x] ", "[X] "}) + body[0]
		case 3: // several blocks
			if depth < maxBlockDepth {
				body = g.blocks(depth+1, 2, 2)
			} else {
				body = g.paragraph()
			}
		case 4: // starts with another block kind
			if depth < maxBlockDepth {
				body = g.block(depth + 1)
			} else {
				body = g.paragraph()
			}
		default:
			body = []string{""} // empty item
		}
		pad := strings.Repeat(" ", len(marker)+1)
		if len(body) == 1 && body[0] == "" {
			out = append(out, marker)
		} else {
			out = append(out, prefix(body, marker+" ", pad)...)
		}
		if loose && i < items-1 {
			out = append(out, "")
		}
	}
	return out
}

func (g *gen) table() []string {
	cols := g.n("cols", 1, 4)
	rows := g.n("rows", 0, 3)
	outer := g.chance("outerPipes", 75)
	mk := func(cells []string) string {
		s := strings.Join(cells, " | ")
		if outer {
			return "| " + s + " |"
		}
		if len(cells) == 1 {
			return "| " + s
		}
		return s
	}
	cell := func() string {
		if g.chance("emptyCell", 10) {
			return ""
		}
		// a stray | would split the cell, possibly in the middle of a raw HTML element
		s := strings.ReplaceAll(g.inline(2, true), "|", "/")
		if g.chance("cellPipe", 8) && g.allow(fEscapes) {
			s += " \\| " + g.word()
		}
		return s
	}
	var head, delim []string
	for i := 0; i < cols; i++ {
		head = append(head, cell())
		delim = append(delim, g.of("al", []string{"---", ":--", "--:", ":-:", "-", ":---:", "---"}))
	}
	out := []string{mk(head), mk(delim)}
	for r := 0; r < rows; r++ {
		n := cols
		switch g.n("ragged", 0, 9) {
		case 0:
			if n > 1 {
				n--
			}
		case 1:
			n++
		}
		var cs []string
		for i := 0; i < n; i++ {
			cs = append(cs, cell())
		}
		out = append(out, mk(cs))
	}
	return out
}

// htmlBlock draws a balanced raw HTML block. Forms whose end condition is met on a later line
// than the start line have a "closure line" (types 1-5).
func (g *gen) htmlBlock() []string {
	w := g.word()
	mu := g.of("mu", mustaches)
	type form struct {
		lines   []string
		closure bool
	}
	forms := []form{
		{[]string{`<div class="x">`, w + " *not em* " + mu, `</div>`}, false},                         // 6
		{[]string{`<div>`, ``, "*" + w + "* inside", ``, `</div>`}, false},                            // 6 + md + 6
		{[]string{g.rawTag("table") + `><tr><td>` + w + ` &amp; x</td></tr></table>`}, false},         // 6
		{[]string{`<section id="s"><h2 id="keep">` + w + `</h2></section>`}, false},                   // 6
		{[]string{`<details>`, `<summary>` + w + `</summary>`, mu, `</details>`}, false},              // 6
		{[]string{`<span class="y">`, w, `</span>`}, false},                                           // 7
		{[]string{`<div>` + g.rawTag("a") + ` href="/x?a=1&amp;b=2">` + w + `</a></div>`}, false},     // 7
		{[]string{`<my-element attr='v'>`, w, `</my-element>`}, false},                                // 7
		{[]string{g.rawTag("pre") + `>` + w + ` {{ y }}</pre>`}, false},                               // 1, single line
		{[]string{`<script>let a = 1;</script>`}, false},                                              // 1
		{[]string{`<style>p { color: red }</style>`}, false},                                          // 1
		{[]string{`<!-- ` + w + ` -->`}, false},                                                       // 2
		{[]string{`<?php echo 1; ?>`}, false},                                                         // 3
		{[]string{`<!DOCTYPE html>`}, false},                                                          // 4
		{[]string{`<![CDATA[ ` + w + ` ]]>`}, false},                                                  // 5
		{[]string{g.rawTag("pre") + `>`, "  " + w + " " + mu, "", "**x**", `</pre>`}, true},           // 1
		{[]string{`<script>`, `let a = 1 < 2 && "` + mu + `";`, `</script>`}, true},                   // 1
		{[]string{`<style>`, `p > a { color: red }`, ``, `b {}`, `</style>`}, true},                   // 1
		{[]string{`<textarea>`, "*" + w + "*", `</textarea>`}, true},                                  // 1
		{[]string{`<!-- ` + w, ``, `*x* --> tail`}, true},                                             // 2
		{[]string{`<?php`, `echo "` + w + `";`, `?>`}, true},                                          // 3
		{[]string{`<!X`, w + `>`}, true},                                                              // 4
		{[]string{`<![CDATA[`, w, `]]>`}, true},                                                       // 5
		{[]string{g.rawTag("pre") + `><code>` + w + `</code>`, `</pre> <q>tail ` + w + `</q>`}, true}, // 1
	}
	if g.chance("htmlNUL", 4) && g.allow(fNUL) {
		return []string{`<div class="n">`, w + " \x00 " + w, `</div>`}
	}
	f := forms[g.n("hform", 0, len(forms)-1)]
	if f.closure && !g.allow(fHTMLClosure) {
		f = forms[g.n("hform2", 0, 14)]
	}
	return f.lines
}

func (g *gen) block(depth int) []string {
	w := []int{25, 10, 5, 8, 4, 10, 8, 7, 7, 3, 8}
	if depth >= maxBlockDepth {
		w = []int{50, 10, 5, 10, 5, 0, 0, 0, 10, 5, 5}
	}
	switch g.pick("block", w) {
	case 0:
		return g.paragraph()
	case 1:
		return g.atx()
	case 2:
		return g.setext()
	case 3:
		return g.fenced()
	case 4:
		return g.indented()
	case 5:
		return g.quote(depth)
	case 6:
		return g.list(depth, false)
	case 7:
		return g.list(depth, true)
	case 8:
		return g.table()
	case 9:
		return []string{g.of("hr", []string{"---", "***", "___", "* * *", " - - -", "_____________"})}
	default:
		return g.htmlBlock()
	}
}

// document draws a whole document of at most maxDocLines lines.
func (g *gen) document() string {
	maxDocLines := maxDocLines
	if g.maxLines > 0 {
		maxDocLines = g.maxLines
	}
	n := g.n("blocks", 1, maxBlocksPerDoc)
	var lines []string
	for i := 0; i < n; i++ {
		b := g.block(0)
		extra := 0
		if len(lines) > 0 {
			extra = 1
		}
		if len(lines)+extra+len(b)+len(g.refs)+1 > maxDocLines {
			continue // whole blocks are dropped, never cut (raw HTML stays balanced)
		}
		if extra == 1 {
			lines = append(lines, "")
		}
		lines = append(lines, b...)
	}
	if len(g.refs) > 0 && len(lines)+1+len(g.refs) <= maxDocLines {
		lines = append(lines, "")
		lines = append(lines, g.refs...)
	}
	if len(lines) == 0 {
		lines = []string{g.word()}
	}
	nl := "\n"
	if g.chance("crlf", 4) {
		nl = "\r\n"
	}
	s := strings.Join(lines, nl)
	if g.chance("finalNL", 70) {
		s += nl
	}
	return s
}
