package c20

// Kind "after": what a failed or aborted operation leaves behind. On ONE renderer (and ONE loaded
// Document on the Load path) a render is first cut short - by a destination writer that fails
// after k bytes, or by a user template that cannot be rendered - and then the document is rendered
// normally. The statement speaks about every document: the later render must have the structure
// and text of the reference, as if nothing had happened before; a render that returns nil must have
// written the whole document.

import (
	"bytes"
	"fmt"
	"strings"
	"testing/fstest"

	"github.com/titpetric/vuego/markdown"
	"pgregory.net/rapid"

	"verif/internal/ev"
	"verif/internal/fw"
)

// failingTemplate is a user template that cannot be rendered: the interpolation in its attribute
// fails late, after literal text and an earlier value have been produced (file() of a file that does
// not exist).
const failingTemplate = `<span data-f="P: {{ 'v' }} then {{ file('missing/' + 'x' + '.txt') }}">{{ file('missing/y.txt') }}</span>` + "\n"

// badSnippet is, per template, a small document whose LAST block needs that template.
var badSnippet = map[string]string{
	"autolink":       "intro [l](/guide \"The guide\")\n\nsee <http://auto.link/x>\n",
	"blockquote":     "intro\n\n> quoted\n",
	"code_block":     "intro\n\n```rust\nprintln!(\"1\");\n```\n",
	"code_span":      "intro\n\n- a `span`\n",
	"emphasis":       "intro\n\ntext *em*\n",
	"hard_break":     "intro\n\na  \nb\n",
	"heading":        "intro\n\n## later heading\n",
	"image":          "intro\n\n![i](/i.png \"t\")\n",
	"link":           "intro\n\n[l](/u \"t\")\n",
	"list":           "intro\n\n1. one\n",
	"list_item":      "intro\n\n- item\n",
	"paragraph":      "# first\n\nparagraph\n",
	"raw_html":       "intro\n\na <kbd>k</kbd>\n",
	"strikethrough":  "intro\n\n~~gone~~\n",
	"table":          "intro\n\n| a |\n|---|\n| 1 |\n",
	"task_checkbox":  "intro\n\n- [ ] todo\n",
	"thematic_break": "intro\n\n---\n",
}

// usedTemplates says which default templates a document needs (from the reference AST).
func usedTemplates(src []byte) map[string]bool {
	fa := analyse(src)
	has := func(k string) bool { return fa.classes[k] }
	used := map[string]bool{
		"paragraph": has("paragraph"), "heading": has("heading"), "code_block": has("code-fenced") || has("code-indented"),
		"code_span": has("code-span"), "emphasis": has("emphasis") || has("strong"), "hard_break": has("hard-break"),
		"image": has("image"), "list": has("list-bullet") || has("list-ordered"), "blockquote": has("blockquote"),
		"raw_html": has("raw-html-inline"), "strikethrough": has("strikethrough"), "table": has("table"),
		"task_checkbox": has("task-list"), "thematic_break": has("thematic-break"),
	}
	used["list_item"] = used["list"]
	for _, k := range fa.aKinds {
		used[k] = true
	}
	return used
}

func checkAfter(c Case, st *stats) error {
	src := []byte(c.Src)
	ref, err := refHTML(src)
	if err != nil {
		return nil
	}
	if !c.Strict && st.skip(Case{Src: c.Src}, analyse(src)) {
		return nil
	}
	bad, hasBad := badSnippet[c.FailT]
	if hasBad && usedTemplates(src)[c.FailT] {
		return nil // the main document must not need the template that cannot be rendered
	}
	files := fstest.MapFS{"doc.md": &fstest.MapFile{Data: src, Mode: 0o644}}
	if hasBad {
		files["bad.md"] = &fstest.MapFile{Data: []byte(bad), Mode: 0o644}
		files["markdown/"+c.FailT+".vuego"] = &fstest.MapFile{Data: []byte(failingTemplate), Mode: 0o644}
	}
	md := markdown.New(files)
	load := c.Path == "load" && !strings.HasPrefix(c.Src, "---")
	var doc *markdown.Document
	if load {
		if doc, err = md.Load("doc.md"); err != nil {
			return fmt.Errorf("Load failed: %v", err)
		}
	}
	render := func(w interface{ Write([]byte) (int, error) }) error {
		if load {
			return doc.Render(w) // the same Document every time
		}
		return md.RenderBytes(w, src)
	}
	t := tolerances(c)
	history := ""
	verify := func(step, got string, err error) error {
		if err != nil {
			return fmt.Errorf("%s: rendering failed: %v (history: %s)%s", step, err, history, describe(c.Src, ref, got))
		}
		d, tolerated := compare(ref, got, t)
		if d != "" {
			return fmt.Errorf("%s differs from the reference (history: %s): %s%s", step, history, d, describe(c.Src, ref, got))
		}
		st.add(tolerated)
		return nil
	}

	// (1) a render cut short by the destination
	if c.FailAt > 0 {
		w := &fw.FailAt{K: c.FailAt - 1}
		err := render(w)
		history += fmt.Sprintf("render into a writer failing after %d bytes -> err=%v; ", c.FailAt-1, err)
		if err == nil {
			// nothing failed as far as the caller can tell: then everything must have been written
			if e := verify("a render that returned nil (the writer accepts only "+fmt.Sprint(c.FailAt-1)+" bytes)", string(w.Got), nil); e != nil {
				return e
			}
		}
	}
	// (2) renders cut short by a user template that cannot be rendered
	if hasBad {
		for i := 0; i < c.Repeat; i++ {
			var b bytes.Buffer
			var err error
			if load {
				var bd *markdown.Document
				if bd, err = md.Load("bad.md"); err == nil {
					err = bd.Render(&b)
					if err2 := bd.Render(&bytes.Buffer{}); err != nil && err2 == nil {
						return fmt.Errorf("a Document whose last block needs the user template %s.vuego, which cannot be rendered: the first Render returned %v, a second Render of the same Document returned nil", c.FailT, err)
					}
				}
			} else {
				err = md.RenderBytes(&b, []byte(bad))
			}
			history += fmt.Sprintf("render of %q with a failing %s.vuego -> err=%v; ", bad, c.FailT, err)
		}
	}
	// (3) the document itself, twice (the second one replays whatever the first one kept)
	for i := 1; i <= 2; i++ {
		var b bytes.Buffer
		err := render(&b)
		if e := verify(fmt.Sprintf("render %d after the failed operations (load path: %v)", i, load), b.String(), err); e != nil {
			return e
		}
		history += "complete render; "
	}
	// (4) another renderer of the same process, default templates only
	var b bytes.Buffer
	err = markdown.New(nil).RenderBytes(&b, src)
	return verify("render on a fresh default renderer of the same process", b.String(), err)
}

func classifyAfter(c Case) (bool, []string) {
	cls := []string{"after-path:" + map[bool]string{true: "load", false: "bytes"}[c.Path == "load"]}
	if c.FailAt > 0 {
		cls = append(cls, "after-writer-fails")
	}
	if _, ok := badSnippet[c.FailT]; ok {
		cls = append(cls, "after-template-fails:"+c.FailT)
	}
	return c.FailAt > 0 || c.FailT != "", cls
}

func genAfter(rec *ev.Rec) func(t *rapid.T) Case {
	return func(t *rapid.T) Case {
		g := newGen(t, rec)
		g.maxLines = 24
		c := Case{Src: g.document(), Path: rapid.SampledFrom([]string{"load", "bytes"}).Draw(t, "path")}
		mode := rapid.IntRange(0, 2).Draw(t, "mode")
		if mode != 1 {
			// the reference output is about as long as vuego's: cut somewhere inside, or just at the end
			ref, _ := refHTML([]byte(c.Src))
			c.FailAt = 1 + rapid.IntRange(0, len(ref)+20).Draw(t, "failAt")
		}
		if mode != 0 {
			used := usedTemplates([]byte(c.Src))
			var free []string
			for _, n := range templateNames {
				if !used[n] && !(n == "hard_break" && isOpen(fHardBreak)) {
					free = append(free, n)
				}
			}
			if len(free) > 0 {
				c.FailT = rapid.SampledFrom(free).Draw(t, "failT")
				c.Repeat = rapid.IntRange(1, 3).Draw(t, "repeat")
			}
		}
		return c
	}
}
