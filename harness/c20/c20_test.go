// Package c20 decides C20: Markdown rendered through vuego's default templates has the structure
// and text of a CommonMark/GFM reference rendering; rendering never fails; a template placed in the
// content filesystem replaces exactly the corresponding default template.
//
// Oracle: goldmark's own HTML renderer (GFM, unsafe HTML passed through) on the same source, both
// outputs parsed with the HTML5 parser and compared in a normal form (oracle_test.go). vuego is
// never used to compute an expected value.
package c20

import (
	"bytes"
	"encoding/json"
	"fmt"
	"regexp"
	"sort"
	"strings"
	"testing"
	"testing/fstest"
	"unicode/utf8"

	"github.com/titpetric/vuego/markdown"
	"pgregory.net/rapid"

	"verif/internal/ev"
	"verif/internal/kf"
	"verif/internal/run"
)

const prop = "C20"

// Case is one input. Kind "doc": Src is compared with the reference. Kind "override": Src is
// rendered with the templates named in Override replaced. Kind "bytes": Raw must render without
// failure. Strict switches off every open-finding tolerance of the comparator (witnesses).
type Case struct {
	Src      string   `json:"src,omitempty"`
	Raw      []byte   `json:"raw,omitempty"`
	Override []string `json:"override,omitempty"` // templates replaced by a marker template
	Empty    []string `json:"empty,omitempty"`    // templates replaced by a file without content
	Blank    string   `json:"blank,omitempty"`    // content of those files: "" or white space only
	Store    string   `json:"store,omitempty"`    // kind of content filesystem (store_test.go); "" = map
	Late     bool     `json:"late,omitempty"`     // the user templates are written after markdown.New
	Strict   bool     `json:"strict,omitempty"`
	// Files are unrelated files of the content filesystem (theme.yml, data/*.yml: vuego loads them as
	// template data). Kinds doc and override. No Files = nil content FS (doc) / only the templates.
	Files map[string]string `json:"files,omitempty"`
	// kind "session": Docs are rendered one after the other on ONE Markdown instance, Via[i] says
	// how ("bytes" = RenderBytes, "load" = Load + Render); LoadFirst loads all "load" documents
	// before anything is rendered.
	Docs      []string `json:"docs,omitempty"`
	Via       []string `json:"via,omitempty"`
	LoadFirst bool     `json:"load_first,omitempty"`
	// kind "life" (life_test.go): one renderer over a mutable content FS (Store "memfs", "dirfs" or
	// "dirfs-symlink"); Init is the state of the user templates at the first render, every step
	// changes some of them (name -> "marker", "empty" or "default" = file removed) before the next render
	Init  map[string]string   `json:"init,omitempty"`
	Steps []map[string]string `json:"steps,omitempty"`
	// kind "after" (after_test.go): the main document Src is rendered on one renderer (Path "load":
	// one loaded Document) first into a writer that fails after FailAt-1 bytes (0 = not), then Repeat
	// renders of a document needing the user template FailT, which cannot be rendered, then normally
	FailAt int    `json:"fail_at,omitempty"`
	FailT  string `json:"fail_t,omitempty"`
	Repeat int    `json:"repeat,omitempty"`
	Path   string `json:"path,omitempty"`
	// kind "front": the file is "---\n" + FM + "---\n" + Src when HasFM, else Src (front_test.go)
	HasFM bool   `json:"has_fm,omitempty"`
	FM    string `json:"fm,omitempty"`
}

// source returns the document of a doc case: Raw carries it when it is not valid UTF-8 (JSON strings
// cannot).
func (c Case) source() []byte {
	if c.Raw != nil && c.Src == "" {
		return c.Raw
	}
	return []byte(c.Src)
}

var known = kf.Load()

func isOpen(id string) bool { return known.Open(id) }

func tolerances(c Case) tol {
	if c.Strict {
		return tol{}
	}
	return tol{prePadding: isOpen(fPrePadding), inlineSpace: isOpen(fInlineNewline), codeNL: isOpen(fCodeNL), trimNBSP: isOpen(fTrimNBSP)}
}

// ---- rendering with vuego (the subject) ----------------------------------------------------

func renderVuego(src []byte, files map[string]string) (string, error) {
	return renderVuegoStore(src, files, "map", false)
}

// renderVuegoStore renders src with the user files in a content filesystem of the given kind
// (store_test.go). With late set, the markdown/ templates are written into it after markdown.New
// and before the render.
func renderVuegoStore(src []byte, files map[string]string, store string, late bool) (string, error) {
	var md *markdown.Markdown
	if files == nil {
		md = markdown.New(nil)
	} else {
		u, cleanup := newStore(store)
		defer cleanup()
		var after []string
		for _, k := range sortedKeys(files) {
			if late && strings.HasPrefix(k, "markdown/") {
				after = append(after, k)
				continue
			}
			u.put(k, files[k])
		}
		md = markdown.New(u)
		for _, k := range after {
			u.put(k, files[k])
		}
	}
	var b bytes.Buffer
	err := md.RenderBytes(&b, src)
	return b.String(), err
}

func renderVuegoLoad(src []byte) (string, error) { return renderVuegoLoadFiles(src, nil) }

func renderVuegoLoadFiles(src []byte, files map[string]string) (string, error) {
	m := fstest.MapFS{"doc.md": &fstest.MapFile{Data: src, Mode: 0o644}}
	for k, v := range files {
		m[k] = &fstest.MapFile{Data: []byte(v), Mode: 0o644}
	}
	md := markdown.New(m)
	return loadAndRender(md)
}

func loadAndRender(md *markdown.Markdown) (string, error) {
	doc, err := md.Load("doc.md")
	if err != nil {
		return "", fmt.Errorf("Load: %w", err)
	}
	var b bytes.Buffer
	err = doc.Render(&b)
	return b.String(), err
}

// ---- kind "doc" ----------------------------------------------------------------------------

type stats struct {
	tolerated map[string]int
	skipped   int
	soup      int
}

// skip reports whether a generated (non-strict) document touches the region of an open finding
// although the generator avoids those regions by construction (Markdown lets text leak out of a
// construct, e.g. an indented code line after a list item is a paragraph of that item). Such a
// document is not compared; it is counted as excluded under the finding.
func (s *stats) skip(c Case, fa facts) bool {
	if c.Strict {
		return false
	}
	if fa.tagSoup {
		if s != nil {
			s.soup++
		}
		return true
	}
	var ids []string
	for id := range fa.regions {
		if isOpen(id) {
			ids = append(ids, id)
		}
	}
	if len(ids) == 0 {
		return false
	}
	if s != nil {
		s.add(ids)
		s.skipped++
	}
	return true
}

func (s *stats) add(ids []string) {
	if s == nil {
		return
	}
	for _, id := range ids {
		s.tolerated[id]++
	}
}

func describe(src, ref, got string) string {
	return fmt.Sprintf("\n  source:    %q\n  reference: %q\n  vuego:     %q", clip(src, 700), clip(ref, 900), clip(got, 900))
}

func checkDoc(c Case, st *stats) error {
	src := c.source()
	shown := string(src)
	ref, err := refHTML(src)
	if err != nil {
		return nil // the reference cannot render it: nothing to compare (never observed)
	}
	// unrelated files in the content filesystem (configuration data) must not change the rendering
	var files map[string]string
	if c.Files != nil {
		files = map[string]string{}
		for k, v := range c.Files {
			if strings.HasPrefix(k, "markdown/") {
				return nil // user templates are the override kind's subject (hand-edited replay)
			}
			files[k] = v
		}
	}
	got, err := renderVuego(src, files)
	if err != nil {
		return fmt.Errorf("rendering failed: RenderBytes returned %v (content FS files: %v)%s", err, sortedKeys(files), describe(shown, ref, got))
	}
	if st.skip(c, analyse(src)) {
		return nil
	}
	t := tolerances(c)
	d, tolerated := compare(ref, got, t)
	if d != "" {
		if len(files) > 0 {
			d += fmt.Sprintf(" (content FS holds %v: %q)", sortedKeys(files), clip(fmt.Sprint(files), 300))
		}
		return fmt.Errorf("%s%s", d, describe(shown, ref, got))
	}
	st.add(tolerated)
	// the same through Load + Render (Load extracts front matter from a file that starts with
	// "---", which is documented; such documents are only rendered through RenderBytes)
	if !bytes.HasPrefix(src, []byte("---")) {
		got2, err := renderVuegoLoadFiles(src, files)
		if err != nil {
			return fmt.Errorf("rendering failed: Load+Render returned %v%s", err, describe(shown, ref, got2))
		}
		if got2 != got {
			if d, _ := compare(ref, got2, t); d != "" {
				return fmt.Errorf("via Load+Render: %s%s", d, describe(shown, ref, got2))
			}
		}
	}
	return nil
}

// ---- content filesystem dimension: configuration data ---------------------------------------

// configKeys are names the default templates use as variables; docs/data-loading.md: theme.yml and
// data/*.yml of the filesystem are loaded as template data, and data passed to Fill overrides them.
// The markdown package passes every variable of a template, so such files must not change a rendering.
var configKeys = map[string][]string{
	"title": {"My Blog", "\"false\"", "T <b>"}, "language": {"en", "go"}, "alt": {"ALT"}, "href": {"/cfg"}, "src": {"/cfg.png"},
	"content": {"CONFIG", "\"<b>CONFIG</b>\""}, "level": {"3", "1"}, "id": {"cfg"}, "start": {"9", "0"}, "ordered": {"true", "false"},
	"checked": {"true", "false"}, "align": {"right"}, "label": {"LABEL"}, "code": {"CODE"}, "cell": {"z", "{align: left, content: C}"},
	"row": {"r", "[]"}, "headers": {"[x]", "[{align: right, content: H}]"}, "rows": {"[[y]]"}, "html": {"\"<i>h</i>\""}, "text": {"TXT"},
}

var siteFiles = map[string]string{
	"layouts/base.vuego":     "<html><head><title>{{ title }}</title></head><body><header>SITE</header><main v-html=\"content\"></main><footer>FOOT</footer></body></html>\n",
	"layouts/post.vuego":     "---\nlayout: base\n---\n<article class=\"post\" v-html=\"content\"></article>\n",
	"layouts/default.vuego":  "<div class=\"default-layout\" v-html=\"content\"></div>\n",
	"components/card.vuego":  "<template><div class=\"card\"><slot></slot></div></template>\n",
	"components/p.vuego":     "<template><p class=\"component\">COMPONENT</p></template>\n",
	"index.vuego":            "---\nlayout: post\ntitle: Home\n---\n<h1>{{ title }}</h1>\n",
	"paragraph.vuego":        "<p>ROOT LEVEL FILE, NOT A MARKDOWN TEMPLATE</p>\n",
	"partials/heading.vuego": "<h1>PARTIAL</h1>\n",
}

var siteFileNames = func() []string {
	var l []string
	for k := range siteFiles {
		l = append(l, k)
	}
	sort.Strings(l)
	return l
}()

func genConfig(t *rapid.T) map[string]string {
	mode := rapid.IntRange(0, 7).Draw(t, "config")
	if mode <= 3 {
		return nil // no content filesystem / only the templates
	}
	names := make([]string, 0, len(configKeys))
	for k := range configKeys {
		names = append(names, k)
	}
	sort.Strings(names)
	yml := func(label string) string {
		var sb strings.Builder
		for _, k := range names {
			if rapid.IntRange(0, 2).Draw(t, label+k) == 0 {
				continue
			}
			sb.WriteString(k + ": " + rapid.SampledFrom(configKeys[k]).Draw(t, label+k+"v") + "\n")
		}
		return sb.String()
	}
	files := map[string]string{"unrelated.txt": "x"}
	// a site directory shared with vuego pages: layouts (layouts/base.vuego is vuego's default page
	// layout), components, pages. None of them takes part in rendering a Markdown document.
	if rapid.IntRange(0, 1).Draw(t, "site") == 1 {
		for _, f := range rapid.SliceOfNDistinct(rapid.SampledFrom(siteFileNames), 1, len(siteFileNames), func(s string) string { return s }).Draw(t, "siteFiles") {
			files[f] = siteFiles[f]
		}
	}
	if mode == 5 || mode == 7 {
		files["theme.yml"] = yml("t")
	}
	if mode == 6 || mode == 7 {
		files["data/site.yml"] = yml("s")
		if rapid.IntRange(0, 2).Draw(t, "second") == 0 {
			files["data/zz.yaml"] = yml("z")
		}
	}
	return files
}

func configClasses(c Case) []string {
	switch {
	case c.Files == nil:
		return []string{"config:none"}
	}
	var cls []string
	collide := false
	for k, v := range c.Files {
		switch {
		case strings.HasPrefix(k, "layouts/"):
			cls = append(cls, "site:layouts/*.vuego")
			if k == "layouts/base.vuego" {
				cls = append(cls, "site:layouts/base.vuego")
			}
			continue
		case strings.HasPrefix(k, "components/"), strings.HasSuffix(k, ".vuego"):
			cls = append(cls, "site:components-or-pages")
			continue
		case k == "theme.yml":
			cls = append(cls, "config:theme.yml")
		case strings.HasPrefix(k, "data/"):
			cls = append(cls, "config:data/*.yml")
		default:
			continue
		}
		if strings.TrimSpace(v) != "" {
			collide = true
		}
	}
	sort.Strings(cls)
	cls = dedup(cls)
	if len(cls) == 0 {
		cls = []string{"config:unrelated-files-only"}
	}
	if collide {
		cls = append(cls, "config-defines-template-variable-names")
	}
	return dedup(cls)
}

func dedup(l []string) []string {
	var out []string
	for i, s := range l {
		if i == 0 || s != l[i-1] {
			out = append(out, s)
		}
	}
	return out
}

// ---- kind "override" -----------------------------------------------------------------------

// templateNames are the overridable default templates (the files of markdown/markdown/*.vuego).
var templateNames = []string{
	"autolink", "blockquote", "code_block", "code_span", "emphasis", "hard_break", "heading", "image", "link",
	"list", "list_item", "paragraph", "raw_html", "strikethrough", "table", "task_checkbox", "thematic_break",
}

// replacement is a user template for each name: it renders what the documentation of the data
// (markdown.go) calls for, plus the marker attribute data-ov="<name>" on its root element(s).
// raw_html has no element of its own, so its replacement wraps the raw HTML in a marked <span>.
// href/src are written as interpolated static attributes: a bound attribute (:href) with an empty
// value is omitted by vuego, and a destination may be empty.
var replacement = map[string]string{
	"autolink":   `<a data-ov="autolink" :href="href">{{ label }}</a>`,
	"blockquote": `<blockquote data-ov="blockquote" v-html="content"></blockquote>`,
	"code_block": "<pre data-ov=\"code_block\" v-if=\"language != ''\"><code :class=\"'language-' + language\">{{ code }}</code></pre>\n<pre data-ov=\"code_block\" v-else><code>{{ code }}</code></pre>",
	"code_span":  `<code data-ov="code_span">{{ content }}</code>`,
	"emphasis":   "<strong data-ov=\"emphasis\" v-if=\"level == 2\" v-html=\"content\"></strong>\n<em data-ov=\"emphasis\" v-else v-html=\"content\"></em>",
	"hard_break": `<br data-ov="hard_break">`,
	"heading": "<h1 data-ov=\"heading\" v-if=\"level == 1\" v-html=\"content\"></h1>\n<h2 data-ov=\"heading\" v-else-if=\"level == 2\" v-html=\"content\"></h2>\n" +
		"<h3 data-ov=\"heading\" v-else-if=\"level == 3\" v-html=\"content\"></h3>\n<h4 data-ov=\"heading\" v-else-if=\"level == 4\" v-html=\"content\"></h4>\n" +
		"<h5 data-ov=\"heading\" v-else-if=\"level == 5\" v-html=\"content\"></h5>\n<h6 data-ov=\"heading\" v-else v-html=\"content\"></h6>",
	// (the user templates mirror the defaults: the empty string, not truthiness, decides - the
	// word false is a legitimate title / description / info string)
	"image":         "<img data-ov=\"image\" v-if=\"title != ''\" src=\"{{ src }}\" alt=\"{{ alt }}\" title=\"{{ title }}\">\n<img data-ov=\"image\" v-else src=\"{{ src }}\" alt=\"{{ alt }}\">",
	"link":          "<a data-ov=\"link\" v-if=\"title != ''\" href=\"{{ href }}\" title=\"{{ title }}\" v-html=\"content\"></a>\n<a data-ov=\"link\" v-else href=\"{{ href }}\" v-html=\"content\"></a>",
	"list":          "<ol data-ov=\"list\" v-if=\"ordered\" :start=\"start\" v-html=\"content\"></ol>\n<ul data-ov=\"list\" v-else v-html=\"content\"></ul>",
	"list_item":     `<li data-ov="list_item" v-html="content"></li>`,
	"paragraph":     `<p data-ov="paragraph" v-html="content"></p>`,
	"raw_html":      `<span data-ov="raw_html" v-html="content"></span>`,
	"strikethrough": `<del data-ov="strikethrough" v-html="content"></del>`,
	"table": "<table data-ov=\"table\">\n<thead>\n<tr>\n<th v-for=\"cell in headers\" :align=\"cell.align\" v-html=\"cell.content\"></th>\n</tr>\n</thead>\n" +
		"<tbody>\n<tr v-for=\"row in rows\">\n<td v-for=\"cell in row\" :align=\"cell.align\" v-html=\"cell.content\"></td>\n</tr>\n</tbody>\n</table>",
	"task_checkbox":  "<input data-ov=\"task_checkbox\" type=\"checkbox\" v-if=\"checked\" checked=\"\" disabled=\"\">\n<input data-ov=\"task_checkbox\" type=\"checkbox\" v-else disabled=\"\">",
	"thematic_break": `<hr data-ov="thematic_break">`,
}

// overrideExpectation computes, without vuego, what a document must render to when the templates in
// set are the marker templates and those in empty are files without content. skip is true when the
// document cannot be judged (open finding region after the removal, unattributable <a>).
func overrideExpectation(src []byte, set, empty map[string]bool) (want string, skip bool) {
	drop := dropKinds(empty)
	bracketed, err := refHTMLBracketed(src, set["raw_html"], drop)
	if err != nil {
		return "", true
	}
	if len(drop) > 0 && isOpen(fLinkTextTrim) && linkPadded(src, drop) {
		return "", true
	}
	want, ok := markRef(bracketed, set, aKindsOf(src, drop), empty["hard_break"])
	return want, !ok
}

func checkOverride(c Case, st *stats) error {
	set, empty := map[string]bool{}, map[string]bool{}
	files := map[string]string{"unrelated.txt": "x"}
	for _, name := range c.Override {
		r, ok := replacement[name]
		if !ok {
			return nil // not a template name (hand-edited replay)
		}
		set[name] = true
		files["markdown/"+name+".vuego"] = r + "\n"
	}
	if strings.TrimSpace(c.Blank) != "" {
		return nil // Blank must be empty or white space (hand-edited replay)
	}
	for k, v := range c.Files {
		if !strings.HasPrefix(k, "markdown/") {
			files[k] = v // configuration data next to the templates
		}
	}
	for _, name := range c.Empty {
		if _, ok := replacement[name]; !ok || set[name] {
			return nil
		}
		empty[name] = true
		files["markdown/"+name+".vuego"] = c.Blank
	}
	src := []byte(c.Src)
	if strings.Contains(c.Src, rawStart) || strings.Contains(c.Src, rawEnd) {
		return nil // the oracle's own bracket characters: not checked
	}
	// A user template without content renders nothing, so the nodes it stands for contribute
	// nothing, their content included ("replaces exactly the corresponding default template").
	drop := dropKinds(empty)
	bracketed, err := refHTMLBracketed(src, set["raw_html"], drop)
	if err != nil {
		return nil
	}
	ref := stripBrackets.Replace(bracketed)
	store := c.Store
	if store == "" {
		store = "map"
	}
	got, err := renderVuegoStore(src, files, store, c.Late)
	what := fmt.Sprintf("override marker=%v empty(%q)=%v in a %q content FS (templates written after New: %v)", c.Override, c.Blank, c.Empty, store, c.Late)
	if err != nil {
		return fmt.Errorf("rendering with %s failed: %v%s", what, err, describe(c.Src, ref, got))
	}
	fa := analyse(src)
	if st.skip(c, fa) {
		return nil
	}
	if !c.Strict && len(drop) > 0 && isOpen(fLinkTextTrim) && linkPadded(src, drop) {
		if st != nil {
			st.add([]string{fLinkTextTrim})
			st.skipped++
		}
		return nil // leaving the nodes out puts the document into the region of the open finding
	}
	want, attributable := markRef(bracketed, set, aKindsOf(src, drop), empty["hard_break"])
	if !attributable {
		return nil // the <a> tags of the reference do not match the AST (never observed)
	}
	t := tolerances(c)
	if c.Blank != "" && !c.Strict {
		// a template that consists of white space may write white space where the reference has
		// nothing: words are compared with white space removed
		t.inlineSpace = true
	}
	d, tolerated := compare(want, got, t)
	if d != "" {
		return fmt.Errorf("%s: expected = reference with data-ov on exactly the elements of the marker templates and without the nodes of the empty templates; %s%s", what, d, describe(c.Src, want, got))
	}
	if c.Blank == "" {
		st.add(tolerated)
	}
	return nil
}

// ---- kind "session" ------------------------------------------------------------------------

// checkSession renders the documents one after the other on one Markdown instance. The statement
// speaks about every document: what the instance rendered before is not part of it, so each output
// is compared with the reference rendering of that document alone.
func checkSession(c Case, st *stats) error {
	m := fstest.MapFS{}
	for i, d := range c.Docs {
		m[fmt.Sprintf("d%d.md", i)] = &fstest.MapFile{Data: []byte(d), Mode: 0o644}
	}
	md := markdown.New(m)
	via := func(i int) string {
		if i < len(c.Via) && c.Via[i] == "load" && !strings.HasPrefix(c.Docs[i], "---") {
			return "load"
		}
		return "bytes"
	}
	loaded := map[int]*markdown.Document{}
	load := func(i int) error {
		doc, err := md.Load(fmt.Sprintf("d%d.md", i))
		if err != nil {
			return fmt.Errorf("document %d of the session: Load failed: %v", i, err)
		}
		loaded[i] = doc
		return nil
	}
	if c.LoadFirst {
		for i := range c.Docs {
			if via(i) == "load" {
				if err := load(i); err != nil {
					return err
				}
			}
		}
	}
	t := tolerances(c)
	for i, d := range c.Docs {
		var b bytes.Buffer
		var err error
		if via(i) == "load" {
			if loaded[i] == nil {
				if err := load(i); err != nil {
					return err
				}
			}
			err = loaded[i].Render(&b)
		} else {
			err = md.RenderBytes(&b, []byte(d))
		}
		got := b.String()
		ref, rerr := refHTML([]byte(d))
		if rerr != nil {
			continue
		}
		where := fmt.Sprintf("document %d of %d rendered (%s) on one instance after %q", i, len(c.Docs), via(i), c.Docs[:i])
		if err != nil {
			return fmt.Errorf("%s: rendering failed: %v%s", where, err, describe(d, ref, got))
		}
		if st.skip(Case{Src: d, Strict: c.Strict}, analyse([]byte(d))) {
			continue
		}
		diff, tolerated := compare(ref, got, t)
		if diff != "" {
			return fmt.Errorf("%s differs from the reference rendering of that document alone: %s%s", where, diff, describe(d, ref, got))
		}
		st.add(tolerated)
	}
	return nil
}

var labelDefRe = regexp.MustCompile(`(?m)^ {0,3}\[([^\]\n]+)\]:`)

func classifySession(c Case) (bool, []string) {
	cls := []string{fmt.Sprintf("session-len=%d", len(c.Docs))}
	if c.LoadFirst {
		cls = append(cls, "session-load-first")
	}
	seen := map[string]bool{}
	earlier := map[string]bool{}
	nt := false
	add := func(s string) {
		if !seen[s] {
			seen[s] = true
			cls = append(cls, s)
		}
	}
	for i, d := range c.Docs {
		if i < len(c.Via) && c.Via[i] == "load" {
			add("session-via-load")
		} else {
			add("session-via-bytes")
		}
		own := map[string]bool{}
		for _, m := range labelDefRe.FindAllStringSubmatch(d, -1) {
			own[strings.ToLower(m[1])] = true
		}
		low := strings.ToLower(d)
		for l := range earlier {
			if !strings.Contains(low, "["+l+"]") {
				continue
			}
			nt = true
			if own[l] {
				add("session-redefines-label-of-earlier-document")
			} else {
				add("session-uses-label-defined-only-in-earlier-document")
			}
		}
		for l := range own {
			earlier[l] = true
		}
	}
	return nt, cls
}

// kitchenSink is a fixed document that contains every construct a default template renders
// (constructs in the region of an open finding are left out).
func kitchenSink() string {
	hard := "\n"
	if !isOpen(fHardBreak) {
		hard = "  \n"
	}
	return strings.Join([]string{
		"# Title *em* `code`",
		"",
		"Setext **strong** ~~del~~",
		"---",
		"",
		"para [link](/u \"t\") <http://auto.link/> ![img](/i.png \"it\") <span class=\"r\">raw</span> www.bare.com" + hard + "next [ref] line",
		"",
		"> quote",
		"> - [ ] todo",
		"> - [x] done",
		"",
		"3. one",
		"4. two",
		"   - nested",
		"",
		"```go",
		"code {{ x }}",
		"```",
		"",
		"    indented",
		"",
		"| a | b |",
		"|:--|--:|",
		"| 1 | *2* |",
		"",
		"---",
		"",
		"<div>html block</div>",
		"",
		"[ref]: /r 'rt'",
		"",
	}, "\n")
}

// overrideRegressions: raw HTML whose tag names are also produced by templates must not be marked.
var overrideRegressions = []string{
	"`x\nx\n<!-- c -->` a \\<br>",              // <br> inside a type 2 HTML block
	"a <br> b <em>c</em> <a href=\"/x\">d</a>", // inline raw HTML with template tag names
	"<pre><code>x</code></pre>\n\n<p>y</p>\n\n<hr>\n\n<ul><li>z</li></ul>",
	"<table><tr><td>1</td></tr></table>\n\n<img src=\"i.png\"> <input type=\"checkbox\"> <del>d</del> <strong>s</strong> <h2>h</h2> <blockquote>q</blockquote> <ol><li>o</li></ol>",
}

// ---- kind "bytes" --------------------------------------------------------------------------

func checkBytes(c Case) error {
	src := c.Raw
	if src == nil {
		src = []byte(c.Src)
	}
	if _, err := renderVuego(src, nil); err != nil {
		return fmt.Errorf("RenderBytes failed on %q: %v", clip(string(src), 400), err)
	}
	if _, err := renderVuegoLoad(src); err != nil {
		return fmt.Errorf("Load+Render failed on %q: %v", clip(string(src), 400), err)
	}
	return nil
}

// ---- classification ------------------------------------------------------------------------

func classifyDoc(c Case) (bool, []string) {
	fa := analyse(c.source())
	var cls []string
	for k := range fa.classes {
		cls = append(cls, k)
	}
	sort.Strings(cls)
	cls = append(cls, configClasses(c)...)
	if c.Raw != nil {
		cls = append(cls, "doc-invalid-utf8")
	}
	switch n := bytes.Count(c.source(), []byte("\n")) + 1; {
	case n <= 5:
		cls = append(cls, "lines:1-5")
	case n <= 15:
		cls = append(cls, "lines:6-15")
	default:
		cls = append(cls, "lines:16-41")
	}
	nt := false
	for _, k := range cls {
		if k != "paragraph" && k != "soft-break" && !strings.HasPrefix(k, "lines:") {
			nt = true
		}
	}
	return nt, cls
}

func classifyOverride(c Case) (bool, []string) {
	fa := analyse([]byte(c.Src))
	// which overridden templates are actually exercised by the document
	used := map[string]bool{}
	has := func(k string) bool { return fa.classes[k] }
	used["paragraph"] = has("paragraph")
	used["heading"] = has("heading")
	used["code_block"] = has("code-fenced") || has("code-indented")
	used["code_span"] = has("code-span")
	used["emphasis"] = has("emphasis") || has("strong")
	used["hard_break"] = has("hard-break")
	used["image"] = has("image")
	used["list"] = has("list-bullet") || has("list-ordered")
	used["list_item"] = used["list"]
	used["blockquote"] = has("blockquote")
	used["raw_html"] = has("raw-html-inline")
	used["strikethrough"] = has("strikethrough")
	used["table"] = has("table")
	used["task_checkbox"] = has("task-list")
	used["thematic_break"] = has("thematic-break")
	for _, k := range fa.aKinds {
		used[k] = true
	}
	cls := []string{fmt.Sprintf("override-size=%d", sizeBucket(len(c.Override)))}
	hit := 0
	for _, n := range c.Override {
		if used[n] {
			hit++
			cls = append(cls, "override-hit:"+n)
		}
	}
	cls = append(cls, configClasses(c)...)
	if c.Store != "" {
		cls = append(cls, "override-store:"+c.Store)
	} else {
		cls = append(cls, "override-store:map")
	}
	if c.Late {
		cls = append(cls, "override-written-after-New")
	}
	if len(c.Empty) > 0 {
		cls = append(cls, fmt.Sprintf("override-empty-size=%d", sizeBucket(len(c.Empty))))
		if c.Blank == "" {
			cls = append(cls, "override-empty-file")
		} else {
			cls = append(cls, "override-whitespace-only-file")
		}
	}
	for _, n := range c.Empty {
		if used[n] {
			hit++
			cls = append(cls, "override-empty-hit:"+n)
		}
	}
	notOverridden := false
	for n, u := range used {
		if u && !contains(c.Override, n) && !contains(c.Empty, n) {
			notOverridden = true
		}
	}
	if notOverridden {
		cls = append(cls, "has-element-of-non-overridden-template")
	}
	return hit > 0, cls
}

func sizeBucket(n int) int {
	switch {
	case n <= 3:
		return n
	case n <= 8:
		return 8
	case n <= 16:
		return 16
	}
	return 17
}

func contains(l []string, s string) bool {
	for _, x := range l {
		if x == s {
			return true
		}
	}
	return false
}

func classifyBytes(c Case) (bool, []string) {
	cls := []string{"bytes"}
	if !utf8.Valid(c.Raw) {
		cls = append(cls, "bytes-invalid-utf8")
	}
	if bytes.IndexByte(c.Raw, 0) >= 0 {
		cls = append(cls, "bytes-nul")
	}
	if bytes.HasPrefix(c.Raw, []byte("---")) {
		cls = append(cls, "bytes-front-matter-start")
	}
	if bytes.Contains(c.Raw, []byte("{{")) {
		cls = append(cls, "bytes-mustache")
	}
	return len(c.Raw) > 0, cls
}

// ---- replay --------------------------------------------------------------------------------

func replay(kind string, raw json.RawMessage) error {
	switch {
	case strings.HasPrefix(kind, "bytes"), strings.HasPrefix(kind, "Fuzz"):
		return run.Decode(raw, checkBytes)
	case strings.HasPrefix(kind, "life"):
		return run.Decode(raw, func(c Case) error { return checkLife(c, nil) })
	case strings.HasPrefix(kind, "after"):
		return run.Decode(raw, func(c Case) error { return checkAfter(c, nil) })
	case strings.HasPrefix(kind, "front"):
		return run.Decode(raw, func(c Case) error { return checkFront(c, nil) })
	case strings.HasPrefix(kind, "session"):
		return run.Decode(raw, func(c Case) error { return checkSession(c, nil) })
	case strings.HasPrefix(kind, "override"):
		return run.Decode(raw, func(c Case) error { return checkOverride(c, nil) })
	}
	return run.Decode(raw, func(c Case) error { return checkDoc(c, nil) })
}

// ---- generators ----------------------------------------------------------------------------

func newGen(t *rapid.T, rec *ev.Rec) *gen {
	return &gen{t: t, open: isOpen, excl: rec.Excluded}
}

var byteTokens = []string{
	"#", "##", ">", "-", "*", "_", "`", "```", "~~~", "[", "]", "(", ")", "<", ">", "&", "{{", "}}", "{{ x }}", "\n", "\n\n", "\t",
	"\r", "\r\n", "\x00", "\xff", "\xc3", "\xe2\x80", "|", "---", "===", ":-:", "1.", "0.", "- [ ]", "![", "](", "\"", "'", "\\", "&#", "&amp;",
	"<!--", "-->", "<pre>", "</pre>", "<script>", "<?", "<![CDATA[", "<!D", "    ", "  ", " ", "a", "x y", "http://", "www.", "@", ":", "~~",
	"---\na: b\n---\n", "---\n[\n---\n", "---\n- 1\n---", "{{ content }}", "{{ a.b.c | f }}", "v-html=\"x\"", "<template>", "</template>", "<slot>",
}

// genSession draws 2-4 documents for one Markdown instance. The documents of the grammar already
// share their reference labels (r1, r2, ..); on top of that an earlier document gets explicit
// definitions and later ones use the same labels without defining them, or define them again with
// another destination (also in another case: labels match case-insensitively).
func genSession(rec *ev.Rec) func(t *rapid.T) Case {
	labels := []string{"foo", "r1", "r2", "Foo Bar", "é"}
	return func(t *rapid.T) Case {
		n := rapid.IntRange(2, 4).Draw(t, "docs")
		c := Case{LoadFirst: rapid.IntRange(0, 4).Draw(t, "loadFirst") == 4}
		for i := 0; i < n; i++ {
			g := newGen(t, rec)
			g.maxLines = maxDocLines - 6
			d := strings.TrimRight(g.document(), "\r\n")
			var extra []string
			k := rapid.IntRange(0, 2).Draw(t, "shared")
			for j := 0; j < k; j++ {
				l := rapid.SampledFrom(labels).Draw(t, "label")
				use := l
				if rapid.IntRange(0, 3).Draw(t, "upper") == 3 {
					use = strings.ToUpper(l)
				}
				switch rapid.IntRange(0, 4).Draw(t, "role") {
				case 0, 1: // definition (a redefinition when an earlier document has one) and a use
					extra = append(extra, fmt.Sprintf("see [%s] and [text][%s]", use, use), "",
						fmt.Sprintf("[%s]: /doc%d/%d \"title %d\"", l, i, j, i))
				case 2: // use without a definition in this document
					extra = append(extra, fmt.Sprintf("see [%s], [%s][] and [text][%s] ![img][%s]", use, use, use, use))
				case 3: // definition only
					extra = append(extra, fmt.Sprintf("[%s]: </doc%d> 'only %d'", l, i, i))
				default: // a use inside other constructs
					extra = append(extra, fmt.Sprintf("> - *[%s]* | [%s]", use, use))
				}
				extra = append(extra, "")
			}
			if len(extra) > 0 {
				d += "\n\n" + strings.Join(extra, "\n")
			}
			c.Docs = append(c.Docs, d+"\n")
			c.Via = append(c.Via, rapid.SampledFrom([]string{"bytes", "load"}).Draw(t, "via"))
		}
		return c
	}
}

func genBytes(rec *ev.Rec) func(t *rapid.T) Case {
	return func(t *rapid.T) Case {
		switch rapid.IntRange(0, 3).Draw(t, "mode") {
		case 0:
			return Case{Raw: rapid.SliceOfN(rapid.Byte(), 0, 120).Draw(t, "raw")}
		case 1:
			toks := rapid.SliceOfN(rapid.SampledFrom(byteTokens), 0, 50).Draw(t, "toks")
			return Case{Raw: []byte(strings.Join(toks, ""))}
		default:
			g := newGen(t, rec)
			g.full = true
			b := []byte(g.document())
			edits := rapid.IntRange(0, 6).Draw(t, "edits")
			for i := 0; i < edits && len(b) > 0; i++ {
				pos := rapid.IntRange(0, len(b)-1).Draw(t, "pos")
				switch rapid.IntRange(0, 2).Draw(t, "op") {
				case 0:
					b[pos] = rapid.Byte().Draw(t, "byte")
				case 1:
					b = append(b[:pos], b[pos+1:]...)
				default:
					tok := rapid.SampledFrom(byteTokens).Draw(t, "tok")
					b = append(b[:pos], append([]byte(tok), b[pos:]...)...)
				}
			}
			return Case{Raw: b}
		}
	}
}

// ---- TestProp ------------------------------------------------------------------------------

func TestProp(t *testing.T) {
	rec := ev.New(prop)
	defer run.Finish(t, rec)
	run.Witnesses(rec, prop, replay)

	st := &stats{tolerated: map[string]int{}}
	defer func() {
		for id, n := range st.tolerated {
			// cases whose verdict needed a comparator tolerance that exists only while the finding is open
			for i := 0; i < n; i++ {
				rec.Excluded(id)
			}
		}
		rec.Count("generated-but-in-open-region(skipped)", st.skipped)
		rec.Count("raw-html-tag-soup(skipped)", st.soup)
	}()
	shard, shards := run.Shard()

	// (1) override: enumerated subsets on the fixed document
	sink := kitchenSink()
	var subsets [][]string
	if run.Thorough() {
		for m := 0; m < 1<<len(templateNames); m++ {
			subsets = append(subsets, subsetOf(m))
		}
	} else {
		full := 1<<len(templateNames) - 1
		subsets = append(subsets, subsetOf(0), subsetOf(full))
		for i := range templateNames {
			subsets = append(subsets, subsetOf(1<<i), subsetOf(full&^(1<<i)))
			for j := i + 1; j < len(templateNames); j++ {
				subsets = append(subsets, subsetOf(1<<i|1<<j))
			}
		}
	}
	// the bracketing reference renderer must render exactly what the plain one renders
	for _, src := range append([]string{sink}, overrideRegressions...) {
		plain, _ := refHTML([]byte(src))
		br, _ := refHTMLBracketed([]byte(src), false, nil)
		if stripBrackets.Replace(br) != plain {
			t.Fatalf("harness: bracketed reference differs from the plain reference for %q", src)
		}
	}
	okAll := true
	if shard == 0 {
		// sources that once produced a false alarm of the override oracle, with every template overridden
		for _, src := range overrideRegressions {
			c := Case{Src: src, Override: subsetOf(1<<len(templateNames) - 1)}
			nt, cls := classifyOverride(c)
			if !run.Each(rec, "override-enum", c, nt, cls, func(c Case) error { return checkOverride(c, st) }) {
				okAll = false
			}
		}
	}
	// user templates without content (the way to suppress a construct): each name alone as an empty
	// and as a white-space-only file, each name empty with every other template marked, each
	// (empty, marked) pair, and all empty
	var blanks []Case
	full := 1<<len(templateNames) - 1
	for i, n := range templateNames {
		blanks = append(blanks,
			Case{Src: sink, Empty: []string{n}},
			Case{Src: sink, Empty: []string{n}, Blank: " \n\t\n"},
			Case{Src: sink, Empty: []string{n}, Override: subsetOf(full &^ (1 << i))})
		for j, m := range templateNames {
			if i != j {
				blanks = append(blanks, Case{Src: sink, Empty: []string{n}, Override: []string{m}})
			}
		}
	}
	blanks = append(blanks, Case{Src: sink, Empty: subsetOf(full)}, Case{Src: sink, Empty: subsetOf(full), Blank: "\n"})
	for i, c := range blanks {
		if i%shards != shard {
			continue
		}
		nt, cls := classifyOverride(c)
		if !run.Each(rec, "override-enum", c, nt, cls, func(c Case) error { return checkOverride(c, st) }) {
			okAll = false
			break
		}
	}
	if okAll {
		rec.Exhaustive("empty / white-space-only override file for each template alone, with all others marked, with each single other marked, and for all templates, on the fixed all-constructs document")
	}
	// storage: every kind of content filesystem x templates present at New / written afterwards, for
	// each template alone (marked, and empty) and for all templates marked
	var stored []Case
	for _, store := range stores {
		for _, late := range []bool{false, true} {
			if store == "map" && !late {
				continue // the cases above
			}
			stored = append(stored, Case{Src: sink, Override: subsetOf(full), Store: store, Late: late})
			for _, n := range templateNames {
				stored = append(stored, Case{Src: sink, Override: []string{n}, Store: store, Late: late},
					Case{Src: sink, Empty: []string{n}, Store: store, Late: late})
			}
		}
	}
	for i, c := range stored {
		if i%shards != shard {
			continue
		}
		nt, cls := classifyOverride(c)
		if !run.Each(rec, "override-enum", c, nt, cls, func(c Case) error { return checkOverride(c, st) }) {
			okAll = false
			break
		}
	}
	if okAll {
		rec.Exhaustive("content FS kind {map, memfs, open-only, flat (no directories)} x {templates present at New, written after New}: each template alone marked, alone empty, and all marked, on the fixed all-constructs document")
	}
	for i, s := range subsets {
		if i%shards != shard {
			continue
		}
		c := Case{Src: sink, Override: s}
		nt, cls := classifyOverride(c)
		if !run.Each(rec, "override-enum", c, nt, cls, func(c Case) error { return checkOverride(c, st) }) {
			okAll = false
			break
		}
	}
	if okAll {
		if run.Thorough() {
			rec.Exhaustive(fmt.Sprintf("every subset of the %d overridable templates (2^%d) on the fixed all-constructs document", len(templateNames), len(templateNames)))
		} else {
			rec.Exhaustive("empty, full, every single, every pair and every all-but-one subset of the overridable templates on the fixed all-constructs document")
		}
	}

	// (2) generated documents against the reference
	run.Rapid(t, rec, "doc", func(t *rapid.T) Case {
		g := newGen(t, rec)
		g.binary = true
		src := g.document()
		c := Case{Files: genConfig(t)}
		if utf8.ValidString(src) {
			c.Src = src
		} else {
			c.Raw = []byte(src)
		}
		return c
	}, classifyDoc, func(c Case) error { return checkDoc(c, st) })

	// (3) generated documents x random subsets of overridden templates
	run.Rapid(t, rec, "override", func(t *rapid.T) Case {
		g := newGen(t, rec)
		src := g.document()
		var s, e []string
		blank := ""
		switch rapid.IntRange(0, 6).Draw(t, "density") {
		case 0:
			s = []string{rapid.SampledFrom(templateNames).Draw(t, "one")}
		case 1:
			s = subsetOf(rapid.IntRange(0, 1<<len(templateNames)-1).Draw(t, "mask"))
		case 2:
			s = subsetOf(rapid.IntRange(0, 1<<len(templateNames)-1).Draw(t, "mask") | rapid.IntRange(0, 1<<len(templateNames)-1).Draw(t, "mask2"))
		case 3:
			s = subsetOf(1<<len(templateNames) - 1)
		case 4: // one empty file, the rest default or marked
			one := rapid.IntRange(0, len(templateNames)-1).Draw(t, "emptyOne")
			e = []string{templateNames[one]}
			s = subsetOf(rapid.IntRange(0, 1<<len(templateNames)-1).Draw(t, "mask") &^ (1 << one))
		default: // every template default, marked or empty
			em := rapid.IntRange(0, 1<<len(templateNames)-1).Draw(t, "emptyMask") & rapid.IntRange(0, 1<<len(templateNames)-1).Draw(t, "emptyMask2")
			e = subsetOf(em)
			s = subsetOf(rapid.IntRange(0, 1<<len(templateNames)-1).Draw(t, "mask") &^ em)
		}
		if len(e) > 0 {
			blank = rapid.SampledFrom([]string{"", "", "\n", " \n\t\n", "  "}).Draw(t, "blank")
		}
		store := rapid.SampledFrom(stores).Draw(t, "store")
		late := rapid.IntRange(0, 2).Draw(t, "late") == 2
		return Case{Src: src, Override: s, Empty: e, Blank: blank, Store: store, Late: late, Files: genConfig(t)}
	}, classifyOverride, func(c Case) error { return checkOverride(c, st) })

	// (4) histories: several documents on one Markdown instance, sharing link reference labels
	run.Rapid(t, rec, "session", genSession(rec), classifySession, func(c Case) error { return checkSession(c, st) })

	// (4') one long-lived renderer while user templates are added, edited and removed
	run.Rapid(t, rec, "life", genLife(rec), classifyLife, func(c Case) error { return checkLife(c, st) })

	// (4a) what a failed or aborted render leaves behind
	run.Rapid(t, rec, "after", genAfter(rec), classifyAfter, func(c Case) error { return checkAfter(c, st) })

	// (4b) the Load path with YAML front matter and --- lines in the body
	run.Rapid(t, rec, "front", genFront(rec), classifyFront, func(c Case) error { return checkFront(c, st) })

	// (5) arbitrary byte strings: rendering never fails
	run.Rapid(t, rec, "bytes", genBytes(rec), classifyBytes, checkBytes)
}

func subsetOf(mask int) []string {
	var s []string
	for i, n := range templateNames {
		if mask&(1<<i) != 0 {
			s = append(s, n)
		}
	}
	return s
}

func TestReplay(t *testing.T) { run.ReplayMain(t, prop, replay) }

// FuzzMarkdown is the native fuzz target for "rendering never fails for any document".
func FuzzMarkdown(f *testing.F) {
	for _, s := range []string{
		"# h\n\npara *em* `c` [l](/u \"t\")\n", "- [ ] a\n- [x] b\n", "| a | b |\n|:-|-:|\n| 1 | 2 |\n", "```go\n{{ x }}\n```\n",
		"<pre>\nx\n</pre>\n", "a  \nb\\\nc", "---\na: b\n---\n# t", "{{ content }} {{ x | y }} {{", "<a@b.co> www.x.y <http://z>", "\x00\xff\xfe",
		"0. x\n1) y\n", "> q\n> > r\n", "![a](b 'c') &amp; &#0; \\*", kitchenSink(),
	} {
		f.Add([]byte(s))
	}
	f.Fuzz(func(t *testing.T, data []byte) {
		c := Case{Raw: data}
		if err := run.Safe(func() error { return checkBytes(c) }); err != nil {
			rec := ev.New(prop)
			rec.Fail("bytes", c, err)
			rec.Finish()
			t.Fatal(err)
		}
	})
}
