package c20

// Storage dimension of the override check: what kind of fs.FS the user's templates live in, and
// whether they are in it when markdown.New is called or only by the time of the render. The
// statement only says "a user template placed in the content filesystem replaces ... the default
// template"; it does not ask for a particular kind of filesystem, for directories that can be
// listed or stat'ed, or for the template to exist before the renderer is constructed.

import (
	"bytes"
	"io"
	"io/fs"
	"path"
	"sort"
	"testing/fstest"
	"time"

	"verif/internal/memfs"
)

var stores = []string{"map", "memfs", "openonly", "flat"}

// userFS is a content filesystem that can still be written to after markdown.New.
type userFS interface {
	fs.FS
	put(name, content string)
}

type mapStore struct{ fstest.MapFS }

func (m mapStore) put(name, content string) {
	m.MapFS[name] = &fstest.MapFile{Data: []byte(content), Mode: 0o644}
}

type memStore struct{ *memfs.FS }

func (m memStore) put(name, content string) { m.FS.Write(name, content, time.Unix(1000, 0)) }

// openOnly offers nothing but Open (no Stat / ReadDir / ReadFile methods); directories can be opened.
type openOnly struct{ m fstest.MapFS }

func (o openOnly) Open(name string) (fs.File, error) { return o.m.Open(name) }
func (o openOnly) put(name, content string) {
	o.m[name] = &fstest.MapFile{Data: []byte(content), Mode: 0o644}
}

// flat knows files by their full name only, like a key-value, HTTP or archive backed store:
// directories do not exist (Open / Stat of "markdown" report not-exist, nothing can be listed).
type flat struct{ files map[string]string }

func (f flat) put(name, content string) { f.files[name] = content }
func (f flat) Open(name string) (fs.File, error) {
	if !fs.ValidPath(name) {
		return nil, &fs.PathError{Op: "open", Path: name, Err: fs.ErrInvalid}
	}
	c, ok := f.files[name]
	if !ok {
		return nil, &fs.PathError{Op: "open", Path: name, Err: fs.ErrNotExist}
	}
	return &flatFile{name: path.Base(name), r: bytes.NewReader([]byte(c)), size: int64(len(c))}, nil
}

type flatFile struct {
	name string
	r    *bytes.Reader
	size int64
}

func (f *flatFile) Read(p []byte) (int, error) { return f.r.Read(p) }
func (f *flatFile) Close() error               { return nil }
func (f *flatFile) Stat() (fs.FileInfo, error) { return flatInfo{f.name, f.size}, nil }

type flatInfo struct {
	name string
	size int64
}

func (i flatInfo) Name() string       { return i.name }
func (i flatInfo) Size() int64        { return i.size }
func (i flatInfo) Mode() fs.FileMode  { return 0o644 }
func (i flatInfo) ModTime() time.Time { return time.Unix(1000, 0) }
func (i flatInfo) IsDir() bool        { return false }
func (i flatInfo) Sys() any           { return nil }

var _ io.Reader = (*flatFile)(nil)

func newStore(kind string) userFS {
	switch kind {
	case "memfs":
		return memStore{memfs.New()}
	case "openonly":
		return openOnly{fstest.MapFS{}}
	case "flat":
		return flat{map[string]string{}}
	}
	return mapStore{fstest.MapFS{}}
}

func sortedKeys(m map[string]string) []string {
	out := make([]string, 0, len(m))
	for k := range m {
		out = append(out, k)
	}
	sort.Strings(out)
	return out
}
