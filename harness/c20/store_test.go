package c20

// Storage dimension of the override check: what kind of fs.FS the user's templates live in, and
// whether they are in it when markdown.New is called or only by the time of the render. The
// statement only says "a user template placed in the content filesystem replaces ... the default
// template"; it does not ask for a particular kind of filesystem, for directories that can be
// listed or stat'ed, or for the template to exist before the renderer is constructed.

import (
	"bytes"
	"io"
	"io/fs"
	"os"
	"path"
	"path/filepath"
	"sort"
	"strings"
	"testing/fstest"
	"time"

	"verif/internal/memfs"
)

var stores = []string{"map", "memfs", "openonly", "flat", "sub", "dirfs", "dirfs-symlink"}

// userFS is a content filesystem that can still be written to after markdown.New.
type userFS interface {
	fs.FS
	put(name, content string)
}

// mutableFS can also remove files and stamps every change with a modification time of its own
// (step counts the changes; later changes carry later times).
type mutableFS interface {
	userFS
	del(name string)
	tick()
}

type mapStore struct{ fstest.MapFS }

func (m mapStore) put(name, content string) {
	m.MapFS[name] = &fstest.MapFile{Data: []byte(content), Mode: 0o644}
}

type memStore struct {
	*memfs.FS
	now time.Time
}

func (m *memStore) put(name, content string) { m.FS.Write(name, content, m.now) }
func (m *memStore) del(name string)          { m.FS.Remove(name) }
func (m *memStore) tick()                    { m.now = m.now.Add(3 * time.Second) }

// openOnly offers nothing but Open (no Stat / ReadDir / ReadFile methods); directories can be opened.
type openOnly struct{ m fstest.MapFS }

func (o openOnly) Open(name string) (fs.File, error) { return o.m.Open(name) }
func (o openOnly) put(name, content string) {
	o.m[name] = &fstest.MapFile{Data: []byte(content), Mode: 0o644}
}

// flat knows files by their full name only, like a key-value, HTTP or archive backed store:
// directories do not exist (Open / Stat of "markdown" report not-exist, nothing can be listed).
type flat struct{ files map[string]string }

func (f flat) put(name, content string) { f.files[name] = content }
func (f flat) Open(name string) (fs.File, error) {
	if !fs.ValidPath(name) {
		return nil, &fs.PathError{Op: "open", Path: name, Err: fs.ErrInvalid}
	}
	c, ok := f.files[name]
	if !ok {
		return nil, &fs.PathError{Op: "open", Path: name, Err: fs.ErrNotExist}
	}
	return &flatFile{name: path.Base(name), r: bytes.NewReader([]byte(c)), size: int64(len(c))}, nil
}

type flatFile struct {
	name string
	r    *bytes.Reader
	size int64
}

func (f *flatFile) Read(p []byte) (int, error) { return f.r.Read(p) }
func (f *flatFile) Close() error               { return nil }
func (f *flatFile) Stat() (fs.FileInfo, error) { return flatInfo{f.name, f.size}, nil }

type flatInfo struct {
	name string
	size int64
}

func (i flatInfo) Name() string       { return i.name }
func (i flatInfo) Size() int64        { return i.size }
func (i flatInfo) Mode() fs.FileMode  { return 0o644 }
func (i flatInfo) ModTime() time.Time { return time.Unix(1000, 0) }
func (i flatInfo) IsDir() bool        { return false }
func (i flatInfo) Sys() any           { return nil }

var _ io.Reader = (*flatFile)(nil)

func newStore(kind string) (userFS, func()) {
	none := func() {}
	switch kind {
	case "memfs":
		return &memStore{FS: memfs.New(), now: time.Unix(1_700_000_000, 0)}, none
	case "openonly":
		return openOnly{fstest.MapFS{}}, none
	case "flat":
		return flat{map[string]string{}}, none
	case "sub":
		return newSubStore(), none
	case "dirfs", "dirfs-symlink":
		d, err := newDirStore(kind == "dirfs-symlink")
		if err != nil {
			panic("harness: cannot create a temporary directory: " + err.Error())
		}
		return d, func() { _ = os.RemoveAll(d.root) }
	}
	return mapStore{fstest.MapFS{}}, none
}

// subStore: the content filesystem is fs.Sub of a larger one.
type subStore struct {
	fs.FS
	m fstest.MapFS
}

func newSubStore() subStore {
	m := fstest.MapFS{"site/keep.txt": &fstest.MapFile{Data: []byte("x")}, "other/markdown/paragraph.vuego": &fstest.MapFile{Data: []byte("<p>WRONG</p>")}}
	sub, err := fs.Sub(m, "site")
	if err != nil {
		panic(err)
	}
	return subStore{FS: sub, m: m}
}
func (s subStore) put(name, content string) {
	s.m["site/"+name] = &fstest.MapFile{Data: []byte(content), Mode: 0o644}
}

// dirStore: a real directory below the system's temporary directory, served by os.DirFS. With
// symlink set, every markdown/*.vuego is a symbolic link to a file kept elsewhere in the directory.
type dirStore struct {
	fs.FS
	root    string
	symlink bool
	now     time.Time
}

func newDirStore(symlink bool) (*dirStore, error) {
	root, err := os.MkdirTemp("", "verif-c20-")
	if err != nil {
		return nil, err
	}
	return &dirStore{FS: os.DirFS(root), root: root, symlink: symlink, now: time.Unix(1_700_000_000, 0)}, nil
}

func (d *dirStore) tick() { d.now = d.now.Add(3 * time.Second) }

func (d *dirStore) put(name, content string) {
	target := filepath.Join(d.root, filepath.FromSlash(name))
	if d.symlink && strings.HasPrefix(name, "markdown/") {
		real := filepath.Join(d.root, "real", path.Base(name))
		_ = os.MkdirAll(filepath.Dir(real), 0o755)
		_ = os.MkdirAll(filepath.Dir(target), 0o755)
		if err := os.WriteFile(real, []byte(content), 0o644); err != nil {
			panic(err)
		}
		_ = os.Chtimes(real, d.now, d.now)
		_ = os.Remove(target)
		if err := os.Symlink(filepath.Join("..", "real", path.Base(name)), target); err != nil {
			panic(err)
		}
		return
	}
	_ = os.MkdirAll(filepath.Dir(target), 0o755)
	if err := os.WriteFile(target, []byte(content), 0o644); err != nil {
		panic(err)
	}
	_ = os.Chtimes(target, d.now, d.now)
}

func (d *dirStore) del(name string) {
	_ = os.Remove(filepath.Join(d.root, filepath.FromSlash(name)))
	if d.symlink {
		_ = os.Remove(filepath.Join(d.root, "real", path.Base(name)))
	}
}

func sortedKeys(m map[string]string) []string {
	out := make([]string, 0, len(m))
	for k := range m {
		out = append(out, k)
	}
	sort.Strings(out)
	return out
}
