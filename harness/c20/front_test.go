package c20

// Kind "front": the Load path for files with YAML front matter. markdown.go documents: "YAML front
// matter delimited by --- is extracted and available via FrontMatter()" and "Front matter must be
// delimited by --- on its own line at the start of the file". Oracle: the rendered document has the
// structure and text of the reference rendering of the body alone, and FrontMatter() equals the
// YAML block alone decoded with gopkg.in/yaml.v3 (never with vuego).

import (
	"bytes"
	"fmt"
	"reflect"
	"regexp"
	"strings"
	"testing/fstest"

	"github.com/titpetric/vuego/markdown"
	yaml "gopkg.in/yaml.v3"
	"pgregory.net/rapid"

	"verif/internal/ev"
)

const (
	fFrontDashes = "C20-frontmatter-dashes-in-value" // a --- inside a front matter value ends the block
	fFrontTrim   = "C20-frontmatter-body-trim"       // the body is TrimSpace'd: leading indentation of its first line is lost
)

// frontFile assembles the file of a "front" case.
func frontFile(c Case) string {
	if !c.HasFM {
		return c.Src
	}
	fm := c.FM
	if fm != "" && !strings.HasSuffix(fm, "\n") {
		fm += "\n"
	}
	return "---\n" + fm + "---\n" + c.Src
}

func checkFront(c Case, st *stats) error {
	if !c.HasFM && strings.HasPrefix(c.Src, "---") {
		return nil // a file that starts with --- is, as documented, read as front matter: not a case
	}
	file := frontFile(c)
	md := markdown.New(fstest.MapFS{"post.md": &fstest.MapFile{Data: []byte(file), Mode: 0o644}})
	doc, err := md.Load("post.md")
	if err != nil {
		return fmt.Errorf("Load of a file with front matter failed: %v\n  file: %q", err, clip(file, 700))
	}
	var b bytes.Buffer
	rerr := doc.Render(&b)
	got := b.String()
	ref, e := refHTML([]byte(c.Src))
	if e != nil {
		return nil
	}
	if rerr != nil {
		return fmt.Errorf("rendering failed: %v%s", rerr, describe(file, ref, got))
	}
	// front matter: the YAML block alone
	var want map[string]any
	if c.HasFM {
		if err := yaml.Unmarshal([]byte(c.FM), &want); err != nil {
			return nil // not a YAML mapping: what Load does with it is not documented
		}
	}
	if gotFM := doc.FrontMatter(); len(want) != len(gotFM) || (len(want) > 0 && !reflect.DeepEqual(want, gotFM)) {
		return fmt.Errorf("FrontMatter() = %#v, the YAML block alone decodes to %#v\n  file: %q", gotFM, want, clip(file, 700))
	}
	// body: the reference rendering of the body alone
	if !c.Strict {
		if st.skip(Case{Src: c.Src}, analyse([]byte(c.Src))) {
			return nil
		}
		if c.HasFM && isOpen(fFrontTrim) {
			// exact region of the open finding, computed on the reference side: trimming the body
			// changes what it means
			trimmed, _ := refHTML([]byte(strings.TrimSpace(c.Src)))
			if d, _ := compare(ref, trimmed, tol{}); d != "" {
				if st != nil {
					st.add([]string{fFrontTrim})
					st.skipped++
				}
				return nil
			}
		}
	}
	d, tolerated := compare(ref, got, tolerances(c))
	if d != "" {
		return fmt.Errorf("Load+Render of front matter + body differs from the reference rendering of the body alone: %s%s", d, describe(file, ref, got))
	}
	st.add(tolerated)
	return nil
}

var (
	dashLineRe  = regexp.MustCompile(`(?m)^ {0,3}-{3,}[ \t]*$`)
	dashFenceRe = regexp.MustCompile("(?ms)^(```|~~~)[^\\n]*\\n(.*\\n)?---[ \\t]*\\n")
)

func classifyFront(c Case) (bool, []string) {
	var cls []string
	if c.HasFM {
		cls = append(cls, "front-matter")
		switch {
		case strings.TrimSpace(c.FM) == "":
			cls = append(cls, "front-matter-empty-block")
		default:
			if strings.Contains(c.FM, "\n  ") {
				cls = append(cls, "front-matter-nested-or-multiline")
			}
			if strings.Contains(c.FM, "[") || strings.Contains(c.FM, "\n- ") || strings.Contains(c.FM, "\n  - ") {
				cls = append(cls, "front-matter-list")
			}
			if strings.Contains(c.FM, "---") {
				cls = append(cls, "front-matter-dashes-in-value")
			}
		}
	} else {
		cls = append(cls, "no-front-matter")
	}
	n := len(dashLineRe.FindAllString(c.Src, -1))
	switch {
	case n == 1:
		cls = append(cls, "body-dash-lines=1")
	case n > 1:
		cls = append(cls, "body-dash-lines>1")
	}
	if dashFenceRe.MatchString(c.Src) {
		cls = append(cls, "body-dashes-inside-fenced-code")
	}
	fa := analyse([]byte(c.Src))
	if fa.classes["thematic-break"] {
		cls = append(cls, "body-thematic-break")
	}
	if fa.classes["heading-setext"] {
		cls = append(cls, "body-setext-heading")
	}
	return c.HasFM && n > 0, cls
}

var (
	fmKeys    = []string{"title", "date", "draft", "tags", "n", "layout", "summary", "author"}
	fmScalars = []string{"Hello", "\"a: b\"", "'it''s'", "2024-01-02", "true", "false", "42", "3.5", "null", "é 日本", "\"# not a heading\"", "a - b", "-- x", "\"{{ content }}\"", "\"<b>&amp;\"", "~"}
	fmDashes  = []string{"a --- b", "\"---\"", "x---y", "--- lead"}
	dashBlock = [][]string{
		{"---"}, {"----"}, {"--- "}, {"text", "---"}, {"```", "---", "```"}, {"~~~yaml", "---", "a: b", "---", "~~~"},
		{"- - -"}, {"> ---"}, {"- ---"}, {"text", "----------"}, {" ---"}, {"---", "", "---"}, {"* a", "", "---", "", "* b"},
	}
)

func genFront(rec *ev.Rec) func(t *rapid.T) Case {
	return func(t *rapid.T) Case {
		g := newGen(t, rec)
		g.maxLines = maxDocLines - 12
		c := Case{HasFM: rapid.IntRange(0, 9).Draw(t, "hasFM") > 0}
		if c.HasFM {
			var lines []string
			used := map[string]bool{}
			n := rapid.IntRange(0, 4).Draw(t, "keys")
			for i := 0; i < n; i++ {
				k := rapid.SampledFrom(fmKeys).Draw(t, "key")
				if used[k] {
					continue
				}
				used[k] = true
				scalar := func(label string) string {
					if rapid.IntRange(0, 9).Draw(t, label+"dash") == 9 && g.allow(fFrontDashes) {
						return rapid.SampledFrom(fmDashes).Draw(t, label+"d")
					}
					return rapid.SampledFrom(fmScalars).Draw(t, label)
				}
				switch rapid.IntRange(0, 6).Draw(t, "shape") {
				case 0, 1, 2:
					lines = append(lines, k+": "+scalar("v"))
				case 3:
					lines = append(lines, k+": ["+scalar("v1")+", "+scalar("v2")+"]")
				case 4:
					lines = append(lines, k+":", "  - "+scalar("v1"), "  - "+scalar("v2"))
				case 5:
					lines = append(lines, k+":", "  name: "+scalar("v1"), "  deep:", "    x: "+scalar("v2"))
				default:
					lines = append(lines, k+": |", "  first line", "  second line", "", "  after a blank")
				}
				if rapid.IntRange(0, 5).Draw(t, "comment") == 5 {
					lines = append(lines, "# a comment")
				}
			}
			c.FM = strings.Join(lines, "\n")
			if len(lines) > 0 {
				c.FM += "\n"
			}
		}
		// body: grammar document with dash constructs mixed in
		parts := []string{strings.TrimRight(g.document(), "\r\n")}
		k := rapid.IntRange(0, 3).Draw(t, "dashBlocks")
		for i := 0; i < k; i++ {
			blk := strings.Join(rapid.SampledFrom(dashBlock).Draw(t, "dash"), "\n")
			if rapid.IntRange(0, 1).Draw(t, "before") == 1 && c.HasFM {
				parts = append([]string{blk}, parts...)
			} else {
				parts = append(parts, blk)
			}
		}
		body := strings.Join(parts, "\n\n") + "\n"
		if rapid.IntRange(0, 3).Draw(t, "leadBlank") == 3 {
			body = "\n" + body
		}
		c.Src = strings.ReplaceAll(body, "\r\n", "\n")
		return c
	}
}
