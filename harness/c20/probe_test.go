package c20

import (
	"bytes"
	"fmt"
	"os"
	"strings"
	"testing"

	"github.com/titpetric/vuego/markdown"
	"github.com/yuin/goldmark"
	"github.com/yuin/goldmark/extension"
	ghtml "github.com/yuin/goldmark/renderer/html"
)

func TestProbe(t *testing.T) {
	b, err := os.ReadFile(os.Getenv("PROBE"))
	if err != nil {
		t.Skip()
	}
	docs := strings.Split(string(b), "\n====\n")
	ref := goldmark.New(goldmark.WithExtensions(extension.GFM), goldmark.WithRendererOptions(ghtml.WithUnsafe()))
	for _, d := range docs {
		var g, v bytes.Buffer
		_ = ref.Convert([]byte(d), &g)
		err := markdown.New(nil).RenderBytes(&v, []byte(d))
		fmt.Printf("--- SRC %q\nREF %q\nGOT %q err=%v\n", d, g.String(), v.String(), err)
	}
}
