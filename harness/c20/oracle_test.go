package c20

// Oracle side of C20: the reference rendering (goldmark's own HTML renderer, GFM, unsafe HTML passed
// through like the CommonMark reference implementation does) and the normal form in which the two
// outputs are compared. Nothing in this file calls vuego.

import (
	"bytes"
	"fmt"
	"regexp"
	"sort"
	"strings"
	"unicode"
	"unicode/utf8"

	"github.com/yuin/goldmark"
	"github.com/yuin/goldmark/ast"
	"github.com/yuin/goldmark/extension"
	east "github.com/yuin/goldmark/extension/ast"
	"github.com/yuin/goldmark/parser"
	"github.com/yuin/goldmark/renderer"
	ghtml "github.com/yuin/goldmark/renderer/html"
	"github.com/yuin/goldmark/text"
	"github.com/yuin/goldmark/util"
	"golang.org/x/net/html"

	"verif/internal/hx"
)

// refParser is configured exactly like /repo/markdown/markdown.go:New configures its parser
// (goldmark.New(goldmark.WithExtensions(extension.GFM))), so both sides see the same AST.
func refParser() parser.Parser {
	return goldmark.New(goldmark.WithExtensions(extension.GFM)).Parser()
}

// Sentinels that bracket, in the reference output of the override check, every byte range that
// the reference renderer copied from raw HTML of the source (inline RawHTML nodes, HTMLBlock lines
// and closure line). Private-use code points; a source that contains them is not checked.
const (
	rawStart = "\uE000"
	rawEnd   = "\uE001"
)

// capture records goldmark's own node renderer functions so that the bracketing renderer below can
// delegate to them instead of re-implementing them.
type capture map[ast.NodeKind]renderer.NodeRendererFunc

func (c capture) Register(k ast.NodeKind, f renderer.NodeRendererFunc) { c[k] = f }

// rawBracket is the node renderer of the override check's reference: raw HTML is rendered by
// goldmark's own functions, bracketed by the sentinels; with wrap set an inline raw HTML node is
// additionally put inside the wrapper that the check's replacement raw_html template adds.
type rawBracket struct {
	std  capture
	wrap bool
	drop map[ast.NodeKind]bool // node kinds whose user template is empty: they contribute nothing
}

// templateKinds says which AST node kinds are rendered through which default template (read off
// markdown.go:renderNode / renderInlineNode; hard_break is not a node kind of its own, see markRef).
var templateKinds = map[string][]ast.NodeKind{
	"paragraph":      {ast.KindParagraph},
	"heading":        {ast.KindHeading},
	"code_block":     {ast.KindFencedCodeBlock, ast.KindCodeBlock},
	"blockquote":     {ast.KindBlockquote},
	"list":           {ast.KindList},
	"list_item":      {ast.KindListItem},
	"thematic_break": {ast.KindThematicBreak},
	"table":          {east.KindTable},
	"code_span":      {ast.KindCodeSpan},
	"emphasis":       {ast.KindEmphasis},
	"link":           {ast.KindLink},
	"image":          {ast.KindImage},
	"autolink":       {ast.KindAutoLink},
	"raw_html":       {ast.KindRawHTML},
	"strikethrough":  {east.KindStrikethrough},
	"task_checkbox":  {east.KindTaskCheckBox},
}

func dropKinds(empty map[string]bool) map[ast.NodeKind]bool {
	out := map[ast.NodeKind]bool{}
	for name := range empty {
		for _, k := range templateKinds[name] {
			out[k] = true
		}
	}
	return out
}

func (r rawBracket) RegisterFuncs(reg renderer.NodeRendererFuncRegisterer) {
	defer func() {
		// registered last so that they win over the bracketing functions for the same kind
		for k := range r.drop {
			reg.Register(k, func(w util.BufWriter, source []byte, node ast.Node, entering bool) (ast.WalkStatus, error) {
				return ast.WalkSkipChildren, nil // nothing is written, children are not visited
			})
		}
	}()
	reg.Register(ast.KindRawHTML, func(w util.BufWriter, source []byte, node ast.Node, entering bool) (ast.WalkStatus, error) {
		if !entering {
			return r.std[ast.KindRawHTML](w, source, node, entering)
		}
		if r.wrap {
			_, _ = w.WriteString(`<span data-ov="raw_html">`)
		}
		_, _ = w.WriteString(rawStart)
		st, err := r.std[ast.KindRawHTML](w, source, node, entering)
		_, _ = w.WriteString(rawEnd)
		if r.wrap {
			_, _ = w.WriteString(`</span>`)
		}
		return st, err
	})
	reg.Register(ast.KindHTMLBlock, func(w util.BufWriter, source []byte, node ast.Node, entering bool) (ast.WalkStatus, error) {
		// goldmark writes the lines when entering and the closure line when leaving
		_, _ = w.WriteString(rawStart)
		st, err := r.std[ast.KindHTMLBlock](w, source, node, entering)
		_, _ = w.WriteString(rawEnd)
		return st, err
	})
}

// refHTML renders src with the reference renderer.
func refHTML(src []byte) (string, error) {
	var b bytes.Buffer
	err := goldmark.New(goldmark.WithExtensions(extension.GFM), goldmark.WithRendererOptions(ghtml.WithUnsafe())).Convert(src, &b)
	return b.String(), err
}

// refHTMLBracketed is refHTML with the raw HTML ranges bracketed (inline raw HTML wrapped when
// wrapRaw is set) and with the nodes of the kinds in drop left out together with their content.
func refHTMLBracketed(src []byte, wrapRaw bool, drop map[ast.NodeKind]bool) (string, error) {
	std := capture{}
	ghtml.NewRenderer(ghtml.WithUnsafe()).RegisterFuncs(std)
	var b bytes.Buffer
	err := goldmark.New(
		goldmark.WithExtensions(extension.GFM),
		goldmark.WithRendererOptions(ghtml.WithUnsafe(), renderer.WithNodeRenderers(util.Prioritized(rawBracket{std: std, wrap: wrapRaw, drop: drop}, 1))),
	).Convert(src, &b)
	return b.String(), err
}

var stripBrackets = strings.NewReplacer(rawStart, "", rawEnd, "")

// ---- normal form -------------------------------------------------------------------------

// tol lists the comparator tolerances that are switched on only while the corresponding known
// finding is open (and never for a Strict case, which is what the witnesses are).
type tol struct {
	prePadding  bool // C20-pre-padding: whitespace-only text directly inside <pre> next to <code>
	inlineSpace bool // C20-inline-newline: words compared with all whitespace removed
	codeNL      bool // C20-code-span-line-ending: a line ending inside a code span counts as a space
	trimNBSP    bool // C20-content-trim-nbsp: documents whose reference has an element starting/ending with a non-ASCII space are not compared
}

// htmlFields splits at HTML white space only (space, tab, LF, FF, CR). U+00A0 and the other
// Unicode spaces are characters of the text: they do not collapse and are compared.
func htmlFields(s string) []string {
	return strings.FieldsFunc(s, func(r rune) bool {
		return r == ' ' || r == '\t' || r == '\n' || r == '\f' || r == '\r'
	})
}

// trimTags are the elements whose content the default templates bind with v-html.
var trimTags = map[string]bool{"p": true, "h1": true, "h2": true, "h3": true, "h4": true, "h5": true, "h6": true,
	"em": true, "strong": true, "a": true, "del": true, "li": true, "th": true, "td": true, "blockquote": true}

// unicodeSpaceEdge reports whether some element bound with v-html starts or ends (HTML white space
// aside) with a Unicode space that is not HTML white space, e.g. U+00A0 from &nbsp;.
func unicodeSpaceEdge(nodes []*html.Node) bool {
	found := false
	isUS := func(r rune) bool {
		return unicode.IsSpace(r) && !(r == ' ' || r == '\t' || r == '\n' || r == '\f' || r == '\r')
	}
	var walk func(n *html.Node)
	walk = func(n *html.Node) {
		if n.Type == html.ElementNode && trimTags[n.Data] {
			// the text of the element, descendants included (its last text may sit in an unclosed
			// raw element such as <q>)
			var sb strings.Builder
			var text func(*html.Node)
			text = func(x *html.Node) {
				if x.Type == html.TextNode {
					sb.WriteString(x.Data)
				}
				for c := x.FirstChild; c != nil; c = c.NextSibling {
					text(c)
				}
			}
			text(n)
			t := strings.Trim(sb.String(), " \t\n\f\r")
			if t != "" {
				if r, _ := utf8.DecodeRuneInString(t); isUS(r) {
					found = true
				}
				if r, _ := utf8.DecodeLastRuneInString(t); isUS(r) {
					found = true
				}
			}
		}
		for c := n.FirstChild; c != nil; c = c.NextSibling {
			walk(c)
		}
	}
	for _, n := range nodes {
		walk(n)
	}
	return found
}

var exactText = map[string]bool{"pre": true, "textarea": true, "script": true, "style": true}

// a line ending inside a code span reads as one space (CommonMark 6.1). goldmark turns the LF of a
// CR LF into that space and leaves the CR in front of it, which the HTML parser reads as LF: "\n "
// on the reference side is the same single line ending. (A continuation line never starts with a
// space, leading white space of paragraph lines is stripped, so "\n " has no other source.)
var codeNL = regexp.MustCompile(`\n ?`)

var alignRe = regexp.MustCompile(`^\s*text-align:\s*(left|center|right)\s*;?\s*$`)

// normAttrs applies the documented presentation equivalences. The statement fixes "destinations and
// titles, list starts, alignment"; it does not fix how they are spelled:
//   - heading id attributes are an extra of vuego's templates: ignored;
//   - align="x" on a cell == style="text-align:x";
//   - <ol> without start == start="1";
//   - <img> without alt == alt=""; white space runs in alt collapsed (it is text);
//   - an empty title == no title (neither has a tooltip);
//   - href/src are compared exactly.
func normAttrs(tag string, a map[string]string) map[string]string {
	if a == nil {
		a = map[string]string{}
	}
	switch tag {
	case "h1", "h2", "h3", "h4", "h5", "h6":
		delete(a, "id")
	case "th", "td":
		if m := alignRe.FindStringSubmatch(a["style"]); m != nil {
			if _, has := a["align"]; !has {
				a["align"] = m[1]
				delete(a, "style")
			}
		}
	case "ol":
		if _, ok := a["start"]; !ok {
			a["start"] = "1"
		}
	case "img":
		// the description is text: white space runs collapsed like other text
		a["alt"] = strings.Join(htmlFields(a["alt"]), " ")
	}
	if tag == "a" || tag == "img" {
		if v, ok := a["title"]; ok && v == "" {
			delete(a, "title")
		}
		// href / src are compared exactly: the statement names the destinations, and the reference
		// percent-encodes them
	}
	if len(a) == 0 {
		return nil
	}
	return a
}

func kidsOf(n *html.Node) []*html.Node {
	var out []*html.Node
	for c := n.FirstChild; c != nil; c = c.NextSibling {
		out = append(out, c)
	}
	return out
}

// mode of text comparison below a node
const (
	mCollapse = iota // whitespace runs collapsed, ends of runs trimmed, empty runs dropped
	mExact           // pre, textarea, script, style: byte-exact
	mCode            // code span: exact except that a line ending counts as a space (CommonMark 6.1)
	mScript          // script, style: exact after decoding character references
)

// norm reduces a parsed sibling list to hx.N form.
func norm(nodes []*html.Node, mode int, t tol) []*hx.N {
	var out []*hx.N
	var pending strings.Builder
	has := false
	flush := func() {
		if !has {
			return
		}
		// the HTML input stream turns CR LF and CR into LF; a CR written as &#13; survives as a
		// character. Neither is a visible difference.
		s := strings.ReplaceAll(strings.ReplaceAll(pending.String(), "\r\n", "\n"), "\r", "\n")
		pending.Reset()
		has = false
		switch mode {
		case mScript:
			// Markdown text that ends up inside a raw <script>/<style> element of the source is not
			// entity-decoded by the HTML parser; whether such text is written as > or &gt; is a
			// spelling the statement does not fix.
			s = html.UnescapeString(s)
		case mCollapse:
			s = strings.Join(htmlFields(s), " ")
		case mCode:
			if t.codeNL {
				s = codeNL.ReplaceAllString(s, " ")
			} else {
				// exact, apart from goldmark's CR LF artefact (see codeNL): "\n " is the one space
				s = strings.ReplaceAll(s, "\n ", " ")
			}
		}
		if s == "" {
			return
		}
		out = append(out, &hx.N{Text: s})
	}
	for _, n := range nodes {
		switch n.Type {
		case html.TextNode:
			pending.WriteString(n.Data)
			has = true
		case html.CommentNode, html.DoctypeNode:
			// not part of "structure and text"; adjacent text merges
		case html.ElementNode:
			flush()
			e := &hx.N{Tag: n.Data}
			attrs := map[string]string{}
			for _, a := range n.Attr {
				if _, dup := attrs[a.Key]; !dup {
					attrs[a.Key] = a.Val
				}
			}
			e.Attrs = normAttrs(n.Data, attrs)
			kids := kidsOf(n)
			sub := mode
			switch {
			case n.Data == "script" || n.Data == "style":
				sub = mScript
			case exactText[n.Data]:
				sub = mExact
			case n.Data == "code" && mode == mCollapse:
				sub = mCode
			}
			if t.prePadding && n.Data == "pre" {
				hasCode := false
				for _, k := range kids {
					if k.Type == html.ElementNode && k.Data == "code" {
						hasCode = true
					}
				}
				if hasCode {
					var kept []*html.Node
					for _, k := range kids {
						if k.Type == html.TextNode && strings.TrimSpace(k.Data) == "" {
							continue
						}
						kept = append(kept, k)
					}
					kids = kept
				}
			}
			e.Kids = norm(kids, sub, t)
			if n.Data == "tbody" && len(e.Kids) == 0 {
				continue // a table without body rows: an empty <tbody> is as good as none
			}
			out = append(out, e)
		}
	}
	flush()
	return out
}

var blockTags = map[string]bool{
	"p": true, "h1": true, "h2": true, "h3": true, "h4": true, "h5": true, "h6": true, "li": true, "ul": true,
	"ol": true, "blockquote": true, "pre": true, "table": true, "thead": true, "tbody": true, "tr": true,
	"td": true, "th": true, "div": true, "hr": true, "br": true, "section": true, "article": true,
	"details": true, "summary": true, "dl": true, "dt": true, "dd": true, "figure": true, "address": true,
	"textarea": true, "script": true, "style": true, "input": true, "img": true,
}

// words is the text a reader sees: all text in document order, block boundaries and <br> counting
// as a space, whitespace runs collapsed (or removed altogether when strip is set).
func words(nodes []*html.Node, strip bool) string {
	var sb strings.Builder
	var walk func(n *html.Node)
	walk = func(n *html.Node) {
		switch n.Type {
		case html.TextNode:
			sb.WriteString(n.Data)
		case html.ElementNode:
			if blockTags[n.Data] {
				sb.WriteByte(' ')
			}
			for c := n.FirstChild; c != nil; c = c.NextSibling {
				walk(c)
			}
			if blockTags[n.Data] {
				sb.WriteByte(' ')
			}
		}
	}
	for _, n := range nodes {
		walk(n)
	}
	f := htmlFields(sb.String())
	if strip {
		return strings.Join(f, "")
	}
	return strings.Join(f, " ")
}

// compare returns "" when got has the structure and text of ref (two HTML fragments), else a
// description. tolerated reports which open-finding tolerance was needed for the verdict.
func compare(ref, got string, t tol) (diff string, tolerated []string) {
	rn, err := hx.ParseFragment(ref)
	if err != nil {
		return "reference output does not parse: " + err.Error(), nil
	}
	gn, err := hx.ParseFragment(got)
	if err != nil {
		return "vuego output does not parse: " + err.Error(), nil
	}
	d, tolerated := compareNodes(rn, gn, t)
	if d == "" {
		d = controlDiff(ref, got)
	}
	return d, tolerated
}

// controlDiff compares what the HTML parser would blur: the control characters (C0 other than HTML
// white space, DEL), U+FFFD and bytes that are not UTF-8, as a multiset over the raw outputs.
// CommonMark 2.3 replaces U+0000 by U+FFFD in text; a parser drops a NUL in body text, so a NUL
// that reaches the output is compared here, as bytes.
func controlDiff(ref, got string) string {
	count := func(s string) map[string]int {
		m := map[string]int{}
		for i := 0; i < len(s); {
			r, n := utf8.DecodeRuneInString(s[i:])
			switch {
			case r == utf8.RuneError && n == 1:
				m[fmt.Sprintf("byte 0x%02x", s[i])]++
			case r == utf8.RuneError:
				m["U+FFFD"]++
			case (r < 0x20 && r != '\t' && r != '\n' && r != '\r' && r != '\f') || r == 0x7f:
				m[fmt.Sprintf("U+%04X", r)]++
			}
			i += n
		}
		return m
	}
	a, b := count(ref), count(got)
	var keys []string
	for k := range a {
		keys = append(keys, k)
	}
	for k := range b {
		if _, ok := a[k]; !ok {
			keys = append(keys, k)
		}
	}
	sort.Strings(keys)
	for _, k := range keys {
		if a[k] != b[k] {
			return fmt.Sprintf("control characters (raw output bytes): %s occurs %d times in the reference output and %d times in vuego's", k, a[k], b[k])
		}
	}
	return ""
}

func compareNodes(rn, gn []*html.Node, t tol) (string, []string) {
	if t.trimNBSP && unicodeSpaceEdge(rn) {
		return "", []string{fTrimNBSP} // region of the open finding, recognised on the reference side
	}
	var tolerated []string
	diff := func(x tol) string {
		return hx.Diff(norm(rn, mCollapse, x), norm(gn, mCollapse, x), hx.Options{})
	}
	if d := diff(tol{}); d != "" {
		// try the structural tolerances of open findings one by one, then together
		switch {
		case t.prePadding && diff(tol{prePadding: true}) == "":
			tolerated = append(tolerated, fPrePadding)
		case t.codeNL && diff(tol{codeNL: true}) == "":
			tolerated = append(tolerated, fCodeNL)
		case t.prePadding && t.codeNL && diff(tol{prePadding: true, codeNL: true}) == "":
			tolerated = append(tolerated, fPrePadding, fCodeNL)
		default:
			return "structure (reference vs vuego): " + d, nil
		}
	}
	wr, wg := words(rn, false), words(gn, false)
	if wr != wg {
		if t.inlineSpace && words(rn, true) == words(gn, true) {
			tolerated = append(tolerated, fInlineNewline)
		} else {
			return fmt.Sprintf("words differ: reference %q vs vuego %q", clip(wr, 300), clip(wg, 300)), nil
		}
	}
	return "", tolerated
}

func clip(s string, n int) string {
	if len(s) > n {
		return s[:n] + "…"
	}
	return s
}

// ---- AST derived facts (classification, and which template produces each <a>) -------------

type facts struct {
	classes map[string]bool
	regions map[string]bool // ids of the known-finding regions the document touches
	tagSoup bool            // raw HTML of the source is tag soup (unclosed <, or <pre>/<script>/.. left open in its block)
	aKinds  []string        // "link" / "autolink" in document order (children of images skipped)
}

var (
	entityRe  = regexp.MustCompile(`&(#[0-9]{1,7}|#[xX][0-9a-fA-F]{1,6}|[A-Za-z][A-Za-z0-9]{1,31});`)
	escapeRe  = regexp.MustCompile("\\\\[!-/:-@\\[-`{-~]")
	refDefRe  = regexp.MustCompile(`(?m)^ {0,3}\[[^\]\n]+\]: `)
	literalRe = regexp.MustCompile(`[<&]`)
	soupTagRe = regexp.MustCompile(`(?i)<(/?)(pre|textarea|script|style|title|xmp|listing|plaintext|a|b|i|u|em|strong|code|s|small|big|font|tt|nobr|strike)\b`)
)

func analyse(src []byte) facts {
	f := facts{classes: map[string]bool{}, regions: map[string]bool{}}
	region := func(id string) { f.regions[id] = true }
	doc := refParser().Parse(text.NewReader(src))
	set := func(s string) { f.classes[s] = true }
	// where: "text" (inline text), "code" (code span / block), "attr" (destination, title, alt, info)
	textual := func(seg []byte, where string) {
		if bytes.IndexByte(seg, 0) >= 0 {
			set("nul-in-" + where)
		}
		if bytes.ContainsAny(seg, "\x01\x1b\x7f") {
			set("control-char-in-" + where)
		}
		if !utf8.Valid(seg) {
			set("invalid-utf8-in-" + where)
		}
		if bytes.Contains(seg, []byte("{{")) {
			set("mustache-in-" + where)
		}
		if where == "code" {
			if literalRe.Match(seg) {
				set("lt-amp-in-code")
			}
			return
		}
		rest := seg
		if entityRe.Match(seg) {
			set("entity-in-" + where)
			rest = entityRe.ReplaceAll(seg, nil)
			if where == "attr" {
				region(fEscapes)
			}
		}
		if escapeRe.Match(seg) {
			set("backslash-escape-in-" + where)
			rest = escapeRe.ReplaceAll(rest, nil)
			region(fEscapes)
		}
		if literalRe.Match(rest) {
			set("literal-lt-amp-in-" + where)
			if where == "text" {
				region(fTextUnescaped)
			}
		}
	}
	var plain func(n ast.Node) []byte
	plain = func(n ast.Node) []byte {
		var b []byte
		for c := n.FirstChild(); c != nil; c = c.NextSibling() {
			if t, ok := c.(*ast.Text); ok {
				b = append(b, t.Segment.Value(src)...)
			} else {
				b = append(b, plain(c)...)
			}
		}
		return b
	}
	// raw HTML that opens a white-space-exact element (pre, textarea, script, style) or one of the HTML
	// parser's "formatting elements" (a, b, i, ...) without closing it in the same block: the
	// templates' own white space between blocks would land inside it / decides where the parser
	// re-opens it
	exactBalance := map[ast.Node]map[string]int{}
	noteRaw := func(container ast.Node, raw []byte) {
		m := exactBalance[container]
		if m == nil {
			m = map[string]int{}
			exactBalance[container] = m
		}
		for _, mm := range soupTagRe.FindAllSubmatch(raw, -1) {
			d := 1
			if len(mm[1]) > 0 {
				d = -1
			}
			m[strings.ToLower(string(mm[2]))] += d
		}
	}
	hasAncestor := func(n ast.Node, k ast.NodeKind) bool {
		for p := n.Parent(); p != nil; p = p.Parent() {
			if p.Kind() == k {
				return true
			}
		}
		return false
	}
	_ = ast.Walk(doc, func(n ast.Node, entering bool) (ast.WalkStatus, error) {
		if !entering {
			return ast.WalkContinue, nil
		}
		switch v := n.(type) {
		case *ast.Heading:
			set("heading")
			// ATX: the content is preceded (after optional spaces) by the opening #s
			setext := false
			if l := v.Lines(); l.Len() > 0 {
				i := l.At(0).Start - 1
				for i >= 0 && (src[i] == ' ' || src[i] == '\t') {
					i--
				}
				setext = !(i >= 0 && src[i] == '#')
			}
			if setext {
				set("heading-setext")
			} else {
				set("heading-atx")
			}
		case *ast.Paragraph:
			set("paragraph")
		case *ast.FencedCodeBlock:
			set("code-fenced")
			if len(v.Language(src)) > 0 {
				set("code-fenced-info")
			}
			if v.Info != nil && bytes.IndexByte(v.Info.Segment.Value(src), 0) >= 0 {
				set("nul-in-attribute-or-html-block")
				region(fNUL)
			}
			if string(v.Language(src)) == "false" {
				set("string-false-in-bound-attribute")
				region(fFalse)
			}
			if v.Info != nil {
				textual(v.Info.Segment.Value(src), "attr")
			}
			for i := 0; i < v.Lines().Len(); i++ {
				s := v.Lines().At(i)
				textual(s.Value(src), "code")
			}
		case *ast.CodeBlock:
			set("code-indented")
			for i := 0; i < v.Lines().Len(); i++ {
				s := v.Lines().At(i)
				textual(s.Value(src), "code")
			}
		case *ast.Blockquote:
			set("blockquote")
			if hasAncestor(n, ast.KindBlockquote) {
				set("blockquote-nested")
			}
		case *ast.List:
			if v.IsOrdered() {
				set("list-ordered")
				if v.Start != 1 {
					set("list-ordered-start-not-1")
				}
				if v.Start == 0 {
					set("list-ordered-start-0")
					region(fStartZero)
				}
			} else {
				set("list-bullet")
			}
			if hasAncestor(n, ast.KindList) {
				set("list-nested")
			}
			if !v.IsTight {
				set("list-loose")
			}
		case *ast.ThematicBreak:
			set("thematic-break")
		case *ast.HTMLBlock:
			set(fmt.Sprintf("html-block-type%d", int(v.HTMLBlockType)))
			var rawText []byte
			for i := 0; i < v.Lines().Len(); i++ {
				s := v.Lines().At(i)
				rawText = append(rawText, s.Value(src)...)
			}
			if v.HasClosure() {
				rawText = append(rawText, v.ClosureLine.Value(src)...)
			}
			noteRaw(n, rawText)
			if bytes.IndexByte(rawText, 0) >= 0 {
				set("nul-in-attribute-or-html-block")
				region(fNUL)
			}
			if isTagSoup(rawText) {
				// Markdown text swallowed by an HTML block (a line that consists of one tag starts
				// one) and containing a literal <: both renderers copy the bytes, what the HTML parser
				// makes of the tag soup depends on the white space after it, which is not compared
				f.tagSoup = true
				set("html-block-tag-soup")
			}
			if v.HasClosure() {
				set("html-block-closure-line")
				region(fHTMLClosure)
			}
			if p := n.PreviousSibling(); p != nil && p.Kind() == ast.KindTextBlock {
				set("html-block-after-tight-item-text")
				region(fTightSeparator)
			}
		case *east.Table:
			set("table")
			for _, a := range v.Alignments {
				if a != east.AlignNone {
					set("table-aligned")
				}
			}
		case *east.TaskCheckBox:
			set("task-list")
		case *east.Strikethrough:
			set("strikethrough")
		case *ast.Text:
			seg := v.Segment.Value(src)
			if n.Parent() != nil && n.Parent().Kind() == ast.KindCodeSpan {
				textual(seg, "code")
			} else {
				textual(seg, "text")
			}
			if v.HardLineBreak() {
				set("hard-break")
				region(fHardBreak)
			} else if v.SoftLineBreak() {
				set("soft-break")
			}
		case *ast.CodeSpan:
			set("code-span")
		case *ast.Emphasis:
			if v.Level == 2 {
				set("strong")
			} else {
				set("emphasis")
			}
			if hasAncestor(n, ast.KindEmphasis) {
				set("emphasis-nested")
			}
		case *ast.Link:
			set("link")
			f.aKinds = append(f.aKinds, "link")
			if len(v.Title) > 0 {
				set("link-title")
			}
			textual(v.Destination, "attr")
			textual(v.Title, "attr")
			if string(v.Title) == "false" {
				set("string-false-in-bound-attribute")
				region(fFalse)
			}
			if bytes.IndexByte(v.Title, 0) >= 0 {
				set("nul-in-attribute-or-html-block")
				region(fNUL)
			}
			if len(v.Destination) == 0 {
				set("empty-destination")
				region(fEmptyDest)
			}
			if linkNodePadded(v, src, nil) {
				set("link-text-padded")
				region(fLinkTextTrim)
			}
		case *ast.Image:
			set("image")
			if len(v.Title) > 0 {
				set("image-title")
			}
			textual(v.Destination, "attr")
			textual(v.Title, "attr")
			textual(plain(v), "attr")
			if bytes.IndexByte(v.Title, 0) >= 0 || bytes.IndexByte(plain(v), 0) >= 0 {
				set("nul-in-attribute-or-html-block")
				region(fNUL)
			}
			if string(v.Title) == "false" || strings.TrimSpace(string(plain(v))) == "false" {
				set("string-false-in-bound-attribute")
				region(fFalse)
			}
			_ = ast.Walk(v, func(c ast.Node, entering bool) (ast.WalkStatus, error) {
				if cs, ok := c.(*ast.CodeSpan); ok && entering {
					if b := plain(cs); entityRe.Match(b) || escapeRe.Match(b) {
						set("image-alt-code-span-with-reference-or-escape")
						region(fAltCodeRaw)
					}
				}
				if t, ok := c.(*ast.Text); ok && entering && (t.SoftLineBreak() || t.HardLineBreak()) {
					set("image-alt-multiline")
					region(fAltLineBreak)
				}
				return ast.WalkContinue, nil
			})
			if len(v.Destination) == 0 {
				set("empty-destination")
				region(fEmptyDest)
			}
			return ast.WalkSkipChildren, nil
		case *ast.AutoLink:
			f.aKinds = append(f.aKinds, "autolink")
			switch {
			case v.AutoLinkType == ast.AutoLinkEmail:
				set("autolink-email")
			default:
				set("autolink-url")
			}
		case *ast.RawHTML:
			set("raw-html-inline")
			container := n.Parent()
			for container != nil && container.Type() != ast.TypeBlock {
				container = container.Parent()
			}
			var raw []byte
			for i := 0; i < v.Segments.Len(); i++ {
				seg := v.Segments.At(i)
				raw = append(raw, seg.Value(src)...)
			}
			noteRaw(container, raw)
		}
		return ast.WalkContinue, nil
	})
	for _, m := range exactBalance {
		for _, d := range m {
			if d != 0 {
				f.tagSoup = true
				set("raw-html-unbalanced-element")
			}
		}
	}
	if refDefRe.Match(src) {
		set("link-reference-definition")
	}
	return f
}

// linkNodePadded: does the content of this link start or end with white space (a space, or a line
// ending: a text node may be empty and carry only the line break) once the kinds in drop are left out?
func linkNodePadded(n ast.Node, src []byte, drop map[ast.NodeKind]bool) bool {
	first, last := n.FirstChild(), n.LastChild()
	for first != nil && drop[first.Kind()] {
		first = first.NextSibling()
	}
	for last != nil && drop[last.Kind()] {
		last = last.PreviousSibling()
	}
	if t, ok := first.(*ast.Text); ok {
		b := t.Segment.Value(src)
		if (len(b) > 0 && (b[0] == ' ' || b[0] == '\t' || b[0] == '\n')) || (len(b) == 0 && (t.SoftLineBreak() || t.HardLineBreak())) {
			return true
		}
	}
	if t, ok := last.(*ast.Text); ok {
		b := t.Segment.Value(src)
		if t.SoftLineBreak() || t.HardLineBreak() || (len(b) > 0 && (b[len(b)-1] == ' ' || b[len(b)-1] == '\t' || b[len(b)-1] == '\n')) {
			return true
		}
	}
	return false
}

// linkPadded reports whether, with the nodes of the kinds in drop left out, the content of some link
// starts or ends with white space (the region of C20-inline-content-trim): leaving out an image at
// the start of "[![i](/p) a](/u)" turns the link text into " a".
func linkPadded(src []byte, drop map[ast.NodeKind]bool) bool {
	doc := refParser().Parse(text.NewReader(src))
	padded := false
	_ = ast.Walk(doc, func(n ast.Node, entering bool) (ast.WalkStatus, error) {
		if !entering {
			return ast.WalkContinue, nil
		}
		if drop[n.Kind()] {
			return ast.WalkSkipChildren, nil
		}
		if n.Kind() != ast.KindLink {
			return ast.WalkContinue, nil
		}
		if linkNodePadded(n, src, drop) {
			padded = true
		}
		return ast.WalkContinue, nil
	})
	return padded
}

// isTagSoup reports whether raw HTML contains a tag that is not closed before the next tag starts
// or the text ends, or that has an odd number of quotes (which would swallow its >). Such a tag
// extends into whatever follows the raw HTML, and what follows differs in white space between the
// two renderers, which is not compared.
func isTagSoup(raw []byte) bool {
	low := bytes.ToLower(raw)
	for i := 0; i < len(low); i++ {
		if low[i] != '<' || i+1 >= len(low) {
			continue
		}
		c := low[i+1]
		if !(c >= 'a' && c <= 'z' || c == '/' || c == '!' || c == '?') {
			continue // a < that the HTML tokenizer reads as text
		}
		if bytes.HasPrefix(low[i:], []byte("<!--")) {
			end := bytes.Index(low[i+4:], []byte("-->"))
			if end < 0 {
				return true
			}
			i += 4 + end + 2
			continue
		}
		end := bytes.IndexByte(low[i+1:], '>')
		if end < 0 {
			return true
		}
		tag := low[i+1 : i+1+end]
		if bytes.IndexByte(tag, '<') >= 0 || bytes.Count(tag, []byte(`"`))%2 == 1 || bytes.Count(tag, []byte("'"))%2 == 1 {
			return true
		}
		i += end + 1
		for _, name := range []string{"script", "style", "textarea", "title", "xmp"} {
			if bytes.HasPrefix(tag, []byte(name)) && (len(tag) == len(name) || tag[len(name)] == ' ' || tag[len(name)] == '\n' || tag[len(name)] == '\t') {
				if e := bytes.Index(low[i:], []byte("</"+name)); e >= 0 {
					i += e - 1 // the text of these elements is not markup
				}
			}
		}
	}
	return false
}

// aKindsOf lists, in document order, which template ("link" / "autolink") produces each <a> that
// the reference renderer writes when the nodes of the kinds in drop are left out.
func aKindsOf(src []byte, drop map[ast.NodeKind]bool) []string {
	var out []string
	doc := refParser().Parse(text.NewReader(src))
	_ = ast.Walk(doc, func(n ast.Node, entering bool) (ast.WalkStatus, error) {
		if !entering {
			return ast.WalkContinue, nil
		}
		if drop[n.Kind()] {
			return ast.WalkSkipChildren, nil
		}
		switch n.Kind() {
		case ast.KindLink:
			out = append(out, "link")
		case ast.KindAutoLink:
			out = append(out, "autolink")
		case ast.KindImage:
			return ast.WalkSkipChildren, nil // the description is rendered as plain text
		}
		return ast.WalkContinue, nil
	})
	return out
}

// ---- override marking ---------------------------------------------------------------------

// tagTemplate says which default template produces a start tag written by the reference renderer.
func tagTemplate(tag string) string {
	switch tag {
	case "p":
		return "paragraph"
	case "h1", "h2", "h3", "h4", "h5", "h6":
		return "heading"
	case "pre":
		return "code_block"
	case "code":
		return "code_span" // unless it directly follows <pre>, see markRef
	case "em", "strong":
		return "emphasis"
	case "br":
		return "hard_break"
	case "img":
		return "image"
	case "ul", "ol":
		return "list"
	case "li":
		return "list_item"
	case "blockquote":
		return "blockquote"
	case "del":
		return "strikethrough"
	case "table":
		return "table"
	case "input":
		return "task_checkbox"
	case "hr":
		return "thematic_break"
	}
	return ""
}

var startTagRe = regexp.MustCompile(`<(p|h[1-6]|pre|code|em|strong|br|img|ul|ol|li|blockquote|del|table|input|hr|a)((?:\s[^<>]*)?)>`)

// markRef inserts data-ov="<template>" into every start tag that the reference renderer itself
// wrote for a node whose template is in set, and removes the brackets. ref is the bracketed
// reference output: a start tag inside a bracketed range is raw HTML of the source (whatever its
// tag name, e.g. the <br> of an HTML block line "<!-- c --> \\<br>") and is left alone; outside the
// brackets goldmark escapes every < of text and attribute values, so a start tag there is the
// renderer's own and its tag name identifies the node kind - except <a> (Link or AutoLink, told
// apart by the AST order aKinds) and the <code> that directly follows the renderer's own <pre>
// (part of the code block). Marking the text rather than the parsed tree keeps the expectation
// right when the HTML parser restructures odd raw HTML. ok is false if the <a> tags cannot be
// attributed (never observed). With dropBr the renderer's own <br> tags are removed.
func markRef(ref string, set map[string]bool, aKinds []string, dropBr bool) (string, bool) {
	ai := 0
	ok := true
	var sb strings.Builder
	last := 0
	// depth of raw brackets at each match: scan once, in step with the matches
	pos, depth := 0, 0
	advance := func(to int) {
		for pos < to {
			switch {
			case strings.HasPrefix(ref[pos:], rawStart):
				depth++
				pos += len(rawStart)
			case strings.HasPrefix(ref[pos:], rawEnd):
				depth--
				pos += len(rawEnd)
			default:
				pos++
			}
		}
	}
	for _, m := range startTagRe.FindAllStringSubmatchIndex(ref, -1) {
		advance(m[0])
		if depth > 0 {
			continue // raw HTML of the source
		}
		tag := ref[m[2]:m[3]]
		name := tagTemplate(tag)
		if tag == "br" && dropBr {
			// an empty hard_break template: the renderer's own <br> (a hard line break is a flag of
			// a text node, not a node) is taken out of the expectation
			sb.WriteString(ref[last:m[0]])
			last = m[1]
			continue
		}
		switch tag {
		case "a":
			if ai < len(aKinds) {
				name = aKinds[ai]
			} else {
				ok = false
			}
			ai++
		case "code":
			if strings.HasSuffix(ref[:m[0]], "<pre>") {
				name = "" // the <code> of a code block belongs to the code_block template
			}
		}
		if name == "" || !set[name] {
			continue
		}
		sb.WriteString(ref[last:m[3]])
		sb.WriteString(` data-ov="` + name + `"`)
		last = m[3]
	}
	sb.WriteString(ref[last:])
	if ai != len(aKinds) {
		ok = false
	}
	return stripBrackets.Replace(sb.String()), ok
}
