package c20

// Kind "life": ONE long-lived renderer over a content filesystem that changes between renders: user
// templates are added, edited (marker <-> empty) and removed, each change with a later modification
// time. "A user template placed in the content filesystem replaces exactly the corresponding default
// template": every render must be what the templates present at that moment call for - the same
// expectation as the override kind, computed from the reference for the current state.

import (
	"bytes"
	"fmt"
	"sort"
	"strings"

	"github.com/titpetric/vuego/markdown"
	"pgregory.net/rapid"

	"verif/internal/ev"
)

func checkLife(c Case, st *stats) error {
	src := []byte(c.Src)
	if strings.Contains(c.Src, rawStart) || strings.Contains(c.Src, rawEnd) {
		return nil
	}
	if !c.Strict && st.skip(Case{Src: c.Src}, analyse(src)) {
		return nil
	}
	store := c.Store
	if store != "dirfs" && store != "dirfs-symlink" {
		store = "memfs"
	}
	u, cleanup := newStore(store)
	defer cleanup()
	m := u.(mutableFS)
	m.put("unrelated.txt", "x")
	state := map[string]string{}
	apply := func(change map[string]string) {
		m.tick()
		for _, name := range sortedKeys(change) {
			if _, ok := replacement[name]; !ok {
				continue
			}
			file := "markdown/" + name + ".vuego"
			switch change[name] {
			case "marker":
				m.put(file, replacement[name]+"\n")
				state[name] = "marker"
			case "empty":
				m.put(file, "")
				state[name] = "empty"
			default:
				m.del(file)
				delete(state, name)
			}
		}
	}
	apply(c.Init)
	md := markdown.New(u) // the one renderer
	t := tolerances(c)
	history := fmt.Sprintf("initial templates %v", c.Init)
	for i := 0; i <= len(c.Steps); i++ {
		if i > 0 {
			apply(c.Steps[i-1])
			history += fmt.Sprintf("; render; change %v", c.Steps[i-1])
		}
		set, empty := map[string]bool{}, map[string]bool{}
		for n, s := range state {
			if s == "marker" {
				set[n] = true
			} else {
				empty[n] = true
			}
		}
		want, skip := overrideExpectation(src, set, empty)
		var b bytes.Buffer
		err := md.RenderBytes(&b, src)
		if skip {
			continue // rendered (it belongs to the history) but not judged
		}
		got := b.String()
		if err != nil {
			return fmt.Errorf("render %d on one renderer over a %s content FS failed: %v (%s)%s", i, store, err, history, describe(c.Src, want, got))
		}
		if d, tolerated := compare(want, got, t); d != "" {
			return fmt.Errorf("render %d on one long-lived renderer over a %s content FS does not show the user templates present now (marker: %v, empty: %v; %s): %s%s",
				i, store, keysOf(set), keysOf(empty), history, d, describe(c.Src, want, got))
		} else {
			st.add(tolerated)
		}
	}
	return nil
}

func keysOf(m map[string]bool) []string {
	var l []string
	for k := range m {
		l = append(l, k)
	}
	sort.Strings(l)
	return l
}

func classifyLife(c Case) (bool, []string) {
	cls := []string{"life-store:" + c.Store, fmt.Sprintf("life-steps=%d", len(c.Steps))}
	used := usedTemplates([]byte(c.Src))
	state := map[string]string{}
	for n, s := range c.Init {
		if s != "default" {
			state[n] = s
		}
	}
	seen := map[string]bool{}
	nt := false
	for _, step := range c.Steps {
		for n, s := range step {
			prev, had := state[n]
			var kind string
			switch {
			case !had && s != "default":
				kind = "life-add"
			case had && s == "default":
				kind = "life-remove"
			case had && s != prev:
				kind = "life-edit"
			default:
				continue
			}
			if used[n] {
				kind += "-of-used-template"
				nt = true
			}
			if !seen[kind] {
				seen[kind] = true
				cls = append(cls, kind)
			}
			if s == "default" {
				delete(state, n)
			} else {
				state[n] = s
			}
		}
	}
	sort.Strings(cls)
	return nt, cls
}

func genLife(rec *ev.Rec) func(t *rapid.T) Case {
	return func(t *rapid.T) Case {
		g := newGen(t, rec)
		g.maxLines = 24
		c := Case{Src: g.document(), Store: rapid.SampledFrom([]string{"memfs", "memfs", "dirfs", "dirfs-symlink"}).Draw(t, "store")}
		// prefer the templates the document needs, so that a change shows
		used := usedTemplates([]byte(c.Src))
		var pool []string
		for _, n := range templateNames {
			if used[n] {
				pool = append(pool, n, n)
			}
		}
		pool = append(pool, templateNames...)
		states := []string{"marker", "empty", "default", "marker"}
		change := func(label string, lo, hi int) map[string]string {
			m := map[string]string{}
			k := rapid.IntRange(lo, hi).Draw(t, label+"n")
			for i := 0; i < k; i++ {
				m[rapid.SampledFrom(pool).Draw(t, label+"t")] = rapid.SampledFrom(states).Draw(t, label+"s")
			}
			return m
		}
		c.Init = change("init", 0, 3)
		states = []string{"marker", "empty", "default", "default"} // later changes remove more often
		steps := rapid.IntRange(1, 3).Draw(t, "steps")
		for i := 0; i < steps; i++ {
			c.Steps = append(c.Steps, change(fmt.Sprintf("step%d", i), 1, 3))
		}
		return c
	}
}
