// Package c01 decides C01: data values are inert — never parsed as markup nor evaluated as
// template code. Oracle: an HTML5 parser must find the same elements and attribute names as with
// a harmless word, the sink must hold exactly neighbours+value (one text run / one attribute
// value), and a canary variable in scope must never be printed.
package c01

import (
	"bytes"
	"context"
	"encoding/hex"
	"encoding/json"
	"fmt"
	"hash/fnv"
	"regexp"
	"sort"
	"strings"
	"sync"
	"testing"
	"unicode/utf8"
	"verif/internal/after"

	"github.com/titpetric/vuego"
	"pgregory.net/rapid"

	"verif/internal/ev"
	"verif/internal/hx"
	"verif/internal/memfs"
	"verif/internal/run"
)

const prop = "C01"
const canary = "CANARY7391"
const harmless = "zqx"

// Case is one (value, sink, neighbourhood, enclosure) combination.
type Case struct {
	Sink  string `json:"sink"`
	Enc   string `json:"enc"`
	Nb    int    `json:"nb"` // index into neighbourhoods
	Value string `json:"value"`
	// Carrier: how the hostile text reaches the sink - as a plain string ("") or inside a
	// non-string Go value whose string form contains it (named string type, []string, map,
	// fmt.Stringer, *string, error).
	Carrier string `json:"carrier,omitempty"`
	// Pre: index into preludes - what a component file carries around its content (leading
	// comment, blank lines, trailing comment); 0 = nothing. Only file-based sinks use it.
	Pre int `json:"pre,omitempty"`
	// Hex: the value as hex bytes when it is not valid UTF-8 (JSON cannot carry such a string);
	// Value is empty then. Only the parse and the canary are asserted for such values.
	Hex string `json:"hex,omitempty"`
	// Pad: the value is preceded by this many bytes of harmless filler ("ab ab ab ..."): values
	// longer than the 4 KiB / 64 KiB blocks that writers and escapers like to work in.
	Pad int `json:"pad,omitempty"`
}

// norm moves a value that is not valid UTF-8 into Hex.
func norm(c Case) Case {
	if c.Hex == "" && !utf8.ValidString(c.Value) {
		c.Hex, c.Value = hex.EncodeToString([]byte(c.Value)), ""
	}
	return c
}

// full returns the case with Value holding the complete value (filler + bytes).
func full(c Case) Case {
	if c.Hex != "" {
		b, _ := hex.DecodeString(c.Hex)
		c.Value = string(b)
	}
	if c.Pad > 0 {
		c.Value = strings.Repeat("ab ", c.Pad/3+1)[:c.Pad] + c.Value
	}
	return c
}

// preludes: text before / after the content of every component file (not the page, not layouts).
var preludes = [][2]string{
	{"", ""},
	{"<!-- component -->\n", ""},
	{"\n\n", "\n"},
	{"<!-- a -->\n\n<!-- b -->\n", "\n<!-- end -->\n"},
	{"  \n", "<!-- end -->"},
}

type namedString string

type stringerVal struct{ s string }

func (s stringerVal) String() string { return s.s }

var carriers = []string{"", "named", "slice", "map", "stringer", "ptr", "error", "anyslice"}

// carry wraps v; it also returns the string form the sink must show.
func carry(carrier, v string) (any, string) {
	var x any
	switch carrier {
	case "named":
		x = namedString(v)
	case "slice":
		x = []string{v}
	case "anyslice":
		x = []any{v, 1}
	case "map":
		x = map[string]string{"k": v}
	case "stringer":
		x = stringerVal{v}
	case "ptr":
		x = &v
	case "error":
		x = fmt.Errorf("%s", v)
	default:
		return v, v
	}
	if carrier == "ptr" {
		return x, "" // prints an address: only the parse and the canary are asserted
	}
	return x, fmt.Sprint(x)
}

// neighbourhood: static text left/right of the sink, as template source and as decoded text.
type nb struct{ LS, LD, RS, RD string }

var neighbourhoods = []nb{
	{"", "", "", ""},
	{"a ", "a ", " b", " b"},
	{"&lt;b&gt;", "<b>", "&lt;/b&gt;", "</b>"},
	{"&amp;", "&", "x;", "x;"},
	{"&quot;", `"`, "&quot;", `"`},
	{"&lt;img src=x&gt; ", "<img src=x> ", "", ""},
	{"'", "'", "&amp;amp;", "&amp;"},
	{"x;", "x;", "&lt;", "<"},
	{"&amp;lt;", "&lt;", "&#38;#60;", "&#60;"},
}

// "in:<tag>" sinks place the value in the text of a special element (RCDATA textarea/title,
// pre, option, table cell, button, heading, ...): the matching end tag in the value must stay text.
var containerTags = []string{"textarea", "title", "pre", "option", "td", "li", "button", "h1", "a", "label", "code", "summary", "noscript", "xmp", "iframe", "noembed", "noframes"}

// rawTextTags: an HTML parser reads their body as raw text and decodes no character references
// there, so the text it reports is the value or its escaped spelling; only the parse (no new
// element, no attribute) and the canary are asserted for them.
var rawTextTags = map[string]bool{"xmp": true, "iframe": true, "noembed": true, "noframes": true}

var sinks = []string{"in:textarea", "in:title", "in:pre", "in:option", "in:td", "in:li", "in:button", "in:h1", "in:a", "in:label", "in:code", "in:summary", "in:noscript", "in:xmp", "in:iframe", "in:noembed", "in:noframes", "nsattr", "pretext", "prevtext", "preattr", "prebound", "boundmustache", "boundmustacheclass", "classmix", "stylemix", "stylemixstr", "twotext", "twoattr", "twoloop", "ns:svg:xmp", "ns:svg:iframe", "ns:math:noembed", "ns:svg:noframes", "ns:svg:title", "ns:svg:textarea", "ns:svg:desc:xmp", "pre:xmp", "pre:iframe", "pre:noembed", "pre:noframes", "pre:textarea", "pre:title",
	"textpipe", "textcall", "textternary", "attrpipe", "boundpipe", "boundcall", "boundternary", "vtextpipe", "vtextcall", "vtextternary", "vtextor", "looppipe", "vtext:xmp", "vtext:iframe", "vtext:noembed", "vtext:noframes", "vtext:textarea", "vtext:title", "vtext:noscript", "elsefor", "elseforattr", "elseiffor", "text", "vtext", "attr", "bound", "vbind", "class", "style", "loop", "loopattr", "loopchild", "incstatic", "incbound", "incattr", "inctplroot", "inctplrootattr", "slotinc", "slotincplain", "slotprop", "layout", "layoutattr", "ifself", "elseself",
	"bare:text", "bare:only", "bare:pipe", "bare:call", "bare:two"}
var encs = []string{"bare", "if", "else", "tplif", "nested", "loopchild", "elseif"}

// tokens: the hostile alphabet. The first coreN are enumerated exhaustively.
var tokens = []string{
	"<", ">", "&", `"`, "'", ";", "{{ secret }}", "</p>", "&lt;", "&#", "=", " ", "{{", "}}",
	"&amp;", "&quot;", "&#x3c;", "&#60;", "{{secret|upper}}", "</script>", "<script>", "<!--", "-->", "<b x=y>",
	` :x="secret"`, ` v-html="secret"`, "x", "/", "\\", "\n", "&gt;", "&apos;", "<img src=x onerror=a>", "{{ secret + 1 }}", "]]>", "<![CDATA[",
	"</textarea>", "</title>", "</pre>", "</option>", "</select>", "</td>", "</table>", "</li>", "</button>", "</h1>", "</a>", "</div>", "</style>", "</template>", "<p>", "<a href=x>", "<td>", "<plaintext>",
	"{}", "[]", `{"a":1}`, `[1,"<b>"]`, "{", "[", "null", "true", "0",
	// text beyond ASCII: multi-byte characters next to the special ones, blanks that are not ASCII
	// blanks, look-alikes of the special characters, combining marks, right-to-left marks
	"é<", "<é", "日本語&", "😀\"", "'😀", "İ", "ß>", "\u00a0<b>", "\u2028<", "\u3000", "\u200b{{ secret }}", "e\u0301<", "\u200f>", "＜script＞", "﹤", "＆amp;", "{{ secrét }}", "｛｛ secret ｝｝", "\ufeff<", "\U0001F468\u200d\U0001F469\u200d\U0001F467&",
	"{{ w2 }}", "{{w2}}", "{{ w2 | upper }}", "{k: secret}", "{secret: yes}", "{ 'a b': secret }", "{{ secret }", "secret", "secret | upper", "yes ? secret : 1",
}

const coreN = 14

func wrap(enc, inner string) string {
	switch enc {
	case "if":
		return `<div v-if="yes">` + inner + `</div>`
	case "else":
		return `<div v-if="no">no</div><div v-else>` + inner + `</div>`
	case "elseif":
		return `<div v-if="no">no</div><div v-else-if="yes">` + inner + `</div><div v-else>no</div>`
	case "tplif":
		return `<template v-if="yes">` + inner + `</template>`
	case "nested":
		return `<section><div>` + inner + `</div></section>`
	case "loopchild":
		return `<div v-for="k in one">` + inner + `</div>`
	}
	return inner
}

type program struct {
	files   map[string]string // non-nil: render page.vuego through the file path
	tpl     string            // otherwise RenderString
	attr    string            // "" = sink is the text of data-m=s; otherwise the attribute name
	useNb   bool
	jsonish bool   // static include prop: values starting with { or [ are decoded (documented)
	multi   bool   // the sink occurs several times: only parse-equality and the canary are asserted
	rawish  bool   // raw text element: only parse-equality and the canary are asserted
	suf     string // static text that follows the value at the sink (after evaluation of its own mustaches)
}

func build(c Case) program {
	if t, ok := bareTpl[c.Sink]; ok {
		return program{tpl: t[0]}
	}
	n := neighbourhoods[c.Nb%len(neighbourhoods)]
	if strings.HasPrefix(c.Sink, "in:") {
		tag := strings.TrimPrefix(c.Sink, "in:")
		open, close := "<"+tag+` data-m="s">`, "</"+tag+">"
		switch tag {
		case "option":
			open, close = `<select><option data-m="s">`, `</option></select>`
		case "td":
			open, close = `<table><tbody><tr><td data-m="s">`, `</td></tr></tbody></table>`
		case "li":
			open, close = `<ul><li data-m="s">`, `</li></ul>`
		case "a":
			open = `<a href="/x" data-m="s">`
		case "summary":
			open, close = `<details><summary data-m="s">`, `</summary></details>`
		}
		return program{tpl: wrap(c.Enc, open+n.LS+`{{ v }}`+n.RS+close), useNb: true, rawish: rawTextTags[tag]}
	}
	if strings.HasPrefix(c.Sink, "ns:") {
		// element names that are raw-text / RCDATA elements only in the HTML namespace, written
		// inside <svg> / <math>: there the parser reads their content as ordinary markup
		parts := strings.Split(strings.TrimPrefix(c.Sink, "ns:"), ":")
		open, close := "", ""
		for _, t := range parts[:len(parts)-1] {
			open += "<" + t + ">"
			close = "</" + t + ">" + close
		}
		tag := parts[len(parts)-1]
		return program{tpl: wrap(c.Enc, open+"<"+tag+` data-m="s">`+n.LS+`{{ v }}`+n.RS+"</"+tag+">"+close), useNb: true, rawish: true}
	}
	if strings.HasPrefix(c.Sink, "pre:") {
		// a raw-text / RCDATA element inside a <pre> that has several children (written by the
		// preformatted writer): the matching end tag in the value must stay text there, too
		tag := strings.TrimPrefix(c.Sink, "pre:")
		return program{tpl: wrap(c.Enc, `<pre>listing: <`+tag+` data-m="s">`+n.LS+`{{ v }}`+n.RS+`</`+tag+`> end <b>c</b></pre>`), useNb: true, rawish: rawTextTags[tag]}
	}
	if strings.HasPrefix(c.Sink, "vtext:") {
		// v-text on the special containers (raw text, RCDATA, noscript)
		tag := strings.TrimPrefix(c.Sink, "vtext:")
		return program{tpl: wrap(c.Enc, "<"+tag+` data-m="s" v-text="v">old</`+tag+">"), rawish: rawTextTags[tag]}
	}
	p := buildSink(c, n)
	if p.files != nil {
		pre := preludes[c.Pre%len(preludes)]
		for name, src := range p.files {
			if name == "page.vuego" || strings.HasPrefix(name, "layouts/") {
				continue
			}
			p.files[name] = pre[0] + src + pre[1]
		}
	}
	return p
}

func buildSink(c Case, n nb) program {
	switch c.Sink {
	case "pretext":
		// sinks inside a <pre> that has element children (written by the preformatted writer)
		return program{tpl: wrap(c.Enc, `<pre>a <span data-m="s">`+n.LS+`{{ v }}`+n.RS+`</span> b <b>c</b></pre>`), useNb: true}
	case "prevtext":
		return program{tpl: wrap(c.Enc, `<pre><code data-m="s" v-text="v">old</code> <b>c</b></pre>`)}
	case "preattr":
		return program{tpl: wrap(c.Enc, `<pre><span data-m="s" title="`+n.LS+`{{ v }}`+n.RS+`">x</span> <b>{{ v }}</b></pre>`), attr: "title", useNb: true}
	case "prebound":
		return program{tpl: wrap(c.Enc, `<pre>x <span><em data-m="s" :title="v">y</em></span> z</pre>`), attr: "title"}
	case "boundmustache":
		// a bound attribute whose expression is written with a mustache: the value arrives by
		// interpolation and must not be looked at again as an expression / object literal
		return program{tpl: wrap(c.Enc, `<p data-m="s" :title="{{ v }}" v-bind:lang="x{{ v }}">x</p>`), attr: "title"}
	case "boundmustacheclass":
		return program{tpl: wrap(c.Enc, `<p data-m="s" class="st" :class="{{ v }}">x</p>`), attr: "class"}
	// the value reaches the sink through an expression that is not a plain variable: a filter,
	// a function call, a ternary, a logical operator (same is the identity function)
	case "textpipe":
		return program{tpl: wrap(c.Enc, `<p data-m="s">`+n.LS+`{{ v | same }}`+n.RS+`</p>`), useNb: true}
	case "textcall":
		return program{tpl: wrap(c.Enc, `<p data-m="s">`+n.LS+`{{ same(v) }}`+n.RS+`</p>`), useNb: true}
	case "textternary":
		return program{tpl: wrap(c.Enc, `<p data-m="s">`+n.LS+`{{ yes ? v : 'x' }}`+n.RS+`</p>`), useNb: true}
	case "attrpipe":
		return program{tpl: wrap(c.Enc, `<p data-m="s" title="`+n.LS+`{{ v | same }}`+n.RS+`" lang="{{ same(v) }}">x</p>`), attr: "title", useNb: true}
	case "boundpipe":
		return program{tpl: wrap(c.Enc, `<p data-m="s" :title="v | same">x</p>`), attr: "title"}
	case "boundcall":
		return program{tpl: wrap(c.Enc, `<p data-m="s" :title="same(v)" v-bind:lang="same(v)">x</p>`), attr: "title"}
	case "boundternary":
		return program{tpl: wrap(c.Enc, `<p data-m="s" :title="no ? 'x' : v">x</p>`), attr: "title"}
	case "vtextpipe":
		return program{tpl: wrap(c.Enc, `<p data-m="s" v-text="v | same">old</p>`)}
	case "vtextcall":
		return program{tpl: wrap(c.Enc, `<p data-m="s" v-text="same(v)">old</p>`)}
	case "vtextternary":
		return program{tpl: wrap(c.Enc, `<p data-m="s" v-text="yes ? v : 'anonymous'">old</p>`)}
	case "vtextor":
		return program{tpl: wrap(c.Enc, `<ul><li v-if="no">n</li><li v-else data-m="s" v-text="same(v) | same">old</li></ul>`)}
	case "looppipe":
		return program{tpl: wrap(c.Enc, `<ul><li v-for="i in items" data-m="s" v-text="i | same">old</li></ul>`)}
	case "classmix":
		// a static class / style written with a mustache next to a bound one: the merged value
		// holds data and must not be interpolated (again)
		return program{tpl: wrap(c.Enc, `<p data-m="s" class="st b-{{ w2 }}" :class="v">x</p>`), attr: "class"}
	case "stylemix":
		return program{tpl: wrap(c.Enc, `<p data-m="s" style="color: {{ w2 }};" :style="{background: v}">x</p>`), attr: "style", rawish: true}
	case "stylemixstr":
		return program{tpl: wrap(c.Enc, `<p data-m="s" style="color: {{ w2 }}; margin: 0" :style="v">x</p>`), attr: "style", rawish: true}
	case "twotext":
		// several mustaches in one text run / attribute value: a value that spells a later
		// mustache of the same string stays where it is, and the later one is still evaluated
		return program{tpl: wrap(c.Enc, `<p data-m="s">`+n.LS+`{{ v }}`+n.RS+` {{ w2 }}|{{w2}}|{{ w2 | upper }}</p>`), useNb: true, suf: " zw|zw|ZW"}
	case "twoattr":
		return program{tpl: wrap(c.Enc, `<p data-m="s" title="`+n.LS+`{{ v }}`+n.RS+`-{{ w2 }}|{{w2}}|{{ w2 | upper }}" lang="en">x</p>`), attr: "title", useNb: true, suf: "-zw|zw|ZW"}
	case "twoloop":
		return program{tpl: wrap(c.Enc, `<ul><li v-for="i in items" data-m="s">{{ i }} {{ w2 }}|{{w2}}</li></ul>`), suf: " zw|zw"}
	case "elsefor":
		// the root of a loop that is itself the chosen v-else / v-else-if member of a chain
		return program{tpl: wrap(c.Enc, `<ul><li v-if="no">n</li><li v-else v-for="i in items" data-m="s" :title="i">{{ i }}</li></ul>`), attr: "title"}
	case "elseforattr":
		return program{tpl: wrap(c.Enc, `<ul><li v-if="no">n</li><li v-else v-for="i in items" data-m="s" title="`+n.LS+`{{ i }}`+n.RS+`" :lang="i">x</li></ul>`), attr: "title", useNb: true}
	case "elseiffor":
		return program{tpl: wrap(c.Enc, `<ul><li v-if="no">n</li><li v-else-if="yes" v-for="(n, i) in items" data-m="s" :title="i" data-n="{{ n }}"><b :title="i">{{ i }}</b></li><li v-else>e</li></ul>`), attr: "title"}
	case "nsattr":
		// fallback markup inside <noscript>: an attribute of an element there
		return program{tpl: wrap(c.Enc, `<noscript><img data-m="s" src="`+n.LS+`{{ v }}`+n.RS+`" alt="x"><p>{{ v }}</p></noscript>`), attr: "src", useNb: true}
	case "text":
		return program{tpl: wrap(c.Enc, `<p data-m="s">`+n.LS+`{{ v }}`+n.RS+`</p>`), useNb: true}
	case "vtext":
		return program{tpl: wrap(c.Enc, `<p data-m="s" v-text="v">old</p>`)}
	case "attr":
		return program{tpl: wrap(c.Enc, `<p data-m="s" title="`+n.LS+`{{ v }}`+n.RS+`" lang="en">x</p>`), attr: "title", useNb: true}
	case "bound":
		return program{tpl: wrap(c.Enc, `<p data-m="s" :title="v" lang="`+n.LS+`">x `+n.RS+`</p>`), attr: "title"}
	case "vbind":
		return program{tpl: wrap(c.Enc, `<p data-m="s" v-bind:title="v">x</p>`), attr: "title"}
	case "class":
		return program{tpl: wrap(c.Enc, `<p data-m="s" class="st" :class="v">x</p>`), attr: "class"}
	case "style":
		return program{tpl: wrap(c.Enc, `<p data-m="s" :style="v">x</p>`), attr: "style"}
	case "loop":
		return program{tpl: wrap(c.Enc, `<ul><li v-for="i in items" data-m="s">`+n.LS+`{{ i }}`+n.RS+`</li></ul>`), useNb: true}
	case "loopattr":
		return program{tpl: wrap(c.Enc, `<ul><li v-for="i in items" data-m="s" title="`+n.LS+`{{ i }}`+n.RS+`">x</li></ul>`), attr: "title", useNb: true}
	case "loopchild":
		return program{tpl: wrap(c.Enc, `<ul><li v-for="(n, i) in items"><b data-m="s" :title="i">{{ n }}</b><i title="{{ i }}">{{ i }}</i></li></ul>`), attr: "title"}
	case "ifself":
		return program{tpl: wrap(c.Enc, `<p v-if="yes" data-m="s" title="`+n.LS+`{{ v }}`+n.RS+`" :lang="v">{{ v }}</p>`), attr: "title", useNb: true}
	case "elseself":
		return program{tpl: wrap(c.Enc, `<p v-if="no">n</p><p v-else data-m="s" :title="v">`+n.LS+`{{ v }}`+n.RS+`</p>`), useNb: true}
	case "incstatic":
		return program{files: map[string]string{
			"page.vuego": wrap(c.Enc, `<template include="c.vuego" p="`+n.LS+`{{ v }}`+n.RS+`"></template><p>after {{ secretless }}</p>`),
			"c.vuego":    `<div><p data-m="s">{{ p }}</p><i title="{{ p }}" :lang="p">x</i></div>`,
		}, useNb: true}
	case "incbound":
		return program{files: map[string]string{
			"page.vuego": wrap(c.Enc, `<template include="c.vuego" :p="v"></template>`),
			"c.vuego":    `<div><p data-m="s">{{ p }}</p><i title="{{ p }}" :lang="p">x</i><template include="d.vuego" :q="p"></template></div>`,
			"d.vuego":    `<em title="{{ q }}">{{ q }}</em>`,
		}}
	case "incattr":
		return program{files: map[string]string{
			"page.vuego": wrap(c.Enc, `<template include="c.vuego" :p="v"></template>`),
			"c.vuego":    `<div><p data-m="s" title="` + n.LS + `{{ p }}` + n.RS + `">x</p></div>`,
		}, attr: "title", useNb: true}
	case "inctplroot":
		return program{files: map[string]string{
			"page.vuego": wrap(c.Enc, `<template include="c.vuego" :p="v" q="`+n.LS+`{{ v }}`+n.RS+`"></template>`),
			"c.vuego":    `<template :required="p"><div><p data-m="s">{{ q }}</p><i title="{{ p }}" :lang="p">{{ p }}</i><u v-for="o in one" v-text="p"></u></div></template>`,
		}, useNb: true}
	case "inctplrootattr":
		return program{files: map[string]string{
			"page.vuego": wrap(c.Enc, `<template include="c.vuego" :p="v"></template>`),
			"c.vuego":    `<template><div><p data-m="s" title="` + n.LS + `{{ p }}` + n.RS + `" :lang="p">{{ p }}</p></div></template>`,
		}, attr: "title", useNb: true}
	case "slotinc":
		// an include given as slot content to a component that renders its slot once per row:
		// the same include tag is evaluated several times
		return program{files: map[string]string{
			"page.vuego": wrap(c.Enc, `<template include="list.vuego"><template v-slot:row="r"><template include="c.vuego" :p="v" q="{{ v }}" :n="r.n"></template></template></template>`),
			"list.vuego": `<ul><li v-for="x in rows"><slot name="row" :n="x"></slot></li></ul>`,
			"c.vuego":    `<p data-m="s{{ n }}" title="{{ p }}" :lang="q">{{ p }}|{{ q }}</p>`,
		}, multi: true}
	case "slotincplain":
		return program{files: map[string]string{
			"page.vuego":  wrap(c.Enc, `<template include="twice.vuego"><template include="c.vuego" :p="v" q="{{ v }}"></template></template>`),
			"twice.vuego": `<div><slot></slot><hr><slot></slot><i v-for="x in rows"><slot></slot></i></div>`,
			"c.vuego":     `<p data-m="s" title="{{ p }}" :lang="q">{{ p }}|{{ q }}</p>`,
		}, multi: true}
	case "slotprop":
		return program{files: map[string]string{
			"page.vuego": wrap(c.Enc, `<template include="c.vuego" :p="v"><template v-slot:a="x"><p data-m="s" title="{{ x.sp }}">`+n.LS+`{{ x.sp }}`+n.RS+`</p></template></template>`),
			"c.vuego":    `<div><slot name="a" :sp="p"><b>fallback</b></slot></div>`,
		}, useNb: true}
	case "layout":
		return program{files: map[string]string{
			"page.vuego":        "---\nlayout: lay\n---\n" + wrap(c.Enc, `<p>page</p>`),
			"layouts/lay.vuego": `<html><head><title>t</title></head><body><h1 data-m="s">` + n.LS + `{{ v }}` + n.RS + `</h1><div v-html="content"></div></body></html>`,
		}, useNb: true}
	case "layoutattr":
		return program{files: map[string]string{
			"page.vuego":        "---\nlayout: lay\n---\n" + wrap(c.Enc, `<p title="{{ v }}">page</p>`),
			"layouts/lay.vuego": `<html><head><title>t</title></head><body><h1 data-m="s" title="` + n.LS + `{{ v }}` + n.RS + `" :lang="v">x</h1><div v-html="content"></div></body></html>`,
		}, attr: "title", useNb: true}
	}
	panic("unknown sink " + c.Sink)
}

// funcs: same is the identity function (whatever it is given comes back unchanged).
var funcs = vuego.FuncMap{"same": func(v any) any { return v }}

func data(v string) map[string]any { return dataC("", v) }

func dataC(carrier, v string) map[string]any {
	x, _ := carry(carrier, v)
	return map[string]any{
		"v": x, "secret": canary, "yes": true, "no": false, "one": []int{1},
		"items": []any{x}, "rows": []int{1, 2, 3}, "w2": "zw",
	}
}

func render(p program, v string) (string, error) { return renderC(p, "", v) }

var boundAttrRe = regexp.MustCompile(` :([a-z][a-z-]*)="`)
var boundQuotedRe = regexp.MustCompile(` (:[a-z][a-z-]*|v-bind:[a-z][a-z-]*|v-text|v-if|v-for)="([^"']*)"`)
var tagNameRe = regexp.MustCompile(`<(/?)([a-z][a-z0-9]*)`)

// respell writes a template in another, documented-equivalent spelling; which one is decided by
// the template text alone, so the harmless baseline and the hostile render use the same one.
func respell(src string, which uint32) string {
	switch which % 12 {
	case 1:
		return strings.ReplaceAll(src, "{{ v }}", "{{v}}")
	case 2:
		return strings.ReplaceAll(src, "{{ v }}", "{{\n  v\n}}")
	case 3:
		return boundAttrRe.ReplaceAllString(src, ` v-bind:$1="`)
	case 4:
		return boundQuotedRe.ReplaceAllString(src, ` $1='$2'`)
	case 5:
		if strings.Contains(src, "<svg") || strings.Contains(src, "<math") {
			return src
		}
		return tagNameRe.ReplaceAllStringFunc(src, strings.ToUpper)
	case 6:
		return strings.ReplaceAll(strings.ReplaceAll(src, "{{ v }}", "{{  v  }}"), "\n", "\r\n")
	}
	return src
}

func renderC(p program, carrier, v string) (string, error) {
	var buf bytes.Buffer
	var err error
	{
		h := fnv.New32a()
		h.Write([]byte(p.tpl))
		for _, name := range []string{"page.vuego"} {
			h.Write([]byte(p.files[name]))
		}
		which := h.Sum32() / 7
		p.tpl = respell(p.tpl, which)
		if p.files != nil {
			files := make(map[string]string, len(p.files))
			for name, src := range p.files {
				if i := strings.Index(src, "\n---\n"); strings.HasPrefix(src, "---\n") && i >= 0 {
					files[name] = src[:i+5] + respell(src[i+5:], which)
				} else {
					files[name] = respell(src, which)
				}
			}
			p.files = files
		}
	}
	// in a part of the cases failed and aborted calls run first: in the process (pools) and on
	// the template object that is rendered next (its stack, remembered error, buffers); nothing
	// of them may show in the render under test
	names := []string{"v", "secret", "yes", "items", "rows", "w2", "p", "q", "i", "n"}
	dirty := (len(v)*7+len(p.tpl)+len(carrier))%16 == 0
	fail := func(t vuego.Template) vuego.Template {
		if dirty {
			after.Poison(names)
			after.FailOn(t, names)
		}
		return t
	}
	// the public way in varies with the case: the same escaping must hold through every door
	ctx := context.Background()
	d := dataC(carrier, v)
	assign := func(t vuego.Template) vuego.Template {
		keys := make([]string, 0, len(d))
		for k := range d {
			keys = append(keys, k)
		}
		sort.Strings(keys)
		for _, k := range keys {
			t = t.Assign(k, d[k])
		}
		return t
	}
	dr := door(p, carrier, v)
	if p.files != nil {
		fsys := memfs.FromMap(p.files)
		switch dr {
		case 12:
			err = fail(vuego.New(vuego.WithFS(fsys), vuego.WithFuncs(funcs)).Load("page.vuego").Fill(d)).Render(ctx, &buf)
		case 13:
			err = fail(vuego.View(vuego.NewFS(fsys, vuego.WithFuncs(funcs)), "page.vuego", d)).Render(ctx, &buf)
		case 14:
			err = fail(assign(vuego.NewFS(fsys, vuego.WithFuncs(funcs)).Load("page.vuego"))).Render(ctx, &buf)
		case 15:
			err = fail(vuego.NewFS(fsys, vuego.WithFuncs(funcs)).New().Fill(d)).RenderFile(ctx, &buf, "page.vuego")
		case 16:
			err = fail(vuego.NewFS(fsys, vuego.WithLessProcessor(), vuego.WithFuncs(funcs), vuego.WithFuncs(funcs)).Fill(d).Load("page.vuego")).Render(ctx, &buf)
		default:
			err = fail(vuego.NewFS(fsys, vuego.WithFuncs(funcs)).Load("page.vuego").Fill(d)).Render(ctx, &buf)
		}
	} else {
		fsys := memfs.FromMap(map[string]string{"page.vuego": p.tpl})
		switch dr {
		case 12:
			err = fail(vuego.New(vuego.WithFuncs(funcs)).Fill(d)).RenderByte(ctx, &buf, []byte(p.tpl))
		case 13:
			err = fail(vuego.New(vuego.WithFuncs(funcs)).Fill(d)).RenderReader(ctx, &buf, strings.NewReader(p.tpl))
		case 14:
			err = fail(assign(vuego.New(vuego.WithFuncs(funcs)))).RenderString(ctx, &buf, p.tpl)
		case 15:
			err = fail(vuego.New(vuego.WithFS(fsys), vuego.WithFuncs(funcs)).Fill(d)).RenderFile(ctx, &buf, "page.vuego")
		case 16:
			err = vuego.NewVue(fsys).Funcs(funcs).RenderFragment(&buf, "page.vuego", d)
		case 17:
			err = vuego.NewVue(fsys).Funcs(funcs).Render(&buf, "page.vuego", d)
		case 18:
			err = fail(vuego.View(vuego.NewFS(fsys, vuego.WithFuncs(funcs)), "page.vuego", d)).Render(ctx, &buf)
		case 19:
			err = fail(vuego.New(vuego.WithFuncs(funcs)).New().Fill(d).New()).RenderString(ctx, &buf, p.tpl)
		case 20:
			err = fail(vuego.NewFS(fsys, vuego.WithLessProcessor(), vuego.WithFuncs(funcs)).Load("page.vuego").Fill(d)).Render(ctx, &buf)
		case 21:
			err = fail(vuego.New(vuego.WithFuncs(funcs)).Fill(d).Assign("v", d["v"])).RenderString(ctx, &buf, p.tpl)
		case 22:
			err = fail(assign(vuego.NewFS(fsys, vuego.WithFuncs(funcs)).Load("page.vuego"))).Render(ctx, &buf)
		case 23:
			err = fail(vuego.NewFS(fsys, vuego.WithFuncs(funcs)).Fill(d).New().Load("page.vuego")).Render(ctx, &buf)
		default:
			err = fail(vuego.New(vuego.WithFuncs(funcs)).Fill(d)).RenderString(ctx, &buf, p.tpl)
		}
	}
	if m := after.Leaked(buf.String()); m != "" && err == nil && !strings.Contains(v, "STALE") {
		return buf.String(), fmt.Errorf("the output shows %q: text or a value of an earlier FAILED render (or of a failed call on the same template object)\noutput: %s", m, buf.String())
	}
	return buf.String(), err
}

// door derives the entry point of a case from its content (0..11: the common one).
func door(p program, carrier, v string) int {
	h := fnv.New32a()
	h.Write([]byte(v))
	h.Write([]byte{0})
	h.Write([]byte(p.tpl))
	h.Write([]byte{0})
	h.Write([]byte(carrier))
	return int(h.Sum32() % 24)
}

func parse(p program, out string) ([]*hx.N, error) {
	if p.files != nil && strings.Contains(out, "</html>") {
		return hx.Doc(out, hx.Collapse)
	}
	return hx.Frag(out, hx.Collapse)
}

var baseMu sync.Mutex
var baseCache = map[string]string{}

func baseline(c Case, p program) (string, error) {
	key := fmt.Sprintf("%s|%s|%d|%s|%d", c.Sink, c.Enc, c.Nb, c.Carrier, c.Pre%len(preludes))
	baseMu.Lock()
	sk, ok := baseCache[key]
	baseMu.Unlock()
	if ok {
		return sk, nil
	}
	out, err := renderC(p, c.Carrier, harmless)
	if err != nil {
		return "", fmt.Errorf("harmless render failed: %v", err)
	}
	tree, err := parse(p, out)
	if err != nil {
		return "", err
	}
	if n := len(hx.Markers(tree)); n != 1 && !(p.multi && n > 1) {
		return "", fmt.Errorf("harness: harmless render has %d sink markers, want 1: %s", n, out)
	}
	sk = hx.Skeleton(tree)
	baseMu.Lock()
	baseCache[key] = sk
	baseMu.Unlock()
	return sk, nil
}

func collapse(s string) string { return strings.Join(strings.Fields(s), " ") }

// bareTpl: templates WITHOUT any tag or special character of their own - the whole template is
// one text run (a greeting line, a title, a subject). Whatever door it goes through, the value
// arrives as text.
var bareTpl = map[string][2]string{
	"bare:text": {"Hello {{ v }}, welcome back.", "Hello \x00, welcome back."},
	"bare:only": {"{{ v }}", "\x00"},
	"bare:pipe": {"a {{ v | same }} b", "a \x00 b"},
	"bare:call": {"x {{ same(v) }}", "x \x00"},
	"bare:two":  {"{{ v }} and {{ v }}", "\x00 and \x00"},
}

func checkBare(c Case) error {
	loose := c.Hex != ""
	c = full(c)
	t := bareTpl[c.Sink]
	out, err := renderC(program{tpl: t[0]}, c.Carrier, c.Value)
	if err != nil {
		return fmt.Errorf("render of the tag-less template %q with a hostile value failed: %v", t[0], err)
	}
	if strings.Contains(out, canary) {
		return fmt.Errorf("value was evaluated against the scope: the canary variable was printed\noutput: %s", out)
	}
	tree, err := hx.Frag(out, hx.Collapse)
	if err != nil {
		return fmt.Errorf("output does not parse: %v", err)
	}
	for _, n := range tree {
		if n.Tag != "" || n.Doctype {
			return fmt.Errorf("the tag-less template %q with value %q produced markup: the output parses to %s\noutput: %s", t[0], c.Value, hx.Skeleton(tree), out)
		}
	}
	if loose {
		return nil
	}
	shown := c.Value
	if c.Carrier != "" {
		_, shown = carry(c.Carrier, c.Value)
		if shown == "" {
			return nil
		}
	}
	if got, exp := collapse(hx.TextOf(tree, " ")), collapse(strings.ReplaceAll(t[1], "\x00", shown)); got != exp {
		return fmt.Errorf("the tag-less template %q shows %q, want %q\noutput: %s", t[0], got, exp, out)
	}
	return nil
}

func check(c Case) error {
	if _, bare := bareTpl[c.Sink]; bare {
		return checkBare(c)
	}
	loose := c.Hex != ""
	c = full(c)
	p := build(c)
	if loose {
		p.rawish = true
	}
	want, err := baseline(c, p)
	if err != nil {
		return err
	}
	out, err := renderC(p, c.Carrier, c.Value)
	if err != nil {
		return fmt.Errorf("render with hostile value failed (harmless value renders): %v", err)
	}
	if strings.Contains(out, canary) {
		return fmt.Errorf("value was evaluated against the scope: the canary variable was printed\noutput: %s", out)
	}
	tree, err := parse(p, out)
	if err != nil {
		return fmt.Errorf("output does not parse: %v", err)
	}
	if got := hx.Skeleton(tree); got != want {
		return fmt.Errorf("HTML5 parse differs from the harmless-word render\n with %q: %s\n harmless: %s\n output: %s", c.Value, got, want, out)
	}
	ms := hx.Markers(tree)
	if p.multi {
		// every occurrence must show the value literally
		for _, m := range ms {
			if !strings.Contains(collapse(m.Text), collapse(c.Value)) && c.Carrier == "" {
				return fmt.Errorf("occurrence %s of the sink shows %q, which does not contain the value %q\noutput: %s", m.ID, m.Text, c.Value, out)
			}
		}
		return nil
	}
	if len(ms) != 1 {
		return fmt.Errorf("sink element found %d times", len(ms))
	}
	if p.rawish {
		return nil
	}
	n := neighbourhoods[c.Nb%len(neighbourhoods)]
	l, r := "", ""
	if p.useNb {
		l, r = n.LD, n.RD
	}
	shown := c.Value
	if c.Carrier != "" {
		_, shown = carry(c.Carrier, c.Value)
		if shown == "" || p.jsonish || p.attr == "class" {
			return nil // only parse-equality and the canary are asserted for this carrier/sink
		}
	}
	if p.jsonish && (strings.HasPrefix(strings.TrimSpace(l+c.Value+r), "{") || strings.HasPrefix(strings.TrimSpace(l+c.Value+r), "[")) {
		return nil // documented: JSON-looking static props are decoded; only skeleton + canary apply
	}
	if p.attr == "" {
		if got, exp := collapse(ms[0].Text), collapse(l+shown+r+p.suf); got != exp {
			return fmt.Errorf("text run at the sink is %q, want neighbours+value %q\noutput: %s", got, exp, out)
		}
		return nil
	}
	got := ms[0].Attrs[p.attr]
	switch p.attr {
	case "class":
		if !strings.Contains(collapse(got), collapse(c.Value)) || !strings.HasPrefix(got, "st") {
			return fmt.Errorf("class attribute is %q, want static class followed by the value %q", got, c.Value)
		}
	default:
		if collapse(got) != collapse(l+shown+r+p.suf) {
			return fmt.Errorf("attribute %s at the sink is %q, want neighbours+value %q\noutput: %s", p.attr, got, l+shown+r+p.suf, out)
		}
	}
	return nil
}

func hostile(v string) bool {
	return strings.ContainsAny(v, "<>&\"'") || strings.Contains(v, "{{") || strings.Contains(v, "}}")
}

func classify(c Case) (bool, []string) {
	cls := []string{"sink=" + c.Sink, "enc=" + c.Enc}
	if c.Carrier != "" {
		cls = append(cls, "carrier="+c.Carrier)
	}
	if c.Hex != "" {
		cls = append(cls, "value-not-valid-utf8")
		c = full(c)
	}
	if strings.Contains(c.Value, "{{") {
		cls = append(cls, "value-has-mustache")
	}
	if strings.ContainsAny(c.Value, "<>") {
		cls = append(cls, "value-has-angle")
	}
	if strings.Contains(c.Value, "&") {
		cls = append(cls, "value-has-amp")
	}
	if strings.ContainsAny(c.Value, `"'`) {
		cls = append(cls, "value-has-quote")
	}
	if c.Nb%len(neighbourhoods) != 0 {
		cls = append(cls, "static-neighbour-with-entities")
	}
	if c.Pre%len(preludes) != 0 && build(Case{Sink: c.Sink, Enc: "bare", Value: "x"}).files != nil {
		cls = append(cls, "component-file-with-prelude")
	}
	return hostile(c.Value), cls
}

// falsy values make bound attributes disappear (C14's subject, not inertness): skip them there.
func applicable(c Case) bool {
	// only the two documented falsy strings; whitespace-only values and " false" are ordinary
	// truthy strings and must keep their attribute
	return c.Value != "" && c.Value != "false"
}

func replay(kind string, raw json.RawMessage) error { return run.Decode(raw, check) }

func TestProp(t *testing.T) {
	rec := ev.New(prop)
	defer run.Finish(t, rec)
	run.Witnesses(rec, prop, replay)

	shard, shards := run.Shard()
	// exhaustive: every token string up to length L over the core alphabet x every sink x every
	// neighbourhood, enclosures rotating (quick) or crossed (thorough)
	L := run.Pick(2, 3)
	var values []string
	var gen func(prefix string, d int)
	gen = func(prefix string, d int) {
		if d > 0 {
			values = append(values, prefix)
		}
		if d == L {
			return
		}
		for _, tk := range tokens[:coreN] {
			gen(prefix+tk, d+1)
		}
	}
	gen("", 0)
	for _, tk := range tokens[coreN:] {
		values = append(values, tk)
	}
	for _, tag := range containerTags {
		values = append(values, "</"+tag+"><img src=x onerror=a>", "a</"+tag+"><script>alert(1)</script>")
		// end tags are matched case-insensitively by parsers: mixed and upper case spellings
		mixed := strings.ToUpper(tag[:1]) + tag[1:]
		if len(tag) > 2 {
			mixed = tag[:1] + strings.ToUpper(tag[1:2]) + tag[2:]
		}
		values = append(values, "</"+strings.ToUpper(tag)+"><img src=x onerror=a>", "</"+mixed+"><img src=x onerror=a>", "</"+strings.ToUpper(tag[:1])+tag[1:]+" ><b id=i>")
		// characters whose lower- or upper-case form has another byte length (dotted capital I,
		// Kelvin sign, A with stroke, sharp s), and other multi-byte text, in FRONT of the end tag
		for _, pre := range []string{"İstanbul", "300 \u212a", "\u023a", "Straße", "日本 ", "😀", "e\u0301"} {
			values = append(values, pre+"</"+tag+"><img src=x onerror=a>", pre+" </"+strings.ToUpper(tag)+"><script>alert(1)</script>")
		}
	}
	// values that are not valid UTF-8: a lone lead byte directly in front of each special
	// character, truncated sequences, stray continuation bytes
	for _, v := range []string{"\xc3<img src=x onerror=a \xc3>", "\xe2\x82<script>alert(1)\xe2\x82</script>", "\xf0\"\xf0>\xf0<b x=y>", "\xc3&lt;\xc3<i>", "\xff<p>\xfe</p>", "\x80<\x80/p\x80>", "a\xc3\"\xc3 onclick=\xc3\"b", "\xed\xa0\x80<u>", "{{ secret }}\xc3<s>"} {
		values = append(values, v)
	}
	i := 0
	ok := true
	// long values: filler up to and across 4 KiB / 64 KiB boundaries followed by hostile tails
	for _, pad := range []int{4080, 4090, 4096, 8190, 65530} {
		for ti, tail := range []string{`" onmouseover="a" x="><script>alert(1)</script>`, `<img src=x onerror=a>{{ secret }}`, `'><b>&lt;`} {
			for si, sk := range sinks {
				i++
				if i%shards != shard || (!run.Thorough() && pad > 9000 && (si+ti)%4 != 0) {
					continue
				}
				c := Case{Sink: sk, Enc: encs[(si+ti)%len(encs)], Nb: 0, Value: tail, Pad: pad}
				nt, cls := classify(c)
				if !run.Each(rec, "enum", c, nt, append(cls, "long-value"), check) {
					ok = false
				}
			}
		}
	}
	for vi, v := range values {
		for si, s := range sinks {
			for ni := range neighbourhoods {
				i++
				if i%shards != shard {
					continue
				}
				encList := []string{encs[(vi+si+ni)%len(encs)]}
				if run.Thorough() && len(v) <= 12 && vi%7 == 0 {
					encList = encs
				}
				for _, e := range encList {
					c := Case{Sink: s, Enc: e, Nb: ni, Value: v, Pre: (vi + si*2 + ni) % len(preludes)}
					if (vi+si+ni)%3 == 0 {
						c.Carrier = carriers[(vi+si*3+ni)%len(carriers)]
					}
					if !applicable(c) {
						continue
					}
					c = norm(c)
					nt, cls := classify(c)
					if !run.Each(rec, "enum", c, nt, cls, check) {
						ok = false
					}
				}
			}
			if !ok {
				break
			}
		}
		if !ok {
			break
		}
	}
	if ok {
		rec.Exhaustive(fmt.Sprintf("all token strings of length <= %d over the %d-token core alphabet (%d values) x %d sinks x %d neighbourhoods", L, coreN, len(values), len(sinks), len(neighbourhoods)))
	}

	run.Rapid(t, rec, "random", func(t *rapid.T) Case {
		n := rapid.IntRange(1, 12).Draw(t, "len")
		var sb strings.Builder
		for j := 0; j < n; j++ {
			if rapid.IntRange(0, 9).Draw(t, "raw") == 0 {
				sb.WriteString(rapid.StringMatching(`[a-zA-Z0-9<>&;"'{}#=/ ]{1,4}`).Draw(t, "chars"))
			} else {
				sb.WriteString(rapid.SampledFrom(tokens).Draw(t, "tok"))
			}
		}
		c := Case{
			Sink:    rapid.SampledFrom(sinks).Draw(t, "sink"),
			Enc:     rapid.SampledFrom(encs).Draw(t, "enc"),
			Nb:      rapid.IntRange(0, len(neighbourhoods)-1).Draw(t, "nb"),
			Value:   sb.String(),
			Carrier: rapid.SampledFrom(carriers).Draw(t, "carrier"),
			Pre:     rapid.IntRange(0, len(preludes)-1).Draw(t, "pre"),
		}
		if !applicable(c) {
			c.Value = "<" + c.Value
		}
		switch rapid.IntRange(0, 19).Draw(t, "shape") {
		case 0:
			// a lone lead byte in front of every special character
			var lb strings.Builder
			lead := rapid.SampledFrom([]string{"\xc3", "\xe2", "\xf0", "\xe2\x82", "\x80"}).Draw(t, "lead")
			for _, r := range c.Value {
				if strings.ContainsRune("<>&\"'", r) {
					lb.WriteString(lead)
				}
				lb.WriteRune(r)
			}
			c.Value = lb.String()
		case 1:
			c.Pad = rapid.SampledFrom([]int{4000, 4090, 4096, 5000, 8192}).Draw(t, "pad")
		}
		return norm(c)
	}, classify, check)
}

func TestReplay(t *testing.T) { run.ReplayMain(t, prop, replay) }

// FuzzInert: native coverage-guided fuzzing of the value (thorough tier); the selector picks the
// sink, enclosure, neighbourhood, carrier and component prelude.
func FuzzInert(f *testing.F) {
	for i, tk := range tokens {
		f.Add(tk, uint32(i*7919))
		f.Add("a"+tk+tk+"b", uint32(i*104729))
	}
	for _, tag := range containerTags {
		f.Add("</"+tag+"><img src=x onerror=a>", uint32(len(tag)))
	}
	rec := ev.New(prop)
	f.Fuzz(func(t *testing.T, v string, sel uint32) {
		if !utf8.ValidString(v) || strings.ContainsRune(v, 0) || len(v) > 200 {
			t.Skip()
		}
		c := Case{Value: v}
		c.Sink = sinks[int(sel)%len(sinks)]
		sel /= uint32(len(sinks))
		c.Enc = encs[int(sel)%len(encs)]
		sel /= uint32(len(encs))
		c.Nb = int(sel) % len(neighbourhoods)
		sel /= uint32(len(neighbourhoods))
		c.Pre = int(sel) % len(preludes)
		sel /= uint32(len(preludes))
		if sel%3 == 0 {
			c.Carrier = carriers[int(sel/3)%len(carriers)]
		}
		if !applicable(c) {
			t.Skip()
		}
		if err := run.Safe(func() error { return check(c) }); err != nil {
			rec.Fail("fuzz", c, err)
			rec.Finish()
			t.Fatalf("%+v: %v", c, err)
		}
	})
}
