package c04

import (
	"fmt"
	"testing"
	"time"
)

func TestTmpCount(t *testing.T) {
	n := 0
	var first Case
	t0 := time.Now()
	core1(false, func(c Case) bool { n++; if n == 1000 { first = c }; return true })
	fmt.Println("core1", n, time.Since(t0))
	m := 0
	core2(func(c Case) bool { m++; return true })
	fmt.Println("core2", m)
	first.Tpl = buildTemplate(first)
	fmt.Println(first.Tpl)
	for _, api := range []string{"string", "fragment", "load"} {
		first.API = api
		t0 = time.Now()
		for i := 0; i < 200; i++ {
			if err := check(first); err != nil {
				t.Fatal(err)
			}
		}
		fmt.Println(api, time.Since(t0)/200)
	}
	t0 = time.Now()
	for i := 0; i < 200; i++ {
		classify(first)
	}
	fmt.Println("classify", time.Since(t0)/200)
}
