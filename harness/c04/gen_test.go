package c04

import (
	"fmt"
	"strings"

	"pgregory.net/rapid"

	"verif/internal/vals"
)

// ---------------------------------------------------------------- static scope (generation time)

// sscope maps a name bound by an enclosing loop to a *sample* of what it holds there (the first
// item of the collection, or a typical item for an empty one). Generators use it to write reads
// that are well-typed wherever they execute (`v` for scalars, `v.name` for map items, `v.Name`
// for struct items); what a read yields is decided by the reference interpreter, not here.
type sscope map[string]vals.V

func (s sscope) with(kv ...any) sscope {
	out := sscope{}
	for k, v := range s {
		out[k] = v
	}
	for i := 0; i+1 < len(kv); i += 2 {
		out[kv[i].(string)] = kv[i+1].(vals.V)
	}
	return out
}

// bind is with() for a loop binding; nullable records (under the key "?name") that some item of
// the collection is nil, so that reads of the name stay within what is defined for a nil item.
func (s sscope) bind(name string, sample vals.V, nullable bool) sscope {
	out := s.with(name, sample)
	delete(out, "?"+name)
	if nullable {
		out["?"+name] = vals.Nil()
	}
	return out
}

func (s sscope) nullable(name string) bool { _, ok := s["?"+name]; return ok }

func hasNil(c vals.V) bool {
	for _, e := range elems(c) {
		if e.K == "nil" {
			return true
		}
	}
	return false
}

func firstNonNil(c vals.V) (vals.V, bool) {
	for _, e := range elems(c) {
		if e.K != "nil" {
			return e, true
		}
	}
	return vals.V{}, false
}

func (s sscope) lookup(d Data, name string) (vals.V, bool) {
	if v, ok := s[name]; ok {
		return v, true
	}
	return d.root(name)
}

func (s sscope) resolve(d Data, path string) (vals.V, bool) {
	parts := strings.Split(path, ".")
	v, ok := s.lookup(d, parts[0])
	for _, p := range parts[1:] {
		if !ok {
			break
		}
		v, ok = field(v, p)
	}
	return v, ok
}

func recOf(name, title string, count int, kids ...vals.V) vals.V {
	m := map[string]vals.V{"Name": vals.Str(name), "Title": vals.Str(title), "Count": vals.Int(count)}
	if kids != nil {
		m["Kids"] = vals.V{K: "[]rec", L: kids}
	}
	return vals.V{K: "rec", M: m}
}

// embOf describes an item of the embedding struct types (kind "emb"; "[]pemb" / "[]*emb" slices
// build the pointer flavours from the same description).
func embOf(code string, id int, tags []string, subs ...vals.V) vals.V {
	m := map[string]vals.V{"ID": vals.Int(id), "Code": vals.Str(code), "Title": vals.Str("t" + code)}
	if tags != nil {
		l := []vals.V{}
		for _, t := range tags {
			l = append(l, vals.Str(t))
		}
		m["Tags"] = vals.V{K: "[]string", L: l}
	}
	if subs != nil {
		m["Subs"] = vals.V{K: "[]emb", L: subs}
	}
	return vals.V{K: "emb", M: m}
}

func isEmb(k string) bool { return k == "emb" || k == "pemb" || k == "*emb" }

func mapOf(name string, n int) vals.V {
	m := map[string]vals.V{"name": vals.Str(name), "n": vals.Int(n), "body": vals.Str(bodyOpen + name + bodyClose)}
	if n%2 == 1 {
		m["note"] = vals.Str("N" + name) // an optional per-item field: odd items have it, even ones do not
	}
	return vals.Map(m)
}

// listOf is a call of the scoped-slot list component over the collection at path items (maps,
// possibly with nil items): the slot content prints item.name, index, note of the instance, tests
// note (truthiness, ==) and reads page names.
func listOf(id string, sc sscope, d Data, items string, destr bool, salt int, pageNames []string) Node {
	pre := "sp."
	if destr {
		pre = ""
	}
	lc := &ListCall{Items: items, Destr: destr, Content: Probe{ID: id}}
	lc.Content.Reads = []Read{
		{Pos: "text", Cond: Cond{Path: pre + "item.name"}}, {Pos: "text", Cond: Cond{Path: pre + "index"}}, {Pos: "text", Cond: Cond{Path: pre + "note"}},
		{Pos: "tern", Cond: Cond{Path: pre + "note", Op: "==", Lit: vals.Str("N" + letters[salt%len(letters)])}},
		{Pos: "vif", Cond: Cond{Path: pre + "note"}},
		{Pos: "vif", Cond: Cond{Path: pre + "index", Op: "==", Lit: vals.Int(salt % 3)}},
	}
	for i, n := range uniq(pageNames) {
		if n == "sp" || n == "item" || n == "index" || n == "note" || n == "items" {
			// the slot props, and the component's own prop / loop names: whether the slot content
			// sees the component's scope is another property's subject
			continue
		}
		for _, r := range readsFor(sc, d, n, salt+i, nil, false) {
			if r.Pos == "text" || r.Pos == "tern" {
				lc.Content.Reads = append(lc.Content.Reads, r)
			}
		}
	}
	return Node{List: lc}
}

// mapLists: paths at this point that hold lists of maps (for the list component).
func mapLists(sc sscope, d Data, names []string) []string {
	var out []string
	for _, n := range uniq(names) {
		if v, ok := sc.lookup(d, n); ok && (v.K == "[]any" || v.K == "[]map") {
			if e, has := firstNonNil(v); has && e.K == "map" {
				out = append(out, n)
			}
		}
	}
	return out
}

// htmlPath is the path below name whose value is inserted with v-html: the marked-up body of a
// map item, else the same scalar the other reads use.
func htmlPath(sc sscope, d Data, name, scalar string) string {
	if s, ok := sc.lookup(d, name); ok && s.K == "map" {
		if _, has := field(s, "body"); has {
			return name + ".body"
		}
	}
	return scalar
}

// sampleElem is a typical item of a collection description.
func sampleElem(c vals.V) vals.V {
	if e, ok := firstNonNil(c); ok {
		return e
	}
	if _, _, ok := wideKind(c.K); ok {
		return vals.V{K: "wnum", S: "1"}
	}
	switch c.K {
	case "[]int", "[3]int":
		return vals.Int(1)
	case "[]float64":
		return vals.Num("float64", "1.5")
	case "[]bool":
		return vals.Bool(true)
	case "[]map":
		return mapOf("a", 1)
	case "[]rec":
		return recOf("a", "ta", 1)
	case "[]*rec":
		r := recOf("a", "ta", 1)
		r.K = "*rec"
		return r
	case "[]emb", "[]pemb", "[]*emb":
		e := embOf("a", 1, nil)
		e.K = strings.TrimPrefix(c.K, "[]")
		return e
	case "[]flag":
		return vals.V{K: "flag", S: "true"}
	case "[]name":
		return vals.V{K: "name", S: "a"}
	case "[]*task", "[2]*task":
		return vals.V{K: "*task", M: map[string]vals.V{"ID": vals.Int(1), "Title": vals.Str("wa")}}
	case "[]task":
		return vals.V{K: "task", M: map[string]vals.V{"ID": vals.Int(1), "Title": vals.Str("wa")}}
	case "[]qty":
		return vals.V{K: "qty", S: "1"}
	case "[2]ratio":
		return vals.V{K: "ratio", S: "1.5"}
	case "[]dur":
		return vals.V{K: "dur", S: "5ns"}
	}
	return vals.Str("a")
}

// noExpr: names that are printed, looped over and shadowed but not put into expressions (today
// only the promoted scalars of embedding roots, see below). Names of registered template
// functions that the documentation does not list (title, type, file, upper, json, default, trim,
// lower) and of expression-library built-ins (first, last, max, count) ARE used in expressions:
// the innermost binding wins over a function like over an outer variable.
func noExpr(path string) bool {
	head := strings.SplitN(path, ".", 2)[0]
	// Pname / Ptotal: scalars PROMOTED into the root struct from an embedded struct. Path lookup
	// finds them; the expression environment lists a root struct's own fields only (another
	// property's subject), so they are printed, looped over and shadowed, not compared.
	return head == "Pname" || head == "Ptotal"
}

// funcNames: registered template functions (funcmap.go) used as variable names.
var funcNames = map[string]bool{"title": true, "type": true, "file": true, "upper": true, "lower": true, "trim": true, "json": true, "default": true,
	"string": true, "int": true, "escape": true, "len": true, "first": true, "last": true, "max": true, "min": true, "count": true, "formatTime": true, "formatDate": true, "jsonPretty": true, "jsonFile": true, "yamlFile": true}

var strLits = []string{"a", "b", "Österreich", "d", "日本", "RN"}
var fltLits = []string{"0.5", "1.5", "2.25", "3.75"}

// litFor picks a literal of the kind of sample s; salt varies the choice.
func litFor(s vals.V, salt int) vals.V {
	if salt < 0 {
		salt = -salt
	}
	switch s.K {
	case "int":
		return vals.Int(salt % 4)
	case "float64":
		return vals.Num("float64", fltLits[salt%len(fltLits)])
	case "bool":
		return vals.Bool(salt%2 == 0)
	}
	return vals.Str(strLits[salt%len(strLits)])
}

// scalarPaths lists the readable scalar paths below name at this point of the program, with a
// sample of each; ok=false when the name holds a sequence (nothing scalar to read).
func scalarPaths(sc sscope, d Data, name string) (paths []string, samples []vals.V, bound bool, ok bool) {
	s, found := sc.lookup(d, name)
	switch {
	case !found || s.K == "nil" || s.K == "missing":
		return []string{name}, []vals.V{vals.Str("a")}, false, true
	case isScalar(s.K):
		return []string{name}, []vals.V{s}, true, true
	case s.K == "map":
		a, _ := field(s, "name")
		b, _ := field(s, "n")
		return []string{name + ".name", name + ".n"}, []vals.V{a, b}, true, true
	case s.K == "rec" || s.K == "*rec":
		a, _ := field(s, "Name")
		b, _ := field(s, "title")
		c, _ := field(s, "Count")
		return []string{name + ".Name", name + ".title", name + ".Count"}, []vals.V{a, b, c}, true, true
	case isTask(s.K):
		a, _ := field(s, "Title")
		b, _ := field(s, "ID")
		return []string{name + ".Title", name + ".ID"}, []vals.V{a, b}, true, true
	case isEmb(s.K):
		// Code and ID are promoted from the embedded struct, Title is the struct's own field
		a, _ := field(s, "Code")
		b, _ := field(s, "ID")
		c, _ := field(s, "Title")
		return []string{name + ".Code", name + ".ID", name + ".Title"}, []vals.V{a, b, c}, true, true
	}
	return nil, nil, true, false
}

// readsFor writes the candidate reads of one name: plain text always; the expression positions
// (ternary, v-if, bound attribute) unless the name must stay out of expressions. choose picks
// which scalar path below a record is used and which positions are kept (nil = all, path 0).
func readsFor(sc sscope, d Data, name string, salt int, choose func(n int) int, rich bool) []Read {
	paths, samples, bound, ok := scalarPaths(sc, d, name)
	if !ok {
		// a sequence: a context-aware function iterates it through ctx.Stack().ForEach
		return []Read{{Pos: "cnt", Cond: Cond{Path: name}}}
	}
	pi := 0
	if choose != nil && len(paths) > 1 {
		pi = choose(len(paths))
	}
	path, s := paths[pi], samples[pi]
	out := []Read{{Pos: "text", Cond: Cond{Path: path}}}
	// the same path as seen by a registered context-aware function (ctx.Stack().Resolve)
	if choose == nil || choose(2) == 0 {
		out = append(out, Read{Pos: "ctx", Cond: Cond{Path: path}})
	}
	// a bound attribute named like the variable itself (<option :value="value">): plain path
	// binding, no expression; attribute names are lower case in HTML
	selfAttr := func() {
		if bound && name == strings.ToLower(name) && isASCII(name) && (choose == nil || choose(2) == 0) {
			out = append(out, Read{Pos: "nattr", Cond: Cond{Path: path}})
		}
	}
	// struct items are addressed by Go field name inside expressions (the JSON tag of an item
	// field is a path-lookup feature; expression access by tag belongs to C17, not to loops)
	selfAttr()
	if s0, ok := sc.lookup(d, name); ok && isTask(s0.K) && !sc.nullable(name) {
		// what depends on the item's Go type: type(p); for *Task also the Stringer used by
		// {{ p }} / :data-x="p" and a registered function declared func(*Task)
		out = append(out, Read{Pos: "type", Cond: Cond{Path: name}})
		if s0.K == "*task" {
			out = append(out, Read{Pos: "text", Cond: Cond{Path: name}}, Read{Pos: "fn", Cond: Cond{Path: name}}, Read{Pos: "attr", Cond: Cond{Path: name}})
		}
	}
	if noExpr(path) || strings.HasSuffix(path, ".title") {
		return out
	}
	keep := func() bool { return choose == nil || choose(3) != 0 }
	if funcNames[name] && (!bound || sc.nullable(name)) {
		// Where such a name is NOT bound (after the loop, in a nil item's instance) it means the
		// registered function in expressions - not comparable with a never-defined name; only the
		// mustache path (which knows variables only) is read there.
		return out
	}
	if bound && sc.nullable(name) {
		// Some item bound to this name is nil. A nil item must read like a never-defined name
		// (and never like the outer variable it shadows). Only what the control element defines
		// for such a name is used: {{ }}, == comparisons, plain truthiness - on the name itself.
		// Below a record (v.name) only path lookup is used: the expression library refuses
		// member access on nil, and what v-html / v-text print for nil is not this property's.
		if path != name {
			return out
		}
		l := litFor(s, salt)
		for _, r := range []Read{
			{Pos: "tern", Cond: Cond{Path: path, Op: "==", Lit: l}}, {Pos: "vif", Cond: Cond{Path: path, Op: "==", Lit: litFor(s, salt+1)}},
			{Pos: "vif", Cond: Cond{Path: path}}, {Pos: "attr", Cond: Cond{Path: path}},
		} {
			if s.K != "string" && r.Pos == "vif" && r.Op == "" {
				continue // truthiness of 0 / false vs nil: keep to strings
			}
			if keep() {
				out = append(out, r)
			}
		}
		if rich {
			for _, r := range []Read{{Pos: "vshow", Cond: Cond{Path: path, Op: "==", Lit: l}}, {Pos: "class", Cond: Cond{Path: path, Op: "==", Lit: l}}, {Pos: "style", Cond: Cond{Path: path}}} {
				if keep() {
					out = append(out, r)
				}
			}
		}
		return out
	}
	if !bound {
		// an unbound name is only compared with ==, like the control element does
		if keep() {
			out = append(out, Read{Pos: "tern", Cond: Cond{Path: path, Op: "==", Lit: vals.Str("a")}})
		}
		if keep() {
			out = append(out, Read{Pos: "vif", Cond: Cond{Path: path, Op: "==", Lit: vals.Str("a")}})
		}
		if keep() {
			out = append(out, Read{Pos: "vif", Cond: Cond{Path: path}})
		}
		return out
	}
	if truthOnly(s.K) {
		// items of a named numeric type: printed, bound, tested for truthiness - never compared
		for _, r := range []Read{{Pos: "vif", Cond: Cond{Path: path}}, {Pos: "attr", Cond: Cond{Path: path}}} {
			if keep() {
				out = append(out, r)
			}
		}
		if rich {
			for _, r := range []Read{{Pos: "vshow", Cond: Cond{Path: path}}, {Pos: "class", Cond: Cond{Path: path}}, {Pos: "style", Cond: Cond{Path: path}},
				{Pos: "vtext", Cond: Cond{Path: path}}, {Pos: "thtml", Cond: Cond{Path: path}}} {
				if keep() {
					out = append(out, r)
				}
			}
		}
		return out
	}
	op := "=="
	switch {
	case salt%7 == 5:
		op = "===" // documented as the same as ==
	case salt%7 == 6:
		op = "!=="
	case salt%5 == 3:
		op = "!="
	case salt%5 == 4 && (s.K == "int" || s.K == "float64"):
		op = []string{"<", ">"}[salt/5%2]
	}
	l := litFor(s, salt)
	if keep() {
		out = append(out, Read{Pos: "tern", Cond: Cond{Path: path, Op: op, Lit: l}})
	}
	if keep() {
		out = append(out, Read{Pos: "vif", Cond: Cond{Path: path, Op: op, Lit: litFor(s, salt+1)}})
	}
	if keep() {
		out = append(out, Read{Pos: "attr", Cond: Cond{Path: path}})
	}
	if s.K == "bool" && keep() {
		out = append(out, Read{Pos: "vif", Cond: Cond{Path: path}})
	}
	if !rich {
		return out
	}
	// constructs the engine evaluates by rewriting / specially treating the node
	cond := Cond{Path: path, Op: op, Lit: litFor(s, salt+2)}
	if s.K == "bool" {
		cond = Cond{Path: path}
	}
	hp := htmlPath(sc, d, name, path)
	for _, r := range []Read{
		{Pos: "thtml", Cond: Cond{Path: hp}}, {Pos: "vhtml", Cond: Cond{Path: hp}}, {Pos: "vtext", Cond: Cond{Path: path}},
		{Pos: "vshow", Cond: cond}, {Pos: "class", Cond: cond}, {Pos: "style", Cond: Cond{Path: path}},
	} {
		if keep() {
			out = append(out, r)
		}
	}
	return out
}

// only keeps the reads of the given positions (cheaper probes where the full set adds nothing).
func only(n Node, pos ...string) Node {
	var kept []Read
	for _, r := range n.Probe.Reads {
		for _, p := range pos {
			if r.Pos == p {
				kept = append(kept, r)
			}
		}
	}
	n.Probe.Reads = kept
	return n
}

// textOf is element-less output of the names: ID({{ a }},{{ b == lit ? 'Y' : 'N' }},…).
func textOf(id string, sc sscope, d Data, names []string, salt int, choose func(int) int) Node {
	n := only(probeOf(id, sc, d, names, salt, choose), "text", "tern", "type", "fn", "ctx", "cnt")
	return Node{Text: n.Probe}
}

func isASCII(s string) bool {
	for _, r := range s {
		if r > 127 {
			return false
		}
	}
	return true
}

func sampleOK(c vals.V) bool { _, ok := firstNonNil(c); return ok }

func uniq(names []string) []string {
	seen := map[string]bool{}
	var out []string
	for _, n := range names {
		if n != "" && !seen[n] {
			seen[n] = true
			out = append(out, n)
		}
	}
	return out
}

func probeOf(id string, sc sscope, d Data, names []string, salt int, choose func(int) int) Node {
	return probeRich(id, sc, d, names, salt, choose, "")
}

// probeRich is probeOf with the node-rewriting constructs (v-html, <template v-html>, v-text,
// v-show, :class / :style objects) for the name richName.
func probeRich(id string, sc sscope, d Data, names []string, salt int, choose func(int) int, richName string) Node {
	p := &Probe{ID: id}
	for i, n := range uniq(names) {
		p.Reads = append(p.Reads, readsFor(sc, d, n, salt+i, choose, n == richName)...)
	}
	if len(p.Reads) == 0 {
		p.Reads = []Read{{Pos: "text", Cond: Cond{Path: "u1"}}}
	}
	return Node{Probe: p}
}

// ---------------------------------------------------------------- collections

// letters: item values, among them multi-byte text
var letters = []string{"a", "b", "Österreich", "d", "日本", "q", "İstanbul", "😀"}

// collKinds are the sequence kinds of the property's quantifier ("[]any" in three flavours).
var collKinds = []string{"[]any:str", "[]any:int", "[]any:map", "[]string", "[]int", "[]float64", "[]bool", "[3]int", "[]map", "[]rec", "[]*rec", "[]emb", "[]pemb", "[]*emb", "[]qty", "[2]ratio", "[]dur", "[]flag", "[]name", "[]*task", "[2]*task", "[]task", "[]any:*task", "[]uint64", "[2]uint", "[]int64", "[]int8"}

// randKinds: the kinds the drawn cases use: collKinds plus the remaining sized integer element types.
var randKinds = append(append([]string{}, collKinds...), "[]uint", "[2]uint64", "[]int32", "[]uint32", "[]int16", "[]uint16", "[]uint8", "[2]int64")

// fixedColl builds a collection of kind k with n distinct items (deterministic).
func fixedColl(k string, n int) vals.V {
	var l []vals.V
	for i := 0; i < n; i++ {
		if e, _, ok := wideKind(k); ok {
			// zero first (one item = all zero), then the extremes of the width
			l = append(l, vals.V{K: "wnum", S: wideVals[e][i%len(wideVals[e])]})
			continue
		}
		switch k {
		case "[]any:str", "[]string":
			l = append(l, vals.Str(letters[i]))
		case "[]any:int", "[]int", "[3]int":
			l = append(l, vals.Int(i+1))
		case "[]float64":
			l = append(l, vals.Num("float64", fltLits[i]))
		case "[]bool":
			l = append(l, vals.Bool(i%2 == 0))
		case "[]any:map", "[]map":
			l = append(l, mapOf(letters[i], i+1))
		case "[]rec", "[]*rec":
			l = append(l, recOf(letters[i], "t"+letters[i], i+1))
		case "[]emb", "[]pemb", "[]*emb":
			l = append(l, embOf(letters[i], i+1, []string{"x" + letters[i]}))
		case "[]flag":
			l = append(l, vals.Bool(i%2 == 1)) // false first: one item = all zero
		case "[]name":
			l = append(l, vals.Str([]string{"", "a", "", "b", "c"}[i]))
		case "[]*task", "[2]*task", "[]task", "[]any:*task":
			l = append(l, vals.V{K: "*task", M: map[string]vals.V{"ID": vals.Int(i + 1), "Title": vals.Str("w" + letters[i])}})
		case "[]qty", "[]dur":
			// zero first, then alternating: one item = all zero
			l = append(l, vals.Int(i%2*(i+2)))
		case "[2]ratio":
			l = append(l, vals.Num("float64", []string{"0", "1.5"}[i%2]))
		}
	}
	kind := strings.SplitN(k, ":", 2)[0]
	if l == nil {
		l = []vals.V{}
	}
	return vals.V{K: kind, L: l}
}

// ---------------------------------------------------------------- exhaustive core 1

type rootSetup struct {
	kind    string
	coll    string   // name the collection is addressed by
	slot    string   // slot holding it
	scalars []Slot   // other root values
	shadow  []string // root scalar names a loop variable can shadow
	idxName string   // root int name the index variable can shadow
	only    string   // "" = every collection kind; else the one kind this root can hold
	thin    int      // > 0: every thin-th collection only (plus the missing name)
}

func rootSetups() []rootSetup {
	mapScalars := []Slot{{"name", vals.Str("RN")}, {"total", vals.Int(7)}}
	stScalars := []Slot{{"Name", vals.Str("RN")}, {"Label", vals.Str("RL")}, {"Total", vals.Int(7)}}
	recScalars := []Slot{{"Name", vals.Str("RN")}, {"Title", vals.Str("RT")}, {"Count", vals.Int(7)}}
	embScalars := []Slot{{"Pname", vals.Str("RN")}, {"Ptotal", vals.Int(7)}, {"Label", vals.Str("RL")}, {"Total", vals.Int(7)}}
	return []rootSetup{
		{kind: "map", coll: "xs", slot: "xs", scalars: mapScalars, shadow: []string{"name"}, idxName: "total"},
		// map roots that are not literally map[string]any: a named map type, and a typed map whose
		// other keys (name, total) hold []int as well
		{kind: "hmap", coll: "xs", slot: "xs", scalars: mapScalars, shadow: []string{"name"}, idxName: "total", thin: 4},
		{kind: "map[]int", coll: "xs", slot: "xs", scalars: []Slot{{"name", vals.List("[]int", vals.Int(7))}, {"total", vals.List("[]int", vals.Int(8), vals.Int(9))}},
			shadow: []string{"name"}, idxName: "total", only: "[]int"},
		{kind: "root", coll: "Xs", slot: "Xs", scalars: stScalars, shadow: []string{"Name", "label"}, idxName: "total"},
		{kind: "*root", coll: "ys", slot: "Ys", scalars: stScalars, shadow: []string{"Label", "Name"}, idxName: "Total"},
		// vals.Rec as root: its only sequence field is Kids []Rec
		{kind: "rec", coll: "Kids", slot: "Kids", scalars: recScalars, shadow: []string{"Name", "title"}, idxName: "Count", only: "[]rec"},
		{kind: "*rec", coll: "Kids", slot: "Kids", scalars: recScalars, shadow: []string{"Title", "Name"}, idxName: "count", only: "[]rec"},
		// roots that EMBED a struct: the looped collection Ps and the scalars Pname / Ptotal are
		// promoted fields (by value, behind a pointer to the root, embedded by pointer)
		{kind: "eroot", coll: "Ps", slot: "Ps", scalars: embScalars, shadow: []string{"Pname", "label"}, idxName: "Ptotal", thin: 6},
		{kind: "*eroot", coll: "Ps", slot: "Ps", scalars: embScalars, shadow: []string{"Label", "Pname"}, idxName: "total", thin: 7},
		{kind: "proot", coll: "Ps", slot: "Ps", scalars: embScalars, shadow: []string{"Pname", "Label"}, idxName: "Ptotal", thin: 8},
	}
}

// apiFor: Load+Fill+Render hands the page a flattened copy of the data (Template.Render passes
// Stack.EnvMap()), which lists a root struct's own fields only; what that means for promoted
// root fields is not this property's subject, so embedding roots use the two direct entry points.
func apiFor(rootKind, api string) string {
	if isEmbRoot(rootKind) && (api == "load" || api == "file" || api == "view" || api == "assign") {
		return "fragment"
	}
	return api
}

// allAPIs: every public entry point (see openDoor).
var allAPIs = []string{"string", "fragment", "load", "byte", "vrender", "file", "reader", "nodes", "view", "assign"}

// elseSeps: what may stand between a loop and its v-else (index 0 = directly adjacent).
var elseSeps = []string{"", " ", "\n  ", "<!-- c -->", "\n<!-- c -->\n"}

// core1 enumerates single loops. full = the whole product; otherwise the three cheapest
// dimensions (v-else separator beyond "absent / adjacent", which v-if, element or <template>,
// fresh or shadowing index name) are not multiplied out but rotated, so that every value of every dimension still meets every
// root kind x collection x variable name x form.
func core1(full bool, yield func(Case) bool) {
	var colls []vals.V
	for _, k := range collKinds {
		max := 4
		if k == "[3]int" {
			max = 3
		}
		if strings.HasPrefix(k, "[2]") {
			max = 2
		}
		_, _, wide := wideKind(k)
		named := k == "[]qty" || k == "[2]ratio" || k == "[]dur" || k == "[]flag" || k == "[]name" || wide
		for n := 0; n <= max; n++ {
			if !full && strings.HasSuffix(k, "emb") && n != 0 && n != 2 {
				continue // quick tier: the embedding struct kinds with 0 and 2 items only
			}
			if !full && strings.Contains(k, "task") && (n != 2 || k == "[]task" || k == "[]any:*task") {
				continue // quick tier: two pointer items, typed slice and array
			}
			if !full && named && n == 1 && k != "[]qty" && k != "[]flag" {
				continue // quick tier: the all-zero single item list for one numeric and the bool kind
			}
			if !full && named && n != 1 && n != 2 {
				continue // quick tier: named numeric items: [0] (all zero) and [0, x]
			}
			colls = append(colls, fixedColl(k, n))
		}
	}
	colls = append(colls, vals.V{K: "nil[]any"}, vals.Nil(), vals.Missing())
	// []any with nil items (JSON null): in the middle of strings, of ints, of maps; first; alone
	colls = append(colls,
		vals.List("[]any", vals.Str("a"), vals.Nil(), vals.Str("b")),
		vals.List("[]any", vals.Nil(), vals.Str("a")),
		vals.List("[]any", vals.Int(1), vals.Nil(), vals.Int(2), vals.Nil()),
		vals.List("[]any", mapOf("a", 1), vals.Nil(), mapOf("c", 3)),
		vals.List("[]any", vals.Nil()))
	apis := allAPIs
	i, rot, rotIdx := 0, 0, 0
	for _, rs := range rootSetups() {
		for ci, coll := range colls {
			if rs.only != "" && coll.K != rs.only && coll.K != "missing" {
				continue
			}
			if rs.thin > 0 && ci%rs.thin != 0 && coll.K != "missing" && !strings.HasSuffix(coll.K, "emb") {
				continue
			}
			d := Data{Root: rs.kind, Slots: append(append([]Slot{}, rs.scalars...), Slot{rs.slot, coll})}
			if coll.K == "missing" {
				d.Slots = d.Slots[:len(d.Slots)-1]
				if !isMapRoot(rs.kind) {
					// a struct always has its fields: a missing name is one that is no field
					d.Slots = append(d.Slots, Slot{rs.slot, vals.V{K: "[]any", L: []vals.V{vals.Str("zz")}}})
				}
			}
			collName := rs.coll
			if coll.K == "missing" {
				collName = "nope"
			}
			elem := sampleElem(coll)
			// the fresh name is v, the name of a registered template function or of an expression built-in
			varNames := append([]string{[]string{"v", "type", "first", "город", "title", "upper", "count", "größe"}[ci%8]}, rs.shadow...)
			varNames = append(varNames, collName)
			for _, vn := range varNames {
				idxNames := []string{"", "i", rs.idxName}
				if !full {
					// quick tier: the index name (fresh / shadowing a root int) is rotated as well
					idxNames = []string{"", idxNames[1+rotIdx%2]}
					rotIdx++
				}
				for _, idx := range idxNames {
					if idx == vn {
						continue
					}
					vifs := []string{"", "item"}
					if idx != "" {
						vifs = append(vifs, "index", "index-none")
					}
					type combo struct {
						els  int // -1 absent, else index into elseSeps
						vif  string
						tag  string
						text bool // the loop body is text only (no element): t1({{ v }},…)
					}
					var combos []combo
					if full {
						// absent, adjacent, blank, comment (the newline variants are met by the rotation of the
						// quick tier, core2 / core3 and the random nests)
						for _, e := range []int{-1, 0, 1, 3} {
							for _, vif := range vifs {
								for _, tag := range []string{"div", "template"} {
									combos = append(combos, combo{e, vif, tag, false})
								}
								// <template v-for> whose instances add no element at all
								combos = append(combos, combo{e, vif, "template", true})
							}
						}
					} else {
						for _, e := range []int{-1, 0, 1 + rot%(len(elseSeps)-1)} {
							for _, vif := range []string{"", vifs[1+rot%(len(vifs)-1)]} {
								rot++
								// element, <template> with elements, <template> with a text-only body; shifted by
								// one per block of six so that every shape meets every v-else variant
								shape := (rot/2 + rot/6) % 3
								combos = append(combos, combo{e, vif, []string{"div", "template", "template"}[shape], shape == 2})
							}
						}
					}
					for _, cb := range combos {
						i++
						outer := sscope{}
						inner := outer.bind(vn, elem, hasNil(coll))
						if idx != "" {
							inner = inner.bind(idx, vals.Int(0), false)
						}
						l := &Loop{ID: "L1", Tag: cb.tag, Idx: idx, Var: vn, Coll: collName, IfFirst: i%2 == 0, Spell: spellOf(i)}
						if cb.tag != "template" && i%3 != 0 {
							if p, _, _, ok := scalarPaths(inner, d, vn); ok && !noExpr(p[0]) {
								l.Bind = p[0]
								if vn == strings.ToLower(vn) && isASCII(vn) && i%2 == 1 {
									l.BindAs = vn // the bound attribute is named like the loop variable
								}
							}
						}
						switch cb.vif {
						case "item":
							p, s, _, _ := scalarPaths(inner, d, vn)
							c := &Cond{Path: p[0], Op: "!=", Lit: litFor(s[0], 1)}
							if s[0].K == "bool" || truthOnly(s[0].K) {
								c = &Cond{Path: p[0]}
							}
							if hasNil(coll) {
								// a possibly nil item: == on the name itself only (see readsFor)
								c = &Cond{Path: vn, Op: "==", Lit: litFor(s[0], 0)}
								if p[0] != vn {
									c = nil
								}
							}
							if !noExpr(p[0]) && c != nil {
								l.If = c
							}
						case "index":
							l.If = &Cond{Path: idx, Op: "!=", Lit: vals.Int(1)}
						case "index-none":
							l.If = &Cond{Path: idx, Op: ">", Lit: vals.Int(9)}
						}
						// read: the loop's names and every root name a loop variable shadows in this setup
						names := append([]string{vn, idx}, rs.shadow...)
						names = append(names, rs.idxName)
						// every third case ends the body with an instance-local binding (a fresh name or a
						// lower-case root name), set for the items the per-item condition selects (or for
						// all); every instance and the probe after the loop read that name
						var setter *Setter
						if i%3 == 0 {
							setter = &Setter{Name: "badge"}
							for _, nm := range rs.shadow {
								if nm == strings.ToLower(nm) && nm != vn && nm != idx && i%2 == 0 {
									setter.Name = nm
								}
							}
							setter.Val = "S" + setter.Name + "x"
							if !cb.text {
								if p, sm, _, ok := scalarPaths(inner, d, vn); ok && !noExpr(p[0]) && !hasNil(coll) && sm[0].K != "bool" && !truthOnly(sm[0].K) {
									setter.ID, setter.If = "s1", &Cond{Path: p[0], Op: "!=", Lit: litFor(sm[0], 2)}
								}
							}
							names = append(names, setter.Name)
						}
						l.Body = []Node{probeRich("p1", inner, d, names, i, nil, vn)}
						if cb.text {
							l.Body = []Node{textOf("t1", inner, d, names, i, nil)}
						}
						if setter != nil {
							l.Body = append(l.Body, Node{Set: setter})
						}
						if cb.els >= 0 {
							l.Else = &Else{ID: "E1", Sep: elseSeps[cb.els], Body: []Node{only(probeOf("p2", outer, d, []string{vn, idx}, i, nil), "text", "tern")}}
						}
						c := Case{API: apiFor(rs.kind, apis[i%len(apis)]), Pretty: i%4 == 1, Data: d, Prog: []Node{{Loop: l}, only(probeOf("p3", outer, d, names, i, nil), "text", "tern", "vif", "ctx", "cnt")}}
						if !yield(c) {
							return
						}
					}
				}
			}
		}
	}
}

// ---------------------------------------------------------------- exhaustive core 2

func core2(yield func(Case) bool) {
	kid := func(n string) vals.V { return mapOf(n, 1) }
	x0 := mapOf("a", 1)
	x0.M["children"] = vals.List("[]any", kid("c"), kid("d"))
	x1 := mapOf("b", 2)
	x1.M["children"] = vals.List("[]any")
	x1.M["children"] = vals.V{K: "[]any", L: []vals.V{}}
	x2 := mapOf("c", 3) // no children key
	xs := vals.V{K: "[]map", L: []vals.V{x0, x1, x2}}
	ys := vals.List("[]string", vals.Str("p"), vals.Str("q"))
	// the same with nil items (JSON null) in the middle of every list
	x0n := mapOf("a", 1)
	x0n.M["children"] = vals.List("[]any", kid("c"), vals.Nil(), kid("d"))
	xsNil := vals.List("[]any", x0n, vals.Nil(), x1, x2)
	ysNil := vals.List("[]any", vals.Str("p"), vals.Nil(), vals.Str("q"))
	apis := allAPIs
	i := 0
	for _, rs := range rootSetups() {
		if rs.only != "" || rs.thin > 0 {
			continue // vals.Rec roots have no field for a list of maps; embedding roots: see core3
		}
		xsN, ysN := "Xs", "ys"
		xsSlot, ysSlot := "Xs", "Ys"
		if rs.kind == "map" {
			xsN, ysN, xsSlot, ysSlot = "xs", "ys", "xs", "ys"
		}
		mk := func(a, b vals.V) Data {
			return Data{Root: rs.kind, Slots: append(append([]Slot{}, rs.scalars...), Slot{xsSlot, a}, Slot{ysSlot, b})}
		}
		dPlain, dNil := mk(xs, ys), mk(xsNil, ysNil)
		pool := []string{"a", "b", "i", rs.shadow[0]}
		for _, oi := range pool {
			for _, ov := range pool {
				if oi == ov {
					continue
				}
				for _, ii := range pool {
					for _, iv := range pool {
						if ii == iv {
							continue
						}
						for _, innerColl := range []string{ov + ".children", ysN} {
							for _, els := range []bool{false, true} {
								i++
								nilMid := i/4%2 == 1
								d := dPlain
								if nilMid {
									d = dNil
								}
								root := sscope{}
								o := root.bind(oi, vals.Int(0), false).bind(ov, x0, nilMid)
								innerSample := kid("c")
								if innerColl == ysN {
									innerSample = vals.Str("p")
								}
								in := o.bind(ii, vals.Int(0), false).bind(iv, innerSample, nilMid)
								inner := &Loop{ID: "L2", Tag: []string{"div", "section", "template"}[i%3], Idx: ii, Var: iv, Coll: innerColl, Spell: spellOf(i),
									Body: []Node{probeRich("p2", in, d, pool, i, nil, iv)}}
								if els {
									inner.Else = &Else{ID: "E2", Sep: elseSeps[i%len(elseSeps)], Body: []Node{only(probeOf("p3", o, d, pool, i, nil), "text", "tern")}}
								}
								// a later loop with its own v-else: it must not be taken for the v-else of L2
								tail := &Loop{ID: "L3", Tag: "section", Var: "t", Coll: ysN,
									Body: []Node{only(probeOf("p6", o.bind("t", vals.Str("p"), nilMid), d, []string{"t", iv}, i, nil), "text")},
									Else: &Else{ID: "E3", Sep: elseSeps[(i+1)%len(elseSeps)]}}
								outer := &Loop{ID: "L1", Tag: "div", Idx: oi, Var: ov, Coll: xsN,
									Body: []Node{only(probeOf("p1", o, d, pool, i, nil), "text", "tern"), {Loop: inner}, only(probeOf("p4", o, d, pool, i+1, nil), "text", "vif"), {Loop: tail}}}
								// a component call with more props than a small scope map holds, named like the
								// pool names: before the loops (one block of 8 in four), half of those inside the outer
								// instance too
								var call Node
								if i/8%4 == 1 {
									in := &Inc{}
									for _, nm := range append(append([]string{}, pool...), "p1", "p2", "p3", "p4", "p5", "p6", "p7") {
										if nm == strings.ToLower(nm) {
											in.Props = append(in.Props, Prop{nm, "S" + nm})
										}
									}
									call = Node{Inc: in}
									if i/32%2 == 1 {
										outer.Body = append([]Node{call}, outer.Body...)
									}
								}
								c := Case{API: apis[i%len(apis)], Pretty: i%2 == 0, Data: d, Prog: []Node{{Loop: outer}, only(probeOf("p5", root, d, pool, i, nil), "text", "tern")}}
								if call.Inc != nil {
									c.Prog = append([]Node{call}, c.Prog...)
								}
								if i%4 == 2 {
									// the rows again through the scoped-slot list component (items with and without note, nil)
									c.Prog = append(c.Prog, listOf("q1", root, d, xsN, i%8 == 2, i, pool))
								}
								if !yield(c) {
									return
								}
							}
						}
					}
				}
			}
		}
	}
}

// ---------------------------------------------------------------- exhaustive core 3

// core3: nested loops over fields PROMOTED from an embedded struct. Outer items of the three
// embedding flavours (embedded by value, by pointer, pointer to the embedding struct), held by a
// map root, a struct root field and a promoted root field; inner loop over item.Tags (2 / 0 /
// nil tags) or item.Subs (embedding items again), with and without v-else; inner variable fresh,
// equal to the outer one, or named like a root name.
func core3(yield func(Case) bool) {
	sub := embOf("s", 9, []string{"u"})
	items := []vals.V{
		embOf("a", 1, []string{"x", "y"}, sub),
		embOf("b", 2, []string{}),
		embOf("c", 3, nil, sub, embOf("r", 8, nil)),
	}
	i := 0
	for _, kind := range []string{"[]emb", "[]pemb", "[]*emb"} {
		coll := vals.V{K: kind, L: items}
		elem := sampleElem(coll)
		for _, rt := range []struct{ root, slot, name, shadow string }{
			{"map", "posts", "posts", "name"}, {"root", "Xs", "Xs", "Name"}, {"eroot", "Ps", "Ps", "Pname"}, {"*eroot", "Ps", "Ps", "label"}, {"proot", "Ps", "Ps", "Pname"},
		} {
			d := Data{Root: rt.root, Slots: []Slot{{rt.slot, coll}}}
			switch {
			case rt.root == "map":
				d.Slots = append(d.Slots, Slot{"name", vals.Str("RN")})
			case rt.root == "root":
				d.Slots = append(d.Slots, Slot{"Name", vals.Str("RN")}, Slot{"Label", vals.Str("RL")})
			default:
				d.Slots = append(d.Slots, Slot{"Pname", vals.Str("RN")}, Slot{"Label", vals.Str("RL")})
			}
			for _, inner := range []string{"Tags", "Subs"} {
				for _, iv := range []string{"t", "p", rt.shadow} {
					for _, els := range []bool{false, true} {
						i++
						root := sscope{}
						o := root.bind("p", elem, false)
						isample := vals.Str("x")
						if inner == "Subs" {
							isample = embOf("s", 9, nil)
						}
						in := o.bind(iv, isample, false)
						names := uniq([]string{"p", iv, rt.shadow})
						il := &Loop{ID: "L2", Tag: []string{"div", "template"}[i%2], Var: iv, Coll: "p." + inner, Spell: spellOf(i),
							Body: []Node{probeRich("p2", in, d, names, i, nil, iv)}}
						if i%4 == 3 {
							il.Idx = "i"
						}
						if els {
							il.Else = &Else{ID: "E2", Sep: elseSeps[i%len(elseSeps)], Body: []Node{only(probeOf("p3", o, d, names, i, nil), "text", "tern")}}
						}
						ol := &Loop{ID: "L1", Tag: "div", Var: "p", Coll: rt.name, Bind: "p.ID",
							Body: []Node{probeRich("p1", o, d, names, i, nil, "p"), {Loop: il}, only(probeOf("p4", o, d, names, i+1, nil), "text", "tern")}}
						c := Case{API: apiFor(rt.root, allAPIs[i%len(allAPIs)]), Pretty: i%2 == 0, Data: d,
							Prog: []Node{{Loop: ol}, only(probeOf("p5", root, d, names, i, nil), "text", "tern")}}
						if !yield(c) {
							return
						}
					}
				}
			}
		}
	}
}

// ---------------------------------------------------------------- exhaustive core 4

var preWs = []string{"\n", " ", "\t", "  "}

// core4: loops inside <pre>, whose instances contain white-space-only text between and after
// their elements: <template> / <span> loops x separator x 0..3 items x form x nested or flat.
func core4(yield func(Case) bool) {
	i := 0
	for _, tag := range []string{"template", "span"} {
		for _, ws := range preWs {
			for n := 0; n <= 3; n++ {
				for _, idx := range []string{"", "i"} {
					for _, nested := range []bool{false, true} {
						i++
						lines := fixedColl("[]string", n)
						cells := vals.List("[]int", vals.Int(1), vals.Int(2))
						d := Data{Root: "map", Slots: []Slot{{"lines", lines}, {"cells", cells}}}
						l := &Loop{ID: "L1", Tag: tag, Idx: idx, Var: "l", Coll: "lines"}
						if idx != "" {
							l.Body = append(l.Body, Node{Piece: &Piece{Tag: "b", Path: idx, Ws: preWs[(i+1)%len(preWs)]}})
						}
						l.Body = append(l.Body, Node{Piece: &Piece{Tag: []string{"i", ""}[i%2], Path: "l", Ws: ws}})
						if nested {
							in := &Loop{ID: "L2", Tag: []string{"template", "span"}[i/2%2], Var: "c", Coll: "cells",
								Body: []Node{{Piece: &Piece{Tag: "u", Path: "c", Ws: preWs[(i+2)%len(preWs)]}}}}
							l.Body = append(l.Body, Node{Loop: in}, Node{Piece: &Piece{Ws: "\n"}})
						}
						c := Case{API: allAPIs[i%len(allAPIs)], Pretty: i%2 == 0, Data: d,
							Prog: []Node{{Pre: &PreBlock{ID: "pre1", Body: []Node{{Loop: l}}}}}}
						if !yield(c) {
							return
						}
					}
				}
			}
		}
	}
}

// wrapOf builds a container of the given kind around one loop over coll (var v, index i).
// noscript / template hold an ordinary <div> loop with a probe; table a <tr> loop (content in a
// cell); select an <option> loop with a text body.
func wrapOf(kind, id string, sc sscope, d Data, coll string, elem vals.V, idx string, els bool, salt int, names []string) Node {
	inner := sc.bind("v", elem, false)
	if idx != "" {
		inner = inner.bind(idx, vals.Int(0), false)
	}
	all := uniq(append([]string{"v", idx}, names...))
	l := &Loop{ID: "L" + id, Tag: "div", Idx: idx, Var: "v", Coll: coll}
	switch kind {
	case "table":
		l.Tag = "tr"
	case "select":
		l.Tag = "option"
	}
	if kind == "select" {
		l.Body = []Node{textOf("t"+id, inner, d, all, salt, nil)}
	} else {
		l.Body = []Node{probeRich("p"+id, inner, d, all, salt, nil, "v")}
	}
	if els {
		l.Else = &Else{ID: "E" + id, Sep: elseSeps[salt%len(elseSeps)]}
		if kind != "select" {
			l.Else.Body = []Node{only(probeOf("q"+id, sc, d, all, salt, nil), "text", "ctx", "cnt")}
		}
	}
	return Node{Wrap: &Wrap{ID: "w" + id, Kind: kind, Body: []Node{{Loop: l}}}}
}

var wrapKinds = []string{"noscript", "template", "table", "select"}

// core5: a loop inside every parser-sensitive container x every entry point x empty / two
// items x form x v-else.
func core5(yield func(Case) bool) {
	i := 0
	for _, kind := range wrapKinds {
		for _, api := range allAPIs {
			for _, n := range []int{0, 2} {
				for _, els := range []bool{false, true} {
					i++
					d := Data{Root: "map", Slots: []Slot{{"xs", fixedColl("[]string", n)}, {"v", vals.Str("OUT")}}}
					idx := []string{"", "i"}[i%2]
					c := Case{API: api, Pretty: i%3 == 0, Data: d, Prog: []Node{
						wrapOf(kind, "1", sscope{}, d, "xs", vals.Str("a"), idx, els, i, []string{"xs"}),
						only(probeOf("p9", sscope{}, d, []string{"v", idx, "xs"}, i, nil), "text", "ctx", "cnt", "tern")}}
					if !yield(c) {
						return
					}
				}
			}
		}
	}
}

// pre draws a <pre> block over the lists of plain strings / ints of the data (nil when none).
func (g *gen) pre(sc sscope) *Node {
	var lists []string
	for _, n := range g.roots {
		if v, ok := sc.lookup(g.d, n); ok && (v.K == "[]string" || v.K == "[]int" || v.K == "[]any") && !hasNil(v) {
			if e, has := firstNonNil(v); has && (e.K == "string" || e.K == "int") {
				lists = append(lists, n)
			}
		}
	}
	if len(lists) == 0 {
		return nil
	}
	var loop func(depth int, outer []string) *Loop
	loop = func(depth int, outer []string) *Loop {
		l := &Loop{ID: g.id("L"), Tag: g.pick([]string{"template", "template", "span"}, "pretag"), Var: []string{"l", "c"}[depth-1], Coll: g.pick(lists, "prelist")}
		if g.int(0, 1, "preform") == 1 {
			l.Idx = []string{"li", "ci"}[depth-1]
		}
		reads := append(append([]string{}, outer...), l.Var)
		if l.Idx != "" {
			reads = append(reads, l.Idx)
		}
		for k := g.int(1, 3, "npieces"); k > 0; k-- {
			l.Body = append(l.Body, Node{Piece: &Piece{Tag: g.pick([]string{"b", "i", "u", ""}, "ptag"), Path: g.pick(reads, "ppath"), Ws: g.pick([]string{"\n", " ", "\t", "  ", "\n", ""}, "pws")}})
		}
		if depth < 2 && g.int(0, 2, "prenested") == 0 {
			l.Body = append(l.Body, Node{Loop: loop(depth+1, reads)}, Node{Piece: &Piece{Ws: g.pick(preWs, "pws2")}})
		}
		return l
	}
	pb := &PreBlock{ID: g.id("pre")}
	for k := g.int(1, 2, "npreloops"); k > 0; k-- {
		pb.Body = append(pb.Body, Node{Loop: loop(1, nil)})
	}
	return &Node{Pre: pb}
}

// ---------------------------------------------------------------- random nests (rapid)

type gen struct {
	t     *rapid.T
	nils  bool // []any collections of this case may contain nil items
	props []string // prop names of the component calls of this case (read inside later loops)
	d     Data
	ids   int
	roots []string // every name the root data answers to
}

func (g *gen) id(prefix string) string { g.ids++; return fmt.Sprintf("%s%d", prefix, g.ids) }

func (g *gen) int(lo, hi int, label string) int { return rapid.IntRange(lo, hi).Draw(g.t, label) }

func (g *gen) pick(l []string, label string) string { return rapid.SampledFrom(l).Draw(g.t, label) }

func (g *gen) scalar(label string) vals.V {
	if g.int(0, 2, label+"k") == 0 {
		return vals.Int(g.int(1, 9, label+"n"))
	}
	return vals.Str("R" + g.pick(letters, label+"s"))
}

func (g *gen) elem(k string, depth int, label string) vals.V {
	if e, _, ok := wideKind(k); ok {
		return vals.V{K: "wnum", S: g.pick(wideVals[e], label)}
	}
	switch k {
	case "[]any:str", "[]string":
		return vals.Str(g.pick(letters, label))
	case "[]any:int", "[]int", "[3]int":
		return vals.Int(g.int(0, 4, label))
	case "[]float64":
		return vals.Num("float64", g.pick(fltLits, label))
	case "[]bool":
		return vals.Bool(rapid.Bool().Draw(g.t, label))
	case "[]any:map", "[]map":
		m := mapOf(g.pick(letters, label), g.int(0, 4, label+"n"))
		switch g.int(0, 5, label+"ch") {
		case 0: // no children key
		case 1:
			m.M["children"] = vals.Nil()
		default:
			if depth < 2 {
				m.M["children"] = g.coll("[]any:map", depth+1, label+"c")
			} else {
				m.M["children"] = vals.V{K: "[]any", L: []vals.V{}}
			}
		}
		if ch, has := m.M["children"]; has {
			m.M["kids-list"] = ch // the same list under a key only brackets can spell
			m.M["ключи"] = ch     // ... and under a non-ASCII key
		}
		return m
	case "[]flag":
		return vals.Bool(rapid.Bool().Draw(g.t, label))
	case "[]name":
		return vals.Str(g.pick([]string{"", "", "a", "b"}, label))
	case "[]*task", "[2]*task", "[]task", "[]any:*task":
		return vals.V{K: "*task", M: map[string]vals.V{"ID": vals.Int(g.int(1, 4, label+"n")), "Title": vals.Str("w" + g.pick(letters, label))}}
	case "[]qty", "[]dur":
		return vals.Int(g.int(0, 2, label) * 3) // zero as often as not
	case "[2]ratio":
		return vals.Num("float64", g.pick([]string{"0", "0", "1.5", "2.25"}, label))
	case "[]emb", "[]pemb", "[]*emb":
		var tags []string
		for k := g.int(0, 3, label+"tags"); k > 0; k-- {
			tags = append(tags, g.pick(letters, fmt.Sprintf("%stag%d", label, k)))
		}
		e := embOf(g.pick(letters, label), g.int(1, 4, label+"n"), tags)
		if depth < 2 && g.int(0, 2, label+"k") > 0 {
			e.M["Subs"] = vals.V{K: "[]emb", L: g.coll("[]emb", depth+1, label+"s").L}
		}
		return e
	case "[]rec", "[]*rec":
		r := recOf(g.pick(letters, label), "t"+g.pick(letters, label+"t"), g.int(1, 4, label+"n"))
		if depth < 2 && g.int(0, 2, label+"k") > 0 {
			r.M["Kids"] = vals.V{K: "[]rec", L: g.coll("[]rec", depth+1, label+"c").L}
		}
		return r
	}
	panic("c04: unknown collection kind " + k)
}

func (g *gen) coll(k string, depth int, label string) vals.V {
	max := 4
	if k == "[3]int" {
		max = 3
	}
	if strings.HasPrefix(k, "[2]") {
		max = 2
	}
	if depth > 0 {
		max = 3
	}
	n := g.int(0, max, label+"len")
	l := []vals.V{}
	for i := 0; i < n; i++ {
		if g.nils && strings.HasPrefix(k, "[]any") && g.int(0, 3, fmt.Sprintf("%s%dnil", label, i)) == 0 {
			l = append(l, vals.Nil()) // JSON null in a decoded list
			continue
		}
		l = append(l, g.elem(k, depth, fmt.Sprintf("%s%d", label, i)))
	}
	return vals.V{K: strings.SplitN(k, ":", 2)[0], L: l}
}

// anyColl draws a collection of any kind, including nil slice / nil value.
func (g *gen) anyColl(label string) vals.V {
	switch r := g.int(0, len(randKinds)+2, label+"kind"); {
	case r < len(randKinds):
		return g.coll(randKinds[r], 0, label)
	case r == len(randKinds):
		return vals.V{K: "nil[]any"}
	case r == len(randKinds)+1:
		return vals.Nil()
	default:
		return g.coll("[]any:map", 0, label)
	}
}

func (g *gen) data() {
	g.nils = g.int(0, 2, "nils") == 0
	switch g.int(0, 9, "root") {
	case 0, 1, 2:
		g.d.Root = []string{"map", "map", "hmap"}[g.int(0, 2, "maptype")]
		if g.int(0, 5, "typedmap") == 0 {
			// map[string][]int: every key is a list of ints, also the ones loop variables shadow
			g.d.Root = "map[]int"
			for _, k := range []string{"xs", "ys", "item", "i", "v", "name", "total", "value"} {
				if g.int(0, 2, "has"+k) > 0 {
					g.d.Slots = append(g.d.Slots, Slot{k, g.coll("[]int", 0, k)})
				}
			}
			for _, s := range g.d.Slots {
				g.roots = append(g.roots, s.N)
			}
			break
		}
		for _, k := range []string{"name", "label", "total", "out", "v", "i", "Name", "value", "id", "title", "type", "город", "项"} {
			if g.int(0, 2, "has"+k) > 0 {
				g.d.Slots = append(g.d.Slots, Slot{k, g.scalar(k)})
			}
		}
		for _, k := range []string{"xs", "ys", "zs", "items", "города"} {
			if g.int(0, 3, "has"+k) > 0 {
				g.d.Slots = append(g.d.Slots, Slot{k, g.anyColl(k)})
			}
		}
		for _, s := range g.d.Slots {
			g.roots = append(g.roots, s.N)
		}
	case 3, 4, 5, 6:
		g.d.Root = []string{"root", "*root"}[g.int(0, 1, "ptr")]
		g.d.Slots = []Slot{{"Name", vals.Str("R" + g.pick(letters, "Name"))}, {"Label", vals.Str("L" + g.pick(letters, "Label"))}, {"Total", vals.Int(g.int(1, 9, "Total"))}}
		for _, k := range []string{"Xs", "Ys", "Zs"} {
			if g.int(0, 4, "has"+k) > 0 {
				g.d.Slots = append(g.d.Slots, Slot{k, g.anyColl(k)})
			}
		}
		g.roots = []string{"Name", "Label", "label", "Total", "total", "Xs", "Ys", "ys", "Zs", "zs"}
	case 7:
		g.d.Root = []string{"eroot", "*eroot", "proot"}[g.int(0, 2, "emb")]
		g.d.Slots = []Slot{{"Pname", vals.Str("R" + g.pick(letters, "Pname"))}, {"Ptotal", vals.Int(g.int(1, 9, "Ptotal"))},
			{"Label", vals.Str("L" + g.pick(letters, "Label"))}, {"Total", vals.Int(g.int(1, 9, "Total"))}}
		for _, k := range []string{"Ps", "Zs"} {
			if g.int(0, 4, "has"+k) > 0 {
				g.d.Slots = append(g.d.Slots, Slot{k, g.anyColl(k)})
			}
		}
		g.roots = []string{"Ps", "Pname", "Ptotal", "Label", "label", "Total", "total", "Zs", "zs"}
	default:
		g.d.Root = []string{"rec", "*rec"}[g.int(0, 1, "ptr")]
		g.d.Slots = []Slot{{"Name", vals.Str("R" + g.pick(letters, "Name"))}, {"Title", vals.Str("T" + g.pick(letters, "Title"))}, {"Count", vals.Int(g.int(1, 9, "Count"))},
			{"Kids", vals.V{K: "[]rec", L: g.coll("[]rec", 0, "Kids").L}}}
		g.roots = []string{"Name", "Title", "title", "Count", "count", "Kids"}
	}
}

// fresh names; value / href / lang / id are also common attribute names (:value="value")
var freshVars = []string{"v", "w", "it", "e", "q", "value", "href", "lang", "type", "title", "file", "upper", "json", "default", "first", "last", "город", "größe", "项", "άλφα"}
var freshIdx = []string{"i", "j", "k", "n", "id", "trim", "lower", "max", "count", "ключ", "naïve"}

// incNames: prop names of generated component calls; they overlap with root keys, loop
// variable names and names that are never defined.
var incNames = []string{"label", "name", "total", "out", "v", "i", "value", "id", "w", "e", "q", "j", "k", "n", "it", "href", "lang", "p1", "p2", "p3", "p4"}

// name draws a loop variable name: fresh, a root name, or an enclosing loop's variable.
func (g *gen) name(fresh []string, outer []string, label string) string {
	r := g.int(0, 9, label)
	switch {
	case r >= 7 && len(outer) > 0:
		return g.pick(outer, label+"o")
	case r >= 4 && len(g.roots) > 0:
		return g.pick(g.roots, label+"r")
	}
	return g.pick(fresh, label+"f")
}

// collPaths lists what can be iterated at this point: sequences, nil values, children of records.
func (g *gen) collPaths(sc sscope) []string {
	var out []string
	names := append([]string{}, g.roots...)
	for _, k := range sortedKeys(sc) {
		if !strings.HasPrefix(k, "?") {
			names = append(names, k)
		}
	}
	for _, n := range uniq(names) {
		s, ok := sc.lookup(g.d, n)
		switch {
		case !ok:
		case isSeq(s.K) || s.K == "nil":
			out = append(out, n)
			// through an index step: items[0].children
			if e := elems(s); len(e) > 0 && e[0].K == "map" && !hasNil(s) {
				out = append(out, n+".0.children", n+".0.kids-list")
			}
		case s.K == "map":
			out = append(out, n+".children", n+".kids-list", n+".ключи")
		case s.K == "rec" || s.K == "*rec":
			out = append(out, n+".Kids")
		case isEmb(s.K):
			out = append(out, n+".Tags", n+".Subs") // collections promoted from the embedded struct
		}
	}
	return out
}

func (g *gen) cond(sc sscope, l *Loop, outerNames []string) *Cond {
	var cands []string
	cands = append(cands, l.Var, l.Var)
	if l.Idx != "" {
		cands = append(cands, l.Idx, l.Idx)
	}
	cands = append(cands, outerNames...)
	for try := 0; try < 4; try++ {
		n := g.pick(cands, "ifname")
		paths, samples, bound, ok := scalarPaths(sc, g.d, n)
		if !ok || !bound {
			continue
		}
		pi := g.int(0, len(paths)-1, "ifpath")
		p, s := paths[pi], samples[pi]
		if noExpr(p) || strings.HasSuffix(p, ".title") {
			continue
		}
		if sc.nullable(n) {
			if p != n {
				continue // no member access on a possibly nil item inside an expression
			}
			return &Cond{Path: p, Op: "==", Lit: litFor(s, g.int(0, 9, "iflit"))}
		}
		if truthOnly(s.K) || (s.K == "bool" && g.int(0, 1, "iftruthy") == 0) {
			return &Cond{Path: p}
		}
		salt := g.int(0, 9, "iflit")
		ops := []string{"==", "!=", "!=", "===", "!=="}
		if s.K == "int" || s.K == "float64" {
			ops = append(ops, "<", ">")
		}
		return &Cond{Path: p, Op: g.pick(ops, "ifop"), Lit: litFor(s, salt)}
	}
	return nil
}

// inc draws a component call with 9..12 static props (more than a small scope map holds).
func (g *gen) inc() Node {
	n := g.int(9, 12, "nprops")
	names := rapid.SliceOfNDistinct(rapid.SampledFrom(incNames), n, n, rapid.ID[string]).Draw(g.t, "props")
	in := &Inc{}
	for _, nm := range names {
		in.Props = append(in.Props, Prop{nm, "S" + nm})
	}
	g.props = uniq(append(g.props, names...))
	return Node{Inc: in}
}

// spellOf picks the k-th of a fixed rotation of header spellings (0 = the common one).
func spellOf(k int) *Spell {
	if k%4 == 0 {
		return nil
	}
	return &Spell{Vars: k % 6, In: k / 2 % 8, Pad: k%5 == 1, Path: k / 3 % 4, Single: k%4 == 1, Upper: k%7 == 2, Extra: k / 5 % 4}
}

func (g *gen) chooser() func(int) int {
	return func(n int) int { return g.int(0, n-1, "ch") }
}

func (g *gen) loop(sc sscope, depth int, outerVars []string) []Node {
	l := &Loop{ID: g.id("L")}
	if g.int(0, 1, "spelled") == 1 {
		l.Spell = spellOf(g.int(1, 839, "spell"))
	}
	paths := g.collPaths(sc)
	switch r := g.int(0, 11, "collsrc"); {
	case r == 0 || len(paths) == 0:
		l.Coll = "nope"
	default:
		l.Coll = g.pick(paths, "coll")
	}
	l.Var = g.name(freshVars, outerVars, "var")
	if g.int(0, 1, "form") == 1 {
		l.Idx = g.name(freshIdx, outerVars, "idx")
		if l.Idx == l.Var {
			l.Idx = "i"
			if l.Var == "i" {
				l.Idx = "j"
			}
		}
	}
	l.Tag = g.pick([]string{"div", "div", "section", "template"}, "tag")
	elem := vals.Str("a")
	c, ok := sc.resolve(g.d, l.Coll)
	switch {
	case ok && isSeq(c.K) && sampleOK(c):
		elem, _ = firstNonNil(c)
	case strings.HasSuffix(l.Coll, ".children"), strings.HasSuffix(l.Coll, ".kids-list"), strings.HasSuffix(l.Coll, ".ключи"):
		elem = mapOf("a", 1) // children are lists of maps, also where the sample item has none
	case strings.HasSuffix(l.Coll, ".Kids"):
		elem = recOf("a", "ta", 1)
	case strings.HasSuffix(l.Coll, ".Subs"):
		elem = embOf("a", 1, nil)
	case ok && isSeq(c.K):
		elem = sampleElem(c)
	}
	// nil items: known for a root collection; for item.children any list of the case may have one
	nullable := (ok && hasNil(c)) || (g.nils && (strings.HasSuffix(l.Coll, ".children") || strings.HasSuffix(l.Coll, ".kids-list") || strings.HasSuffix(l.Coll, ".ключи")))
	inner := sc.bind(l.Var, elem, nullable)
	if l.Idx != "" {
		inner = inner.bind(l.Idx, vals.Int(0), false)
	}
	// names worth printing: this loop's, the enclosing loops', some root names
	names := []string{l.Var, l.Idx}
	names = append(names, outerVars...)
	for k := g.int(0, 2, "nroot"); k > 0 && len(g.roots) > 0; k-- {
		names = append(names, g.pick(g.roots, "rootname"))
	}
	// a component call inside the instance (its scope is opened and closed once per item)
	var bodyInc []Node
	if l.Tag != "template" && g.int(0, 7, "bodyinc") == 0 {
		bodyInc = []Node{g.inc()}
	}
	// names of props of component calls: inside a loop they mean what they mean around it
	for k := g.int(0, 2, "nprop"); k > 0 && len(g.props) > 0; k-- {
		names = append(names, g.pick(g.props, "propname"))
	}
	if g.int(0, 2, "hasif") == 0 {
		l.If = g.cond(inner, l, append(append([]string{}, outerVars...), g.roots...))
		l.IfFirst = rapid.Bool().Draw(g.t, "iffirst")
	}
	if l.Tag != "template" && g.int(0, 1, "bind") == 1 {
		if p, _, bound, ok := scalarPaths(inner, g.d, l.Var); ok && bound && !noExpr(p[0]) {
			l.Bind = p[0]
			if l.Var == strings.ToLower(l.Var) && isASCII(l.Var) && g.int(0, 1, "bindas") == 0 {
				l.BindAs = l.Var // :value="value" on the looped element
			}
		}
	}
	// now and then the looped element itself carries v-html / v-text of its item (no body then)
	if l.Tag != "template" && g.int(0, 7, "fill") == 0 {
		if p, _, bound, ok := scalarPaths(inner, g.d, l.Var); ok && bound && !noExpr(p[0]) && !nullable {
			l.Fill = &Fill{Dir: "v-text", Path: p[0]}
			if g.int(0, 1, "filldir") == 0 {
				l.Fill = &Fill{Dir: "v-html", Path: htmlPath(inner, g.d, l.Var, p[0])}
			}
		}
	}
	// nested loops first, so that the probes of this instance can also read *their* variable
	// names: before the nested loop they must still mean what they mean here, afterwards again
	var nested []Node
	var nestedNames []string
	// a quarter of the loops have a body of text alone (for <template v-for>: instances without
	// any element); half of those still contain nested loops
	textOnly := l.Fill == nil && len(bodyInc) == 0 && g.int(0, 3, "textonly") == 0
	// a quarter of the loop bodies end with an instance-local binding <template NAME="VAL">,
	// under a per-item v-if or bare; the probes of the instance and after the loop read NAME
	var setter *Setter
	if l.Fill == nil && g.int(0, 3, "setter") == 0 {
		pool := []string{"badge", "mark"}
		for _, r := range append(append([]string{}, g.roots...), g.props...) {
			if r == strings.ToLower(r) && !noExpr(r) {
				if v, ok := sc.lookup(g.d, r); !ok || isScalar(v.K) {
					pool = append(pool, r)
				}
			}
		}
		nm := g.pick(pool, "setname")
		setter = &Setter{Name: nm, Val: "S" + nm + "x"}
		if !textOnly && g.int(0, 2, "setif") > 0 {
			if c := g.cond(inner, l, nil); c != nil {
				setter.ID, setter.If = g.id("s"), c
			}
		}
		names = append(names, nm)
	}
	if depth < 3 && l.Fill == nil && !(textOnly && g.int(0, 1, "textleaf") == 0) {
		for k := g.int(0, 2, "nnested"); k > 0; k-- {
			inVars := uniq(append(append([]string{}, outerVars...), l.Var, l.Idx))
			ns := g.loop(inner, depth+1, inVars)
			nestedNames = append(nestedNames, ns[0].Loop.Var, ns[0].Loop.Idx)
			nested = append(nested, ns...)
		}
	}
	all := append(append([]string{}, names...), nestedNames...)
	if l.Fill == nil {
		l.Body = []Node{probeRich(g.id("p"), inner, g.d, all, g.int(0, 19, "salt"), g.chooser(), l.Var)}
		if textOnly {
			l.Body = []Node{textOf(g.id("t"), inner, g.d, all, g.int(0, 19, "salt"), g.chooser())}
		}
		l.Body = append(bodyInc, l.Body...)
	}
	if len(nested) > 0 {
		l.Body = append(l.Body, nested...)
		// the loop's own bindings again, after the nested loops
		if textOnly {
			l.Body = append(l.Body, textOf(g.id("t"), inner, g.d, all, g.int(0, 19, "salt"), g.chooser()))
		} else {
			l.Body = append(l.Body, probeRich(g.id("p"), inner, g.d, all, g.int(0, 19, "salt"), g.chooser(), g.pick(uniq([]string{l.Var, l.Idx}), "rich")))
		}
	}
	if l.Fill == nil && !textOnly {
		// the list component inside the instance: its slot content also reads this loop's names
		if ml := mapLists(inner, g.d, append(append([]string{}, g.roots...), l.Var)); len(ml) > 0 && g.int(0, 5, "bodylist") == 0 {
			l.Body = append(l.Body, listOf(g.id("q"), inner, g.d, g.pick(ml, "listitems"), g.int(0, 1, "destr") == 0, g.int(0, 19, "salt"), names))
		}
	}
	if setter != nil {
		l.Body = append(l.Body, Node{Set: setter}) // last: nothing of the same instance reads it
	}
	if g.int(0, 1, "else") == 1 {
		l.Else = &Else{ID: g.id("E"), Sep: g.pick(elseSeps, "sep")}
		if g.int(0, 1, "elsebody") == 1 {
			l.Else.Body = []Node{probeOf(g.id("p"), sc, g.d, names, g.int(0, 19, "salt"), g.chooser())}
		}
	}
	out := []Node{{Loop: l}}
	if g.int(0, 4, "after") > 0 {
		out = append(out, probeOf(g.id("p"), sc, g.d, names, g.int(0, 19, "salt"), g.chooser()))
	}
	return out
}

func genCase(t *rapid.T) Case {
	g := &gen{t: t}
	g.data()
	c := Case{API: apiFor(g.d.Root, g.pick(allAPIs, "api")), Pretty: rapid.Bool().Draw(t, "pretty"), Data: g.d}
	// a third of the cases call a component with many props before the loops
	if g.int(0, 2, "topinc") == 0 {
		for k := g.int(1, 2, "ntopinc"); k > 0; k-- {
			c.Prog = append(c.Prog, g.inc())
		}
	}
	for k := g.int(1, 2, "ntop"); k > 0; k-- {
		c.Prog = append(c.Prog, g.loop(sscope{}, 1, nil)...)
	}
	if g.int(0, 3, "topwrap") == 0 {
		// a loop inside a parser-sensitive container
		kind := g.pick(wrapKinds, "wrapkind")
		var lists []string
		for _, n := range g.roots {
			if v, ok := (sscope{}).lookup(g.d, n); ok && isSeq(v.K) && !hasNil(v) {
				if _, _, _, fine := scalarPaths(sscope{}.bind("v", sampleElem(v), false), g.d, "v"); fine {
					lists = append(lists, n)
				}
			}
		}
		if len(lists) > 0 {
			coll := g.pick(lists, "wraplist")
			cv, _ := (sscope{}).lookup(g.d, coll)
			c.Prog = append(c.Prog, wrapOf(kind, g.id("x"), sscope{}, g.d, coll, sampleElem(cv), []string{"", "i", "k"}[g.int(0, 2, "wrapidx")], rapid.Bool().Draw(t, "wrapelse"), g.int(0, 19, "salt"), g.roots))
		}
	}
	if g.int(0, 2, "toppre") == 0 {
		if pn := g.pre(sscope{}); pn != nil {
			c.Prog = append(c.Prog, *pn)
		}
	}
	if ml := mapLists(sscope{}, g.d, g.roots); len(ml) > 0 && g.int(0, 1, "toplist") == 0 {
		c.Prog = append(c.Prog, listOf(g.id("q"), sscope{}, g.d, g.pick(ml, "listitems"), rapid.Bool().Draw(t, "destr"), g.int(0, 19, "salt"), g.roots))
	}
	if g.int(0, 2, "after") == 0 {
		c.After = g.pick([]string{"fresh", "same"}, "afterhow")
		c.FailAt = g.int(1, 6, "failat")
	}
	c.Tpl = buildTemplate(c)
	return c
}

// ---------------------------------------------------------------- classification

func classify(c Case) (bool, []string) {
	cls := map[string]bool{"root=" + c.Data.Root: true, "api=" + c.API: true}
	if c.After != "" {
		cls[fmt.Sprintf("after-failure:%s-engine,fail-at-%d", c.After, c.FailAt)] = true
	}
	maxDepth := 0
	shadow := false
	var walk func(ns []Node, depth int, outer []string)
	walk = func(ns []Node, depth int, outer []string) {
		for _, n := range ns {
			if n.Pre != nil {
				cls["loop-inside-pre"] = true
				walk(n.Pre.Body, depth, outer)
			}
			if n.Wrap != nil {
				walk(n.Wrap.Body, depth, outer)
			}
			l := n.Loop
			if l == nil {
				continue
			}
			if depth > maxDepth {
				maxDepth = depth
			}
			if l.Idx == "" {
				cls["form=v-in"] = true
			} else {
				cls["form=(i,v)-in"] = true
			}
			if l.Tag == "template" {
				cls["template-v-for"] = true
			}
			if l.Bind != "" {
				cls["bind-on-loop-root"] = true
			}
			if l.Fill != nil {
				cls["loop-root:"+l.Fill.Dir] = true
			}
			if sp := l.Spell; sp != nil {
				cls["header-spelling:other"] = true
				if l.Idx != "" {
					cls[fmt.Sprintf("header-vars-spelling=%d", sp.Vars%6)] = true
				}
				if strings.Contains(l.Coll, ".") {
					cls[fmt.Sprintf("header-path-spelling=%d", sp.Path%4)] = true
				}
				if sp.Upper {
					cls["header:V-FOR"] = true
				}
				if sp.Single {
					cls["header:single-quoted"] = true
				}
			}
			if l.BindAs != "" {
				cls["bound-attr-named-like-loop-var(on loop root)"] = true
			}
			head := strings.SplitN(l.Coll, ".", 2)[0]
			if strings.Contains(l.Coll, ".") {
				cls["coll=nested-path"] = true
			}
			for _, nm := range []string{l.Var, l.Idx} {
				if nm == "" {
					continue
				}
				for _, o := range outer {
					if o == nm {
						cls["shadow:outer-loop-var"] = true
						shadow = true
					}
				}
				if nm == head {
					cls["shadow:own-collection-name"] = true
					shadow = true
				}
				if _, ok := c.Data.root(nm); ok {
					shadow = true
					switch c.Data.Root {
					case "map":
						cls["shadow:root-map-key"] = true
					case "hmap", "map[]int":
						cls["shadow:root-map-key("+c.Data.Root+")"] = true
					default:
						if (isEmbRoot(c.Data.Root) && erootAlias[nm] == nm) || (!isEmbRoot(c.Data.Root) && (rootAlias[nm] == nm || recAlias[nm] == nm)) {
							cls["shadow:root-field-goname("+c.Data.Root+")"] = true
						} else {
							cls["shadow:root-field-jsontag("+c.Data.Root+")"] = true
						}
					}
				}
			}
			if l.If != nil {
				h := strings.SplitN(l.If.Path, ".", 2)[0]
				switch h {
				case l.Var:
					cls["v-if:on-item"] = true
				case l.Idx:
					cls["v-if:on-index"] = true
				default:
					cls["v-if:on-outer"] = true
				}
			}
			if l.Else != nil {
				switch {
				case l.Else.Sep == "":
					cls["else:sep=none"] = true
				case strings.Contains(l.Else.Sep, "<!--"):
					cls["else:sep=comment"] = true
				default:
					cls["else:sep=whitespace"] = true
				}
			} else {
				cls["else:absent"] = true
			}
			walk(l.Body, depth+1, append(append([]string{}, outer...), l.Var, l.Idx))
			if l.Else != nil {
				walk(l.Else.Body, depth, outer)
			}
		}
	}
	walk(c.Prog, 1, nil)
	cls[fmt.Sprintf("depth=%d", maxDepth)] = true
	for _, n := range c.Prog {
		countReads(n, cls)
	}
	// dynamic classes: what the reference interpreter met
	in := &interp{d: c.Data, u: undef{seen: true}, stats: map[string]int{}}
	in.nodes(c.Prog)
	empty := false
	for k := range in.stats {
		cls[k] = true
		if k == "len=0" || k == "coll=missing" || k == "coll=nil-value" || k == "coll=nil[]any" {
			empty = true
		}
	}
	out := make([]string, 0, len(cls))
	for k := range cls {
		out = append(out, k)
	}
	// order does not matter for the histogram, but keep it stable
	for i := 1; i < len(out); i++ {
		for j := i; j > 0 && out[j] < out[j-1]; j-- {
			out[j], out[j-1] = out[j-1], out[j]
		}
	}
	return shadow || maxDepth >= 2 || empty, out
}

func countReads(n Node, cls map[string]bool) {
	switch {
	case n.List != nil:
		cls["list-component(scoped slot)"] = true
	case n.Text != nil:
		cls["text-node"] = true
	case n.Probe != nil:
		for _, r := range n.Probe.Reads {
			cls["read:"+r.Pos] = true
		}
	case n.Loop != nil:
		for _, b := range n.Loop.Body {
			countReads(b, cls)
		}
		if n.Loop.Else != nil {
			for _, b := range n.Loop.Else.Body {
				countReads(b, cls)
			}
		}
	}
}
