package c04

import (
	"fmt"
	"strconv"
	"strings"
	"time"

	"verif/internal/vals"
)

// Reference interpreter for loop nests: a scope stack of maps over value descriptions.
// Semantics taken from the property statement only:
//   - one instance per item, in order; `(i, v)` binds the zero-based index as well;
//   - the bindings are visible inside the instance only (a scope is pushed per instance and
//     popped afterwards, so a shadowed outer name has its outer value again after the loop);
//   - nested loops compose (the interpreter recurses);
//   - the immediately following v-else sibling is rendered iff the loop produced no instance;
//   - a v-if on the looped element is evaluated per item, inside the item's scope (the
//     property's quantifier says "per-item v-if"; eval_core.go handles v-for before v-if).

// xm is an expected marker.
type xm struct {
	id    string
	text  string
	attrs map[string]string // only the attribute values that are asserted
	kids  []*xm
	why   string
	reqs  []attrReq
	pre   *string // exact content expected inside a <pre> (replaces the own-text comparison)
}

// attrReq: the attribute's value must (want) / must not contain needle - as a whitespace
// separated token (class) or as a substring of the value with all whitespace removed (style).
type attrReq struct {
	attr, needle string
	want, token  bool
}

// bodyOpen / bodyClose wrap the "body" field of map items: markup that carries its own marker,
// so that raw insertion (v-html) is visible as a marked element.
const bodyOpen, bodyClose = `<i data-m="bd">`, `</i>`

// raw is what inserting the value as HTML must show: the text, or the marked <i> element.
func raw(v vals.V) (text string, kids []*xm) {
	if strings.HasPrefix(v.S, bodyOpen) && strings.HasSuffix(v.S, bodyClose) {
		return "", []*xm{{id: "bd", text: strings.TrimSuffix(strings.TrimPrefix(v.S, bodyOpen), bodyClose), why: "markup inserted by v-html"}}
	}
	return v.S, nil
}

func (m *xm) String() string { return fmt.Sprintf("%s%q", m.id, m.text) }

// undef is what the control element showed for a never-defined name.
type undef struct {
	seen       bool
	text, tern string
	eq, truthy bool
}

type interp struct {
	d      Data
	u      undef
	scopes []map[string]vals.V
	stats  map[string]int // classes observed while interpreting (for the coverage histogram)
	raw    *strings.Builder // inside a <pre>: the exact content produced so far
}

func (in *interp) stat(s string) {
	if in.stats != nil {
		in.stats[s]++
	}
}

// root resolves a name against the root data.
func (d Data) root(name string) (vals.V, bool) {
	switch d.Root {
	case "map", "hmap", "map[]int":
		v, ok := d.slot(name)
		if !ok || v.K == "missing" {
			return vals.V{}, false
		}
		return v, true
	case "root", "*root":
		f, ok := rootAlias[name]
		if !ok {
			return vals.V{}, false
		}
		if v, ok := d.slot(f); ok {
			return v, true
		}
		switch f {
		case "Name", "Label":
			return vals.Str(""), true
		case "Total":
			return vals.Int(0), true
		}
		return vals.Nil(), true
	case "eroot", "*eroot", "proot":
		f, ok := erootAlias[name]
		if !ok {
			return vals.V{}, false
		}
		if v, ok := d.slot(f); ok {
			return v, true
		}
		switch f {
		case "Pname", "Label":
			return vals.Str(""), true
		case "Total", "Ptotal":
			return vals.Int(0), true
		}
		return vals.Nil(), true
	case "rec", "*rec":
		m := map[string]vals.V{}
		for _, s := range d.Slots {
			m[s.N] = s.V
		}
		return field(vals.V{K: "rec", M: m}, name)
	}
	return vals.V{}, false
}

// field is one path step on a value description.
func field(v vals.V, name string) (vals.V, bool) {
	if isSeq(v.K) {
		// a numeric step indexes a sequence (items[0] / items.0)
		if n, err := strconv.Atoi(name); err == nil {
			if e := elems(v); n >= 0 && n < len(e) {
				return e[n], true
			}
		}
		return vals.V{}, false
	}
	switch v.K {
	case "map":
		f, ok := v.M[name]
		if !ok || f.K == "missing" {
			return vals.V{}, false
		}
		return f, true
	case "*task", "task":
		if name == "ID" || name == "Title" {
			x, has := v.M[name]
			return x, has
		}
		return vals.V{}, false
	case "emb", "pemb", "*emb":
		// Title is the struct's own field, the others are promoted from the embedded Base
		if !embAlias[name] {
			return vals.V{}, false
		}
		x, has := v.M[name]
		switch name {
		case "Tags":
			return vals.V{K: "[]string", L: x.L}, true
		case "Subs":
			return vals.V{K: "[]emb", L: x.L}, true
		case "ID":
			if !has {
				return vals.Int(0), true
			}
		}
		if !has {
			return vals.Str(""), true
		}
		return x, true
	case "rec", "*rec":
		f, ok := recAlias[name]
		if !ok {
			return vals.V{}, false
		}
		if x, ok := v.M[f]; ok {
			if f == "Kids" {
				return vals.V{K: "[]rec", L: x.L}, true
			}
			return x, true
		}
		switch f {
		case "Count":
			return vals.Int(0), true
		case "Kids":
			return vals.V{K: "[]rec"}, true
		}
		return vals.Str(""), true
	}
	return vals.V{}, false
}

// elems lists the items of a sequence description (nothing for nil, missing, non-sequences).
func elems(v vals.V) []vals.V {
	typed := func(k string) []vals.V {
		out := make([]vals.V, len(v.L))
		for i, e := range v.L {
			out[i] = vals.V{K: k, S: e.S}
		}
		return out
	}
	if _, n, ok := wideKind(v.K); ok {
		// sized predeclared integer element types: S is the exact decimal text of the item; an
		// array holds zeros where the description is shorter
		out := typed("wnum")
		for n > 0 && len(out) < n {
			out = append(out, vals.V{K: "wnum", S: "0"})
		}
		if n > 0 {
			out = out[:n]
		}
		return out
	}
	switch v.K {
	case "[]any":
		return v.L
	case "[]string":
		return typed("string")
	case "[]int":
		return typed("int")
	case "[]float64":
		return typed("float64")
	case "[]bool":
		return typed("bool")
	case "[]flag":
		return typed("flag")
	case "[]name":
		return typed("name")
	case "[]*task", "[]task":
		out := make([]vals.V, len(v.L))
		for i, e := range v.L {
			out[i] = vals.V{K: strings.TrimPrefix(v.K, "[]"), M: e.M}
		}
		return out
	case "[2]*task":
		out := []vals.V{{K: "*task", M: map[string]vals.V{"ID": vals.Int(0), "Title": vals.Str("")}}, {K: "*task", M: map[string]vals.V{"ID": vals.Int(0), "Title": vals.Str("")}}}
		for i, e := range v.L {
			if i < 2 {
				out[i] = vals.V{K: "*task", M: e.M}
			}
		}
		return out
	case "[]qty":
		return typed("qty")
	case "[2]ratio":
		out := []vals.V{{K: "ratio", S: "0"}, {K: "ratio", S: "0"}}
		for i, e := range v.L {
			if i < 2 {
				out[i] = vals.V{K: "ratio", S: e.S}
			}
		}
		return out
	case "[]dur":
		// S is what the value prints as (time.Duration is a fmt.Stringer)
		out := make([]vals.V, len(v.L))
		for i, e := range v.L {
			n, _ := strconv.Atoi(e.S)
			out[i] = vals.V{K: "dur", S: time.Duration(n).String()}
		}
		return out
	case "[3]int":
		out := []vals.V{vals.Int(0), vals.Int(0), vals.Int(0)}
		for i, e := range v.L {
			if i < 3 {
				out[i] = vals.V{K: "int", S: e.S}
			}
		}
		return out
	case "[]map":
		out := make([]vals.V, len(v.L))
		for i, e := range v.L {
			out[i] = vals.V{K: "map", M: e.M}
		}
		return out
	case "[]emb", "[]pemb", "[]*emb":
		out := make([]vals.V, len(v.L))
		for i, e := range v.L {
			out[i] = vals.V{K: strings.TrimPrefix(v.K, "[]"), M: e.M}
		}
		return out
	case "[]rec", "[]*rec":
		out := make([]vals.V, len(v.L))
		for i, e := range v.L {
			out[i] = vals.V{K: strings.TrimPrefix(v.K, "[]"), M: e.M}
		}
		return out
	}
	return nil
}

func isSeq(k string) bool {
	if _, _, ok := wideKind(k); ok {
		return true
	}
	switch k {
	case "[]any", "[]string", "[]int", "[]float64", "[]bool", "[3]int", "[]map", "[]rec", "[]*rec", "nil[]any", "[]emb", "[]pemb", "[]*emb", "[]qty", "[2]ratio", "[]dur", "[]flag", "[]name", "[]*task", "[2]*task", "[]task":
		return true
	}
	return false
}

func isScalar(k string) bool {
	switch k {
	case "string", "int", "float64", "bool", "qty", "ratio", "dur", "flag", "name", "wnum":
		return true
	}
	return false
}

func isTask(k string) bool { return k == "*task" || k == "task" }

// display is what {{ v }} / a bound attribute shows for a value: a *Task prints through its
// String method (pointer receiver).
func display(v vals.V) (string, bool) {
	switch {
	case isScalar(v.K):
		return v.S, true
	case v.K == "*task":
		return "task#" + v.M["ID"].S + "(" + v.M["Title"].S + ")", true
	}
	return "", false
}

// truthOnly: items of a NAMED numeric type (Qty int, Ratio float32, time.Duration). Documented
// truthiness applies (zero of any numeric type is falsy); comparing them with literals is a
// cross-type comparison and not generated.
func truthOnly(k string) bool {
	return k == "qty" || k == "ratio" || k == "dur" || k == "flag" || k == "name" || k == "wnum"
}

// wideKind: collection kinds whose element type is a sized predeclared integer ("[]uint64",
// "[2]uint64", "[]int8", ...): element type, array length (0 = slice). Their items ("wnum") carry the
// exact decimal text - the extremes of the width do not survive a detour through int or float64, so
// like the named numeric types they are printed, bound and tested for truthiness, never compared.
func wideKind(k string) (elem string, n int, ok bool) {
	switch {
	case strings.HasPrefix(k, "[]"):
		elem = k[2:]
	case strings.HasPrefix(k, "[2]"):
		elem, n = k[3:], 2
	default:
		return "", 0, false
	}
	_, ok = wideVals[elem]
	return elem, n, ok
}

// wideVals: per element type zero first, then the extremes of the width and values beyond 2^53 / 2^63.
var wideVals = map[string][]string{
	"uint64": {"0", "18446744073709551615", "9223372036854775808", "9007199254740993", "9223372036854775807", "1"},
	"uint":   {"0", "9223372036854775808", "18446744073709551615", "18446744073709551614", "4294967296", "7"},
	"int64":  {"0", "-9223372036854775808", "9223372036854775807", "-9007199254740993", "9007199254740993", "-1"},
	"int32":  {"0", "-2147483648", "2147483647", "-1"},
	"uint32": {"0", "4294967295", "2147483648", "1"},
	"int16":  {"0", "-32768", "32767", "-1"},
	"uint16": {"0", "65535", "32768", "1"},
	"int8":   {"0", "-128", "127", "-1"},
	"uint8":  {"0", "255", "128", "1"},
}

func truthy(v vals.V) bool {
	switch v.K {
	case "qty", "ratio":
		return num(v) != 0
	case "wnum":
		return v.S != "0"
	case "dur":
		return v.S != "0s"
	case "flag":
		return v.S == "true"
	case "name":
		return v.S != ""
	case "*task", "task":
		return true
	}
	t, _ := v.Truthy()
	return t
}

func (in *interp) lookup(name string) (vals.V, bool) {
	for i := len(in.scopes) - 1; i >= 0; i-- {
		if v, ok := in.scopes[i][name]; ok {
			return v, true
		}
	}
	return in.d.root(name)
}

func (in *interp) resolve(path string) (vals.V, bool) {
	parts := strings.Split(path, ".")
	v, ok := in.lookup(parts[0])
	for _, p := range parts[1:] {
		if !ok {
			break
		}
		v, ok = field(v, p)
	}
	if ok && (v.K == "nil" || v.K == "missing") {
		return v, false // a nil value reads like an unbound name
	}
	return v, ok
}

func num(v vals.V) float64 { f, _ := strconv.ParseFloat(v.S, 64); return f }

// holds evaluates a condition; unbound is what the control element said about the same
// comparison on a never-defined name.
func (in *interp) holds(c Cond) bool {
	v, ok := in.resolve(c.Path)
	if c.Op == "" {
		if !ok {
			return in.u.truthy
		}
		return truthy(v)
	}
	if !ok {
		return in.u.eq // generated only with Op "=="
	}
	var cmp int // -1, 0, 1; 2 = different and unordered
	switch {
	case (v.K == "int" || v.K == "float64") && (c.Lit.K == "int" || c.Lit.K == "float64"):
		a, b := num(v), num(c.Lit)
		switch {
		case a < b:
			cmp = -1
		case a > b:
			cmp = 1
		}
	case v.K == c.Lit.K && v.S == c.Lit.S:
		cmp = 0
	default:
		cmp = 2
	}
	switch c.Op {
	case "==", "===":
		return cmp == 0
	case "!=", "!==":
		return cmp != 0
	case "<":
		return cmp == -1
	case ">":
		return cmp == 1
	}
	panic("c04: unknown operator " + c.Op)
}

// nodes returns the expected markers and the element-less text the nodes add to the own text of
// the enclosing element.
func (in *interp) nodes(ns []Node) ([]*xm, string) {
	var out []*xm
	var text strings.Builder
	for k, n := range ns {
		switch {
		case n.Set != nil:
			// Binds a name in the current instance scope; being the last node of the body, nothing
			// reads it before the instance ends, and the reference model never sees it afterwards.
			if k != len(ns)-1 {
				panic("c04 generator: a setter must be the last node of its body")
			}
			in.stat("instance-local-binding")
			if n.Set.If != nil && in.holds(*n.Set.If) {
				out = append(out, &xm{id: n.Set.ID, why: "wrapper of the setter of " + n.Set.Name + ", " + in.scopeNote()})
			}
		case n.Wrap != nil:
			kids, t := in.nodes(n.Wrap.Body)
			in.stat("container=" + n.Wrap.Kind)
			if n.Wrap.Kind == "template" {
				out = append(out, kids...)
				text.WriteString(t)
			} else {
				id := n.Wrap.ID
				out = append(out, &xm{id: id, kids: kids, text: t, why: "<" + n.Wrap.Kind + "> around loops"})
			}
		case n.Pre != nil:
			saved := in.raw
			var sb strings.Builder
			in.raw = &sb
			kids, _ := in.nodes(n.Pre.Body)
			in.raw = saved
			content := sb.String()
			in.stat("pre-block")
			out = append(out, &xm{id: n.Pre.ID, kids: kids, pre: &content, why: "<pre> around loops"})
		case n.Piece != nil:
			val := ""
			if n.Piece.Path != "" {
				v, ok := in.resolve(n.Piece.Path)
				d, can := display(v)
				if !ok || !can {
					panic("c04 generator: piece reads unbound / non-scalar " + n.Piece.Path)
				}
				val = d
			}
			if in.raw != nil {
				if n.Piece.Tag != "" {
					in.raw.WriteString("<" + n.Piece.Tag + ">" + val + "</" + n.Piece.Tag + ">")
				} else {
					in.raw.WriteString(val)
				}
				in.raw.WriteString(n.Piece.Ws)
			}
			if n.Piece.Tag == "" {
				text.WriteString(val)
			}
		case n.List != nil:
			// the component's own loop: one <li> per item, the slot content evaluated in the page's
			// scope plus the props of that item (a prop bound to an undefined value is undefined)
			ul := &xm{id: "ul", why: "list component over " + n.List.Items}
			coll, ok := in.resolve(n.List.Items)
			var items []vals.V
			if ok {
				items = elems(coll)
			}
			for i, it := range items {
				props := map[string]vals.V{"item": it, "index": vals.Int(i)}
				if nt, has := field(it, "note"); has {
					props["note"] = nt
				}
				sc := props
				if !n.List.Destr {
					sc = map[string]vals.V{"sp": vals.Map(props)}
				}
				in.scopes = append(in.scopes, sc)
				in.stat("slot-instance")
				if _, has := props["note"]; !has {
					in.stat("slot-instance-without-note")
				}
				ul.kids = append(ul.kids, &xm{id: "li", kids: []*xm{in.probe(&n.List.Content)}, why: fmt.Sprintf("slot instance %d", i)})
				in.scopes = in.scopes[:len(in.scopes)-1]
			}
			out = append(out, ul)
		case n.Loop != nil:
			ms, t := in.loop(n.Loop)
			out = append(out, ms...)
			text.WriteString(t)
		case n.Probe != nil:
			out = append(out, in.probe(n.Probe))
		case n.Inc != nil:
			// the component prints its fixed element; its props are gone when it is done
			out = append(out, &xm{id: "cmp", text: "c", why: "component call"})
			in.stat(fmt.Sprintf("include-props=%d", len(n.Inc.Props)))
		case n.Text != nil:
			// same reads as a probe's bracket, written as bare text
			m := in.probe(n.Text)
			text.WriteString(n.Text.ID + "(" + strings.ReplaceAll(strings.TrimSuffix(strings.TrimPrefix(m.text, "["), "]"), "|", ",") + ")")
		}
	}
	return out, text.String()
}

func (in *interp) scopeNote() string {
	var parts []string
	for _, s := range in.scopes {
		var kv []string
		for _, k := range sortedKeys(s) {
			kv = append(kv, k+"="+s[k].String())
		}
		parts = append(parts, "{"+strings.Join(kv, " ")+"}")
	}
	return "scopes " + strings.Join(parts, " > ")
}

func (in *interp) loop(l *Loop) ([]*xm, string) {
	var out []*xm
	var text strings.Builder
	coll, ok := in.resolve(l.Coll)
	var items []vals.V
	if ok {
		items = elems(coll)
	}
	switch {
	case !ok:
		in.stat("coll=" + map[bool]string{true: "nil-value", false: "missing"}[coll.K == "nil"])
	default:
		in.stat("coll=" + coll.K)
		in.stat(fmt.Sprintf("len=%d", len(items)))
	}
	produced := 0
	for i, it := range items {
		if it.K == "nil" {
			in.stat("item=nil")
			if _, outer := in.resolve(l.Var); outer {
				in.stat("item=nil-shadowing-a-bound-name")
			}
		}
		sc := map[string]vals.V{l.Var: it}
		if l.Idx != "" {
			sc[l.Idx] = vals.Int(i)
		}
		in.scopes = append(in.scopes, sc)
		if l.If == nil || in.holds(*l.If) {
			produced++
			why := fmt.Sprintf("instance %d of loop %s (%s in %s), %s", i, l.ID, l.Var, l.Coll, in.scopeNote())
			if l.Tag == "template" {
				ms, t := in.nodes(l.Body)
				out = append(out, ms...)
				text.WriteString(t)
				if len(ms) == 0 {
					in.stat("template-instance-without-element")
				}
			} else {
				m := &xm{id: l.ID, why: why}
				if in.raw != nil {
					in.raw.WriteString("<" + l.Tag + ">")
				}
				if l.Bind != "" {
					if v, ok := in.resolve(l.Bind); ok && isScalar(v.K) {
						// falsy values: whether the attribute is kept is another property's business
						if truthy(v) {
							as := l.BindAs
							if as == "" {
								as = "data-x"
							}
							m.attrs = map[string]string{as: v.S}
						}
					}
				}
				if l.Fill != nil {
					// v-html / v-text on the looped element: its content is the value, per item
					v, ok := in.resolve(l.Fill.Path)
					if !ok || !isScalar(v.K) {
						panic("c04 generator: " + l.Fill.Dir + " of unbound or non-scalar " + l.Fill.Path)
					}
					m.text = v.S
					if l.Fill.Dir == "v-html" {
						m.text, m.kids = raw(v)
					}
				} else {
					m.kids, m.text = in.nodes(l.Body)
				}
				if in.raw != nil {
					in.raw.WriteString("</" + l.Tag + ">")
				}
				out = append(out, m)
			}
		} else {
			in.stat("vif-filtered-item")
		}
		in.scopes = in.scopes[:len(in.scopes)-1]
	}
	if l.Else != nil {
		if produced == 0 {
			in.stat("else-rendered")
			ek, et := in.nodes(l.Else.Body)
			out = append(out, &xm{id: l.Else.ID, kids: ek, text: et, why: "v-else after loop " + l.ID + " which produced nothing"})
		} else {
			in.stat("else-consumed")
			if l.Tag == "template" && len(out) == 0 {
				in.stat("else-consumed-after-text-only-template-loop")
			}
		}
	}
	if produced == 0 && len(items) > 0 {
		in.stat("all-items-filtered")
	}
	return out, text.String()
}

func (in *interp) probe(p *Probe) *xm {
	m := &xm{id: p.ID, why: in.scopeNote()}
	var texts []string
	for k, r := range p.Reads {
		v, ok := in.resolve(r.Path)
		if !ok {
			in.stat("read-unbound:" + r.Pos)
		}
		switch r.Pos {
		case "text":
			switch {
			case !ok:
				texts = append(texts, in.u.text)
			default:
				d, can := display(v)
				if !can {
					panic("c04 generator: text read of " + r.Path + " = " + v.String())
				}
				texts = append(texts, d)
			}
		case "ctx":
			// a registered func(ctx *vuego.VueContext, path string) reading ctx.Stack().Resolve(path)
			// at the call site sees what {{ path }} shows there ("~" when unbound / nil)
			d, can := display(v)
			if !ok || !can {
				d = "~"
			}
			texts = append(texts, d)
		case "cnt":
			// ... and ctx.Stack().ForEach(path) iterates the collection in scope at the call site
			n := 0
			if ok {
				n = len(elems(v))
			}
			texts = append(texts, strconv.Itoa(n))
		case "type":
			// the registered function type prints the Go type (%T) of its argument
			if !ok || !isTask(v.K) {
				panic("c04 generator: type() read of " + r.Path)
			}
			texts = append(texts, map[string]string{"*task": "*c04.Task", "task": "c04.Task"}[v.K])
		case "fn":
			if !ok || v.K != "*task" {
				panic("c04 generator: tbadge() read of " + r.Path)
			}
			texts = append(texts, "["+v.M["Title"].S+"]")
		case "tern":
			switch {
			case !ok:
				texts = append(texts, in.u.tern)
			case in.holds(r.Cond):
				texts = append(texts, "Y")
			default:
				texts = append(texts, "N")
			}
		case "vif":
			if in.holds(r.Cond) {
				m.kids = append(m.kids, &xm{id: p.ID + "." + itoa(k), text: "t", why: "v-if=" + r.expr() + ", " + in.scopeNote()})
			}
		case "thtml", "vhtml", "vtext":
			if !ok || !isScalar(v.K) {
				panic("c04 generator: " + r.Pos + " of unbound or non-scalar " + r.Path)
			}
			c := &xm{id: p.ID + "." + itoa(k), text: v.S, why: r.Pos + "=" + r.Path + ", " + in.scopeNote()}
			if r.Pos != "vtext" {
				c.text, c.kids = raw(v)
			}
			m.kids = append(m.kids, c)
		case "vshow":
			// docs/syntax.md: v-show toggles the CSS display property, the element stays
			m.kids = append(m.kids, &xm{id: p.ID + "." + itoa(k), text: "s", why: "v-show=" + r.expr() + ", " + in.scopeNote(),
				reqs: []attrReq{{attr: "style", needle: "display:none", want: !in.holds(r.Cond)}}})
		case "class":
			// docs/syntax.md: object keys become class names, included only when their values are truthy
			m.kids = append(m.kids, &xm{id: p.ID + "." + itoa(k), text: "c", why: ":class={hit: " + r.expr() + "}, " + in.scopeNote(),
				reqs: []attrReq{{attr: "class", needle: "hit", want: in.holds(r.Cond), token: true}}})
		case "style":
			// docs/syntax.md: style object values are applied as-is; falsy values stay unasserted
			c := &xm{id: p.ID + "." + itoa(k), text: "y", why: ":style={color: " + r.Path + "}, " + in.scopeNote()}
			if ok && isScalar(v.K) {
				if truthy(v) {
					c.reqs = []attrReq{{attr: "style", needle: "color:" + v.S, want: true}}
				}
			}
			m.kids = append(m.kids, c)
		case "attr", "nattr":
			an := "data-x"
			if r.Pos == "nattr" {
				an = head(r.Path)
			}
			c := &xm{id: p.ID + "." + itoa(k), text: "a", why: ":" + an + "=" + r.Path + ", " + in.scopeNote()}
			if d, can := display(v); ok && can && truthy(v) {
				c.attrs = map[string]string{an: d}
			}
			m.kids = append(m.kids, c)
		}
	}
	m.text = "[" + strings.Join(texts, "|") + "]"
	return m
}

func sortedKeys(m map[string]vals.V) []string {
	out := make([]string, 0, len(m))
	for k := range m {
		out = append(out, k)
	}
	for i := 1; i < len(out); i++ {
		for j := i; j > 0 && out[j] < out[j-1]; j-- {
			out[j], out[j-1] = out[j-1], out[j]
		}
	}
	return out
}
