// Package c04 decides C04: a v-for over a sequence renders one instance of its element per item,
// in order, with the item (and the zero-based index in the `(i, v)` form) bound inside that
// instance only; a shadowed variable has its outer value again after the loop; nested loops
// compose; an immediately following v-else sibling is rendered exactly when the loop produced
// nothing.
//
// A case is pure data: a program description (a tree of loops and probes) plus a data description
// (verif/internal/vals). The template text is derived deterministically from the program
// (template_test.go), the expected marker tree is computed from the same description by a small
// reference interpreter (oracle_test.go: a scope stack of maps over the value *descriptions*),
// vuego is never asked what it "should" print. Output is compared through hx.Markers
// (marker ids, the text directly inside, selected attribute values) and hx.Outline (nesting).
package c04

import (
	"bytes"
	"context"
	"encoding/json"
	"errors"
	"fmt"
	"io"
	"reflect"
	"strconv"
	"strings"
	"testing"
	"time"

	"github.com/titpetric/vuego"
	xhtml "golang.org/x/net/html"
	"golang.org/x/net/html/atom"

	"verif/internal/compose"
	"verif/internal/ev"
	"verif/internal/hx"
	"verif/internal/memfs"
	"verif/internal/run"
	"verif/internal/vals"
)

const prop = "C04"

// ---------------------------------------------------------------- case description

// Case is one template (as a program description) plus its data.
type Case struct {
	// API selects the entry point (see doors): "string" / "byte" / "reader" = Fill(d).RenderString /
	// RenderByte / RenderReader, "fragment" / "vrender" / "nodes" = Vue.RenderFragment / Render /
	// RenderNodes, "load" = Load(file).Fill(d).Render, "file" = Fill(d).RenderFile, "view" =
	// View(t, file, d).Render, "assign" = Load(file).Assign(k, v)….Render (map roots).
	API string `json:"api"`
	// Pretty puts a newline + indentation between sibling nodes (never between a loop and its
	// v-else: that separator is Else.Sep).
	Pretty bool   `json:"pretty,omitempty"`
	Data   Data   `json:"data"`
	Prog   []Node `json:"prog"`
	// Tpl is the template text derived from Prog (kept in the case for the reader of a replay
	// file; check() rebuilds it and refuses a case whose text does not match its program).
	Tpl string `json:"tpl,omitempty"`
	// After: "" = the case alone. "fresh" / "same": a FAILING variant of the case is rendered
	// first - the case's own program over stale data (strings + "STALE", ints + 1000), with a
	// registered function that fails at its FailAt-th call inside the loop bodies and a call that
	// always fails at the very end - on a fresh engine ("fresh") or on the same engine / Template
	// object as the case ("same"), on this goroutine, right before the case itself. Nothing of
	// the failed render may reach the case: it must meet its usual expectation.
	After  string `json:"after,omitempty"`
	FailAt int    `json:"fail_at,omitempty"`
}

// Node is a loop, a probe, or plain text.
type Node struct {
	Loop  *Loop  `json:"loop,omitempty"`
	Probe *Probe `json:"probe,omitempty"`
	// Text is element-less output: ID({{ r1 }},{{ r2 }},…) written as text, only "text" / "tern"
	// reads. It becomes part of the own text of the nearest enclosing element (<template> loops
	// add no element), so a loop body can consist of text alone.
	Text *Probe `json:"text,omitempty"`
	// Inc is a component call <template include="comp.vuego" n1="s1" …></template>: its props live
	// in a scope of their own that is opened and closed again; none of them is visible afterwards.
	Inc *Inc `json:"inc,omitempty"`
	// Set binds a name in the scope of the instance it stands in, by the plain attribute form
	// <template NAME="VAL"></template> (eval_template.go: "set them in current scope"; not the
	// bound :NAME form, which is deliberately written through to the enclosing scope). It is
	// always the LAST node of a loop body, so nothing in the same instance reads the name after
	// it: asserted is only that the binding ends with its instance - the instances of later
	// items and what follows the loop read the name as if the setter did not exist.
	Set *Setter `json:"set,omitempty"`
	// List is the scoped-slot list of docs/components.md: the component list.vuego loops over its
	// items prop and fills its <slot :item :index :note="item.note"> once per item; the page
	// supplies the slot content, which reads the props of THAT item (and page variables).
	List *ListCall `json:"list,omitempty"`
	// Pre is a <pre data-m=ID> element around loops whose bodies are Pieces: inside <pre>,
	// white-space-only text between and after the elements of an instance is content, so the
	// content of the rendered <pre> is compared exactly (text byte for byte, element tags).
	Pre *PreBlock `json:"pre,omitempty"`
	// Piece is <TAG>{{ path }}</TAG> (or bare {{ path }}, or nothing) followed by literal white space.
	Piece *Piece `json:"piece,omitempty"`
	// Wrap puts Body into a parser-sensitive container: "noscript" (<noscript data-m=ID>: raw text
	// for a parser with scripting enabled), "template" (a plain <template> wrapper, no element of
	// its own), "table" (<table data-m=ID><tbody>: Body holds loops written as <tr v-for><td>…),
	// "select" (<select data-m=ID>: Body holds <option v-for> loops with text bodies).
	Wrap *Wrap `json:"wrap,omitempty"`
	// Boom exists in the failing variant only: zz({{ PATH }},{{ boom(PATH) }}).
	Boom *string `json:"boom,omitempty"`
}

// Wrap is a container around loops.
type Wrap struct {
	ID   string `json:"id"`
	Kind string `json:"kind"`
	Body []Node `json:"body"`
}

// PreBlock: Body holds loops (<template> or <span data-m>) whose bodies hold Pieces and loops.
type PreBlock struct {
	ID   string `json:"id"`
	Body []Node `json:"body"`
}

// Piece is one fragment of a line inside <pre>.
type Piece struct {
	Tag  string `json:"tag,omitempty"`
	Path string `json:"path,omitempty"`
	Ws   string `json:"ws,omitempty"`
}

// canonical renders the content of a parsed element: text exactly as it is, elements as
// <tag>…</tag> without attributes.
func canonical(kids []*hx.N) string {
	var sb strings.Builder
	for _, k := range kids {
		if k.Tag == "" {
			sb.WriteString(k.Text)
			continue
		}
		sb.WriteString("<" + k.Tag + ">" + canonical(k.Kids) + "</" + k.Tag + ">")
	}
	return sb.String()
}

// ListCall: <template include="list.vuego" :items="ITEMS"><template v-slot="sp">CONTENT</template></template>,
// or with destructuring v-slot="{ item, index, note }". Content is a probe whose paths start with
// sp. (or are the bare prop names).
type ListCall struct {
	Items   string `json:"items"`
	Destr   bool   `json:"destr,omitempty"`
	Content Probe  `json:"content"`
}

const listFile = `<ul data-m="ul"><li data-m="li" v-for="(index, item) in items"><slot :item="item" :index="index" :note="item.note"></slot></li></ul>`

// Setter: with If, <b data-m=ID v-if="cond"><template NAME="VAL"></template></b>; without,
// the bare <template NAME="VAL"></template> (no element output).
type Setter struct {
	ID   string `json:"id,omitempty"`
	Name string `json:"name"`
	Val  string `json:"val"`
	If   *Cond  `json:"if,omitempty"`
}

// Inc is an include with static props (comp.vuego prints a fixed marked element).
type Inc struct {
	Props []Prop `json:"props"`
}

// Prop is one static prop.
type Prop struct {
	N string `json:"n"`
	S string `json:"s"`
}

const compFile = `<i data-m="cmp">c</i>`

// Loop is one v-for element.
type Loop struct {
	ID      string `json:"id"`            // data-m of every instance (not for <template>)
	Tag     string `json:"tag"`           // div | section | template
	Idx     string `json:"idx,omitempty"` // "" = `v in xs`, else `(idx, v) in xs`
	Var     string `json:"var"`
	Coll    string `json:"coll"` // path of the collection
	If      *Cond  `json:"if,omitempty"`
	IfFirst bool   `json:"if_first,omitempty"` // v-if attribute written before v-for
	Bind    string `json:"bind,omitempty"`     // :data-x="<path>" on the looped element
	BindAs  string `json:"bind_as,omitempty"`  // attribute name instead of data-x (e.g. the loop variable's own name: :value="value")
	// Fill puts v-html / v-text on the looped element itself (its content is then the value
	// of the path; Body is not rendered). Not on <template>.
	Fill *Fill  `json:"fill,omitempty"`
	// Spell selects one of the equivalent spellings of the loop header (nil = the common one).
	Spell *Spell `json:"spell,omitempty"`
	Body []Node `json:"body,omitempty"`
	Else *Else  `json:"else,omitempty"`
}

// Spell: equivalent spellings of `(i, v) in a.b`; the expectation is the same for all.
type Spell struct {
	Vars   int  `json:"vars,omitempty"`   // (i, v) | (i,v) | ( i , v ) | (i ,v) | line break / tab after the comma; single variable: padded
	In     int  `json:"in,omitempty"`     // " in " | "  in  " | line break before " in " | " in  " | line break after | tabs | CRLF both sides | line break directly before
	Pad    bool `json:"pad,omitempty"`    // blanks at both ends of the attribute value
	Path   int  `json:"path,omitempty"`   // a.b / a.0.b | a['b'] / a[0]['b'] | a["b"] (single-quoted attribute) | a[0].b
	Single bool `json:"single,omitempty"` // single-quoted attribute value
	Upper  bool `json:"upper,omitempty"`  // V-FOR
	Extra  int  `json:"extra,omitempty"`  // elements only: 1 class="k" before v-for, 2 :key="<index>" after, 3 :key before
}

// Fill is a content directive: Dir "v-html" or "v-text".
type Fill struct {
	Dir  string `json:"dir"`
	Path string `json:"path"`
}

// Else is the immediately following v-else sibling.
type Else struct {
	ID   string `json:"id"`
	Sep  string `json:"sep"` // what stands between the loop element and the v-else element
	Body []Node `json:"body,omitempty"`
}

// Cond is `<path> <op> <literal>`; Op "" is plain truthiness of the path.
type Cond struct {
	Path string `json:"path"`
	Op   string `json:"op,omitempty"`
	Lit  vals.V `json:"lit,omitzero"`
}

// Probe prints variables: <span data-m=ID>[t1|t2|…]<b v-if…/><u :data-x…/></span>.
type Probe struct {
	ID    string `json:"id"`
	Reads []Read `json:"reads"`
}

// Read is one variable read. Pos: "text" {{ path }}, "tern" {{ cond ? 'Y' : 'N' }},
// "vif" <b data-m=ID.k v-if="cond">, "attr" <u data-m=ID.k :data-x="path">, "nattr" <u data-m=ID.k
// :NAME="path"> where NAME is the variable's own name (:value="value"). Constructs that the
// engine evaluates by rewriting or specially treating the node (each instance must still show
// ITS item): "thtml" <s data-m=ID.k><template v-html="path"></template></s>, "vhtml" / "vtext"
// <s data-m=ID.k v-html|v-text="path">, "vshow" <b v-show="cond">, "class" <b :class="{hit: cond}">,
// "style" <b :style="{color: path}">.
type Read struct {
	Pos string `json:"pos"`
	Cond
}

// ---------------------------------------------------------------- data

// Slot is one named root value.
type Slot struct {
	N string `json:"n"`
	V vals.V `json:"v"`
}

// Data describes the root data. Root: "map" (map[string]any), "hmap" (type H map[string]any),
// "map[]int" (map[string][]int: every slot is a []int), "rec" / "*rec" (vals.Rec, slots
// Name, Title, Count, Kids), "root" / "*root" (Root below, slots by Go field name).
type Data struct {
	Root  string `json:"root"`
	Slots []Slot `json:"slots"`
}

// Root is the struct used for struct-shaped root data with collections of every kind: plain and
// JSON-tagged scalar fields, plain and JSON-tagged collection fields.
type Root struct {
	Name  string
	Label string `json:"label"`
	Total int    `json:"total"`
	Xs    any
	Ys    any `json:"ys"`
	Zs    any `json:"zs"`
}

// rootAlias maps every name under which a field of Root is addressable (Go name, JSON tag;
// docs/api.md: "Field access can use either the struct field name or its JSON tag") to the slot.
var rootAlias = map[string]string{
	"Name": "Name", "Label": "Label", "label": "Label", "Total": "Total", "total": "Total",
	"Xs": "Xs", "Ys": "Ys", "ys": "Ys", "Zs": "Zs", "zs": "Zs",
}

// Structs that EMBED another struct, so that the fields read by templates are promoted ones.
// Base is embedded by value in Emb and by pointer in PEmb (never nil here).
type Base struct {
	ID   int
	Code string
	Tags []string
	Subs []Emb
}

// Emb: item type with promoted ID, Code, Tags, Subs and an own field Title.
type Emb struct {
	Base
	Title string
}

// PEmb: the same with the base embedded by pointer.
type PEmb struct {
	*Base
	Title string
}

// RootBase / ERoot / PRoot: root data whose collection Ps and scalars Pname, Ptotal are promoted.
type RootBase struct {
	Ps     any
	Pname  string
	Ptotal int
}

// ERoot embeds RootBase by value.
type ERoot struct {
	RootBase
	Label string `json:"label"`
	Total int    `json:"total"`
	Zs    any    `json:"zs"`
}

// PRoot embeds RootBase by pointer.
type PRoot struct {
	*RootBase
	Label string `json:"label"`
	Total int    `json:"total"`
	Zs    any    `json:"zs"`
}

// erootAlias: names the embedding roots answer to. Promoted fields by Go name only (whether a
// promoted field answers to its JSON tag is left unasserted, like in C17).
var erootAlias = map[string]string{
	"Ps": "Ps", "Pname": "Pname", "Ptotal": "Ptotal",
	"Label": "Label", "label": "Label", "Total": "Total", "total": "Total", "Zs": "Zs", "zs": "Zs",
}

// embAlias: fields of Emb / PEmb items, Go names only.
var embAlias = map[string]bool{"ID": true, "Code": true, "Title": true, "Tags": true, "Subs": true}

func isEmbRoot(k string) bool { return k == "eroot" || k == "*eroot" || k == "proot" }

// H is a named map type used as root data.
type H map[string]any

func isMapRoot(k string) bool { return k == "map" || k == "hmap" || k == "map[]int" }

// Task is an item type whose String method has a POINTER receiver: it belongs to *Task, not to
// Task. A v-for over []*Task binds the *Task itself: {{ p }} prints through String(), type(p)
// says *c04.Task, and a template function declared func(*Task) accepts the item.
type Task struct {
	ID    int
	Title string
}

func (p *Task) String() string { return fmt.Sprintf("task#%d(%s)", p.ID, p.Title) }

// funcsFor builds the functions registered with an engine: tbadge takes the item of a []*Task as
// it is; boom fails at its failAt-th call since the last reset (0 = never), boomlast always.
func funcsFor(calls *int, failAt *int) vuego.FuncMap {
	return vuego.FuncMap{
		"tbadge": func(p *Task) string { return "[" + p.Title + "]" },
		"boom": func(x any) (string, error) {
			*calls++
			if *failAt > 0 && *calls >= *failAt {
				return "", errors.New("boom")
			}
			return "", nil
		},
		"boomlast": func() (string, error) { return "", errors.New("boom at the end") },
		// context-aware functions: they read the variables of the place they are called from
		// through ctx.Stack(), the documented purpose of VueContext.Stack()
		"seen": func(ctx *vuego.VueContext, path string) string {
			v, ok := ctx.Stack().Resolve(path)
			if !ok || v == nil {
				return "~"
			}
			return fmt.Sprint(v)
		},
		"cnt": func(ctx *vuego.VueContext, path string) int {
			n := 0
			_ = ctx.Stack().ForEach(path, func(int, any) error { n++; return nil })
			return n
		},
	}
}

// stale is the data of the failing variant: the same shape, recognisably different values.
func stale(v vals.V) vals.V {
	out := v
	switch {
	case v.K == "string" && !strings.HasPrefix(v.S, "<"):
		out.S = v.S + "STALE"
	case v.K == "int":
		n, _ := strconv.Atoi(v.S)
		out.S = strconv.Itoa(n + 1000)
	}
	if v.L != nil {
		out.L = make([]vals.V, len(v.L))
		for i, e := range v.L {
			out.L[i] = stale(e)
		}
	}
	if v.M != nil {
		out.M = make(map[string]vals.V, len(v.M))
		for k, e := range v.M {
			out.M[k] = stale(e)
		}
	}
	return out
}

// failing derives the failing variant of a case: a boom call in every loop body (after its
// first node; not inside <pre>), a call that always fails at the end, stale data.
func failing(c Case) Case {
	var f Case
	raw, _ := json.Marshal(c)
	_ = json.Unmarshal(raw, &f)
	var walk func(ns []Node) []Node
	walk = func(ns []Node) []Node {
		for i := range ns {
			if w := ns[i].Wrap; w != nil && (w.Kind == "noscript" || w.Kind == "template") {
				w.Body = walk(w.Body)
			}
			l := ns[i].Loop
			if l == nil {
				continue
			}
			l.Body = walk(l.Body)
			if l.Else != nil {
				l.Else.Body = walk(l.Else.Body)
			}
			if l.Fill == nil {
				b := Node{Boom: &l.Var}
				if len(l.Body) == 0 {
					l.Body = []Node{b}
				} else {
					l.Body = append(l.Body[:1:1], append([]Node{b}, l.Body[1:]...)...)
				}
			}
		}
		return ns
	}
	f.Prog = walk(f.Prog)
	end := "\x00end"
	f.Prog = append(f.Prog, Node{Boom: &end})
	for i := range f.Data.Slots {
		f.Data.Slots[i].V = stale(f.Data.Slots[i].V)
	}
	f.After, f.Tpl = "", ""
	return f
}

func taskVal(v vals.V) *Task {
	t := &Task{Title: v.M["Title"].S}
	t.ID, _ = v.M["ID"].Go().(int)
	return t
}

// Named element types: values whose Go type is not a predeclared one.
type Qty int

// Flag is a named bool, Name a named string.
type Flag bool

// Name is a named string.
type Name string

// Ratio is a named float32.
type Ratio float32

var wideTypes = map[string]reflect.Type{
	"uint64": reflect.TypeOf(uint64(0)), "uint": reflect.TypeOf(uint(0)), "int64": reflect.TypeOf(int64(0)),
	"int32": reflect.TypeOf(int32(0)), "uint32": reflect.TypeOf(uint32(0)), "int16": reflect.TypeOf(int16(0)),
	"uint16": reflect.TypeOf(uint16(0)), "int8": reflect.TypeOf(int8(0)), "uint8": reflect.TypeOf(uint8(0)),
}

// goVal builds the Go value of a description: internal/vals for everything it knows, plus the
// embedding struct kinds of this package ("emb", "pemb", "*emb" and slices of them), also
// inside []any and maps.
func goVal(v vals.V) any {
	if e, n, ok := wideKind(v.K); ok {
		et := wideTypes[e]
		var rv reflect.Value
		if n > 0 {
			rv = reflect.New(reflect.ArrayOf(n, et)).Elem()
		} else {
			rv = reflect.MakeSlice(reflect.SliceOf(et), len(v.L), len(v.L))
		}
		for i, x := range v.L {
			if i >= rv.Len() {
				break
			}
			if strings.HasPrefix(e, "u") {
				u, _ := strconv.ParseUint(x.S, 10, 64)
				rv.Index(i).SetUint(u)
			} else {
				s, _ := strconv.ParseInt(x.S, 10, 64)
				rv.Index(i).SetInt(s)
			}
		}
		return rv.Interface()
	}
	switch v.K {
	case "[]any":
		out := make([]any, len(v.L))
		for i, e := range v.L {
			out[i] = goVal(e)
		}
		return out
	case "map":
		out := make(map[string]any, len(v.M))
		for k, e := range v.M {
			if e.K != "missing" {
				out[k] = goVal(e)
			}
		}
		return out
	case "[]map":
		out := make([]map[string]any, len(v.L))
		for i, e := range v.L {
			out[i], _ = goVal(vals.V{K: "map", M: e.M}).(map[string]any)
		}
		return out
	case "*task":
		return taskVal(v)
	case "[]*task":
		out := make([]*Task, len(v.L))
		for i, e := range v.L {
			out[i] = taskVal(e)
		}
		return out
	case "[2]*task":
		var out [2]*Task
		for i := range out {
			out[i] = &Task{}
			if i < len(v.L) {
				out[i] = taskVal(v.L[i])
			}
		}
		return out
	case "[]task":
		out := make([]Task, len(v.L))
		for i, e := range v.L {
			out[i] = *taskVal(e)
		}
		return out
	case "[]flag":
		out := make([]Flag, len(v.L))
		for i, e := range v.L {
			out[i] = Flag(e.S == "true")
		}
		return out
	case "[]name":
		out := make([]Name, len(v.L))
		for i, e := range v.L {
			out[i] = Name(e.S)
		}
		return out
	case "[]qty":
		out := make([]Qty, len(v.L))
		for i, e := range v.L {
			n, _ := strconv.Atoi(e.S)
			out[i] = Qty(n)
		}
		return out
	case "[2]ratio":
		var out [2]Ratio
		for i, e := range v.L {
			if i < 2 {
				f, _ := strconv.ParseFloat(e.S, 32)
				out[i] = Ratio(f)
			}
		}
		return out
	case "[]dur":
		out := make([]time.Duration, len(v.L))
		for i, e := range v.L {
			n, _ := strconv.Atoi(e.S)
			out[i] = time.Duration(n)
		}
		return out
	case "emb":
		return embVal(v)
	case "pemb":
		e := embVal(v)
		return PEmb{Base: &e.Base, Title: e.Title}
	case "*emb":
		e := embVal(v)
		return &e
	case "[]emb":
		out := make([]Emb, len(v.L))
		for i, e := range v.L {
			out[i] = embVal(e)
		}
		return out
	case "[]pemb":
		out := make([]PEmb, len(v.L))
		for i, e := range v.L {
			x := embVal(e)
			out[i] = PEmb{Base: &x.Base, Title: x.Title}
		}
		return out
	case "[]*emb":
		out := make([]*Emb, len(v.L))
		for i, e := range v.L {
			x := embVal(e)
			out[i] = &x
		}
		return out
	}
	return v.Go()
}

func embVal(v vals.V) Emb {
	e := Emb{Title: v.M["Title"].S}
	e.ID, _ = v.M["ID"].Go().(int)
	e.Code = v.M["Code"].S
	if t, ok := v.M["Tags"]; ok {
		e.Tags = []string{}
		for _, x := range t.L {
			e.Tags = append(e.Tags, x.S)
		}
	}
	if sb, ok := v.M["Subs"]; ok {
		e.Subs = []Emb{}
		for _, x := range sb.L {
			e.Subs = append(e.Subs, embVal(x))
		}
	}
	return e
}

// recAlias is the same for vals.Rec (as root data and as loop item).
var recAlias = map[string]string{
	"Name": "Name", "Title": "Title", "title": "Title", "Count": "Count", "count": "Count", "Kids": "Kids",
}

func (d Data) slot(n string) (vals.V, bool) {
	for _, s := range d.Slots {
		if s.N == n {
			return s.V, true
		}
	}
	return vals.V{}, false
}

// build makes the real Go value handed to vuego.
func (d Data) build() any {
	switch d.Root {
	case "map", "hmap":
		m := map[string]any{}
		for _, s := range d.Slots {
			if s.V.K == "missing" {
				continue
			}
			m[s.N] = goVal(s.V)
		}
		if d.Root == "hmap" {
			return H(m) // a named map type (the shape of gin.H / echo.Map)
		}
		return m
	case "map[]int":
		// a typed map: every key holds a []int
		m := map[string][]int{}
		for _, s := range d.Slots {
			if s.V.K == "missing" {
				continue
			}
			l := []int{}
			for _, e := range s.V.L {
				n, _ := strconv.Atoi(e.S)
				l = append(l, n)
			}
			m[s.N] = l
		}
		return m
	case "rec", "*rec":
		m := map[string]vals.V{}
		for _, s := range d.Slots {
			m[s.N] = s.V
		}
		return vals.V{K: d.Root, M: m}.Go()
	case "root", "*root":
		r := Root{}
		for _, s := range d.Slots {
			switch s.N {
			case "Name":
				r.Name = s.V.S
			case "Label":
				r.Label = s.V.S
			case "Total":
				r.Total, _ = s.V.Go().(int)
			case "Xs":
				r.Xs = goVal(s.V)
			case "Ys":
				r.Ys = goVal(s.V)
			case "Zs":
				r.Zs = goVal(s.V)
			}
		}
		if d.Root == "*root" {
			return &r
		}
		return r
	case "eroot", "*eroot", "proot":
		b := RootBase{}
		r := ERoot{}
		for _, s := range d.Slots {
			switch s.N {
			case "Ps":
				b.Ps = goVal(s.V)
			case "Pname":
				b.Pname = s.V.S
			case "Ptotal":
				b.Ptotal, _ = s.V.Go().(int)
			case "Label":
				r.Label = s.V.S
			case "Total":
				r.Total, _ = s.V.Go().(int)
			case "Zs":
				r.Zs = goVal(s.V)
			}
		}
		r.RootBase = b
		switch d.Root {
		case "*eroot":
			return &r
		case "proot":
			return PRoot{RootBase: &b, Label: r.Label, Total: r.Total, Zs: r.Zs}
		}
		return r
	}
	panic("c04: unknown root kind " + d.Root)
}

// ---------------------------------------------------------------- check

// door opens one public entry point: run renders the named page ("page" or "fail") over d.
type door struct {
	run   func(which, text string, d Data, w io.Writer) error
	fresh func() // replace the engine / base template by a new one
}

func parseNodes(text string) []*xhtml.Node {
	body := &xhtml.Node{Type: xhtml.ElementNode, Data: "body", DataAtom: atom.Body}
	nodes, _ := xhtml.ParseFragmentWithOptions(strings.NewReader(text), body, xhtml.ParseOptionEnableScripting(false))
	return nodes
}

func openDoor(api string, files map[string]string, fm vuego.FuncMap) (*door, error) {
	ctx := context.Background()
	var v *vuego.Vue
	var t vuego.Template
	d := &door{}
	d.fresh = func() {
		v = vuego.NewVue(memfs.FromMap(files)).Funcs(fm)
		t = vuego.NewFS(memfs.FromMap(files), vuego.WithFuncs(fm))
	}
	d.fresh()
	switch api {
	case "", "string":
		d.run = func(_, text string, dd Data, w io.Writer) error { return t.Fill(dd.build()).RenderString(ctx, w, text) }
	case "byte":
		d.run = func(_, text string, dd Data, w io.Writer) error { return t.Fill(dd.build()).RenderByte(ctx, w, []byte(text)) }
	case "reader":
		d.run = func(_, text string, dd Data, w io.Writer) error {
			return t.Fill(dd.build()).RenderReader(ctx, w, strings.NewReader(text))
		}
	case "fragment":
		d.run = func(which, _ string, dd Data, w io.Writer) error { return v.RenderFragment(w, which+".vuego", dd.build()) }
	case "vrender":
		d.run = func(which, _ string, dd Data, w io.Writer) error { return v.Render(w, which+".vuego", dd.build()) }
	case "nodes":
		d.run = func(_, text string, dd Data, w io.Writer) error { return v.RenderNodes(w, parseNodes(text), dd.build()) }
	case "load":
		d.run = func(which, _ string, dd Data, w io.Writer) error {
			return t.Load(which + ".vuego").Fill(dd.build()).Render(ctx, w)
		}
	case "file":
		d.run = func(which, _ string, dd Data, w io.Writer) error {
			return t.Fill(dd.build()).RenderFile(ctx, w, which+".vuego")
		}
	case "view":
		d.run = func(which, _ string, dd Data, w io.Writer) error {
			return vuego.View(t, which+".vuego", dd.build()).Render(ctx, w)
		}
	case "assign":
		d.run = func(which, _ string, dd Data, w io.Writer) error {
			if dd.Root != "map" && dd.Root != "hmap" {
				return t.Load(which + ".vuego").Fill(dd.build()).Render(ctx, w)
			}
			x := t.Load(which + ".vuego")
			for _, sl := range dd.Slots {
				if sl.V.K != "missing" {
					x = x.Assign(sl.N, goVal(sl.V))
				}
			}
			return x.Render(ctx, w)
		}
	default:
		return nil, fmt.Errorf("unknown api %q", api)
	}
	return d, nil
}

func render(c Case, tpl string) (string, error) {
	var buf, sink bytes.Buffer
	files := map[string]string{"page.vuego": tpl, "comp.vuego": compFile, "list.vuego": listFile}
	calls, failAt := 0, 0
	fm := funcsFor(&calls, &failAt)
	// the failing variant first (see Case.After); its outcome is not asserted
	var f Case
	var failTpl string
	if c.After != "" {
		f = failing(c)
		failTpl = buildTemplate(f)
		files["fail.vuego"] = failTpl
		failAt = c.FailAt
		if failAt < 1 {
			failAt = 2
		}
	}
	d, err := openDoor(c.API, files, fm)
	if err != nil {
		return "", err
	}
	if c.After != "" {
		_ = d.run("fail", failTpl, f.Data, &sink)
		if c.After == "fresh" {
			d.fresh()
		}
	}
	failAt = 0
	err = d.run("page", tpl, c.Data, &buf)
	// hx parses with scripting enabled, where the content of <noscript> is text: rename the
	// element so that the instances rendered inside it are seen as the elements they are
	out := strings.NewReplacer("<noscript", "<x-noscript", "</noscript>", "</x-noscript>").Replace(buf.String())
	return out, err
}

// flat lists the expected markers in document order.
func flat(l []*xm, out []*xm) []*xm {
	for _, m := range l {
		out = append(out, m)
		out = flat(m.kids, out)
	}
	return out
}

func outline(l []*xm) string {
	var sb strings.Builder
	for _, m := range l {
		sb.WriteString(m.id + "(" + outline(m.kids) + ")")
	}
	return sb.String()
}

func hasInc(ns []Node) bool {
	for _, n := range ns {
		switch {
		case n.Inc != nil:
			return true
		case n.Set != nil:
		case n.Loop != nil:
			if hasInc(n.Loop.Body) || (n.Loop.Else != nil && hasInc(n.Loop.Else.Body)) {
				return true
			}
		}
	}
	return false
}

// check renders a case with component calls twice in a row on this goroutine (fresh engine
// each time): what a closed component scope leaves behind must not reach a later loop instance,
// neither in the same render nor in the next one.
func check(c Case) error {
	reps := 1
	if hasInc(c.Prog) {
		reps = 2
	}
	for r := 1; r <= reps; r++ {
		if err := checkOnce(c); err != nil {
			if reps > 1 {
				return fmt.Errorf("render %d of %d: %w", r, reps, err)
			}
			return err
		}
	}
	return nil
}

func checkOnce(c Case) error {
	tpl := buildTemplate(c)
	if c.Tpl != "" && c.Tpl != tpl {
		return fmt.Errorf("case is inconsistent: its tpl text is not the text derived from prog:\n have %s\n want %s", c.Tpl, tpl)
	}
	out, err := render(c, tpl)
	ctx := func() string {
		return fmt.Sprintf("\n template: %s\n data: %s\n api: %s\n output: %s", tpl, describe(c.Data), c.API, out)
	}
	if err != nil {
		return fmt.Errorf("render failed on a well-formed loop nest: %v%s", err, ctx())
	}
	forest, perr := hx.Frag(out, hx.Collapse)
	if perr != nil {
		return fmt.Errorf("output does not parse: %v%s", perr, ctx())
	}
	got := hx.Markers(forest)
	// The control element (first in the template) shows how a never-defined name prints / compares
	// in this engine; how that looks is not asserted, only that an unbound loop variable looks the same.
	var u undef
	rest := got[:0:0]
	for _, m := range got {
		switch m.ID {
		case "ctl":
			t := strings.TrimSuffix(strings.TrimPrefix(m.Text, "["), "]")
			parts := strings.Split(t, "|")
			if len(parts) != 2 {
				return fmt.Errorf("control element unreadable: %q%s", m.Text, ctx())
			}
			u.text, u.tern, u.seen = parts[0], parts[1], true
		case "ctl.eq":
			u.eq = true
		case "ctl.tr":
			u.truthy = true
		default:
			rest = append(rest, m)
		}
	}
	if !u.seen {
		return fmt.Errorf("control element missing from the output%s", ctx())
	}
	in := &interp{d: c.Data, u: u}
	topKids, topText := in.nodes(c.Prog)
	want := []*xm{{id: "top", why: "the wrapper element", kids: topKids, text: topText}}
	wf := flat(want, nil)
	show := func() string {
		var a, b []string
		for _, m := range wf {
			a = append(a, m.String())
		}
		for _, m := range rest {
			b = append(b, fmt.Sprintf("%s%q", m.ID, m.Text))
		}
		return fmt.Sprintf("\n expected markers: %s\n rendered markers: %s%s", strings.Join(a, " "), strings.Join(b, " "), ctx())
	}
	for i := 0; i < len(wf) || i < len(rest); i++ {
		switch {
		case i >= len(rest):
			return fmt.Errorf("marker #%d: expected %s, output ends%s", i, wf[i], show())
		case i >= len(wf):
			return fmt.Errorf("marker #%d: unexpected extra %s%q%s", i, rest[i].ID, rest[i].Text, show())
		}
		w, g := wf[i], rest[i]
		if w.id != g.ID {
			return fmt.Errorf("marker #%d: expected %s, rendered %s%q (%s)%s", i, w, g.ID, g.Text, w.why, show())
		}
		// own text is compared with all whitespace removed: where a text-only loop puts line breaks
		// and indentation between its instances is layout (values never contain whitespace)
		if w.pre != nil {
			if got := canonical(g.Node.Kids); got != *w.pre {
				return fmt.Errorf("marker #%d %s: content of the <pre> is %q, expected %q (white space inside loop instances is content there)%s", i, w.id, got, *w.pre, show())
			}
		} else if squeeze(w.text) != squeeze(g.Text) {
			return fmt.Errorf("marker #%d %s: text %q, expected %q (%s)%s", i, w.id, g.Text, w.text, w.why, show())
		}
		for k, v := range w.attrs {
			if gv, ok := g.Attrs[k]; !ok || gv != v {
				return fmt.Errorf("marker #%d %s: attribute %s=%q (present=%v), expected %q (%s)%s", i, w.id, k, gv, ok, v, w.why, show())
			}
		}
		for _, rq := range w.reqs {
			gv := g.Attrs[rq.attr]
			found := false
			if rq.token {
				for _, f := range strings.Fields(gv) {
					found = found || f == rq.needle
				}
			} else {
				found = strings.Contains(strings.Join(strings.Fields(gv), ""), rq.needle)
			}
			if found != rq.want {
				return fmt.Errorf("marker #%d %s: attribute %s=%q, expected it to contain %q: %v (%s)%s", i, w.id, rq.attr, gv, rq.needle, rq.want, w.why, show())
			}
		}
	}
	// nesting of the marked elements (instances inside instances)
	var ctlFree []*hx.N
	for _, n := range forest {
		if n.Tag != "" && strings.HasPrefix(n.Attrs["data-m"], "ctl") {
			continue
		}
		ctlFree = append(ctlFree, n)
	}
	if g, w := hx.Outline(ctlFree), outline(want); g != w {
		return fmt.Errorf("nesting of rendered instances differs:\n rendered %s\n expected %s%s", g, w, show())
	}
	return nil
}

func squeeze(s string) string { return strings.Join(strings.Fields(s), "") }

func describe(d Data) string {
	var sb strings.Builder
	sb.WriteString(d.Root + "{")
	for _, s := range d.Slots {
		sb.WriteString(s.N + ":" + s.V.String() + " ")
	}
	return sb.String() + "}"
}

// ---------------------------------------------------------------- entry points

func replay(kind string, raw json.RawMessage) error {
	if kind == compose.Kind {
		return compose.Replay(raw)
	}
	return run.Decode(raw, check)
}

func TestProp(t *testing.T) {
	rec := ev.New(prop)
	defer run.Finish(t, rec)
	run.Witnesses(rec, prop, replay)
	// cross-feature compositions checked against the shared reference interpreter
	compose.Family(t, rec, "for")

	shard, shards := run.Shard()
	n, ok := 0, true
	each := func(kind string) func(c Case) bool {
		return func(c Case) bool {
			n++
			if n%shards != shard {
				return true
			}
			// the after-failure dimension on a rotating fifth of the enumerated cases (a quarter
			// in the thorough tier): failing variant first, on a fresh or on the same engine,
			// failing at the 1st .. 5th call of the failing function
			if k := n / shards; k%run.Pick(5, 4) == 0 {
				c.After = []string{"fresh", "same"}[k/run.Pick(5, 4)%2]
				c.FailAt = 1 + k/run.Pick(10, 8)%5
			}
			c.Tpl = buildTemplate(c)
			nt, cls := classify(c)
			if !run.Each(rec, kind, c, nt, cls, check) {
				ok = false
				return false
			}
			return true
		}
	}
	// exhaustive core 1: one loop x every collection kind x length 0..4 x form x variable name
	// (fresh / shadows a root scalar / shadows the collection itself) x root kind x v-else x v-if x tag
	core1(run.Thorough(), each("core1"))
	if ok {
		design := run.Pick("v-else separator / v-if kind / element-or-template / index name rotated over the rest", "full product")
		rec.Exhaustive(fmt.Sprintf("core1 (%s): single loop, every sequence kind x lengths 0..4 + nil slice / nil value / missing x forms x loop-variable names (fresh, root scalar by key / Go name / JSON tag, own collection) x index names x root kinds x v-else x v-if x element/template (%d cases)", design, n))
	}
	// exhaustive core 2: two nested loops, every assignment of 4 names to (outer idx, outer var, inner idx, inner var)
	n0 := n
	if ok {
		core2(each("core2"))
	}
	if ok {
		rec.Exhaustive(fmt.Sprintf("core2: two nested loops, all name collisions between outer/inner index and item variables and a root name x inner collection x root kinds x v-else (%d cases)", n-n0))
	}
	// exhaustive core 3: nested loops over collections promoted from embedded structs
	n1 := n
	if ok {
		core3(each("core3"))
	}
	if ok {
		rec.Exhaustive(fmt.Sprintf("core3: outer loop over []Emb / []PEmb / []*Emb (struct embedding a base by value / by pointer) held by a map, a struct field and a promoted root field x inner loop over the promoted item.Tags / item.Subs x inner variable name x v-else (%d cases)", n-n1))
	}
	// exhaustive core 4: loops inside <pre> with white-space-only text in their instances
	n2 := n
	if ok {
		core4(each("core4"))
	}
	if ok {
		rec.Exhaustive(fmt.Sprintf("core4: <template> / <span> loops inside <pre> x white-space separator (newline, blank, tab, two blanks) x 0..3 items x form x nested loop, content of the <pre> compared exactly (%d cases)", n-n2))
	}
	// exhaustive core 5: parser-sensitive containers x entry points
	n3 := n
	if ok {
		core5(each("core5"))
	}
	if ok {
		rec.Exhaustive(fmt.Sprintf("core5: a loop inside <noscript> / a plain <template> / <table><tbody><tr> / <select><option> x every entry point (RenderString / Byte / Reader, Vue.RenderFragment / Render / RenderNodes, Load.Fill.Render, RenderFile, View, Load.Assign.Render) x 0 / 2 items x form x v-else (%d cases)", n-n3))
	}
	run.Rapid(t, rec, "nest", genCase, classify, check)
}

func TestReplay(t *testing.T) { run.ReplayMain(t, prop, replay) }
