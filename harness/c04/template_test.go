package c04

import (
	"strings"

	"verif/internal/vals"
)

// control shows how a never-defined name (u0) prints, compares and tests in this engine.
const control = `<span data-m="ctl">[{{ u0 }}|{{ u0 == 'a' ? 'Y' : 'N' }}]<b data-m="ctl.eq" v-if="u0 == 'a'">t</b><b data-m="ctl.tr" v-if="u0">t</b></span>`

// lit writes a literal the way a template author does.
func lit(v vals.V) string {
	if v.K == "string" {
		return "'" + v.S + "'"
	}
	return v.S
}

func (c Cond) expr() string {
	if c.Op == "" {
		return c.Path
	}
	return c.Path + " " + c.Op + " " + lit(c.Lit)
}

type tw struct {
	sb     strings.Builder
	pretty bool
}

func (w *tw) nl(depth int) {
	if w.pretty {
		w.sb.WriteString("\n" + strings.Repeat("  ", depth))
	}
}

func (w *tw) nodes(ns []Node, depth int) {
	for _, n := range ns {
		w.nl(depth)
		switch {
		case n.Loop != nil:
			w.loop(n.Loop, depth)
		case n.Probe != nil:
			w.probe(n.Probe)
		case n.Wrap != nil:
			open, shut := `<noscript data-m="`+n.Wrap.ID+`">`, `</noscript>`
			switch n.Wrap.Kind {
			case "template":
				open, shut = `<template>`, `</template>`
			case "table":
				open, shut = `<table data-m="`+n.Wrap.ID+`"><tbody>`, `</tbody></table>`
			case "select":
				open, shut = `<select data-m="`+n.Wrap.ID+`">`, `</select>`
			}
			w.sb.WriteString(open)
			w.nodes(n.Wrap.Body, depth+1)
			w.nl(depth)
			w.sb.WriteString(shut)
		case n.Boom != nil:
			if strings.HasPrefix(*n.Boom, "\x00") {
				w.sb.WriteString("end({{ u0 }},{{ boomlast() }})")
			} else {
				w.sb.WriteString("zz({{ " + *n.Boom + " }},{{ boom(" + *n.Boom + ") }})")
			}
		case n.Pre != nil:
			// no layout white space inside <pre>: every blank there is content
			saved := w.pretty
			w.pretty = false
			w.sb.WriteString(`<pre data-m="` + n.Pre.ID + `">`)
			w.nodes(n.Pre.Body, depth+1)
			w.sb.WriteString(`</pre>`)
			w.pretty = saved
		case n.Piece != nil:
			switch {
			case n.Piece.Tag != "":
				w.sb.WriteString("<" + n.Piece.Tag + ">{{ " + n.Piece.Path + " }}</" + n.Piece.Tag + ">")
			case n.Piece.Path != "":
				w.sb.WriteString("{{ " + n.Piece.Path + " }}")
			}
			w.sb.WriteString(n.Piece.Ws)
		case n.List != nil:
			slot := "sp"
			if n.List.Destr {
				slot = "{ item, index, note }"
			}
			w.sb.WriteString(`<template include="list.vuego" :items="` + n.List.Items + `"><template v-slot="` + slot + `">`)
			w.probe(&n.List.Content)
			w.sb.WriteString(`</template></template>`)
		case n.Set != nil:
			t := `<template ` + n.Set.Name + `="` + n.Set.Val + `"></template>`
			if n.Set.If != nil {
				t = `<b data-m="` + n.Set.ID + `" v-if="` + n.Set.If.expr() + `">` + t + `</b>`
			}
			w.sb.WriteString(t)
		case n.Inc != nil:
			w.sb.WriteString(`<template include="comp.vuego"`)
			for _, pr := range n.Inc.Props {
				w.sb.WriteString(` ` + pr.N + `="` + pr.S + `"`)
			}
			w.sb.WriteString(`></template>`)
		case n.Text != nil:
			w.sb.WriteString(n.Text.ID + "(")
			for k, r := range n.Text.Reads {
				if k > 0 {
					w.sb.WriteString(",")
				}
				switch r.Pos {
				case "ctx":
					w.sb.WriteString(`{{ seen("` + r.Path + `") }}`)
				case "cnt":
					w.sb.WriteString(`{{ cnt("` + r.Path + `") }}`)
				case "tern":
					w.sb.WriteString("{{ " + r.expr() + " ? 'Y' : 'N' }}")
				case "type":
					w.sb.WriteString("{{ type(" + r.Path + ") }}")
				case "fn":
					w.sb.WriteString("{{ tbadge(" + r.Path + ") }}")
				default:
					w.sb.WriteString("{{ " + r.Path + " }}")
				}
			}
			w.sb.WriteString(")")
		}
	}
}

func (w *tw) probe(p *Probe) {
	w.sb.WriteString(`<span data-m="` + p.ID + `">[`)
	first := true
	for _, r := range p.Reads {
		if r.Pos != "text" && r.Pos != "tern" && r.Pos != "type" && r.Pos != "fn" && r.Pos != "ctx" && r.Pos != "cnt" {
			continue
		}
		if !first {
			w.sb.WriteString("|")
		}
		first = false
		if r.Pos == "text" {
			w.sb.WriteString("{{ " + r.Path + " }}")
		} else if r.Pos == "ctx" {
			w.sb.WriteString(`{{ seen("` + r.Path + `") }}`)
		} else if r.Pos == "cnt" {
			w.sb.WriteString(`{{ cnt("` + r.Path + `") }}`)
		} else if r.Pos == "type" {
			w.sb.WriteString("{{ type(" + r.Path + ") }}")
		} else if r.Pos == "fn" {
			w.sb.WriteString("{{ tbadge(" + r.Path + ") }}")
		} else {
			w.sb.WriteString("{{ " + r.expr() + " ? 'Y' : 'N' }}")
		}
	}
	w.sb.WriteString("]")
	for k, r := range p.Reads {
		id := p.ID + "." + itoa(k)
		switch r.Pos {
		case "vif":
			w.sb.WriteString(`<b data-m="` + id + `" v-if="` + r.expr() + `">t</b>`)
		case "attr":
			w.sb.WriteString(`<u data-m="` + id + `" :data-x="` + r.Path + `">a</u>`)
		case "nattr":
			w.sb.WriteString(`<u data-m="` + id + `" :` + head(r.Path) + `="` + r.Path + `">a</u>`)
		case "thtml":
			w.sb.WriteString(`<s data-m="` + id + `"><template v-html="` + r.Path + `"></template></s>`)
		case "vhtml":
			w.sb.WriteString(`<s data-m="` + id + `" v-html="` + r.Path + `">x</s>`)
		case "vtext":
			w.sb.WriteString(`<s data-m="` + id + `" v-text="` + r.Path + `">x</s>`)
		case "vshow":
			w.sb.WriteString(`<b data-m="` + id + `" v-show="` + r.expr() + `">s</b>`)
		case "class":
			w.sb.WriteString(`<b data-m="` + id + `" :class="{hit: ` + r.expr() + `}">c</b>`)
		case "style":
			w.sb.WriteString(`<b data-m="` + id + `" :style="{color: ` + r.Path + `}">y</b>`)
		}
	}
	w.sb.WriteString("</span>")
}

func (w *tw) loop(l *Loop, depth int) {
	sp := Spell{}
	if l.Spell != nil {
		sp = *l.Spell
	}
	vars := []string{l.Var, " " + l.Var, l.Var + " ", l.Var, l.Var, l.Var}[sp.Vars%6]
	if l.Idx != "" {
		vars = []string{"(" + l.Idx + ", " + l.Var + ")", "(" + l.Idx + "," + l.Var + ")", "( " + l.Idx + " , " + l.Var + " )",
			"(" + l.Idx + " ," + l.Var + ")", "(" + l.Idx + ",\n " + l.Var + ")", "(" + l.Idx + ",\t" + l.Var + ")"}[sp.Vars%6]
	}
	path, dq := spellPath(l.Coll, sp.Path)
	// blanks, tabs, line breaks (LF and CRLF) before and after the keyword
	vfor := vars + []string{" in ", "  in  ", "\n in ", " in  ", " in\n ", "\tin\t", "\r\nin\r\n", "\nin "}[sp.In%8] + path
	if sp.Pad {
		vfor = " " + vfor + " "
	}
	q := `"`
	if (sp.Single || dq) && !strings.Contains(vfor, "'") {
		q = "'"
	}
	name := "v-for"
	if sp.Upper {
		name = "V-FOR"
	}
	extra := func(k int) {
		if l.Tag == "template" || sp.Extra != k {
			return
		}
		if k == 1 {
			w.sb.WriteString(` class="k"`)
		} else if l.Idx != "" {
			w.sb.WriteString(` :key="` + l.Idx + `"`)
		}
	}
	w.sb.WriteString("<" + l.Tag)
	extra(1)
	extra(3)
	if l.If != nil && l.IfFirst {
		w.sb.WriteString(` v-if="` + l.If.expr() + `"`)
	}
	w.sb.WriteString(` ` + name + `=` + q + vfor + q)
	extra(2)
	if l.If != nil && !l.IfFirst {
		w.sb.WriteString(` v-if="` + l.If.expr() + `"`)
	}
	if l.Tag != "template" {
		// no attributes on <template v-for>: <template> attributes define variables (documented,
		// and bound ones are written through to the parent scope on purpose)
		w.sb.WriteString(` data-m="` + l.ID + `"`)
		if l.Bind != "" {
			as := l.BindAs
			if as == "" {
				as = "data-x"
			}
			w.sb.WriteString(` :` + as + `="` + l.Bind + `"`)
		}
		if l.Fill != nil {
			w.sb.WriteString(` ` + l.Fill.Dir + `="` + l.Fill.Path + `"`)
		}
	}
	// a table row holds its content in a cell; the v-else of a row / option is a row / option
	in, out, etag := "", "", "div"
	switch l.Tag {
	case "tr":
		in, out, etag = "<td>", "</td>", "tr"
	case "option":
		etag = "option"
	}
	w.sb.WriteString(">" + in)
	w.nodes(l.Body, depth+1)
	w.nl(depth)
	w.sb.WriteString(out + "</" + l.Tag + ">")
	if l.Else != nil {
		w.sb.WriteString(l.Else.Sep)
		w.sb.WriteString(`<` + etag + ` v-else data-m="` + l.Else.ID + `">` + in)
		w.nodes(l.Else.Body, depth+1)
		w.nl(depth)
		w.sb.WriteString(out + "</" + etag + ">")
	}
}

// buildTemplate derives the template text of a case from its program.
func buildTemplate(c Case) string {
	w := &tw{pretty: c.Pretty}
	w.sb.WriteString(control)
	w.nl(0)
	w.sb.WriteString(`<div data-m="top">`)
	w.nodes(c.Prog, 1)
	w.nl(0)
	w.sb.WriteString("</div>")
	return w.sb.String()
}

// spellPath writes the canonical dotted collection path in one of its equivalent spellings;
// dq reports that the spelling contains double quotes (the attribute must be single-quoted).
func spellPath(canon string, style int) (string, bool) {
	steps := strings.Split(canon, ".")
	var sb strings.Builder
	sb.WriteString(steps[0])
	dq := false
	for _, st := range steps[1:] {
		numeric := st != "" && strings.Trim(st, "0123456789") == ""
		ident := !strings.ContainsAny(st, "- ")
		switch {
		case numeric && style%4 == 0:
			sb.WriteString("." + st)
		case numeric:
			sb.WriteString("[" + st + "]")
		case ident && (style%4 == 0 || style%4 == 3):
			sb.WriteString("." + st)
		case style%4 == 2:
			sb.WriteString(`["` + st + `"]`)
			dq = true
		default:
			sb.WriteString("['" + st + "']")
		}
	}
	return sb.String(), dq
}

func head(path string) string { return strings.SplitN(path, ".", 2)[0] }

func itoa(n int) string {
	if n == 0 {
		return "0"
	}
	s := ""
	for n > 0 {
		s = string(rune('0'+n%10)) + s
		n /= 10
	}
	return s
}
