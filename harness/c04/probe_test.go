package c04

import (
	"bytes"
	"context"
	"fmt"
	"testing"

	"github.com/titpetric/vuego"
	"verif/internal/vals"
)

type PR struct {
	Name  string
	Label string `json:"label"`
	Xs    any
	Ys    any `json:"ys"`
}

func rs(tpl string, data any) string {
	var buf bytes.Buffer
	err := vuego.New().Fill(data).RenderString(context.Background(), &buf, tpl)
	return fmt.Sprintf("%q err=%v", buf.String(), err)
}

func TestProbe(t *testing.T) {
	m := map[string]any{"xs": []any{"a", "b"}, "v": "OUT", "fs": []float64{1.5, 2}, "bs": []bool{true, false}, "arr": [3]int{1, 2, 0}, "nilv": nil, "ns": []any(nil),
		"recs": []vals.Rec{{Name: "n1", Title: "t1"}}, "precs": []*vals.Rec{{Name: "n1", Title: "t1"}}, "ms": []map[string]any{{"name": "m1"}}}
	fmt.Println(rs(`<ul><li v-for="v in xs" data-m="a" :data-x="v">[{{ v }}|{{ v == 'a' ? 'Y' : 'N' }}]<b v-if="v == 'a'" :title="v">x</b></li><li v-else data-m="e">none</li></ul><p>{{ v }}|{{ v == 'a' ? 'Y':'N' }}|{{ zz }}|{{ zz == 'a' ? 'Y' : 'N' }}</p>`, m))
	fmt.Println(rs(`<i v-for="(i, v) in fs">{{ i }}:{{ v }}:{{ v == 1.5 ? 'Y':'N' }}</i><i v-for="(i, v) in bs" :data-x="v">{{ i }}:{{ v }}:{{ v == true ? 'Y':'N' }}:{{ v ? 'Y':'N' }}</i><i v-for="v in arr" :data-x="v">{{ v }}{{ v == 2 ? 'Y':'N' }}</i>`, m))
	fmt.Println(rs(`<i v-for="v in nilv">x</i><b v-else>E1</b><i v-for="v in ns">x</i> <!-- c --> <b v-else>E2</b><i v-for="v in nope">x</i>
  <b v-else>E3</b><i v-for="v in xs">x</i><b v-else>E4</b>`, m))
	fmt.Println(rs(`<i v-for="r in recs">{{ r.Name }}|{{ r.title }}|{{ r.Title }}|{{ r.Name == 'n1' ? 'Y':'N' }}|{{ r.title == 't1' ? 'Y':'N' }}</i><i v-for="r in precs">{{ r.Name }}|{{ r.title }}|{{ r.Title }}|{{ r.Name == 'n1' ? 'Y':'N' }}|{{ r.title == 't1' ? 'Y':'N' }}</i><i v-for="r in ms">{{ r.name }}{{ r.name == 'm1' ? 'Y':'N' }}</i>`, m))
	fmt.Println(rs(`<template v-for="(i, v) in xs"><i data-m="a">{{ i }}{{ v }}</i></template><b v-else>E</b><template v-for="(i, v) in xs" v-if="i == 1"><i>{{ i }}{{ v }}</i></template><i v-for="(i, v) in xs" v-if="v == 'zz'">{{ i }}{{ v }}</i><b v-else>E5</b>`, m))
	r := PR{Name: "RN", Label: "RL", Xs: []any{"a", "b"}, Ys: []string{"c"}}
	for _, d := range []any{r, &r} {
		fmt.Println(rs(`<i v-for="Name in Xs">{{ Name }}{{ Name == 'a' ? 'Y':'N' }}</i>{{ Name }}{{ Name == 'RN' ? 'Y':'N' }}<i v-for="label in ys">{{ label }}{{ label == 'c' ? 'Y':'N' }}</i>{{ label }}{{ label == 'RL' ? 'Y':'N' }}<i v-for="Label in Ys">{{ Label }}{{ Label == 'c' ? 'Y':'N' }}</i>{{ Label }}{{ Label == 'RL' ? 'Y':'N' }}`, d))
	}
	rr := vals.Rec{Name: "RN", Title: "RT", Count: 3, Kids: []vals.Rec{{Name: "k1", Title: "kt1", Kids: []vals.Rec{{Name: "g1"}}}}}
	fmt.Println(rs(`<i v-for="title in Kids">{{ title.Name }}|{{ title.Name == 'k1' ? 'Y' : 'N' }}</i>{{ title }}|{{ title == 'RT' ? 'Y':'N' }}<i v-for="count in Kids">{{ count.Name }}|{{ count.Name == 'k1' ? 'Y' : 'N' }}</i>{{ count }}|{{ count == 3 ? 'Y':'N' }}`, rr))
}
