// Package c08 decides C08: every variable is chosen by one fixed precedence of data sources
// (the rendered file's own front-matter > Fill/Assign, later call wins > data/*.yml > theme.yml),
// the same in every read position and for map / struct / pointer-to-struct data, and a template
// made with New/Load never changes what its parent or siblings see.
//
// Two families share this package:
//
//	A (fama_test.go)  bounded exhaustive enumeration: one key x presence pattern over six sources
//	                  x value type x Fill argument kind/addressing x read position.
//	B (famb_test.go)  rapid histories on a tree of templates rooted at NewFS(fsys).
//
// The expected value is always computed from the case description by a small reference model
// (first present source in the documented order); vuego is never asked what it "should" print.
package c08

import (
	"encoding/json"
	"fmt"
	"testing"

	"verif/internal/ev"
	"verif/internal/run"
)

const prop = "C08"

// replay decodes by shape, not only by kind: witnesses of fixed findings and regression replays
// come back under derived kind names ("fixed-<id>-<kind>", "regress-<file>").
func replay(kind string, raw json.RawMessage) error {
	var probe struct {
		Ops json.RawMessage `json:"ops"`
	}
	_ = json.Unmarshal(raw, &probe)
	if kind == "history" || probe.Ops != nil {
		return run.Decode(raw, checkB)
	}
	return run.Decode(raw, checkA)
}

func TestProp(t *testing.T) {
	rec := ev.New(prop)
	defer run.Finish(t, rec)
	run.Witnesses(rec, prop, replay)

	// ---- Family A: exhaustive enumeration, sharded by index
	shard, shards := run.Shard()
	n, ok := 0, true
	enumA(func(c CaseA, excluded string) bool {
		n++
		if n%shards != shard {
			return true
		}
		if excluded != "" {
			rec.Excluded(excluded) // input region of an open known finding: not evaluated
			return true
		}
		nt, cls := classifyA(c)
		if !run.Each(rec, "enum", c, nt, cls, checkA) {
			ok = false
			return false // the first failure ends the enumeration (one replay per kind anyway)
		}
		return true
	})
	if ok {
		rec.Exhaustive(fmt.Sprintf("family A (%s): 2^6 presence patterns x 5 value types (bool in both polarities) x 9 Fill kinds/addressings x 5 read positions x %s; plus zero-value, null-winner, function-named-key and data-file-name variants (%d cases including those excluded by open known findings)", run.Tier(), run.Pick("{missing sources + NewFS, decoy sources + New(WithFS)}", "decoy on/off x 2 constructors"), n))
	}

	// ---- Family B: histories on a template tree
	run.Rapid(t, rec, "history", genB(rec), classifyB, checkB)
}

func TestReplay(t *testing.T) { run.ReplayMain(t, prop, replay) }
