package c08

import (
	"bytes"
	"context"
	"fmt"
	"reflect"
	"sort"
	"strings"

	"github.com/titpetric/vuego"
	"pgregory.net/rapid"

	"verif/internal/ev"
	"verif/internal/fw"
	"verif/internal/hx"
	"verif/internal/kf"
)

// ---------------------------------------------------------------------------------------------
// Family B: histories on a tree of templates rooted at NewFS(fsys).
//
// Universe: three variables ("ka", "kb", "Kc"), three pages p0..p2.vuego whose front-matter
// defines a generated subset of them, theme.yml (defines all three, so a variable is never
// undefined inside an expression), data/a.yml and data/b.yml (generated subsets).
// Every value is a token naming its origin: Tka (theme), Aka, Bka, P1ka (front-matter of p1),
// F4ka (the Fill that is op 4), S7ka (the Assign that is op 7).
//
// Reference model (never calls vuego), per node and key:
//
//	own front-matter  >  call layer  >  data/b.yml > data/a.yml > theme.yml
//
// The call layer of a node starts as a copy of what its parent resolved for the key at the
// moment of New/Load ("Load returns a new allocation from a base template which may have data
// filled"; New "creates a copy"), and is then changed only by the node's own operations:
// Assign(k, v) sets k; Fill(x) sets every key of x and leaves every OTHER call-layer key
// "unknown" - Fill is documented as setting all variables, what happens to values assigned or
// inherited before it is not specified, so nothing is asserted for them until they are set again.
//
// Shared caller maps: a case has a small pool of map[string]any objects (values M0ka, M1kb, ...).
// A Fill of kind "shared" passes the SAME Go map object, possibly to several live nodes and
// several times. Each node still sees only its own Fill + Assign layer, and the caller's maps
// must stay deep-equal to a pristine copy after every operation. Cases are also generated
// without any config file (nocfg) and with pages that have no front-matter; a key that no source
// defines is then only checked for "shows none of the case's values".
//
// Fill kinds "nil" (untyped nil), "typed-nil-map" and "empty-map" pass no data: the Fill sets no
// call-layer key, so the config files show through for every key the node never had in its call
// layer, and later Assigns are that node's own.
//
// Zero values: a Fill (map, struct with a plain / omitempty-tagged / untagged field, pointer) or an
// Assign may give a key the zero value "". The key is still defined by that call, so the node
// shows "" for it and not a lower source's value.
//
// View: vuego.View(node, file, data) (README, docs/api.md: binds a template file to a data model;
// the returned template is rendered and discarded) makes a NEW child of the node: the file is
// loaded and the data filled into the child. Like Load it must leave the node it was made from,
// and every other node, exactly as they were.
//
// Storage: the same files may be spread over the layers of a vuego.OverlayFS (see stores); the
// engine must see their union.
//
// Failed operations: op "fail" runs something that fails or is cut short on a node - an inline
// template (RenderString / RenderByte / RenderReader) that binds the keys at its top level to
// STALE values and then fails late, a Load of a missing file followed by Assign and Render on the
// returned template, a render into a failing writer, a render with a cancelled context. It is
// not an operation of the model: afterwards every node, the target included, must show exactly
// what it showed before, and no STALE value anywhere.
//
// After every operation every live node is observed (Get of each key, and a render: Render for
// loaded nodes, RenderString for the others) and
//   - each known key must show the model's value in Get, {{ k }}, {{ k + '' }}, :data-x="k" and
//     in exactly the one v-if="k == '<token>'" comparison of that token;
//   - every node other than the one the operation was applied to must show exactly what it showed
//     before the operation (a New/Load/Fill/Assign on one template never changes another).
// ---------------------------------------------------------------------------------------------

var keysB = []string{"ka", "kb", "Kc"}

// undefB are names no source ever defines: they differ only in CASE from the keys and from the
// Go field names (Fa, Fb, Kc) of the structs passed to Fill / View. Variable names are exact, so
// every node must read them as undefined in every position and through Get.
var undefB = []string{"fa", "KA", "kc", "fB"}

const nPages = 3

// Op is one step of a history.
type Op struct {
	Op   string   `json:"op"`             // fail (an operation that fails or is aborted, see Fail; nothing may change) | new | load | view | fill | assign | render | get (view = vuego.View(node, page, data): a new child, Load + Fill in one call; takes the fields of load and fill)
	Node int      `json:"node"`           // live node the op is applied to (0 = root); taken modulo the live count
	Page int      `json:"page,omitempty"` // load: which page
	Fail string   `json:"fail,omitempty"` // op "fail": inline-string | inline-byte | inline-reader (a failing inline template that binds the keys at its top level to STALE values) | load-missing (Load of a missing file, Assign + Render on the result) | writer (render into a failing writer) | cancel (render with a cancelled context)
	Kind string   `json:"kind,omitempty"` // fill: map | struct | ptr | shared (a map object of the case's pool) | nil (untyped nil) | typed-nil-map (map[string]any(nil)) | empty-map
	Pool int      `json:"pool,omitempty"` // fill/shared: which pool map
	Keys []string `json:"keys,omitempty"` // fill: the keys the argument defines
	Key  string   `json:"key,omitempty"`  // assign / get
	Zero []string `json:"zero,omitempty"` // fill / assign: keys that get the zero value "" instead of a token
}

// CaseB is a history plus the static sources.
type CaseB struct {
	A     []string   `json:"a,omitempty"`     // keys defined in data/a.yml
	B     []string   `json:"b,omitempty"`     // keys defined in data/b.yml
	Pages [][]string `json:"pages"`           // keys defined in the front-matter of p0, p1, p2
	NoCfg bool       `json:"nocfg,omitempty"` // the filesystem has no theme.yml and no data/ directory
	Bad   []string   `json:"bad,omitempty"`   // non-mapping config files (see badFiles) next to the real ones
	Pad   int        `json:"pad,omitempty"`   // every front-matter block also carries a neighbour line of this many characters
	Store string     `json:"store,omitempty"` // "" one filesystem | an OverlayFS layout, see stores
	Ext   string     `json:"ext,omitempty"`   // names of the two data files, see dataNames (A = the earlier name, B = the later one)
	Pool  [][]string `json:"pool,omitempty"`  // keys of each shared caller map (values M<j><key>)
	Ops   []Op       `json:"ops"`
}

func (c CaseB) poolKeys(j int) []string {
	if len(c.Pool) == 0 {
		return nil
	}
	if j < 0 {
		j = -j
	}
	return c.Pool[j%len(c.Pool)]
}

func inList(l []string, s string) bool {
	for _, x := range l {
		if x == s {
			return true
		}
	}
	return false
}

func (c CaseB) pageKeys(i int) []string {
	if i < 0 || i >= len(c.Pages) {
		return nil
	}
	return c.Pages[i]
}

// candidates lists every token that can be the value of key k in this case.
func (c CaseB) candidates(k string) []string {
	out := []string{"T" + k, "A" + k, "B" + k}
	for i := 0; i < nPages; i++ {
		out = append(out, fmt.Sprintf("P%d%s", i, k))
	}
	for j, keys := range c.Pool {
		if inList(keys, k) {
			out = append(out, fmt.Sprintf("M%d%s", j, k))
		}
	}
	for i, op := range c.Ops {
		switch {
		case inList(op.Zero, k):
			// the value is "", not a token
		case (op.Op == "fill" || op.Op == "view") && op.Kind != "shared" && !emptyFill(op.Kind) && inList(op.Keys, k):
			out = append(out, fmt.Sprintf("F%d%s", i, k))
		case op.Op == "assign" && op.Key == k:
			out = append(out, fmt.Sprintf("S%d%s", i, k))
		}
	}
	return out
}

func (c CaseB) body() string {
	var b strings.Builder
	b.WriteString("<div>\n")
	for _, k := range keysB {
		ex := k + " + ''"
		if c.NoCfg {
			ex = k + " == nil ? '' : " + k + " + ''" // a key may be undefined here; arithmetic on nil is unspecified
		}
		fmt.Fprintf(&b, `<i data-m="i-%s">{{ %s }}</i><i data-m="e-%s">{{ %s }}</i><i data-m="a-%s" :data-x="%s">x</i>`, k, k, k, ex, k, k)
		for _, t := range c.candidates(k) {
			fmt.Fprintf(&b, `<b data-m="c-%s" data-t="%s" v-if="%s == '%s'">x</b>`, k, t, k, t)
		}
		b.WriteString("\n")
	}
	for _, n := range undefB {
		fmt.Fprintf(&b, `<i data-m="u-%s">{{ %s }}</i><i data-m="ua-%s" :data-x="%s">x</i><b data-m="uc-%s" v-if="%s">x</b>`+"\n", n, n, n, n, n, n)
	}
	b.WriteString("</div>\n")
	return b.String()
}

func (c CaseB) files() map[string]string {
	f := map[string]string{}
	var th, a, bb strings.Builder
	for _, k := range keysB {
		fmt.Fprintf(&th, "%s: T%s\n", k, k)
		if inList(c.A, k) {
			fmt.Fprintf(&a, "%s: A%s\n", k, k)
		}
		if inList(c.B, k) {
			fmt.Fprintf(&bb, "%s: B%s\n", k, k)
		}
	}
	if !c.NoCfg {
		f["theme.yml"] = th.String()
		daName, dbName, _ := dataNames(c.Ext)
		f[daName] = a.String() + "onlya: x\n"
		f[dbName] = bb.String() + "onlyb: x\n"
		for _, b := range c.Bad {
			if bf, ok := badFiles[b]; ok && b != "theme" {
				f[bf[0]] = bf[1]
			}
		}
	}
	body := c.body()
	for i := 0; i < nPages; i++ {
		fm := ""
		for _, k := range keysB {
			if inList(c.pageKeys(i), k) {
				fm += fmt.Sprintf("%s: P%d%s\n", k, i, k)
			}
		}
		if fm != "" {
			if c.Pad > 0 && c.Pad <= 200000 {
				fm = "zpad: " + strings.Repeat("p", c.Pad) + "\n" + fm
			}
			fm = "---\n" + fm + "---\n"
		}
		f[fmt.Sprintf("p%d.vuego", i)] = fm + body
	}
	return f
}

// structOf builds a struct value with exactly the fields for keys: "ka" is a field addressed
// by its JSON tag, "kb" by a JSON tag with an option, "Kc" by its Go field name.
func structOf(vals map[string]string) reflect.Value {
	var fields []reflect.StructField
	var names []string
	for _, k := range keysB {
		if _, ok := vals[k]; !ok {
			continue
		}
		switch k {
		case "ka":
			fields = append(fields, reflect.StructField{Name: "Fa", Type: reflect.TypeOf(""), Tag: `json:"ka"`})
		case "kb":
			fields = append(fields, reflect.StructField{Name: "Fb", Type: reflect.TypeOf(""), Tag: `json:"kb,omitempty"`})
		case "Kc":
			fields = append(fields, reflect.StructField{Name: "Kc", Type: reflect.TypeOf("")})
		}
		names = append(names, k)
	}
	pv := reflect.New(reflect.StructOf(fields))
	for i, k := range names {
		pv.Elem().Field(i).SetString(vals[k])
	}
	return pv
}

// emptyFill reports whether the Fill kind passes no data at all.
func emptyFill(kind string) bool {
	return kind == "nil" || kind == "typed-nil-map" || kind == "empty-map"
}

func fillValue(kind string, vals map[string]string) any {
	switch kind {
	case "nil":
		return nil // untyped nil
	case "typed-nil-map":
		return map[string]any(nil)
	case "empty-map":
		return map[string]any{}
	case "struct":
		return structOf(vals).Elem().Interface()
	case "ptr":
		return structOf(vals).Interface()
	}
	m := map[string]any{}
	for k, v := range vals {
		m[k] = v
	}
	return m
}

// ---- model

type mval struct {
	known bool
	v     string
}

type mnode struct {
	loaded bool
	fm     map[string]string
	call   map[string]mval
}

type modelB struct {
	cfg   map[string]string
	nodes []*mnode
}

const (
	stAbsent  = iota // no source defines the key
	stKnown          // the model knows the value
	stUnknown        // unspecified (set before a later Fill that does not mention it)
)

func (m *modelB) resolve(n *mnode, k string) (string, int) {
	if v, ok := n.fm[k]; ok {
		return v, stKnown
	}
	if c, ok := n.call[k]; ok {
		if c.known {
			return c.v, stKnown
		}
		return "", stUnknown
	}
	if v, ok := m.cfg[k]; ok {
		return v, stKnown
	}
	return "", stAbsent
}

// child copies what the parent resolves from its front-matter and call layer.
func (m *modelB) child(p *mnode) *mnode {
	n := &mnode{fm: map[string]string{}, call: map[string]mval{}}
	for _, k := range keysB {
		if v, ok := p.fm[k]; ok {
			n.call[k] = mval{true, v}
		} else if c, ok := p.call[k]; ok {
			n.call[k] = c
		}
	}
	return n
}

// ---- observation

type obs struct {
	Get   map[string]string
	Err   string
	Marks map[string]string
}

func (o obs) equal(p obs) bool {
	return o.Err == p.Err && reflect.DeepEqual(o.Get, p.Get) && reflect.DeepEqual(o.Marks, p.Marks)
}

func (o obs) String() string {
	var parts []string
	for _, k := range keysB {
		parts = append(parts, fmt.Sprintf("%s: Get=%q {{}}=%q expr=%q attr=%q v-if-hits=%q", k, o.Get[k], o.Marks["i-"+k], o.Marks["e-"+k], o.Marks["a-"+k], o.Marks["c-"+k]))
	}
	if o.Err != "" {
		parts = append(parts, "render error: "+o.Err)
	}
	return strings.Join(parts, "; ")
}

func observe(t vuego.Template, loaded bool, body string) obs {
	o := obs{Get: map[string]string{}, Marks: map[string]string{}}
	for _, k := range keysB {
		o.Get[k] = t.Get(k)
	}
	for _, n := range undefB {
		o.Get[n] = t.Get(n)
	}
	var buf bytes.Buffer
	var err error
	if loaded {
		err = t.Render(context.Background(), &buf)
	} else {
		err = t.RenderString(context.Background(), &buf, body)
	}
	if err != nil {
		o.Err = err.Error()
		return o
	}
	nodes, err := hx.Frag(buf.String(), hx.Collapse)
	if err != nil {
		o.Err = "unparsable output: " + err.Error()
		return o
	}
	for _, m := range hx.Markers(nodes) {
		switch {
		case strings.HasPrefix(m.ID, "a-"), strings.HasPrefix(m.ID, "ua-"):
			o.Marks[m.ID] = m.Attrs["data-x"]
		case strings.HasPrefix(m.ID, "uc-"):
			o.Marks[m.ID] = "rendered"
		case strings.HasPrefix(m.ID, "c-"):
			if o.Marks[m.ID] != "" {
				o.Marks[m.ID] += ","
			}
			o.Marks[m.ID] += m.Attrs["data-t"]
		default:
			o.Marks[m.ID] = m.Text
		}
	}
	return o
}

func describeOp(i int, op Op, node int) string {
	switch op.Op {
	case "new":
		return fmt.Sprintf("op %d: node%d.New()", i, node)
	case "load":
		return fmt.Sprintf("op %d: node%d.Load(p%d.vuego)", i, node, op.Page)
	case "view":
		if op.Kind == "shared" {
			return fmt.Sprintf("op %d: View(node%d, p%d.vuego, shared map #%d)", i, node, op.Page, op.Pool)
		}
		if emptyFill(op.Kind) {
			return fmt.Sprintf("op %d: View(node%d, p%d.vuego, %s)", i, node, op.Page, op.Kind)
		}
		return fmt.Sprintf("op %d: View(node%d, p%d.vuego, %s with keys %v)", i, node, op.Page, op.Kind, op.Keys)
	case "fill":
		if op.Kind == "shared" {
			return fmt.Sprintf("op %d: node%d.Fill(shared map #%d)", i, node, op.Pool)
		}
		if emptyFill(op.Kind) {
			return fmt.Sprintf("op %d: node%d.Fill(%s)", i, node, op.Kind)
		}
		return fmt.Sprintf("op %d: node%d.Fill(%s with keys %v)", i, node, op.Kind, op.Keys)
	case "assign":
		return fmt.Sprintf("op %d: node%d.Assign(%q)", i, node, op.Key)
	case "fail":
		return fmt.Sprintf("op %d: node%d failed operation (%s)", i, node, op.Fail)
	case "render":
		return fmt.Sprintf("op %d: node%d render", i, node)
	}
	return fmt.Sprintf("op %d: node%d.Get(%q)", i, node, op.Key)
}

func checkB(c CaseB) error {
	if len(c.Ops) > 64 {
		return fmt.Errorf("malformed case: too many ops")
	}
	if _, _, err := dataNames(c.Ext); err != nil {
		return err
	}
	body := c.body()
	fsys, cleanup, err := buildFS(c.files(), c.Store, keysB)
	if err != nil {
		return err
	}
	defer cleanup()
	m := &modelB{cfg: map[string]string{}}
	for _, k := range keysB {
		if c.NoCfg {
			break
		}
		m.cfg[k] = "T" + k
		if inList(c.A, k) {
			m.cfg[k] = "A" + k
		}
		if inList(c.B, k) {
			m.cfg[k] = "B" + k // data/ files load in alphabetical order of their names, later files override
		}
	}
	// the shared caller maps and their pristine copies
	pool := make([]map[string]any, len(c.Pool))
	pristine := make([]map[string]any, len(c.Pool))
	for j, keys := range c.Pool {
		pool[j], pristine[j] = map[string]any{}, map[string]any{}
		for _, k := range keys {
			if inList(keysB, k) {
				pool[j][k] = fmt.Sprintf("M%d%s", j, k)
				pristine[j][k] = fmt.Sprintf("M%d%s", j, k)
			}
		}
	}
	cands := map[string]map[string]bool{}
	for _, k := range keysB {
		cands[k] = map[string]bool{}
		for _, tok := range c.candidates(k) {
			cands[k][tok] = true
		}
	}
	live := []vuego.Template{vuego.NewFS(fsys)}
	m.nodes = []*mnode{{fm: map[string]string{}, call: map[string]mval{}}}
	var history []string

	// against checks every live node against the model.
	against := func(all []obs, when string) error {
		for ni, o := range all {
			mn := m.nodes[ni]
			if o.Err != "" {
				return fmt.Errorf("%s: rendering node%d failed: %s\nhistory: %s", when, ni, o.Err, strings.Join(history, " | "))
			}
			for _, n := range undefB {
				for _, p := range [][2]string{{"Get", o.Get[n]}, {"{{ " + n + " }}", o.Marks["u-"+n]}, {":data-x=" + n, o.Marks["ua-"+n]}} {
					for _, k := range keysB {
						if cands[k][p[1]] {
							return fmt.Errorf("%s: node%d: %s gives %q, but no source defines %q (it only differs in case from a key / struct field name)\nhistory: %s", when, ni, p[0], p[1], n, strings.Join(history, " | "))
						}
					}
				}
				if o.Marks["uc-"+n] != "" {
					return fmt.Errorf("%s: node%d: v-if=%q rendered, but no source defines that name\nhistory: %s", when, ni, n, strings.Join(history, " | "))
				}
			}
			for _, k := range keysB {
				want, st := m.resolve(mn, k)
				if st == stUnknown {
					continue
				}
				if st == stAbsent {
					// defined by no source: what an undefined variable prints is not asserted, but it
					// must not show a value that belongs to some source or some other node
					for _, got := range []string{o.Get[k], o.Marks["i-"+k], o.Marks["e-"+k], o.Marks["a-"+k]} {
						if cands[k][got] {
							return fmt.Errorf("%s: node%d: %q shows %q although no source defines it for this node (node shows: %s)\nhistory: %s", when, ni, k, got, o, strings.Join(history, " | "))
						}
					}
					if o.Marks["c-"+k] != "" {
						return fmt.Errorf("%s: node%d: v-if %s == %q holds although no source defines %s for this node\nhistory: %s", when, ni, k, o.Marks["c-"+k], k, strings.Join(history, " | "))
					}
					continue
				}
				for _, p := range [][2]string{{"Get", o.Get[k]}, {"{{ " + k + " }}", o.Marks["i-"+k]}, {"{{ " + k + " + '' }}", o.Marks["e-"+k]}, {":data-x=" + k, o.Marks["a-"+k]}, {"the v-if comparisons that hold for " + k, o.Marks["c-"+k]}} {
					if p[1] != want {
						return fmt.Errorf("%s: node%d: %s gives %q, the precedence rule gives %q (node shows: %s)\nhistory: %s", when, ni, p[0], p[1], want, o, strings.Join(history, " | "))
					}
				}
			}
		}
		return nil
	}
	snapshot := func() []obs {
		out := make([]obs, len(live))
		for i, t := range live {
			out[i] = observe(t, m.nodes[i].loaded, body)
		}
		return out
	}

	// payload builds the data of a fill / view op and the values it gives (for the model)
	payload := func(i int, op Op) (any, map[string]string, error) {
		vs := map[string]string{}
		if op.Kind == "shared" {
			if len(pool) == 0 {
				return nil, nil, fmt.Errorf("malformed case: shared fill without a pool")
			}
			j := op.Pool
			if j < 0 {
				j = -j
			}
			j %= len(pool)
			for k := range pristine[j] {
				vs[k] = fmt.Sprintf("M%d%s", j, k)
			}
			return pool[j], vs, nil // the same map object every time
		}
		for _, k := range op.Keys {
			if inList(keysB, k) && !emptyFill(op.Kind) {
				vs[k] = fmt.Sprintf("F%d%s", i, k)
				if inList(op.Zero, k) {
					vs[k] = "" // the zero value: the key is still defined by this Fill
				}
			}
		}
		return fillValue(op.Kind, vs), vs, nil
	}

	prev := snapshot()
	if err := against(prev, "before any operation"); err != nil {
		return err
	}
	for i, op := range c.Ops {
		ni := op.Node
		if ni < 0 {
			ni = -ni
		}
		ni %= len(live)
		t, mn := live[ni], m.nodes[ni]
		history = append(history, describeOp(i, op, ni))
		created := false
		switch op.Op {
		case "new":
			live = append(live, t.New())
			m.nodes = append(m.nodes, m.child(mn))
			created = true
		case "load":
			pg := op.Page
			if pg < 0 || pg >= nPages {
				pg = 0
			}
			live = append(live, t.Load(fmt.Sprintf("p%d.vuego", pg)))
			ch := m.child(mn)
			ch.loaded = true
			for _, k := range c.pageKeys(pg) {
				ch.fm[k] = fmt.Sprintf("P%d%s", pg, k)
			}
			m.nodes = append(m.nodes, ch)
			created = true
		case "view":
			pg := op.Page
			if pg < 0 || pg >= nPages {
				pg = 0
			}
			arg, vs, err := payload(i, op)
			if err != nil {
				return err
			}
			live = append(live, vuego.View(t, fmt.Sprintf("p%d.vuego", pg), arg))
			ch := m.child(mn)
			ch.loaded = true
			for _, k := range c.pageKeys(pg) {
				ch.fm[k] = fmt.Sprintf("P%d%s", pg, k)
			}
			for k := range ch.call {
				ch.call[k] = mval{known: false}
			}
			for k, v := range vs {
				ch.call[k] = mval{true, v}
			}
			m.nodes = append(m.nodes, ch)
			created = true
		case "fill":
			arg, vs, err := payload(i, op)
			if err != nil {
				return err
			}
			t.Fill(arg)
			for k := range mn.call {
				mn.call[k] = mval{known: false}
			}
			for k, v := range vs {
				mn.call[k] = mval{true, v}
			}
		case "assign":
			if !inList(keysB, op.Key) {
				return fmt.Errorf("malformed case: assign of unknown key %q", op.Key)
			}
			v := fmt.Sprintf("S%d%s", i, op.Key)
			if inList(op.Zero, op.Key) {
				v = ""
			}
			t.Assign(op.Key, v)
			mn.call[op.Key] = mval{true, v}
		case "fail":
			var sink bytes.Buffer
			// the node's own markup, wrapped in a <template> that binds the keys, failing at the end
			late := `<p>lit {{ kb }} {{ kb | nosuchfilter }}</p>`
			if i%2 == 1 {
				late = `<p>lit {{ kb }}</p><template include="zmissing.vuego"></template>`
			}
			src := `<template ka="STALEka" :kb="'STALEkb'" kc="STALEkc" fa="STALEfa">` + body + late + `</template>`
			var ferr error
			switch op.Fail {
			case "inline-string":
				ferr = t.RenderString(context.Background(), &sink, src)
			case "inline-byte":
				ferr = t.RenderByte(context.Background(), &sink, []byte(src))
			case "inline-reader":
				ferr = t.RenderReader(context.Background(), &sink, strings.NewReader(src))
			case "load-missing":
				ch := t.Load("zmissing.vuego")
				ch.Assign("ka", "STALEka").Assign("kb", "STALEkb")
				ferr = ch.Render(context.Background(), &sink)
			case "writer":
				w := &fw.FailAt{K: 7}
				if mn.loaded {
					ferr = t.Render(context.Background(), w)
				} else {
					ferr = t.RenderString(context.Background(), w, body)
				}
			case "cancel":
				cctx, cancel := context.WithCancel(context.Background())
				cancel()
				if mn.loaded {
					ferr = t.Render(cctx, &sink)
				} else {
					ferr = t.RenderString(cctx, &sink, body)
				}
			default:
				return fmt.Errorf("malformed case: fail kind %q", op.Fail)
			}
			if ferr == nil {
				return fmt.Errorf("after %s: the operation was expected to fail, it returned nil (output %q)", history[len(history)-1], sink.String())
			}
		case "render":
			var sink bytes.Buffer
			if mn.loaded {
				_ = t.Render(context.Background(), &sink)
			} else {
				_ = t.RenderString(context.Background(), &sink, body)
			}
		case "get":
			_ = t.Get(op.Key)
		default:
			return fmt.Errorf("malformed case: op %q", op.Op)
		}
		now := snapshot()
		when := "after " + history[len(history)-1]
		for j, o := range now {
			if strings.Contains(o.String(), "STALE") {
				return fmt.Errorf("%s: node%d shows a value that only a FAILED operation bound: %s\nhistory: %s", when, j, o, strings.Join(history, " | "))
			}
		}
		// the caller's maps handed to Fill belong to the caller
		for j := range pool {
			if !reflect.DeepEqual(pool[j], pristine[j]) {
				return fmt.Errorf("%s: the caller's map #%d that was passed to Fill has been modified: now %v, was %v\nhistory: %s", when, j, pool[j], pristine[j], strings.Join(history, " | "))
			}
		}
		// isolation: nobody but the target (and the node just created) may look different
		for j := range prev {
			if j == ni && (op.Op == "fill" || op.Op == "assign") {
				continue
			}
			if !now[j].equal(prev[j]) {
				return fmt.Errorf("%s: node%d, which the operation was not applied to, changed\n  before: %s\n  after:  %s\nhistory: %s", when, j, prev[j], now[j], strings.Join(history, " | "))
			}
		}
		_ = created
		if err := against(now, when); err != nil {
			return err
		}
		prev = now
	}
	return nil
}

// ---- generator

func genSubset(t *rapid.T, label string) []string {
	var out []string
	for _, k := range keysB {
		if rapid.Bool().Draw(t, label+k) {
			out = append(out, k)
		}
	}
	return out
}

// genB returns the history generator. With the known finding "Get returns the Assign value for
// a front-matter key" open, an Assign on a loaded node never targets a key of that page's
// front-matter (the key is drawn from the remaining ones; if none remains the op becomes a Get).
func genB(rec *ev.Rec) func(*rapid.T) CaseB {
	avoidFM := kf.Load().Open(findGetAssign)
	return func(t *rapid.T) CaseB { return genHistory(t, rec, avoidFM) }
}

func genHistory(t *rapid.T, rec *ev.Rec, avoidFM bool) CaseB {
	c := CaseB{A: genSubset(t, "a-"), B: genSubset(t, "b-")}
	c.NoCfg = rapid.Bool().Draw(t, "nocfg")
	c.Ext = rapid.SampledFrom(append([]string{""}, exts...)).Draw(t, "data-file-names")
	c.Store = rapid.SampledFrom(append([]string{"", ""}, stores...)).Draw(t, "store")
	c.Pad = rapid.SampledFrom([]int{0, 0, 0, 100, 4000, 5000, 9000}).Draw(t, "front-matter-pad")
	if c.Ext == "" && !c.NoCfg {
		for _, b := range []string{"before-list", "between-scalar", "after-broken", "before-dupkeys"} {
			if rapid.IntRange(0, 3).Draw(t, "bad-"+b) == 0 {
				c.Bad = append(c.Bad, b)
			}
		}
	}
	if c.NoCfg {
		c.A, c.B, c.Ext = nil, nil, ""
	}
	plain := rapid.Bool().Draw(t, "plain-pages") // no page has front-matter
	for i := 0; i < nPages; i++ {
		keys := genSubset(t, fmt.Sprintf("p%d-", i))
		if plain {
			keys = nil
		}
		c.Pages = append(c.Pages, keys)
	}
	for j := 0; j < 2; j++ {
		keys := genSubset(t, fmt.Sprintf("pool%d-", j))
		if len(keys) == 0 {
			keys = []string{keysB[j]}
		}
		c.Pool = append(c.Pool, keys)
	}
	// half of the histories concentrate on sharing: every Fill passes a shared map (mostly #0)
	// and Fill/Assign are more frequent, so that one map object ends up in several live nodes
	// and Assigns happen while it is shared
	mode := rapid.SampledFrom([]string{"mixed", "mixed", "sharing", "sharing", "nofill", "nofill"}).Draw(t, "mode")
	sharing := mode == "sharing"
	opKinds := []string{"load", "load", "view", "view", "new", "fill", "fill", "assign", "assign", "assign", "render", "get", "fail", "fail"}
	if sharing {
		opKinds = []string{"load", "view", "new", "fill", "fill", "fill", "fill", "assign", "assign", "assign", "render", "get", "fail"}
	}
	n := rapid.IntRange(1, 12).Draw(t, "nops")
	liveN := 1
	pageOf := []int{-1} // page of each live node, -1 = not loaded
	if sharing && rapid.IntRange(0, 3).Draw(t, "motif") > 0 {
		// constructed opening: two siblings made from the root, both filled with the SAME map
		// object; the random remainder (Assigns, Fills, renders on any node) follows
		for j := 0; j < 2; j++ {
			if rapid.Bool().Draw(t, "sibling-loaded") {
				pg := rapid.IntRange(0, nPages-1).Draw(t, "page")
				c.Ops = append(c.Ops, Op{Op: "load", Node: 0, Page: pg})
				pageOf = append(pageOf, pg)
			} else {
				c.Ops = append(c.Ops, Op{Op: "new", Node: 0})
				pageOf = append(pageOf, -1)
			}
			liveN++
		}
		c.Ops = append(c.Ops, Op{Op: "fill", Node: 1, Kind: "shared", Pool: 0}, Op{Op: "fill", Node: 2, Kind: "shared", Pool: 0})
		if n > 8 {
			n = 8
		}
	}
	if mode == "nofill" && rapid.IntRange(0, 3).Draw(t, "motif") > 0 {
		// constructed opening: one template gets a Fill that passes no data (nil / typed nil map /
		// empty map) and then an Assign; afterwards a sibling made from the untouched root is
		// filled with data that lacks the assigned key; the random remainder follows
		a := Op{Op: "new", Node: 0}
		pageOf = append(pageOf, -1)
		if !avoidFM && rapid.Bool().Draw(t, "a-loaded") {
			a = Op{Op: "load", Node: 0, Page: rapid.IntRange(0, nPages-1).Draw(t, "page")}
			pageOf[len(pageOf)-1] = a.Page
		}
		target := 1
		if rapid.IntRange(0, 3).Draw(t, "on-root") == 0 {
			target = 0 // the base template itself is re-filled with nothing
		}
		key := rapid.SampledFrom(keysB).Draw(t, "key")
		c.Ops = append(c.Ops, a,
			Op{Op: "fill", Node: target, Kind: rapid.SampledFrom([]string{"nil", "nil", "typed-nil-map", "empty-map"}).Draw(t, "kind")},
			Op{Op: "assign", Node: target, Key: key})
		b := Op{Op: "new", Node: 0}
		pageOf = append(pageOf, -1)
		if rapid.Bool().Draw(t, "b-loaded") {
			b = Op{Op: "load", Node: 0, Page: rapid.IntRange(0, nPages-1).Draw(t, "page")}
			pageOf[len(pageOf)-1] = b.Page
		}
		liveN += 2
		var other []string
		for _, k := range keysB {
			if k != key && rapid.Bool().Draw(t, "other-"+k) {
				other = append(other, k)
			}
		}
		c.Ops = append(c.Ops, b, Op{Op: "fill", Node: 2, Kind: rapid.SampledFrom([]string{"map", "struct", "ptr", "empty-map", "nil"}).Draw(t, "kind"), Keys: other})
		if n > 7 {
			n = 7
		}
	}
	for i := 0; i < n; i++ {
		kind := rapid.SampledFrom(opKinds).Draw(t, "op")
		op := Op{Op: kind, Node: rapid.IntRange(0, liveN-1).Draw(t, "node")}
		switch kind {
		case "new":
			liveN++
			pageOf = append(pageOf, -1)
		case "load":
			op.Page = rapid.IntRange(0, nPages-1).Draw(t, "page")
			liveN++
			pageOf = append(pageOf, op.Page)
		case "fill", "view":
			if kind == "view" {
				op.Page = rapid.IntRange(0, nPages-1).Draw(t, "page")
				liveN++
				pageOf = append(pageOf, op.Page)
			}
			if sharing {
				op.Kind = "shared"
			} else {
				kinds := []string{"shared", "map", "struct", "struct", "ptr", "ptr", "nil", "typed-nil-map", "empty-map"}
				if mode == "nofill" {
					kinds = []string{"nil", "nil", "nil", "typed-nil-map", "empty-map", "map", "struct", "shared"}
				}
				op.Kind = rapid.SampledFrom(kinds).Draw(t, "kind")
			}
			if op.Kind == "shared" {
				op.Pool = rapid.SampledFrom([]int{0, 0, 0, 1}).Draw(t, "pool")
			} else if !emptyFill(op.Kind) {
				op.Keys = genSubset(t, "fill-")
				for _, k := range op.Keys {
					if rapid.IntRange(0, 2).Draw(t, "zero-"+k) == 0 {
						op.Zero = append(op.Zero, k)
					}
				}
			}
		case "fail":
			op.Fail = rapid.SampledFrom([]string{"inline-string", "inline-string", "inline-byte", "inline-reader", "load-missing", "writer", "cancel"}).Draw(t, "fail")
		case "get":
			op.Key = rapid.SampledFrom(keysB).Draw(t, "key")
		case "assign":
			pool := keysB
			if pg := pageOf[op.Node]; avoidFM && pg >= 0 && len(c.Pages[pg]) > 0 {
				pool = nil
				for _, k := range keysB {
					if !inList(c.Pages[pg], k) {
						pool = append(pool, k)
					}
				}
				rec.Excluded(findGetAssign)
			}
			if len(pool) == 0 {
				op.Op = "get"
				pool = keysB
			}
			op.Key = rapid.SampledFrom(pool).Draw(t, "key")
			if op.Op == "assign" && rapid.IntRange(0, 5).Draw(t, "zero") == 0 {
				op.Zero = []string{op.Key}
			}
		}
		c.Ops = append(c.Ops, op)
	}
	return c
}

func classifyB(c CaseB) (bool, []string) {
	cls := map[string]bool{"B": true}
	type info struct {
		parent  int
		depth   int
		mutated bool // a Fill/Assign happened on it or an ancestor before now
		loaded  bool
		page    int
		shared  int  // index+1 of the shared map it was last filled with (0 = none)
		nofill  bool // its last Fill passed no data (nil / typed nil map / empty map)
	}
	tainted := map[string]int{} // key -> node that assigned it after a Fill without data
	sawFail := false
	nodes := []info{{parent: -1}}
	nt := false
	if c.NoCfg {
		cls["no-config-files"] = true
	} else {
		cls["with-config-files"] = true
		if len(c.Bad) > 0 {
			cls["with-non-mapping-config-files"] = true
		}
		if c.Store != "" {
			cls["store="+c.Store] = true
		} else {
			cls["store=single-fs"] = true
		}
		if c.Ext != "" {
			cls["data-files="+c.Ext] = true
		} else {
			cls["data-files=yml+yml"] = true
		}
		for _, k := range c.A {
			if inList(c.B, k) && (c.Ext == "yaml+yml" || c.Ext == "yml+yaml" || c.Ext == "samestem") {
				cls["both-data-files-define-a-key,extensions-differ"] = true
			}
		}
	}
	if c.Pad > 4096 {
		cls["front-matter-line>4096"] = true
	}
	plain := true
	for _, p := range c.Pages {
		if len(p) > 0 {
			plain = false
		}
	}
	if plain {
		cls["pages-without-front-matter"] = true
	}
	// holders reports whether another live node currently holds the same shared map (and whether
	// one of them has no front-matter: not loaded, or a page without front-matter)
	holders := func(ni int) (bool, bool) {
		if nodes[ni].shared == 0 {
			return false, false
		}
		noFM := func(n info) bool { return !n.loaded || len(c.pageKeys(n.page)) == 0 }
		for j, n := range nodes {
			if j != ni && n.shared == nodes[ni].shared {
				return true, noFM(n) && noFM(nodes[ni])
			}
		}
		return false, false
	}
	for _, op := range c.Ops {
		ni := op.Node % len(nodes)
		switch op.Op {
		case "new", "load", "view":
			if sawFail {
				cls["new/load/view-after-a-failed-op"] = true
				nt = true
			}
			ch := info{parent: ni, depth: nodes[ni].depth + 1, mutated: nodes[ni].mutated, loaded: op.Op != "new", page: op.Page}
			if op.Op == "view" {
				cls["view"] = true
				cls["view-data="+op.Kind] = true
				ch.mutated = true
				if len(nodes) >= 2 {
					cls["view-with-siblings-live"] = true
				}
				nt = true
				if op.Kind == "shared" {
					ch.shared = op.Pool%max(len(c.Pool), 1) + 1
				}
				ch.nofill = emptyFill(op.Kind)
			}
			if nodes[ni].mutated {
				cls["new/load-after-fill/assign"] = true
				nt = true
			}
			if ch.depth >= 2 {
				cls["depth>=2"] = true
			}
			if nodes[ni].loaded {
				cls["child-of-loaded-page"] = true
			}
			nodes = append(nodes, ch)
		case "fail":
			cls["failed-op="+op.Fail] = true
			if len(nodes) >= 2 {
				cls["failed-op-with-other-live-nodes"] = true
			}
			sawFail = true
		case "fill", "assign":
			nodes[ni].mutated = true
			if len(nodes) >= 2 {
				cls["mutation-with-other-live-nodes"] = true
				nt = true
			}
			if ni != len(nodes)-1 || nodes[ni].parent >= 0 {
				for j := range nodes {
					if j != ni && nodes[j].parent == nodes[ni].parent && nodes[ni].parent >= 0 {
						cls["mutation-with-sibling"] = true
					}
				}
			}
			if nodes[ni].parent >= 0 {
				cls["mutation-on-child"] = true
			}
			if op.Op == "fill" {
				cls["fill="+op.Kind] = true
				nodes[ni].nofill = emptyFill(op.Kind)
				if emptyFill(op.Kind) {
					if !nodes[ni].loaded || len(c.pageKeys(nodes[ni].page)) == 0 {
						cls["no-data-fill-on-node-without-front-matter"] = true
					} else {
						cls["no-data-fill-on-node-with-front-matter"] = true
					}
				}
				for _, k := range op.Zero {
					if inList(op.Keys, k) && !emptyFill(op.Kind) && op.Kind != "shared" {
						cls["fill-gives-zero-value"] = true
						if (op.Kind == "struct" || op.Kind == "ptr") && !c.NoCfg {
							cls["struct-fill-gives-zero-value-for-a-config-key"] = true
							if k == "kb" {
								cls["struct-fill-gives-zero-value-through-omitempty-field"] = true
							}
						}
					}
				}
				keys := op.Keys
				if op.Kind == "shared" {
					keys = c.poolKeys(op.Pool)
				} else if emptyFill(op.Kind) {
					keys = nil
				}
				for k, by := range tainted {
					if by != ni && !inList(keys, k) {
						cls["fill-lacking-k-on-another-node-after-(no-data-fill+assign-k)"] = true
						if !c.NoCfg {
							cls["that-region-with-config-files-present"] = true
						}
					}
				}
				if op.Kind == "shared" {
					nodes[ni].shared = op.Pool%max(len(c.Pool), 1) + 1
					if also, _ := holders(ni); also {
						cls["same-map-filled-into->=2-live-nodes"] = true
					}
				} else {
					nodes[ni].shared = 0
					if len(op.Keys) == 0 {
						cls["fill-empty"] = true
					}
				}
			}
			if op.Op == "assign" {
				if inList(op.Zero, op.Key) {
					cls["assign-gives-zero-value"] = true
				}
				if nodes[ni].nofill {
					cls["assign-after-no-data-fill"] = true
					tainted[op.Key] = ni
				}
				if nodes[ni].shared != 0 {
					cls["assign-after-shared-fill"] = true
				}
				if also, bare := holders(ni); also {
					cls["assign-while-another-node-holds-the-same-map"] = true
					if bare && c.NoCfg {
						cls["assign-while-sharing,no-config,no-front-matter"] = true
					}
				}
			}
			if nodes[ni].loaded {
				keys := op.Keys
				if op.Op == "assign" {
					keys = []string{op.Key}
				}
				for _, k := range keys {
					if inList(c.pageKeys(nodes[ni].page), k) {
						cls[op.Op+"-of-front-matter-key"] = true
					}
				}
			}
		}
	}
	cls[fmt.Sprintf("nodes=%d", min(len(nodes), 6))] = true
	var out []string
	for k := range cls {
		out = append(out, k)
	}
	sort.Strings(out)
	return nt, out
}
