package c08

import (
	"bytes"
	"context"
	"fmt"
	"io"
	"reflect"
	"sort"
	"strings"

	"github.com/titpetric/vuego"

	"verif/internal/hx"
	"verif/internal/kf"
	"verif/internal/run"
	"verif/internal/vals"
)

// ---------------------------------------------------------------------------------------------
// Family A: one key, six sources.
//
// Sources, highest precedence first (statement + docs/data-loading.md "The precedence order"):
//
//	fm      front-matter of the rendered file page.vuego
//	assign  tpl.Assign(key, v), called AFTER Fill (a later call overrides an earlier one)
//	fill    tpl.Fill(map / struct / *struct)
//	db      data/b.yml   (data/ files are loaded in alphabetical order, later files override)
//	da      data/a.yml
//	theme   theme.yml    (loaded first, data/ overrides it)
//
// The call sequence is always NewFS(fsys).Load("page.vuego")[.Fill(x)][.Assign(k, v)], then
// either Render or Get. An Assign made before a later Fill is deliberately not part of this
// family (Fill is documented as "sets all variables", what it does to earlier Assigns of other
// keys is unspecified; family B models that as "unknown").
// ---------------------------------------------------------------------------------------------

var order = []string{"fm", "assign", "fill", "db", "da", "theme"}

var (
	vtypes    = []string{"string", "int", "bool", "list", "map"}
	ctors     = []string{"newfs", "withfs"} // vuego.NewFS(fsys) | vuego.New(vuego.WithFS(fsys))
	positions = []string{"interp", "expr", "vif", "attr", "get"}
	// Fill argument kind / how the key addresses it.
	//   map/key     map[string]any{"kv": v}                         key "kv"
	//   struct/name struct{ Kv T }            (no tag)               key "Kv"  (Go field name)
	//   struct/tag  struct{ Fv T `json:"kv"` }                       key "kv"  (JSON tag)
	//   struct/field same struct, addressed by its Go field name     key "Fv"
	//   ptr/...     pointer to the same structs
	//   struct/tagopt struct{ Fv T `json:"kv,omitempty"`; Hidden string `json:"-"`; Plain string;
	//               Extra string `json:"extra,omitempty"` }          key "kv"  (tag with an option)
	// Tag options are not part of the name: docs and code strip them. In particular a field keeps
	// defining its key when it holds the zero value (vuego documents no "omitempty" semantics; the
	// same data as a map defines the key, and struct data is documented to behave like it).
	fillModes = [][2]string{{"map", "key"}, {"struct", "name"}, {"struct", "tag"}, {"struct", "tagopt"}, {"struct", "field"}, {"ptr", "name"}, {"ptr", "tag"}, {"ptr", "tagopt"}, {"ptr", "field"}}
)

// CaseA is one family-A case: pure data.
type CaseA struct {
	Have  []string          `json:"have"`            // sources that define the key (subset of order)
	Vals  map[string]vals.V `json:"vals"`            // the value each of them gives it
	VType string            `json:"vtype"`           // string | int | bool | list | map
	Ctor  string            `json:"ctor,omitempty"`  // "" / newfs = vuego.NewFS(fsys); withfs = vuego.New(vuego.WithFS(fsys))
	Fill  string            `json:"fill"`            // map | struct | ptr | mapss (map[string]string) | mapint (map[string]int) | namedmap (a named type over map[string]any) | embed / embedptr (struct embedding a struct by value / by pointer, the key is a PROMOTED field)
	Addr  string            `json:"addr"`            // key | name | tag | tagopt | field
	Pos   string            `json:"pos"`             // interp | expr | vif | attr | get
	Decoy bool              `json:"decoy,omitempty"` // absent sources exist/are called, but define another key
	Name  string            `json:"name,omitempty"`  // map data only: the key's name when it is not "kv" (names of default template functions)
	Site  string            `json:"site,omitempty"`  // where the key is read: "" the page (no layouts) | chain-page | chain-mid | chain-outer: the page, the middle or the outer layout of the chain page.vuego -> layouts/post.vuego -> layouts/base.vuego (Have may then contain "lmid" / "louter": the key in the front-matter of the middle / outer layout)
	Read  string            `json:"read,omitempty"`  // the name the template / Get reads when it is not the key: a CASE VARIANT of the key or of the struct's Go field name, which no source defines
	Door  string            `json:"door,omitempty"`  // entry point: "" Load.Fill.Assign.Render | renderfile (New.Fill.Assign.RenderFile) | inline-string / inline-byte / inline-reader (Load.Fill.Assign, then the page body through RenderString / RenderByte / RenderReader: the front-matter is on the template's stack) | view (vuego.View(base, page, data).Assign.Render) | vue-render / vue-fragment (vuego.NewVue(fs).Render / RenderFragment(w, page, data): only front-matter and the passed data exist)
	Loop  bool              `json:"loop,omitempty"`  // the read markup sits inside a v-for instance (<section v-for="zi in zloop">, zloop = [1] given through Assign)
	After string            `json:"after,omitempty"` // after-failure: a failing, colliding render runs first: pool (on a fresh engine) | engine (on a sibling template of the same engine) | template (inline, on the very template object)
	Pad   int               `json:"pad,omitempty"`   // the page's front-matter also has a neighbour key whose value is a single line of this many characters
	Bad   []string          `json:"bad,omitempty"`   // config files that do not decode into a mapping, see badFiles; each must be skipped alone
	Store string            `json:"store,omitempty"` // how the files are stored: "" one filesystem | an OverlayFS layout, see stores
	Ext   string            `json:"ext,omitempty"`   // names of the data files: "" a.yml+b.yml | yaml+yml | yml+yaml | yaml+yaml | samestem (c.yaml+c.yml)
}

func (c CaseA) has(src string) bool {
	for _, s := range c.Have {
		if s == src {
			return true
		}
	}
	return false
}

// key is the variable name under test.
// intlNames are key names beyond ASCII (Cyrillic, accented Latin, CJK); with Addr "tagname" the
// struct carries the name as its JSON tag.
var intlNames = []string{"название", "città", "城市"}

func nonASCII(s string) bool {
	for _, r := range s {
		if r > 127 {
			return true
		}
	}
	return false
}

func (c CaseA) key() string {
	if c.Name != "" && c.Addr == "tagname" {
		return c.Name
	}
	if c.Name != "" && c.Addr == "key" {
		return c.Name
	}
	switch c.Addr {
	case "name":
		return "Kv"
	case "field":
		return "Fv"
	}
	return "kv"
}

// dataNames returns the file names of the two data/ sources: "da" is always the one that sorts
// first, "db" the one that sorts later. docs/data-loading.md: all .yml and .yaml files of data/
// are loaded, in alphabetical order, later files overriding earlier ones - the extension plays
// no role beyond being part of the name.
func dataNames(ext string) (da, db string, err error) {
	switch ext {
	case "":
		return "data/a.yml", "data/b.yml", nil
	case "yaml+yml":
		return "data/a.yaml", "data/b.yml", nil
	case "yml+yaml":
		return "data/a.yml", "data/b.yaml", nil
	case "yaml+yaml":
		return "data/a.yaml", "data/b.yaml", nil
	case "samestem":
		return "data/c.yaml", "data/c.yml", nil // "c.yaml" < "c.yml"
	}
	return "", "", fmt.Errorf("malformed case: ext %q", ext)
}

// badFiles are config files that are not a YAML mapping. docs/data-loading.md: "Invalid YAML is
// also skipped silently" - the file is skipped, every other file still loads. The names sort
// before data/a.yml, between a.yml and b.yml, and after b.yml; "theme" replaces theme.yml itself
// (only used when theme.yml is not one of the case's sources).
var badFiles = map[string][2]string{
	"before-list":    {"data/0-list.yml", "- label: Home\n- label: About\n"},
	"between-scalar": {"data/am-scalar.yml", "just a scalar\n"},
	"after-broken":   {"data/z-broken.yml", "zbroken: [unclosed\n  : :\n\t- x\n"},
	"before-dupkeys": {"data/0-dup.yml", "zdup: one\nzdup: two\n"},
	"theme":          {"theme.yml", "- not\n- a mapping\n"},
}

var exts = []string{"yaml+yml", "yml+yaml", "yaml+yaml", "samestem"}

// funcNames are variable names that are also default template functions (funcmap.go). A variable
// shadows a function of the same name wherever it is read, also when its value is null.
var funcNames = []string{"title", "default", "escape", "json", "upper", "len", "type", "file"}

func isNull(v vals.V) bool { return v.K == "nil" }

// read is the name the template and Get read: the key, or (Read) a case variant of it that no
// source defines. Variable names are exact: a struct defines the Go names and JSON names of its
// fields, a map its keys, a YAML file its keys - not other spellings of them.
func (c CaseA) read() string {
	if c.Read != "" {
		return c.Read
	}
	return c.key()
}

// definedNames are the exact names under which the case's sources define the value.
func (c CaseA) definedNames() []string {
	out := []string{c.key()}
	if c.Fill != "map" && (c.Addr == "tag" || c.Addr == "tagopt" || c.Addr == "field") {
		out = append(out, "kv", "Fv")
	}
	return out
}

// winner is the reference model: the first present source in the documented order.
//
// Layout chains (docs/themes.md: each layout renders and passes its output to the parent layout
// as `content`; layouts print the page's variables such as {{ title }}): a file of the chain sees
// its OWN front-matter first and then what the page sees (page front-matter > Assign > Fill >
// data/*.yml > theme.yml). The front-matter of another layout of the chain is not a source for it.
func (c CaseA) winner() (string, vals.V, bool) {
	if c.Read != "" {
		for _, n := range c.definedNames() {
			if n == c.Read {
				return "", vals.V{}, false // malformed (rejected by checkA); keep the model total
			}
		}
		return "", vals.V{}, false // the name read is defined by no source
	}
	own := map[string]string{"chain-mid": "lmid", "chain-outer": "louter"}[c.Site]
	if own != "" && c.has(own) {
		return own, c.Vals[own], true
	}
	for _, s := range order {
		if c.has(s) {
			return s, c.Vals[s], true
		}
	}
	return "", vals.V{}, false
}

// Local struct types passed to Fill. Every one carries an unrelated second field.
type (
	nStr struct {
		Kv    string
		Extra string
	}
	nInt struct {
		Kv    int
		Extra string
	}
	nBool struct {
		Kv    bool
		Extra string
	}
	nList struct {
		Kv    []string
		Extra string
	}
	tStr struct {
		Fv    string `json:"kv,string"`
		Extra string `json:"extra"`
	}
	tInt struct {
		Fv    int    `json:"kv,omitempty"`
		Extra string `json:"extra"`
	}
	tBool struct {
		Fv    bool   `json:"kv"`
		Extra string `json:"extra"`
	}
	tList struct {
		Fv    []string `json:"kv"`
		Extra string   `json:"extra"`
	}
	nMap struct {
		Kv    map[string]any
		Extra string
	}
	tMap struct {
		Fv    map[string]any `json:"kv"`
		Extra string         `json:"extra"`
	}
	decoyS struct {
		Zother string `json:"zother"`
	}
)

// tokens are the recognisable strings a value consists of.
func tokens(v vals.V) []string {
	switch {
	case v.M != nil:
		keys := make([]string, 0, len(v.M))
		for k := range v.M {
			keys = append(keys, k)
		}
		sort.Strings(keys)
		out := make([]string, 0, len(keys))
		for _, k := range keys {
			out = append(out, v.M[k].S)
		}
		return out
	case v.L != nil:
		return strsOf(v)
	}
	return []string{v.S}
}

// isZero reports whether the described value is the zero value of its Go type.
func isZero(v vals.V) bool {
	switch v.K {
	case "string":
		return v.S == ""
	case "int":
		return v.S == "0"
	case "bool":
		return v.S != "true"
	case "nil[]string", "nil[]any", "nilmap", "nil":
		return true
	}
	return false
}

// zeroOf is the zero value of a family-A value type.
func zeroOf(vt string) vals.V {
	switch vt {
	case "string":
		return vals.Str("")
	case "int":
		return vals.Int(0)
	case "bool":
		return vals.Bool(false)
	case "list":
		return vals.V{K: "nil[]string"}
	}
	return vals.V{K: "nilmap"}
}

// optStruct builds the struct/tagopt carrier with reflect.StructOf.
func optStruct(vt string, v vals.V) (reflect.Value, error) {
	var typ reflect.Type
	switch vt {
	case "string":
		typ = reflect.TypeOf("")
	case "int":
		typ = reflect.TypeOf(0)
	case "bool":
		typ = reflect.TypeOf(false)
	case "list":
		typ = reflect.TypeOf([]string(nil))
	case "map":
		typ = reflect.TypeOf(map[string]any(nil))
	default:
		return reflect.Value{}, fmt.Errorf("bad vtype %q", vt)
	}
	str := reflect.TypeOf("")
	pv := reflect.New(reflect.StructOf([]reflect.StructField{
		{Name: "Fv", Type: typ, Tag: `json:"kv,omitempty"`},
		{Name: "Hidden", Type: str, Tag: `json:"-"`},
		{Name: "Plain", Type: str},
		{Name: "Extra", Type: str, Tag: `json:"extra,omitempty"`},
	}))
	if !isZero(v) {
		var gv any = v.Go()
		if vt == "list" {
			gv = strsOf(v)
		}
		rv := reflect.ValueOf(gv)
		if !rv.Type().AssignableTo(typ) {
			return reflect.Value{}, fmt.Errorf("value %s does not fit vtype %s", v, vt)
		}
		pv.Elem().Field(0).Set(rv)
	}
	pv.Elem().Field(1).SetString("h")
	pv.Elem().Field(2).SetString("p")
	return pv, nil
}

// Carriers of other shapes: typed maps and structs with promoted fields of an embedded struct.
type (
	namedMapT map[string]any
	// EBaseN / EBaseT are embedded; their fields are promoted to the outer struct.
	EBaseN struct {
		Kv    string
		Extra string
	}
	EBaseT struct {
		Fv    string `json:"kv"`
		Extra string `json:"extra"`
	}
	eOutN struct {
		EBaseN
		Own string
	}
	eOutNP struct {
		*EBaseN
		Own string
	}
	eOutT struct {
		EBaseT
		Own string `json:"own"`
	}
	eOutTP struct {
		*EBaseT
		Own string `json:"own"`
	}
)

// shapedFill builds the Fill argument of the extra carrier kinds (ok=false: not one of them).
func (c CaseA) shapedFill(v vals.V) (any, bool, error) {
	switch c.Fill {
	case "mapss":
		return map[string]string{c.key(): v.S, "extra": "x"}, true, nil
	case "mapint":
		n, ok := v.Go().(int)
		if !ok {
			return nil, true, fmt.Errorf("malformed case: mapint needs an int value")
		}
		return map[string]int{c.key(): n, "extra": 1}, true, nil
	case "namedmap":
		return namedMapT{c.key(): v.Go(), "extra": "x"}, true, nil
	case "embed":
		if c.Addr == "tag" {
			return eOutT{EBaseT{v.S, "x"}, "o"}, true, nil
		}
		return eOutN{EBaseN{v.S, "x"}, "o"}, true, nil
	case "embedptr":
		if c.Addr == "tag" {
			return &eOutTP{&EBaseT{v.S, "x"}, "o"}, true, nil
		}
		return &eOutNP{&EBaseN{v.S, "x"}, "o"}, true, nil
	}
	return nil, false, nil
}

func strsOf(v vals.V) []string {
	if len(v.L) == 0 {
		return nil
	}
	out := make([]string, len(v.L))
	for i, e := range v.L {
		out[i] = e.S
	}
	return out
}

// fillArg builds the value handed to Fill.
func (c CaseA) fillArg(v vals.V) (any, error) {
	if arg, ok, err := c.shapedFill(v); ok {
		return arg, err
	}
	if c.Fill == "map" {
		return map[string]any{c.key(): v.Go(), "extra": "x"}, nil
	}
	if c.Addr == "tagname" {
		// struct{ Fv string `json:"<name>"`; Extra string `json:"extra"` } with a non-ASCII tag name
		if c.VType != "string" || c.Name == "" {
			return nil, fmt.Errorf("malformed case: tagname needs a name and vtype string")
		}
		str := reflect.TypeOf("")
		pv := reflect.New(reflect.StructOf([]reflect.StructField{
			{Name: "Fv", Type: str, Tag: reflect.StructTag(`json:"` + c.Name + `"`)},
			{Name: "Extra", Type: str, Tag: `json:"extra"`},
		}))
		pv.Elem().Field(0).SetString(v.S)
		pv.Elem().Field(1).SetString("x")
		if c.Fill == "ptr" {
			return pv.Interface(), nil
		}
		return pv.Elem().Interface(), nil
	}
	if c.Addr == "tagopt" {
		pv, err := optStruct(c.VType, v)
		if err != nil {
			return nil, err
		}
		if c.Fill == "ptr" {
			return pv.Interface(), nil
		}
		return pv.Elem().Interface(), nil
	}
	tagged := c.Addr == "tag" || c.Addr == "field"
	var s, p any
	switch c.VType {
	case "string":
		if tagged {
			x := tStr{v.S, "x"}
			s, p = x, &x
		} else {
			x := nStr{v.S, "x"}
			s, p = x, &x
		}
	case "int":
		n, _ := v.Go().(int)
		if tagged {
			x := tInt{n, "x"}
			s, p = x, &x
		} else {
			x := nInt{n, "x"}
			s, p = x, &x
		}
	case "bool":
		b, _ := v.Go().(bool)
		if tagged {
			x := tBool{b, "x"}
			s, p = x, &x
		} else {
			x := nBool{b, "x"}
			s, p = x, &x
		}
	case "list":
		if tagged {
			x := tList{strsOf(v), "x"}
			s, p = x, &x
		} else {
			x := nList{strsOf(v), "x"}
			s, p = x, &x
		}
	case "map":
		m, _ := v.Go().(map[string]any)
		if tagged {
			x := tMap{m, "x"}
			s, p = x, &x
		} else {
			x := nMap{m, "x"}
			s, p = x, &x
		}
	default:
		return nil, fmt.Errorf("bad vtype %q", c.VType)
	}
	if c.Fill == "ptr" {
		return p, nil
	}
	return s, nil
}

func (c CaseA) decoyFill() any {
	switch c.Fill {
	case "mapss":
		return map[string]string{"zother": "decoyfill"}
	case "mapint":
		return map[string]int{"zother": 0}
	case "namedmap":
		return namedMapT{"zother": "decoyfill"}
	case "map":
		return map[string]any{"zother": "decoyfill"}
	case "ptr":
		return &decoyS{"decoyfill"}
	}
	return decoyS{"decoyfill"}
}

// yamlOf renders "key: value" for a YAML source.
func yamlOf(key string, v vals.V) string {
	switch {
	case v.M != nil:
		keys := make([]string, 0, len(v.M))
		for k := range v.M {
			keys = append(keys, k)
		}
		sort.Strings(keys)
		var parts []string
		for _, k := range keys {
			parts = append(parts, k+": "+v.M[k].S)
		}
		return key + ": {" + strings.Join(parts, ", ") + "}\n"
	case v.L != nil:
		return key + ": [" + strings.Join(strsOf(v), ", ") + "]\n"
	case isNull(v):
		return key + ": " + v.S + "\n" // S holds the spelling of null: "", "~" or "null"
	}
	return key + ": " + v.S + "\n"
}

// lit is the expression literal of a scalar.
func lit(v vals.V) string {
	if v.K == "string" {
		return "'" + v.S + "'"
	}
	return v.S
}

func (c CaseA) composite() bool { return c.VType == "list" || c.VType == "map" }

// probes returns, for list and map values, the two paths read below the key, what the value of
// source src holds there, and whether that source's value has the path at all.
//
//	list: k[0], k[1]                 (every source gives a two-element list)
//	map:  k.x,  k.only<winner>       (every source gives {x: M<src>, only<src>: O<src>}; the docs say
//	                                  overrides replace the whole top-level value, nothing is merged)
func (c CaseA) probes() [2]string {
	k := c.key()
	if c.VType == "list" {
		return [2]string{k + "[0]", k + "[1]"}
	}
	w, _, _ := c.winner()
	return [2]string{k + ".x", k + ".only" + w}
}

func (c CaseA) probeValues(src string) [2]string {
	v := c.Vals[src]
	if c.VType == "list" {
		it := strsOf(v)
		for len(it) < 2 {
			it = append(it, "")
		}
		return [2]string{it[0], it[1]}
	}
	return [2]string{v.M["x"].S, v.M["only"+src].S}
}

// body builds the page body for the read position.
func (c CaseA) body() string {
	k := c.read()
	wsrc, wv, any := c.winner()
	var b strings.Builder
	b.WriteString("<div>\n")
	if c.Loop {
		b.WriteString(`<section v-for="zi in zloop">`)
	}
	srcs := append([]string(nil), c.Have...)
	sort.Strings(srcs)
	switch {
	case c.composite():
		p := c.probes()
		switch c.Pos {
		case "interp":
			fmt.Fprintf(&b, `<p data-m="v0">{{ %s }}</p><p data-m="v1">{{ %s }}</p>`, p[0], p[1])
			if c.VType == "list" {
				fmt.Fprintf(&b, `<i data-m="it" v-for="x in %s">{{ x }}</i>`, k)
			} else {
				for _, s := range srcs {
					if s != wsrc {
						fmt.Fprintf(&b, `<p data-m="o-%s">{{ %s.only%s }}</p>`, s, k, s)
					}
				}
			}
		case "expr":
			fmt.Fprintf(&b, `<p data-m="v0">{{ %s + '' }}</p><p data-m="v1">{{ %s + '' }}</p>`, p[0], p[1])
			if any {
				fmt.Fprintf(&b, `<p data-m="w">{{ %s == '%s' ? 'hit' : 'miss' }}</p>`, p[0], c.probeValues(wsrc)[0])
			}
		case "vif":
			for _, s := range srcs {
				if !isZero(c.Vals[s]) {
					fmt.Fprintf(&b, `<b data-m="is-%s" v-if="%s == '%s'">x</b>`, s, p[0], c.probeValues(s)[0])
				}
			}
		case "attr":
			fmt.Fprintf(&b, `<p data-m="v1" :data-x="%s">x</p>`, p[1])
		}
		if c.VType == "map" && (c.Pos == "attr" || c.Pos == "vif") {
			// sub-keys that only a LOSING source's map has: the winning map replaces the whole
			// value, so they are absent here too
			for _, s := range srcs {
				if s != wsrc && !isZero(c.Vals[s]) {
					if c.Pos == "attr" {
						fmt.Fprintf(&b, `<p data-m="ol-%s" :data-x="%s.only%s">x</p>`, s, k, s)
					} else {
						fmt.Fprintf(&b, `<b data-m="has-%s" v-if="%s.only%s">x</b>`, s, k, s)
					}
				}
			}
		}
	case any && isNull(wv):
		// the chosen value is null: plain reads print nothing recognisable, expression reads must
		// see the same null (falsy, equal to nil, equal to no other source's value)
		switch c.Pos {
		case "interp":
			fmt.Fprintf(&b, `<p data-m="v">{{ %s }}</p>`, k)
		case "expr":
			fmt.Fprintf(&b, `<p data-m="n">{{ %s == nil ? 'null' : 'set' }}</p>`, k)
		case "vif":
			for _, s := range srcs {
				if !isZero(c.Vals[s]) {
					fmt.Fprintf(&b, `<b data-m="is-%s" v-if="%s == %s">x</b>`, s, k, lit(c.Vals[s]))
				}
			}
			fmt.Fprintf(&b, `<b data-m="truthy" v-if="%s">x</b>`, k)
		case "attr":
			fmt.Fprintf(&b, `<p data-m="v" :data-x="%s">x</p>`, k)
		}
	default:
		switch c.Pos {
		case "interp":
			fmt.Fprintf(&b, `<p data-m="v">{{ %s }}</p>`, k)
		case "expr":
			switch c.VType {
			case "string":
				fmt.Fprintf(&b, `<p data-m="v">{{ %s + '' }}</p>`, k)
			case "int":
				fmt.Fprintf(&b, `<p data-m="v">{{ %s + 0 }}</p>`, k)
			case "bool":
				fmt.Fprintf(&b, `<p data-m="v">{{ %s ? 'yes' : 'no' }}</p>`, k)
			}
			if any {
				fmt.Fprintf(&b, `<p data-m="w">{{ %s == %s ? 'hit' : 'miss' }}</p>`, k, lit(wv))
			}
		case "vif":
			if c.VType == "bool" {
				fmt.Fprintf(&b, `<b data-m="is-true" v-if="%s == true">x</b><b data-m="is-false" v-if="%s == false">x</b>`, k, k)
			} else {
				for _, s := range srcs {
					if !isNull(c.Vals[s]) {
						fmt.Fprintf(&b, `<b data-m="is-%s" v-if="%s == %s">x</b>`, s, k, lit(c.Vals[s]))
					}
				}
			}
			if nonASCII(k) && c.VType == "string" {
				// === and !== are documented as the same comparison as == and != (docs/expressions.md)
				for _, s := range srcs {
					if !isNull(c.Vals[s]) {
						fmt.Fprintf(&b, `<b data-m="s3-%s" v-if="%s === %s">x</b><b data-m="n3-%s" v-if="%s !== %s">x</b>`, s, k, lit(c.Vals[s]), s, k, lit(c.Vals[s]))
					}
				}
			}
			fmt.Fprintf(&b, `<b data-m="truthy" v-if="%s">x</b><b data-m="falsy" v-if="!%s">x</b>`, k, k)
		case "attr":
			fmt.Fprintf(&b, `<p data-m="v" :data-x="%s">x</p>`, k)
		}
	}
	if c.Loop {
		b.WriteString(`</section>`)
	}
	b.WriteString("\n</div>\n")
	return b.String()
}

// failingSrc is the inline template of the after-failure dimension: it binds the name the case
// reads at its top level and as a loop variable to STALE values, prints literal text and a good
// mustache first, and fails late (an unknown filter, or a missing include).
func (c CaseA) failingSrc(variant int) string {
	k := c.read()
	late := "{{ " + k + " | nosuchfilter }}"
	if variant%2 == 1 {
		late = `<template include="zmissing.vuego"></template>`
	}
	return `<template ` + k + `="STALE-top" :zq="'STALE-q'"><ul><li v-for="` + k + ` in zdrafts">lit {{ ` + k + ` }} ` + late + `</li></ul></template>`
}

// failFirst runs the failing render of the after-failure dimension.
func (c CaseA) failFirst(base, tpl vuego.Template, rep int) error {
	drafts := []string{"STALE-a", "STALE-b"}
	var on vuego.Template
	switch c.After {
	case "pool":
		on = vuego.New().Fill(map[string]any{"zdrafts": drafts})
	case "engine":
		on = base.New().Assign("zdrafts", drafts)
	case "template":
		on = tpl // zdrafts was assigned to it with the other auxiliary variables
	default:
		return fmt.Errorf("malformed case: after %q", c.After)
	}
	var sink bytes.Buffer
	src := c.failingSrc(rep)
	var err error
	switch rep % 3 {
	case 0:
		err = on.RenderString(context.Background(), &sink, src)
	case 1:
		err = on.RenderByte(context.Background(), &sink, []byte(src))
	default:
		err = on.RenderReader(context.Background(), &sink, strings.NewReader(src))
	}
	if err == nil {
		return fmt.Errorf("after-failure: the colliding inline template was expected to fail (unknown filter / missing include), it rendered %q", sink.String())
	}
	return nil
}

// files builds the template filesystem of the case.
func (c CaseA) files() map[string]string {
	k := c.key()
	f := map[string]string{}
	page := ""
	switch {
	case c.has("fm") && c.Pad > 0:
		page = "---\nzpad: " + strings.Repeat("p", c.Pad) + "\n" + yamlOf(k, c.Vals["fm"]) + "zafter: q\n---\n"
	case c.has("fm"):
		page = "---\n" + yamlOf(k, c.Vals["fm"]) + "---\n"
	case c.Decoy:
		page = "---\nzother: decoyfm\n---\n"
	}
	f["page.vuego"] = page + c.body()
	if c.Site != "" {
		// page.vuego -> layouts/post.vuego -> layouts/base.vuego; the read markup sits in one of them
		const slot = `<div v-html="content"></div>` + "\n"
		pfm := "layout: post\n"
		if c.has("fm") {
			pfm += yamlOf(k, c.Vals["fm"])
		}
		bodies := map[string]string{"chain-page": "<p>page</p>\n", "chain-mid": "<section>middle</section>\n", "chain-outer": "<main>outer</main>\n"}
		bodies[c.Site] = c.body()
		f["page.vuego"] = "---\n" + pfm + "---\n" + bodies["chain-page"]
		mfm := "layout: base\n"
		if c.has("lmid") {
			mfm += yamlOf(k, c.Vals["lmid"])
		}
		f["layouts/post.vuego"] = "---\n" + mfm + "---\n" + bodies["chain-mid"] + slot
		ofm := ""
		if c.has("louter") {
			ofm = "---\n" + yamlOf(k, c.Vals["louter"]) + "---\n"
		}
		f["layouts/base.vuego"] = ofm + bodies["chain-outer"] + slot
	}
	for _, b := range c.Bad {
		if bf, ok := badFiles[b]; ok {
			f[bf[0]] = bf[1]
		}
	}
	daName, dbName, _ := dataNames(c.Ext)
	for _, sn := range [][2]string{{"da", daName}, {"db", dbName}, {"theme", "theme.yml"}} {
		src, name := sn[0], sn[1]
		switch {
		case c.has(src):
			f[name] = yamlOf(k, c.Vals[src]) + "unrelated" + src + ": u\n"
		case c.Decoy:
			f[name] = "zother: decoy" + src + "\n"
		}
	}
	return f
}

func checkA(c CaseA) error {
	for _, s := range c.Have {
		v, ok := c.Vals[s]
		if !ok {
			return fmt.Errorf("malformed case: source %q has no value", s)
		}
		if (s == "lmid" || s == "louter") && (c.Site == "" || c.VType != "string" || isZero(v)) {
			return fmt.Errorf("malformed case: layout front-matter sources need a chain site and a string value")
		}
		if isNull(v) {
			if c.Fill != "map" || c.VType != "string" {
				return fmt.Errorf("malformed case: null values are only used with map data and vtype string")
			}
			continue
		}
		if isZero(v) {
			if s != "fill" && s != "assign" && c.VType != "bool" {
				return fmt.Errorf("malformed case: only Fill and Assign may give a zero value, not %q", s)
			}
			continue
		}
		if (c.VType == "list" && len(v.L) != 2) || (c.VType == "map" && (v.M["x"].S == "" || v.M["only"+s].S == "")) {
			return fmt.Errorf("malformed case: value of source %q does not have the shape of vtype %s", s, c.VType)
		}
	}
	if _, _, err := dataNames(c.Ext); err != nil {
		return err
	}
	switch c.Site {
	case "", "chain-page", "chain-mid", "chain-outer":
	default:
		return fmt.Errorf("malformed case: site %q", c.Site)
	}
	if c.Site != "" && (c.Decoy || (c.Pos == "get" && c.Site != "chain-page")) {
		return fmt.Errorf("malformed case: chain sites take no decoys, and Get reads the page")
	}
	for _, b := range c.Bad {
		if _, ok := badFiles[b]; !ok || (b == "theme" && (c.has("theme") || c.Decoy)) || c.Ext != "" {
			return fmt.Errorf("malformed case: bad config file %q", b)
		}
	}
	if c.Pad < 0 || c.Pad > 200000 || (c.Pad > 0 && (!c.has("fm") || c.Site != "")) {
		return fmt.Errorf("malformed case: pad needs the page's own front-matter")
	}
	if c.Read != "" {
		ok := false
		for _, n := range append(c.definedNames(), "Kv", "Fv", "kv") {
			if strings.EqualFold(n, c.Read) {
				ok = true
			}
		}
		for _, n := range append(c.definedNames(), "extra", "Extra", "Hidden", "Plain", "zother", "Zother") {
			if n == c.Read {
				ok = false
			}
		}
		if !ok || c.Site != "" || c.Name != "" {
			return fmt.Errorf("malformed case: read %q must be a case variant of the key / field name that is not itself a defined name", c.Read)
		}
	}
	k := c.key()
	wsrc, wv, any := c.winner()
	fsys, cleanup, err := buildFS(c.files(), c.Store, []string{k})
	if err != nil {
		return err
	}
	defer cleanup()

	var base vuego.Template
	if c.Ctor == "withfs" {
		base = vuego.New(vuego.WithFS(fsys)) // docs/data-loading.md: config is loaded with NewFS or New(WithFS(...))
	} else {
		base = vuego.NewFS(fsys)
	}
	// the data handed to Fill / View / Vue.Render (nil: none)
	var arg interface{}
	switch {
	case c.has("fill"):
		a, err := c.fillArg(c.Vals["fill"])
		if err != nil {
			return err
		}
		arg = a
	case c.Decoy:
		arg = c.decoyFill()
	}
	switch c.Door {
	case "", "renderfile", "inline-string", "inline-byte", "inline-reader", "view":
	case "vue-render", "vue-fragment":
		for _, s := range c.Have {
			if s != "fm" && s != "fill" {
				return fmt.Errorf("malformed case: Vue.Render knows only front-matter and the passed data, not %q", s)
			}
		}
		if c.Decoy {
			return fmt.Errorf("malformed case: no decoys with Vue.Render")
		}
	default:
		return fmt.Errorf("malformed case: door %q", c.Door)
	}
	if c.Pos == "get" && c.Door != "" && c.Door != "view" {
		return fmt.Errorf("malformed case: Get belongs to the Load / View doors")
	}
	var tpl vuego.Template
	switch c.Door {
	case "renderfile":
		tpl = base.New() // Fill / Assign on the parent, RenderFile loads the page from it
	case "view":
		tpl = vuego.View(base, "page.vuego", arg)
	default:
		tpl = base.Load("page.vuego")
	}
	if arg != nil && c.Door != "view" {
		tpl = tpl.Fill(arg)
	}
	pageBody := c.body()
	render := func(w io.Writer) error {
		ctx := context.Background()
		switch c.Door {
		case "renderfile":
			return tpl.RenderFile(ctx, w, "page.vuego")
		case "inline-string":
			return tpl.RenderString(ctx, w, pageBody)
		case "inline-byte":
			return tpl.RenderByte(ctx, w, []byte(pageBody))
		case "inline-reader":
			return tpl.RenderReader(ctx, w, strings.NewReader(pageBody))
		case "vue-render":
			return vuego.NewVue(fsys).Render(w, "page.vuego", arg)
		case "vue-fragment":
			return vuego.NewVue(fsys).RenderFragment(w, "page.vuego", arg)
		}
		return tpl.Render(ctx, w)
	}
	switch {
	case c.has("assign"):
		tpl = tpl.Assign(k, c.Vals["assign"].Go())
	case c.Decoy:
		tpl = tpl.Assign("zother", "decoyassign")
	}
	if c.Loop || c.After != "" {
		// auxiliary variables of the harness (unrelated names): the one-item list the read markup
		// loops over, and the list the failing template loops over
		tpl = tpl.Assign("zloop", []int{1}).Assign("zdrafts", []string{"STALE-a", "STALE-b"})
	}
	desc := fmt.Sprintf("key %q, sources %v (%s data addressed by %s), expected winner %q", k, c.Have, c.Fill, c.Addr, wsrc)
	if c.Read != "" {
		desc = fmt.Sprintf("reading %q, a name no source defines (the sources %v define %v exactly; %s data), expected: undefined", c.Read, c.Have, c.definedNames(), c.Fill)
	}

	// every recognisable value that must NOT be seen: the values of the losing sources
	losers := func(got string) error {
		if strings.Contains(got, "STALE") {
			return fmt.Errorf("%s: saw %q: a value that only a FAILED earlier render bound", desc, got[:min(len(got), 300)])
		}
		if strings.Contains(got, "zpad") || strings.Contains(got, "pppppppp") {
			return fmt.Errorf("%s: the front-matter block itself shows up in %q", desc, got[:min(len(got), 200)])
		}
		if strings.Contains(got, "shadowed") {
			return fmt.Errorf("%s: saw %q: the value of a config file that an upper overlay layer shadows", desc, got)
		}
		if strings.Contains(got, "decoy") {
			return fmt.Errorf("%s: a value of an unrelated key leaked into %q: %q", desc, k, got)
		}
		if c.VType == "bool" {
			return nil // two values only; equality below is the check
		}
		for _, s := range c.Have {
			if s == wsrc || isZero(c.Vals[s]) {
				continue // a zero value ("", 0, nil) has nothing recognisable to look for
			}
			for _, tok := range tokens(c.Vals[s]) {
				if tok != "" && strings.Contains(got, tok) {
					if s == "lmid" || s == "louter" {
						return fmt.Errorf("%s (read site %s): saw %q, which contains the value from the front-matter of another layout of the chain (%s), which is not a source for this file", desc, c.Site, got, s)
					}
					if c.Read != "" {
						return fmt.Errorf("%s: saw %q, the value source %q gives to the differently spelled name", desc, got, s)
					}
					return fmt.Errorf("%s: saw %q, which contains the value given by the lower-precedence source %q", desc, got, s)
				}
			}
		}
		return nil
	}

	// verify makes the one observation of the case (Get or a render) and compares it with the model
	verify := func() error {
		if c.Pos == "get" {
			got := tpl.Get(c.read())
			if err := losers(got); err != nil {
				return fmt.Errorf("Get: %w", err)
			}
			if !any {
				return nil // undefined everywhere: the result of Get is not specified beyond "nothing leaks"
			}
			if (c.composite() && isZero(wv)) || isNull(wv) {
				return nil // string form of a nil list / map / null: unspecified; nothing of a loser was seen
			}
			if c.composite() {
				// the string form of a list / map is not specified: the winner's items must be mentioned
				for _, tok := range tokens(wv) {
					if !strings.Contains(got, tok) {
						return fmt.Errorf("Get: %s: got %q, want it to mention %v", desc, got, tokens(wv))
					}
				}
				return nil
			}
			if got != wv.S {
				return fmt.Errorf("Get: %s: got %q, want %q", desc, got, wv.S)
			}
			return nil
		}

		var out bytes.Buffer
		if err := render(&out); err != nil {
			if !any {
				return nil // an undefined variable in an expression: unspecified
			}
			return fmt.Errorf("render (%s): %s: error %v", c.Pos, desc, err)
		}
		if err := losers(out.String()); err != nil {
			return fmt.Errorf("render (%s): %w; output %q", c.Pos, err, out.String())
		}
		nodes, err := hx.Frag(out.String(), hx.Collapse)
		if err != nil {
			return fmt.Errorf("output does not parse: %v", err)
		}
		byID := map[string][]hx.Marker{}
		var hits []string
		for _, m := range hx.Markers(nodes) {
			if strings.HasPrefix(m.ID, "has-") {
				return fmt.Errorf("render (vif): %s: v-if on the sub-key that only the losing source %q has rendered; the winning map replaces the whole value", desc, strings.TrimPrefix(m.ID, "has-"))
			}
			byID[m.ID] = append(byID[m.ID], m)
			if strings.HasPrefix(m.ID, "is-") {
				hits = append(hits, m.ID)
			}
		}
		one := func(id string) (hx.Marker, error) {
			ms := byID[id]
			if len(ms) != 1 {
				return hx.Marker{}, fmt.Errorf("render (%s): %s: element %q appears %d times in %q", c.Pos, desc, id, len(ms), out.String())
			}
			return ms[0], nil
		}
		wantText := func(id, want string) error {
			m, err := one(id)
			if err != nil {
				return err
			}
			if m.Text != want {
				return fmt.Errorf("render (%s): %s: element %q shows %q, want %q", c.Pos, desc, id, m.Text, want)
			}
			return nil
		}
		wantAttr := func(id, want string) error {
			m, err := one(id)
			if err != nil {
				return err
			}
			if got, has := m.Attrs["data-x"]; !has || got != want {
				return fmt.Errorf("render (%s): %s: bound attribute is %q (present=%v), want %q", c.Pos, desc, got, has, want)
			}
			return nil
		}
		wantHit := func(want string) error {
			if len(hits) != 1 || hits[0] != want {
				return fmt.Errorf("render (vif): %s: comparisons that held: %v, want [%s]", desc, hits, want)
			}
			return nil
		}
		if !any {
			// no source defines the key: only "nothing leaks" (checked above) and no comparison holds
			if len(hits) > 0 {
				return fmt.Errorf("render (vif): %s: %v held although no source defines the key", desc, hits)
			}
			return nil
		}

		if isNull(wv) {
			// nothing of a lower source was seen (scan above); in expression positions the variable is
			// the same null: no comparison holds, it is falsy (docs/syntax.md: nil is falsey), == nil
			if len(hits) > 0 {
				return fmt.Errorf("render (vif): %s: %v held although the chosen value is null", desc, hits)
			}
			if _, sawT := byID["truthy"]; sawT {
				return fmt.Errorf("render (vif): %s: v-if=%q rendered although the chosen value is null ({{ %s }} and Get show null)", desc, k, k)
			}
			if c.Pos == "expr" {
				return wantText("n", "null")
			}
			return nil
		}
		if c.composite() && isZero(wv) {
			// the chosen value is a nil list / map: nothing of a lower source was seen (scan above) and
			// no comparison with a lower source's element holds
			if len(hits) > 0 {
				return fmt.Errorf("render (vif): %s: %v held although the chosen value is nil", desc, hits)
			}
			return nil
		}
		if c.composite() {
			pv := c.probeValues(wsrc)
			switch c.Pos {
			case "interp":
				if err := wantText("v0", pv[0]); err != nil {
					return err
				}
				if err := wantText("v1", pv[1]); err != nil {
					return err
				}
				if c.VType == "list" {
					var got []string
					for _, m := range byID["it"] {
						got = append(got, m.Text)
					}
					if strings.Join(got, ",") != strings.Join(strsOf(wv), ",") {
						return fmt.Errorf("render (interp): %s: v-for over the key printed %v, want %v", desc, got, strsOf(wv))
					}
				}
				// map: the losing sources' private sub-keys are caught by the "losers" scan above
			case "expr":
				if err := wantText("v0", pv[0]); err != nil {
					return err
				}
				if err := wantText("v1", pv[1]); err != nil {
					return err
				}
				return wantText("w", "hit")
			case "vif":
				return wantHit("is-" + wsrc)
			case "attr":
				return wantAttr("v1", pv[1])
			}
			return nil
		}

		want := wv.S
		switch c.Pos {
		case "interp":
			return wantText("v", want)
		case "expr":
			w := want
			if c.VType == "bool" {
				w = map[string]string{"true": "yes", "false": "no"}[want]
			}
			if err := wantText("v", w); err != nil {
				return err
			}
			return wantText("w", "hit")
		case "vif":
			h := "is-" + wsrc
			if c.VType == "bool" {
				h = "is-" + want
			}
			if err := wantHit(h); err != nil {
				return err
			}
			if nonASCII(k) && c.VType == "string" {
				for _, s := range c.Have {
					_, eq := byID["s3-"+s]
					_, ne := byID["n3-"+s]
					if eq != (s == wsrc) || ne != (s != wsrc) {
						return fmt.Errorf("render (vif): %s: %s === %s rendered=%v, %s !== %s rendered=%v, but == picks %q", desc, k, lit(c.Vals[s]), eq, k, lit(c.Vals[s]), ne, wsrc)
					}
				}
			}
			// truthiness of the chosen value (docs/syntax.md: 0, false, "", nil are falsey; every value
			// used here except bool false is non-zero / non-empty)
			truthy := !isZero(wv)
			_, sawT := byID["truthy"]
			_, sawF := byID["falsy"]
			if sawT != truthy {
				return fmt.Errorf("render (vif): %s: v-if=%q rendered=%v, but the chosen value is %s", desc, k, sawT, want)
			}
			// the negation of a non-boolean is left unasserted (only `!flag` on booleans is documented)
			if c.VType == "bool" && sawF == truthy {
				return fmt.Errorf("render (vif): %s: v-if=%q rendered=%v, but the chosen value is %s", desc, "!"+k, sawF, want)
			}
		case "attr":
			if isZero(wv) {
				// whether a falsy binding (false, 0, "") is dropped or printed is not specified
				m, err := one("v")
				if err != nil {
					return err
				}
				if got, has := m.Attrs["data-x"]; has && got != want {
					return fmt.Errorf("render (attr): %s: bound attribute is %q for the value %q", desc, got, want)
				}
				return nil
			}
			return wantAttr("v", want)
		}
		return nil
	}
	if c.After == "" {
		return verify()
	}
	// after-failure: a FAILING render that collides with the case (same variable name bound to
	// STALE values at its top level and as a loop variable, failing late) runs first; the case
	// must then meet the model as usual. Repeated, back to back on this goroutine (sync.Pool).
	for rep := 0; rep < 3; rep++ {
		if err := c.failFirst(base, tpl, rep); err != nil {
			return err
		}
		if err := verify(); err != nil {
			return fmt.Errorf("after a failed render (%s, repetition %d): %w", c.After, rep, err)
		}
	}
	return nil
}

// canon gives each source a distinct, recognisable value of the type.
func canon(vt, src string, idx int) vals.V {
	switch vt {
	case "string":
		return vals.Str("v" + src)
	case "int":
		return vals.Int(101 + idx)
	case "list":
		k := "[]string"
		if src == "assign" {
			k = "[]any"
		}
		return vals.List(k, vals.Str("L"+src+"1"), vals.Str("L"+src+"2"))
	case "map":
		return vals.Map(map[string]vals.V{"x": vals.Str("M" + src), "only" + src: vals.Str("O" + src)})
	}
	panic("canon: " + vt)
}

// enumA enumerates family A and calls f for each case (with the id of the open known finding
// whose region contains it, "" = none) until f returns false.
func enumA(f func(c CaseA, excluded string) bool) {
	known := kf.Load()
	for mask := 0; mask < 1<<len(order); mask++ {
		var have []string
		for i, s := range order {
			if mask&(1<<i) != 0 {
				have = append(have, s)
			}
		}
		// key names beyond ASCII, multi-byte values, struct data carrying the name as JSON tag
		for _, name := range intlNames {
			vs := map[string]vals.V{}
			for _, s := range have {
				vs[s] = vals.Str("v" + s + "Ж城è")
			}
			for _, fm := range [][2]string{{"map", "key"}, {"struct", "tagname"}, {"ptr", "tagname"}} {
				for _, pos := range positions {
					if len(have) == 0 && pos == "expr" {
						continue
					}
					c := CaseA{Have: have, Vals: vs, VType: "string", Ctor: "newfs", Fill: fm[0], Addr: fm[1], Pos: pos, Name: name}
					if !f(c, excludedA(known, c)) {
						return
					}
				}
			}
		}
		// entry points other than Load.Fill.Assign.Render, with scalar and nested-map values
		for _, door := range []string{"renderfile", "inline-string", "inline-byte", "inline-reader", "view", "vue-render", "vue-fragment"} {
			vue := strings.HasPrefix(door, "vue-")
			if vue && mask&^0b101 != 0 {
				continue // Vue.Render: only front-matter (bit 0) and the passed data (bit 2)
			}
			for _, vt := range []string{"string", "map"} {
				vs := map[string]vals.V{}
				for _, s := range have {
					vs[s] = canon(vt, s, 0)
				}
				for _, fm := range [][2]string{{"map", "key"}, {"struct", "tag"}, {"ptr", "name"}} {
					if !vue && !run.Thorough() && fm[0] != "map" && (mask+len(door))%2 == 1 {
						continue // quick: struct carriers on a rotating half of the patterns
					}
					for _, pos := range positions {
						if len(have) == 0 && pos == "expr" {
							continue
						}
						if pos == "get" && door != "view" {
							continue
						}
						c := CaseA{Have: have, Vals: vs, VType: vt, Ctor: "newfs", Fill: fm[0], Addr: fm[1], Pos: pos, Door: door}
						if !f(c, excludedA(known, c)) {
							return
						}
					}
				}
			}
		}
		// read positions inside a v-for instance, alone and after a failed colliding render
		{
			vs := map[string]vals.V{}
			for _, s := range have {
				vs[s] = canon("string", s, 0)
			}
			for _, after := range []string{"", "pool", "engine", "template"} {
				for _, pos := range positions {
					if len(have) == 0 && pos == "expr" {
						continue
					}
					if pos == "get" && after != "template" {
						continue // Get is outside any loop; it matters after a failure on the template itself
					}
					if after != "" && !run.Thorough() && (mask+len(after))%2 == 1 {
						continue // quick: a rotating half of the patterns per variant
					}
					c := CaseA{Have: have, Vals: vs, VType: "string", Ctor: "newfs", Fill: "map", Addr: "key", Pos: pos, Loop: pos != "get", After: after}
					if !f(c, excludedA(known, c)) {
						return
					}
				}
			}
		}
		// other carrier shapes: typed maps, promoted fields of embedded structs
		for _, fm := range [][3]string{{"mapss", "key", "string"}, {"namedmap", "key", "string"}, {"mapint", "key", "int"}, {"embed", "name", "string"}, {"embed", "tag", "string"}, {"embedptr", "name", "string"}, {"embedptr", "tag", "string"}} {
			vs := map[string]vals.V{}
			for _, s := range have {
				idx := 0
				for i, o := range order {
					if o == s {
						idx = i
					}
				}
				vs[s] = canon(fm[2], s, idx)
			}
			for _, pos := range positions {
				if len(have) == 0 && pos == "expr" {
					continue
				}
				c := CaseA{Have: have, Vals: vs, VType: fm[2], Ctor: "newfs", Fill: fm[0], Addr: fm[1], Pos: pos}
				if !f(c, excludedA(known, c)) {
					return
				}
			}
		}
		// long front-matter lines: a neighbour key (and the key's own value) of 100 ... 70000 characters
		if mask&1 != 0 {
			for _, pad := range []int{100, 4000, 5000, 70000} {
				for _, own := range []bool{false, true} {
					if own && pad > 5000 {
						continue
					}
					vs := map[string]vals.V{}
					for _, s := range have {
						vs[s] = canon("string", s, 0)
					}
					c := CaseA{Have: have, Vals: vs, VType: "string", Ctor: "newfs", Fill: "map", Addr: "key", Pad: pad}
					if own {
						vs["fm"] = vals.Str("vfm" + strings.Repeat("w", pad))
						c.Pad = 0
					}
					for _, pos := range positions {
						if pad > 5000 && (pos == "expr" || pos == "attr") {
							continue // the largest size in three positions only (cost)
						}
						c.Pos = pos
						if !f(c, excludedA(known, c)) {
							return
						}
					}
				}
			}
		}
		// config files that are not a mapping, sorted before / between / after the ones that count
		for _, bad := range [][]string{{"before-list"}, {"between-scalar"}, {"after-broken"}, {"before-dupkeys"}, {"before-list", "between-scalar", "after-broken"}, {"theme"}, {"theme", "between-scalar"}} {
			if bad[0] == "theme" && mask&(1<<5) != 0 {
				continue
			}
			vs := map[string]vals.V{}
			for _, s := range have {
				vs[s] = canon("string", s, 0)
			}
			for _, pos := range positions {
				if len(have) == 0 && pos == "expr" {
					continue
				}
				c := CaseA{Have: have, Vals: vs, VType: "string", Ctor: "newfs", Fill: "map", Addr: "key", Pos: pos, Bad: bad}
				if !f(c, excludedA(known, c)) {
					return
				}
			}
		}
		// names that differ only in case from the key / the struct's field names: defined nowhere
		for _, fm := range [][2]string{{"map", "key"}, {"struct", "name"}, {"ptr", "name"}, {"struct", "tag"}, {"ptr", "tag"}, {"struct", "tagopt"}, {"ptr", "tagopt"}} {
			variants := []string{"KV", "Kv"}
			switch fm[1] {
			case "name":
				variants = []string{"kv", "KV", "kV"}
			case "tag", "tagopt":
				variants = []string{"fv", "FV", "KV", "Kv"}
			}
			vs := map[string]vals.V{}
			for _, s := range have {
				vs[s] = canon("string", s, 0)
			}
			for _, rd := range variants {
				for _, pos := range []string{"interp", "vif", "attr", "get"} {
					c := CaseA{Have: have, Vals: vs, VType: "string", Ctor: "newfs", Fill: fm[0], Addr: fm[1], Pos: pos, Read: rd}
					if !f(c, excludedA(known, c)) {
						return
					}
				}
			}
		}
		// the same files stored in the layers of an OverlayFS
		for _, store := range stores {
			vs := map[string]vals.V{}
			for _, s := range have {
				vs[s] = canon("string", s, 0)
			}
			for _, pos := range positions {
				for _, decoy := range []bool{false, true} {
					if len(have) == 0 && pos == "expr" {
						continue
					}
					c := CaseA{Have: have, Vals: vs, VType: "string", Ctor: "newfs", Fill: "map", Addr: "key", Pos: pos, Decoy: decoy, Store: store}
					if !f(c, excludedA(known, c)) {
						return
					}
				}
			}
		}
		// read sites inside a layout chain page -> layouts/post -> layouts/base, with the key also
		// (or only) in the front-matter of the middle and/or outer layout
		for _, site := range []string{"chain-page", "chain-mid", "chain-outer"} {
			for lm := 0; lm < 4; lm++ {
				h2 := append([]string(nil), have...)
				vs := map[string]vals.V{}
				for _, s := range have {
					vs[s] = canon("string", s, 0)
				}
				if lm&1 != 0 {
					h2 = append(h2, "lmid")
					vs["lmid"] = vals.Str("vlmid")
				}
				if lm&2 != 0 {
					h2 = append(h2, "louter")
					vs["louter"] = vals.Str("vlouter")
				}
				for _, fm := range [][2]string{{"map", "key"}, {"struct", "tag"}} {
					for _, pos := range positions {
						if pos == "get" && site != "chain-page" {
							continue // Get reads the page template, not a layout
						}
						c := CaseA{Have: h2, Vals: vs, VType: "string", Ctor: "newfs", Fill: fm[0], Addr: fm[1], Pos: pos, Site: site}
						if _, _, any := c.winner(); !any && pos == "expr" {
							continue
						}
						if !f(c, excludedA(known, c)) {
							return
						}
					}
				}
			}
		}
		// variables named like template functions (map data), with string values and with a null
		// given by the winning source; and null winners for the ordinary key as well
		for _, name := range append([]string{""}, funcNames...) {
			for _, null := range []bool{false, true} {
				if (name == "" && !null) || (null && len(have) == 0) {
					continue
				}
				vs := map[string]vals.V{}
				for i, s := range have {
					vs[s] = canon("string", s, 0)
					if null && i == 0 {
						vs[s] = vals.V{K: "nil", S: []string{"", "~", "null"}[mask%3]}
					}
				}
				for _, pos := range positions {
					if len(have) == 0 && pos == "expr" {
						continue
					}
					c := CaseA{Have: have, Vals: vs, VType: "string", Ctor: "newfs", Fill: "map", Addr: "key", Pos: pos, Name: name}
					if !f(c, excludedA(known, c)) {
						return
					}
				}
			}
		}
		for _, vt := range vtypes {
			// bool has only two values: the winner gets one, every loser the other, in both polarities
			variants := 1
			if vt == "bool" {
				variants = 2
			}
			for variant := 0; variant < variants; variant++ {
				vs := map[string]vals.V{}
				for _, s := range have {
					idx := 0
					for i, o := range order {
						if o == s {
							idx = i
						}
					}
					if vt == "bool" {
						vs[s] = vals.Bool((s == have[0]) == (variant == 0))
					} else {
						vs[s] = canon(vt, s, idx)
					}
				}
				for _, fm := range fillModes {
					for _, pos := range positions {
						for _, decoy := range []bool{false, true} {
							for _, ctor := range ctors {
								if !run.Thorough() && decoy != (ctor == "withfs") {
									// quick tier: the two side dimensions vary together (missing
									// sources + NewFS, decoy sources + New(WithFS)); thorough: full cross
									continue
								}
								if len(have) == 0 && pos == "expr" {
									continue // arithmetic on an undefined variable: unspecified, nothing to assert
								}
								c := CaseA{Have: have, Vals: vs, VType: vt, Ctor: ctor, Fill: fm[0], Addr: fm[1], Pos: pos, Decoy: decoy}
								if !f(c, excludedA(known, c)) {
									return
								}
							}
						}
						// mixed extensions among the data files (both define the key): the later NAME wins
						if mask&(1<<3) != 0 && mask&(1<<4) != 0 {
							for _, ext := range exts {
								c := CaseA{Have: have, Vals: vs, VType: vt, Ctor: "newfs", Fill: fm[0], Addr: fm[1], Pos: pos, Ext: ext}
								if !f(c, excludedA(known, c)) {
									return
								}
							}
						}
						// zero values: Fill (or Assign) gives the key its zero value ("", 0, nil list,
						// nil map; bool false is covered by the polarities above). The key is still
						// defined by that source, so it still beats every lower source.
						if vt == "bool" {
							continue
						}
						for _, at := range []string{"fill", "assign"} {
							if _, ok := vs[at]; !ok {
								continue
							}
							if (vt == "list" || vt == "map") && pos == "expr" {
								continue // indexing a nil list / map inside an expression: unspecified
							}
							zs := map[string]vals.V{}
							for s, v := range vs {
								zs[s] = v
							}
							zs[at] = zeroOf(vt)
							c := CaseA{Have: have, Vals: zs, VType: vt, Ctor: "newfs", Fill: fm[0], Addr: fm[1], Pos: pos}
							if !f(c, excludedA(known, c)) {
								return
							}
						}
					}
				}
			}
		}
	}
}

// excludedA names the open known finding whose input region contains c ("" = none).
func excludedA(known *kf.File, c CaseA) string {
	// Get returns the Assign value for a key of the file's own front-matter (render shows the
	// front-matter value): only the Get observation of fm+assign patterns is left out.
	if c.Pos == "get" && c.has("fm") && c.has("assign") && known.Open(findGetAssign) {
		return findGetAssign
	}
	// A struct passed to Fill cannot be read by the Go name of a JSON-tagged field once the page
	// is rendered: left out exactly where Fill is the expected winner (with front-matter or Assign
	// present those win, and that is still checked). Get alone still works when no config file
	// defines the name, so that corner stays in.
	if c.Addr == "field" && c.has("fill") && !c.has("fm") && !c.has("assign") && known.Open(findFieldName) {
		if c.Pos != "get" || c.has("db") || c.has("da") || c.has("theme") {
			return findFieldName
		}
	}
	// Typed maps / promoted fields reach the template only through the root-data fallback, which
	// ranks below the config files: left out exactly where Fill should win over a config file.
	if c.has("fill") && !c.has("fm") && !c.has("assign") && (c.has("db") || c.has("da") || c.has("theme")) {
		switch c.Fill {
		case "mapss", "mapint", "namedmap":
			if known.Open(findTypedMap) {
				return findTypedMap
			}
		case "embed", "embedptr":
			if known.Open(findPromoted) {
				return findPromoted
			}
		}
	}
	return ""
}

const (
	findTypedMap  = "C08-typed-map-loses-to-config"
	findPromoted  = "C08-promoted-field-loses-to-config"
	findGetAssign = "C08-get-assign-over-frontmatter"
	findFieldName = "C08-tagged-field-go-name-invisible"
)

func classifyA(c CaseA) (bool, []string) {
	w, _, _ := c.winner()
	if w == "" {
		w = "none"
	}
	cls := []string{
		"A", "pos=" + c.Pos, "vtype=" + c.VType, "fill=" + c.Fill + "/" + c.Addr,
		fmt.Sprintf("present=%d", len(c.Have)), "winner=" + w,
	}
	if c.Decoy {
		cls = append(cls, "decoy")
	}
	if nonASCII(c.Name) {
		cls = append(cls, "non-ascii-key", "non-ascii-key="+c.Name)
		if c.Addr == "tagname" {
			cls = append(cls, "struct-with-non-ascii-json-tag")
		}
	} else if c.Name != "" {
		cls = append(cls, "key-named-like-a-template-function")
	}
	if c.Door != "" {
		cls = append(cls, "door="+c.Door)
		if c.VType == "map" && len(c.Have) >= 2 {
			cls = append(cls, "nested-map-shadowing-through-another-door")
		}
	} else {
		cls = append(cls, "door=Load.Fill.Assign.Render")
	}
	if c.Loop {
		cls = append(cls, "read-inside-a-v-for-instance")
	}
	if c.After != "" {
		cls = append(cls, "after-failure="+c.After)
	}
	if c.Pad > 0 {
		cls = append(cls, fmt.Sprintf("front-matter-neighbour-line-of-%d-chars", c.Pad))
	}
	if v, ok := c.Vals["fm"]; ok && len(v.S) > 50 {
		cls = append(cls, fmt.Sprintf("front-matter-value-of-%d-chars", len(v.S)-3))
	}
	for _, b := range c.Bad {
		cls = append(cls, "non-mapping-config-file="+b)
	}
	if len(c.Bad) > 0 && (c.has("da") || c.has("db")) {
		cls = append(cls, "non-mapping-config-file-next-to-data-files-defining-the-key")
	}
	if c.Read != "" {
		cls = append(cls, "reads-a-case-variant-no-source-defines")
		if c.Fill != "map" && c.has("fill") {
			cls = append(cls, "case-variant-of-a-filled-struct-field")
		}
	}
	if c.Store == "dirfs" || c.Store == "dirfs-symlink" || c.Store == "sub" {
		cls = append(cls, "store="+c.Store)
	} else if c.Store != "" {
		cls = append(cls, "store=overlay/"+c.Store)
		if c.has("da") || c.has("db") {
			cls = append(cls, "overlay-with-data-files-defining-the-key")
		}
	} else {
		cls = append(cls, "store=single-fs")
	}
	if c.Site != "" {
		cls = append(cls, "site="+c.Site)
		if c.has("lmid") {
			cls = append(cls, "middle-layout-front-matter-defines-key")
		}
		if c.has("louter") {
			cls = append(cls, "outer-layout-front-matter-defines-key")
		}
		if c.Site == "chain-outer" && c.has("lmid") && !c.has("louter") {
			cls = append(cls, "outer-layout-reads-key-that-only-the-middle-layout-defines-in-the-chain")
		}
	} else {
		cls = append(cls, "site=page-without-layout")
	}
	if _, wv, ok := c.winner(); ok && isNull(wv) {
		cls = append(cls, "winner-gives-null", "null-from="+w)
		if c.Name != "" {
			cls = append(cls, "null-winner-for-a-function-named-key")
		}
	}
	if c.Ext != "" {
		cls = append(cls, "data-files="+c.Ext)
		if w == "db" {
			cls = append(cls, "data-files-differ-in-extension,later-name-wins")
		}
	} else {
		cls = append(cls, "data-files=yml+yml")
	}
	for _, s := range []string{"fill", "assign"} {
		if v, ok := c.Vals[s]; ok && c.has(s) && c.VType != "bool" && isZero(v) {
			cls = append(cls, "zero-value-from="+s)
			if w == s {
				cls = append(cls, "zero-value-wins-over-lower-source")
			}
		}
	}
	if c.Ctor == "withfs" {
		cls = append(cls, "ctor=New(WithFS)")
	} else {
		cls = append(cls, "ctor=NewFS")
	}
	return len(c.Have) >= 2, cls
}
