package c08

import (
	"bytes"
	"context"
	"fmt"
	"sort"
	"strings"

	"github.com/titpetric/vuego"

	"verif/internal/ev"
	"verif/internal/hx"
	"verif/internal/kf"
	"verif/internal/memfs"
	"verif/internal/vals"
)

// ---------------------------------------------------------------------------------------------
// Family A: one key, six sources.
//
// Sources, highest precedence first (statement + docs/data-loading.md "The precedence order"):
//
//	fm      front-matter of the rendered file page.vuego
//	assign  tpl.Assign(key, v), called AFTER Fill (a later call overrides an earlier one)
//	fill    tpl.Fill(map / struct / *struct)
//	db      data/b.yml   (data/ files are loaded in alphabetical order, later files override)
//	da      data/a.yml
//	theme   theme.yml    (loaded first, data/ overrides it)
//
// The call sequence is always NewFS(fsys).Load("page.vuego")[.Fill(x)][.Assign(k, v)], then
// either Render or Get. An Assign made before a later Fill is deliberately not part of this
// family (Fill is documented as "sets all variables", what it does to earlier Assigns of other
// keys is unspecified; family B models that as "unknown").
// ---------------------------------------------------------------------------------------------

var order = []string{"fm", "assign", "fill", "db", "da", "theme"}

var (
	vtypes    = []string{"string", "int", "bool", "list"}
	positions = []string{"interp", "expr", "vif", "attr", "get"}
	// Fill argument kind / how the key addresses it.
	//   map/key     map[string]any{"kv": v}                         key "kv"
	//   struct/name struct{ Kv T }            (no tag)               key "Kv"  (Go field name)
	//   struct/tag  struct{ Fv T `json:"kv"` }                       key "kv"  (JSON tag)
	//   struct/field same struct, addressed by its Go field name     key "Fv"
	//   ptr/...     pointer to the same structs
	fillModes = [][2]string{{"map", "key"}, {"struct", "name"}, {"struct", "tag"}, {"struct", "field"}, {"ptr", "name"}, {"ptr", "tag"}, {"ptr", "field"}}
)

// CaseA is one family-A case: pure data.
type CaseA struct {
	Have  []string          `json:"have"`            // sources that define the key (subset of order)
	Vals  map[string]vals.V `json:"vals"`            // the value each of them gives it
	VType string            `json:"vtype"`           // string | int | bool | list
	Fill  string            `json:"fill"`            // map | struct | ptr
	Addr  string            `json:"addr"`            // key | name | tag | field
	Pos   string            `json:"pos"`             // interp | expr | vif | attr | get
	Decoy bool              `json:"decoy,omitempty"` // absent sources exist/are called, but define another key
}

func (c CaseA) has(src string) bool {
	for _, s := range c.Have {
		if s == src {
			return true
		}
	}
	return false
}

// key is the variable name under test.
func (c CaseA) key() string {
	switch c.Addr {
	case "name":
		return "Kv"
	case "field":
		return "Fv"
	}
	return "kv"
}

// winner is the reference model: the first present source in the documented order.
func (c CaseA) winner() (string, vals.V, bool) {
	for _, s := range order {
		if c.has(s) {
			return s, c.Vals[s], true
		}
	}
	return "", vals.V{}, false
}

// Local struct types passed to Fill. Every one carries an unrelated second field.
type (
	nStr struct {
		Kv    string
		Extra string
	}
	nInt struct {
		Kv    int
		Extra string
	}
	nBool struct {
		Kv    bool
		Extra string
	}
	nList struct {
		Kv    []string
		Extra string
	}
	tStr struct {
		Fv    string `json:"kv"`
		Extra string `json:"extra"`
	}
	tInt struct {
		Fv    int    `json:"kv,omitempty"`
		Extra string `json:"extra"`
	}
	tBool struct {
		Fv    bool   `json:"kv"`
		Extra string `json:"extra"`
	}
	tList struct {
		Fv    []string `json:"kv"`
		Extra string   `json:"extra"`
	}
	decoyS struct {
		Zother string `json:"zother"`
	}
)

func strsOf(v vals.V) []string {
	out := make([]string, len(v.L))
	for i, e := range v.L {
		out[i] = e.S
	}
	return out
}

// fillArg builds the value handed to Fill.
func (c CaseA) fillArg(v vals.V) (any, error) {
	if c.Fill == "map" {
		return map[string]any{c.key(): v.Go(), "extra": "x"}, nil
	}
	tagged := c.Addr == "tag" || c.Addr == "field"
	var s, p any
	switch c.VType {
	case "string":
		if tagged {
			x := tStr{v.S, "x"}
			s, p = x, &x
		} else {
			x := nStr{v.S, "x"}
			s, p = x, &x
		}
	case "int":
		n, _ := v.Go().(int)
		if tagged {
			x := tInt{n, "x"}
			s, p = x, &x
		} else {
			x := nInt{n, "x"}
			s, p = x, &x
		}
	case "bool":
		b, _ := v.Go().(bool)
		if tagged {
			x := tBool{b, "x"}
			s, p = x, &x
		} else {
			x := nBool{b, "x"}
			s, p = x, &x
		}
	case "list":
		if tagged {
			x := tList{strsOf(v), "x"}
			s, p = x, &x
		} else {
			x := nList{strsOf(v), "x"}
			s, p = x, &x
		}
	default:
		return nil, fmt.Errorf("bad vtype %q", c.VType)
	}
	if c.Fill == "ptr" {
		return p, nil
	}
	return s, nil
}

func (c CaseA) decoyFill() any {
	switch c.Fill {
	case "map":
		return map[string]any{"zother": "decoyfill"}
	case "ptr":
		return &decoyS{"decoyfill"}
	}
	return decoyS{"decoyfill"}
}

// yamlOf renders "key: value" for a YAML source.
func yamlOf(key string, v vals.V) string {
	switch v.K {
	case "string", "int", "bool":
		return key + ": " + v.S + "\n"
	}
	return key + ": [" + strings.Join(strsOf(v), ", ") + "]\n"
}

// lit is the expression literal of a scalar.
func lit(v vals.V) string {
	if v.K == "string" {
		return "'" + v.S + "'"
	}
	return v.S
}

// body builds the page body for the read position.
func (c CaseA) body() string {
	k := c.key()
	_, wv, any := c.winner()
	var b strings.Builder
	b.WriteString("<div>\n")
	srcs := append([]string(nil), c.Have...)
	sort.Strings(srcs)
	switch {
	case c.VType == "list":
		switch c.Pos {
		case "interp":
			fmt.Fprintf(&b, `<p data-m="v0">{{ %s[0] }}</p><p data-m="v1">{{ %s[1] }}</p><i data-m="it" v-for="x in %s">{{ x }}</i>`, k, k, k)
		case "expr":
			fmt.Fprintf(&b, `<p data-m="v0">{{ %s[0] + '' }}</p><p data-m="v1">{{ %s[1] + '' }}</p>`, k, k)
			if any {
				fmt.Fprintf(&b, `<p data-m="w">{{ %s[0] == '%s' ? 'hit' : 'miss' }}</p>`, k, wv.L[0].S)
			}
		case "vif":
			for _, s := range srcs {
				fmt.Fprintf(&b, `<b data-m="is-%s" v-if="%s[0] == '%s'">x</b>`, s, k, c.Vals[s].L[0].S)
			}
		case "attr":
			fmt.Fprintf(&b, `<p data-m="v1" :data-x="%s[1]">x</p>`, k)
		}
	default:
		switch c.Pos {
		case "interp":
			fmt.Fprintf(&b, `<p data-m="v">{{ %s }}</p>`, k)
		case "expr":
			switch c.VType {
			case "string":
				fmt.Fprintf(&b, `<p data-m="v">{{ %s + '' }}</p>`, k)
			case "int":
				fmt.Fprintf(&b, `<p data-m="v">{{ %s + 0 }}</p>`, k)
			case "bool":
				fmt.Fprintf(&b, `<p data-m="v">{{ %s ? 'yes' : 'no' }}</p>`, k)
			}
			if any {
				fmt.Fprintf(&b, `<p data-m="w">{{ %s == %s ? 'hit' : 'miss' }}</p>`, k, lit(wv))
			}
		case "vif":
			if c.VType == "bool" {
				fmt.Fprintf(&b, `<b data-m="is-true" v-if="%s == true">x</b><b data-m="is-false" v-if="%s == false">x</b>`, k, k)
			} else {
				for _, s := range srcs {
					fmt.Fprintf(&b, `<b data-m="is-%s" v-if="%s == %s">x</b>`, s, k, lit(c.Vals[s]))
				}
			}
			fmt.Fprintf(&b, `<b data-m="truthy" v-if="%s">x</b><b data-m="falsy" v-if="!%s">x</b>`, k, k)
		case "attr":
			fmt.Fprintf(&b, `<p data-m="v" :data-x="%s">x</p>`, k)
		}
	}
	b.WriteString("\n</div>\n")
	return b.String()
}

// files builds the template filesystem of the case.
func (c CaseA) files() map[string]string {
	k := c.key()
	f := map[string]string{}
	page := ""
	switch {
	case c.has("fm"):
		page = "---\n" + yamlOf(k, c.Vals["fm"]) + "---\n"
	case c.Decoy:
		page = "---\nzother: decoyfm\n---\n"
	}
	f["page.vuego"] = page + c.body()
	for src, name := range map[string]string{"da": "data/a.yml", "db": "data/b.yml", "theme": "theme.yml"} {
		switch {
		case c.has(src):
			f[name] = yamlOf(k, c.Vals[src]) + "unrelated" + src + ": u\n"
		case c.Decoy:
			f[name] = "zother: decoy" + src + "\n"
		}
	}
	return f
}

func textOf(v vals.V) string { return v.S }

func checkA(c CaseA) error {
	for _, s := range c.Have {
		if _, ok := c.Vals[s]; !ok {
			return fmt.Errorf("malformed case: source %q has no value", s)
		}
	}
	k := c.key()
	wsrc, wv, any := c.winner()
	fsys := memfs.FromMap(c.files())

	tpl := vuego.NewFS(fsys).Load("page.vuego")
	switch {
	case c.has("fill"):
		arg, err := c.fillArg(c.Vals["fill"])
		if err != nil {
			return err
		}
		tpl = tpl.Fill(arg)
	case c.Decoy:
		tpl = tpl.Fill(c.decoyFill())
	}
	switch {
	case c.has("assign"):
		tpl = tpl.Assign(k, c.Vals["assign"].Go())
	case c.Decoy:
		tpl = tpl.Assign("zother", "decoyassign")
	}
	desc := fmt.Sprintf("key %q, sources %v (%s data addressed by %s), expected winner %q", k, c.Have, c.Fill, c.Addr, wsrc)

	// every recognisable value that must NOT be seen: the values of the losing sources
	losers := func(got string) error {
		if strings.Contains(got, "decoy") {
			return fmt.Errorf("%s: a value of an unrelated key leaked into %q: %q", desc, k, got)
		}
		if c.VType == "bool" {
			return nil // two values only; equality below is the check
		}
		for _, s := range c.Have {
			if s == wsrc {
				continue
			}
			toks := []string{c.Vals[s].S}
			if c.VType == "list" {
				toks = strsOf(c.Vals[s])
			}
			for _, tok := range toks {
				if strings.Contains(got, tok) {
					return fmt.Errorf("%s: saw %q, which is the value given by the lower-precedence source %q", desc, got, s)
				}
			}
		}
		return nil
	}

	if c.Pos == "get" {
		got := tpl.Get(k)
		if err := losers(got); err != nil {
			return fmt.Errorf("Get: %w", err)
		}
		if !any {
			return nil // undefined everywhere: the result of Get is not specified beyond "nothing leaks"
		}
		if c.VType == "list" {
			// the string form of a list is not specified: the winner's items must be mentioned
			for _, tok := range strsOf(wv) {
				if !strings.Contains(got, tok) {
					return fmt.Errorf("Get: %s: got %q, want the items of %v", desc, got, strsOf(wv))
				}
			}
			return nil
		}
		if got != textOf(wv) {
			return fmt.Errorf("Get: %s: got %q, want %q", desc, got, textOf(wv))
		}
		return nil
	}

	var out bytes.Buffer
	if err := tpl.Render(context.Background(), &out); err != nil {
		if !any {
			return nil // an undefined variable in an expression: unspecified
		}
		return fmt.Errorf("render (%s): %s: error %v", c.Pos, desc, err)
	}
	if err := losers(out.String()); err != nil {
		return fmt.Errorf("render (%s): %w; output %q", c.Pos, err, out.String())
	}
	nodes, err := hx.Frag(out.String(), hx.Collapse)
	if err != nil {
		return fmt.Errorf("output does not parse: %v", err)
	}
	marks := hx.Markers(nodes)
	byID := map[string][]hx.Marker{}
	var ids []string
	for _, m := range marks {
		byID[m.ID] = append(byID[m.ID], m)
		ids = append(ids, m.ID)
	}
	text := func(id string) (string, error) {
		ms := byID[id]
		if len(ms) != 1 {
			return "", fmt.Errorf("render (%s): %s: element %q appears %d times in %q", c.Pos, desc, id, len(ms), out.String())
		}
		return ms[0].Text, nil
	}
	wantText := func(id, want string) error {
		got, err := text(id)
		if err != nil {
			return err
		}
		if got != want {
			return fmt.Errorf("render (%s): %s: element %q shows %q, want %q", c.Pos, desc, id, got, want)
		}
		return nil
	}
	if !any {
		// no source defines the key: only "nothing leaks" (checked above) and no comparison hits
		for _, id := range ids {
			if strings.HasPrefix(id, "is-") {
				return fmt.Errorf("render (vif): %s: %q matched although no source defines the key", desc, id)
			}
		}
		return nil
	}

	if c.VType == "list" {
		items := strsOf(wv)
		switch c.Pos {
		case "interp":
			if err := wantText("v0", items[0]); err != nil {
				return err
			}
			if err := wantText("v1", items[1]); err != nil {
				return err
			}
			var got []string
			for _, m := range byID["it"] {
				got = append(got, m.Text)
			}
			if strings.Join(got, ",") != strings.Join(items, ",") {
				return fmt.Errorf("render (interp): %s: v-for over the key printed %v, want %v", desc, got, items)
			}
		case "expr":
			if err := wantText("v0", items[0]); err != nil {
				return err
			}
			if err := wantText("v1", items[1]); err != nil {
				return err
			}
			if err := wantText("w", "hit"); err != nil {
				return err
			}
		case "vif":
			var hits []string
			for _, id := range ids {
				if strings.HasPrefix(id, "is-") {
					hits = append(hits, id)
				}
			}
			if len(hits) != 1 || hits[0] != "is-"+wsrc {
				return fmt.Errorf("render (vif): %s: comparisons that held: %v, want [is-%s]", desc, hits, wsrc)
			}
		case "attr":
			ms := byID["v1"]
			if len(ms) != 1 {
				return fmt.Errorf("render (attr): %s: element missing in %q", desc, out.String())
			}
			if got := ms[0].Attrs["data-x"]; got != items[1] {
				return fmt.Errorf("render (attr): %s: bound attribute is %q, want %q", desc, got, items[1])
			}
		}
		return nil
	}

	want := textOf(wv)
	switch c.Pos {
	case "interp":
		return wantText("v", want)
	case "expr":
		w := want
		if c.VType == "bool" {
			w = map[string]string{"true": "yes", "false": "no"}[want]
		}
		if err := wantText("v", w); err != nil {
			return err
		}
		return wantText("w", "hit")
	case "vif":
		var hits []string
		for _, id := range ids {
			if strings.HasPrefix(id, "is-") {
				hits = append(hits, id)
			}
		}
		wantHit := "is-" + wsrc
		if c.VType == "bool" {
			wantHit = "is-" + want
		}
		if len(hits) != 1 || hits[0] != wantHit {
			return fmt.Errorf("render (vif): %s: comparisons that held: %v, want [%s]", desc, hits, wantHit)
		}
		// truthiness of the chosen value (docs/syntax.md: 0, false, "", nil are falsey; all values used
		// here except bool false are non-zero / non-empty)
		truthy := want != "false" || c.VType != "bool"
		_, sawT := byID["truthy"]
		_, sawF := byID["falsy"]
		if sawT != truthy || sawF == truthy {
			return fmt.Errorf("render (vif): %s: v-if=%q rendered=%v, v-if=%q rendered=%v, but the chosen value is %s", desc, k, sawT, "!"+k, sawF, want)
		}
	case "attr":
		ms := byID["v"]
		if len(ms) != 1 {
			return fmt.Errorf("render (attr): %s: element missing in %q", desc, out.String())
		}
		got, has := ms[0].Attrs["data-x"]
		if c.VType == "bool" && want == "false" {
			// whether a false binding is dropped or printed as "false" is not specified
			if has && got != "false" {
				return fmt.Errorf("render (attr): %s: bound attribute is %q for the value false", desc, got)
			}
			return nil
		}
		if !has || got != want {
			return fmt.Errorf("render (attr): %s: bound attribute is %q (present=%v), want %q", desc, got, has, want)
		}
	}
	return nil
}

// canonical values: distinct and recognisable per source.
func canon(vt, src string, idx int) vals.V {
	switch vt {
	case "string":
		return vals.Str("v" + src)
	case "int":
		return vals.Int(101 + idx)
	case "list":
		k := "[]string"
		if src == "assign" {
			k = "[]any"
		}
		return vals.List(k, vals.Str("L"+src+"1"), vals.Str("L"+src+"2"))
	}
	panic("canon: " + vt)
}

// enumA enumerates family A and calls f for each case until f returns false.
func enumA(rec *ev.Rec, f func(CaseA) bool) {
	known := kf.Load()
	_ = known
	for mask := 0; mask < 1<<len(order); mask++ {
		var have []string
		for i, s := range order {
			if mask&(1<<i) != 0 {
				have = append(have, s)
			}
		}
		for _, vt := range vtypes {
			// bool has only two values: the winner gets one, every loser the other, in both polarities
			variants := 1
			if vt == "bool" {
				variants = 2
			}
			for variant := 0; variant < variants; variant++ {
				vs := map[string]vals.V{}
				for _, s := range have {
					idx := 0
					for i, o := range order {
						if o == s {
							idx = i
						}
					}
					if vt == "bool" {
						vs[s] = vals.Bool((s == have[0]) == (variant == 0))
					} else {
						vs[s] = canon(vt, s, idx)
					}
				}
				for _, fm := range fillModes {
					for _, pos := range positions {
						for _, decoy := range []bool{false, true} {
							if len(have) == 0 && pos == "expr" {
								continue // arithmetic on an undefined variable: unspecified, nothing to assert
							}
							c := CaseA{Have: have, Vals: vs, VType: vt, Fill: fm[0], Addr: fm[1], Pos: pos, Decoy: decoy}
							if id := excludedA(known, c); id != "" {
								rec.Excluded(id)
								continue
							}
							if !f(c) {
								return
							}
						}
					}
				}
			}
		}
	}
}

// excludedA names the open known finding whose input region contains c ("" = none).
func excludedA(known *kf.File, c CaseA) string {
	// Get returns the Assign value for a key of the file's own front-matter (render shows the
	// front-matter value): only the Get observation of fm+assign patterns is left out.
	if c.Pos == "get" && c.has("fm") && c.has("assign") && known.Open(findGetAssign) {
		return findGetAssign
	}
	// A struct passed to Fill cannot be read by the Go name of a JSON-tagged field once the page
	// is rendered: left out exactly where Fill is the expected winner (with front-matter or Assign
	// present those win, and that is still checked). Get alone still works when no config file
	// defines the name, so that corner stays in.
	if c.Addr == "field" && c.has("fill") && !c.has("fm") && !c.has("assign") && known.Open(findFieldName) {
		if c.Pos != "get" || c.has("db") || c.has("da") || c.has("theme") {
			return findFieldName
		}
	}
	return ""
}

const (
	findGetAssign = "C08-get-assign-over-frontmatter"
	findFieldName = "C08-tagged-field-go-name-invisible"
)

func classifyA(c CaseA) (bool, []string) {
	w, _, _ := c.winner()
	if w == "" {
		w = "none"
	}
	cls := []string{
		"A", "pos=" + c.Pos, "vtype=" + c.VType, "fill=" + c.Fill + "/" + c.Addr,
		fmt.Sprintf("present=%d", len(c.Have)), "winner=" + w,
	}
	if c.Decoy {
		cls = append(cls, "decoy")
	}
	return len(c.Have) >= 2, cls
}
