package c08

import (
	"fmt"
	"os"
	"sort"
	"strings"
	"testing"

	"verif/internal/run"
)

// TestSurvey is a development aid (C08_SURVEY=1): it runs the whole family-A enumeration without
// stopping at the first failure and prints the failures grouped by shape.
func TestSurvey(t *testing.T) {
	if os.Getenv("C08_SURVEY") == "" {
		t.Skip("set C08_SURVEY=1")
	}
	groups := map[string]int{}
	sample := map[string]string{}
	total, failed := 0, 0
	enumA(func(c CaseA, excluded string) bool {
		if excluded != "" {
			return true
		}
		total++
		if err := run.Safe(func() error { return checkA(c) }); err != nil {
			failed++
			w, _, _ := c.winner()
			g := fmt.Sprintf("pos=%-6s fill=%s/%-5s winner=%-6s have=%s", c.Pos, c.Fill, c.Addr, w, strings.Join(c.Have, "+"))
			if os.Getenv("C08_SURVEY") == "short" {
				g = fmt.Sprintf("pos=%-6s fill=%s/%-5s winner=%-6s fm=%v assign=%v fill=%v", c.Pos, c.Fill, c.Addr, w, c.has("fm"), c.has("assign"), c.has("fill"))
			}
			groups[g]++
			if _, ok := sample[g]; !ok {
				sample[g] = err.Error()
			}
		}
		return true
	})
	var keys []string
	for k := range groups {
		keys = append(keys, k)
	}
	sort.Strings(keys)
	for _, k := range keys {
		msg := sample[k]
		if len(msg) > 300 {
			msg = msg[:300]
		}
		fmt.Printf("%4d  %s\n      %s\n", groups[k], k, msg)
	}
	fmt.Printf("family A: %d cases, %d failed, %d groups\n", total, failed, len(groups))
}
