package c08

import (
	"fmt"
	"io/fs"
	"sort"
	"strings"

	"github.com/titpetric/vuego"

	"verif/internal/memfs"
)

// Storage of the engine's files. docs/data-loading.md ("Behavior by Filesystem Type"): with a
// vuego.OverlayFS the config is loaded from the merged filesystem, the upper layer taking
// precedence. So distributing theme.yml, data/*.yml and the pages over the layers of an overlay
// must not change anything: the engine sees the union, an upper file shadows a lower one of the
// same name, and a directory that only some layers have is still a directory.
//
//	""            one in-memory filesystem
//	data-upper    upper: everything except theme.yml          lower: theme.yml (no data/ directory)
//	data-lower    upper: pages, layouts, theme.yml            lower: data/*
//	data-split    upper: pages, layouts, the later data file  lower: theme.yml, the earlier data file
//	shadow        upper: everything                           lower: the same config file names with
//	              other ("shadowed…") values for the same keys, which must never be seen
//	three         top: pages, layouts, the later data file    middle: the earlier data file   bottom: theme.yml
var stores = []string{"data-upper", "data-lower", "data-split", "shadow", "three"}

// buildFS distributes files as the store says. shadowKeys are the keys the shadowed copies define.
func buildFS(files map[string]string, store string, shadowKeys []string) (fs.FS, error) {
	if store == "" {
		return memfs.FromMap(files), nil
	}
	var data []string
	for name := range files {
		if strings.HasPrefix(name, "data/") {
			data = append(data, name)
		}
	}
	sort.Strings(data)
	later := ""
	if len(data) > 0 {
		later = data[len(data)-1]
	}
	layers := []map[string]string{{}, {}, {}}
	for name, content := range files {
		isData := strings.HasPrefix(name, "data/")
		isTheme := name == "theme.yml"
		at := 0
		switch store {
		case "data-upper":
			if isTheme {
				at = 1
			}
		case "data-lower":
			if isData {
				at = 1
			}
		case "data-split":
			if isTheme || (isData && name != later) {
				at = 1
			}
		case "shadow":
			if isData || isTheme {
				var sb strings.Builder
				for _, k := range shadowKeys {
					fmt.Fprintf(&sb, "%s: shadowed%s\n", k, k)
				}
				layers[1][name] = sb.String()
			}
		case "three":
			switch {
			case isTheme:
				at = 2
			case isData && name != later:
				at = 1
			}
		default:
			return nil, fmt.Errorf("malformed case: store %q", store)
		}
		layers[at][name] = content
	}
	if store == "three" {
		return vuego.NewOverlayFS(memfs.FromMap(layers[0]), memfs.FromMap(layers[1]), memfs.FromMap(layers[2])), nil
	}
	return vuego.NewOverlayFS(memfs.FromMap(layers[0]), memfs.FromMap(layers[1])), nil
}
