package c08

import (
	"fmt"
	"io/fs"
	"os"
	"path/filepath"
	"sort"
	"strings"

	"github.com/titpetric/vuego"

	"verif/internal/memfs"
)

// Storage of the engine's files. docs/data-loading.md ("Behavior by Filesystem Type"): with a
// vuego.OverlayFS the config is loaded from the merged filesystem, the upper layer taking
// precedence. So distributing theme.yml, data/*.yml and the pages over the layers of an overlay
// must not change anything: the engine sees the union, an upper file shadows a lower one of the
// same name, and a directory that only some layers have is still a directory.
//
//	""            one in-memory filesystem
//	data-upper    upper: everything except theme.yml          lower: theme.yml (no data/ directory)
//	data-lower    upper: pages, layouts, theme.yml            lower: data/*
//	data-split    upper: pages, layouts, the later data file  lower: theme.yml, the earlier data file
//	shadow        upper: everything                           lower: the same config file names with
//	              other ("shadowed…") values for the same keys, which must never be seen
//	three         top: pages, layouts, the later data file    middle: the earlier data file   bottom: theme.yml
//	dirfs         os.DirFS of a temporary directory (outside /verif and /repo, removed afterwards), plain files
//	dirfs-symlink the same, but theme.yml and every data/*.yml are SYMBOLIC LINKS to files kept
//	              outside the served tree (ConfigMap mounts, nix / stow trees): a link to a file is a file
//	sub           fs.Sub(memfs, "site") of a filesystem that keeps everything below site/
var stores = []string{"data-upper", "data-lower", "data-split", "shadow", "three", "dirfs", "dirfs-symlink", "sub"}

// diskFS writes files below a fresh temporary directory and serves them with os.DirFS.
func diskFS(files map[string]string, symlinks bool) (fs.FS, func(), error) {
	tmp, err := os.MkdirTemp("", "verif-c08-")
	if err != nil {
		return nil, nil, fmt.Errorf("harness: %w", err)
	}
	cleanup := func() { _ = os.RemoveAll(tmp) }
	root := filepath.Join(tmp, "root")
	real := filepath.Join(tmp, "real")
	for name, content := range files {
		dst := filepath.Join(root, filepath.FromSlash(name))
		if err := os.MkdirAll(filepath.Dir(dst), 0o755); err != nil {
			cleanup()
			return nil, nil, fmt.Errorf("harness: %w", err)
		}
		if symlinks && (name == "theme.yml" || strings.HasPrefix(name, "data/")) {
			target := filepath.Join(real, strings.ReplaceAll(name, "/", "_"))
			if err := os.MkdirAll(real, 0o755); err == nil {
				err = os.WriteFile(target, []byte(content), 0o644)
				if err == nil {
					err = os.Symlink(target, dst)
				}
			}
			if err != nil {
				cleanup()
				return nil, nil, fmt.Errorf("harness: %w", err)
			}
			continue
		}
		if err := os.WriteFile(dst, []byte(content), 0o644); err != nil {
			cleanup()
			return nil, nil, fmt.Errorf("harness: %w", err)
		}
	}
	if err := os.MkdirAll(root, 0o755); err != nil {
		cleanup()
		return nil, nil, fmt.Errorf("harness: %w", err)
	}
	return os.DirFS(root), cleanup, nil
}

// buildFS distributes files as the store says. shadowKeys are the keys the shadowed copies define.
func buildFS(files map[string]string, store string, shadowKeys []string) (fs.FS, func(), error) {
	none := func() {}
	switch store {
	case "":
		return memfs.FromMap(files), none, nil
	case "dirfs":
		return diskFS(files, false)
	case "dirfs-symlink":
		return diskFS(files, true)
	case "sub":
		below := map[string]string{"other/theme.yml": "zelsewhere: x\n"}
		for name, content := range files {
			below["site/"+name] = content
		}
		sub, err := fs.Sub(memfs.FromMap(below), "site")
		return sub, none, err
	}
	var data []string
	for name := range files {
		if strings.HasPrefix(name, "data/") {
			data = append(data, name)
		}
	}
	sort.Strings(data)
	later := ""
	if len(data) > 0 {
		later = data[len(data)-1]
	}
	layers := []map[string]string{{}, {}, {}}
	for name, content := range files {
		isData := strings.HasPrefix(name, "data/")
		isTheme := name == "theme.yml"
		at := 0
		switch store {
		case "data-upper":
			if isTheme {
				at = 1
			}
		case "data-lower":
			if isData {
				at = 1
			}
		case "data-split":
			if isTheme || (isData && name != later) {
				at = 1
			}
		case "shadow":
			if isData || isTheme {
				var sb strings.Builder
				for _, k := range shadowKeys {
					fmt.Fprintf(&sb, "%s: shadowed%s\n", k, k)
				}
				layers[1][name] = sb.String()
			}
		case "three":
			switch {
			case isTheme:
				at = 2
			case isData && name != later:
				at = 1
			}
		default:
			return nil, nil, fmt.Errorf("malformed case: store %q", store)
		}
		layers[at][name] = content
	}
	if store == "three" {
		return vuego.NewOverlayFS(memfs.FromMap(layers[0]), memfs.FromMap(layers[1]), memfs.FromMap(layers[2])), none, nil
	}
	return vuego.NewOverlayFS(memfs.FromMap(layers[0]), memfs.FromMap(layers[1])), none, nil
}
