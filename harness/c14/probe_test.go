package c14

import (
	"bytes"
	"context"
	"fmt"
	"testing"

	"github.com/titpetric/vuego"
)

func TestProbe(t *testing.T) {
	data := map[string]any{
		"t": true, "f": false, "s": "hello", "e": "", "z": 0, "n": 5, "nl": nil, "items": []any{"i1"}, "items2": []any{"i1", "i2"},
	}
	tpls := []string{
		`<div><p data-m="1" v-for="i in items" v-once>k</p></div>`,
		`<div><p data-m="1" v-for="i in items2" v-once>k</p></div>`,
		`<div><p v-for="i in items2"><b data-m="1" v-once>k</b></p></div>`,
		`<div><p data-m="1" v-for="i in items2" :title="i" lang="  x " class="a" :class="{b: t}" v-show="f">k</p></div>`,
		`<div><p data-m="1" v-for="i in items2" v-if="t" :title="i" v-show="f">k</p></div>`,
		`<div><p data-m="1" v-for="i in items2" v-html="s" :title="i" v-show="f">k</p></div>`,
		`<div><template v-for="i in items2"><p data-m="1" :title="i" v-show="f" title2="a{{ i }}">k</p></template></div>`,
		`<div><template v-if="t"><p data-m="1" :title="s" v-show="f" title2="a{{ s }}">k</p></template></div>`,
		`<div><template data-m="1" v-keep title=" q " lang="a{{ s }}" [v-if]="x">k</template></div>`,
		`<div><template data-m="1" v-keep v-if="t" title=" q " lang="a{{ s }}" [v-if]="x" :id="s">k</template></div>`,
		`<div><p data-m="1" title="a{{ s }}b" v-pre>k</p></div>`,
		`<div><p data-m="1" v-pre v-if="t" v-show="f" v-once v-html="s">k</p></div>`,
		`<div><p data-m="1" v-show="">k</p></div>`,
		`<div><p data-m="1" v-once :title="s" v-show="f">k</p></div>`,
		`<div><p data-m="1" title="x &amp; y" lang='a"b' :id="s">k</p></div>`,
		`<div><p data-m="1" title="" :id="s" hidden>k</p></div>`,
		`<div><p data-m="1" TITLE="Q" :ID="s" :dataFoo="s" dataBar="q">k</p></div>`,
		`<div><p data-m="1" :class="{'a': t, b : f}" class="">k</p></div>`,
		`<div><p data-m="1" style="" :style="{color: 'red'}">k</p></div>`,
		`<div><p data-m="1" style="color: red" :style="e">k</p></div>`,
		`<div><p data-m="1" style="color: red;" :style="{'--x': s, color: n}">k</p></div>`,
	}
	for _, tpl := range tpls {
		var buf bytes.Buffer
		err := vuego.New().Fill(data).RenderString(context.Background(), &buf, tpl)
		fmt.Printf("%s\n  => %q err=%v\n", tpl, buf.String(), err)
	}
}
