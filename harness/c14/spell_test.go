package c14

// Spelling: documented-equivalent ways to write the same thing must give the same element.
// Expr is a small operator expression as the value of a bound attribute, a v-show condition or
// an object-syntax entry, printed spaced (`a + 1`), tight (`a+1`) or with the word operators
// (`a and b`, `not a`); the other spelling switches live on Attr (Upper, Quote, Obj).

import (
	"strconv"

	"verif/internal/vals"
)

// Expr: Op over the path A and the operand B.
//
//   - - *            A an int path, B an int literal      -> int
//     < > <= >= == !=  A an int path, B an int literal      -> bool
//     && ||            A and B bool paths                   -> bool
//     !                A a bool path                        -> bool
//     ??               A a path, B a string literal         -> A unless A is nil / undefined
type Expr struct {
	Op string `json:"op"`
	A  string `json:"a"`
	B  string `json:"b,omitempty"`
	Sp string `json:"sp,omitempty"` // "" spaced, tight, word
}

func (x *Expr) src() string {
	b := x.B
	if x.Op == "??" {
		b = "'" + x.B + "'"
	}
	op := x.Op
	if x.Sp == "word" {
		switch x.Op {
		case "&&":
			op = "and"
		case "||":
			op = "or"
		case "!":
			return "not " + x.A
		}
	}
	if x.Op == "!" {
		if x.Sp == "tight" {
			return "!" + x.A
		}
		return "! " + x.A
	}
	if x.Sp == "tight" && op == x.Op {
		return x.A + op + b
	}
	return x.A + " " + op + " " + b
}

// exprVal evaluates the expression over the case's data; known=false when an operand is not of
// the kind the operator is modelled for (nothing is asserted then).
func (c Case) exprVal(x *Expr, k int) (vals.V, bool) {
	a := c.lookup(x.A, k)
	switch x.Op {
	case "+", "-", "*", "<", ">", "<=", ">=", "==", "!=":
		if a.K != "int" {
			return vals.Missing(), false
		}
		l, _ := strconv.Atoi(a.S)
		r, err := strconv.Atoi(x.B)
		if err != nil {
			return vals.Missing(), false
		}
		switch x.Op {
		case "+":
			return vals.Int(l + r), true
		case "-":
			return vals.Int(l - r), true
		case "*":
			return vals.Int(l * r), true
		case "<":
			return vals.Bool(l < r), true
		case ">":
			return vals.Bool(l > r), true
		case "<=":
			return vals.Bool(l <= r), true
		case ">=":
			return vals.Bool(l >= r), true
		case "==":
			return vals.Bool(l == r), true
		default:
			return vals.Bool(l != r), true
		}
	case "&&", "||":
		b := c.lookup(x.B, k)
		if a.K != "bool" || b.K != "bool" {
			return vals.Missing(), false
		}
		if x.Op == "&&" {
			return vals.Bool(a.S == "true" && b.S == "true"), true
		}
		return vals.Bool(a.S == "true" || b.S == "true"), true
	case "!":
		if a.K != "bool" {
			return vals.Missing(), false
		}
		return vals.Bool(a.S != "true"), true
	case "??":
		switch a.K {
		case "nil", "missing":
			return vals.Str(x.B), true
		case "string", "int":
			return a, true
		}
	}
	return vals.Missing(), false
}

// boundVal is the value a bind / vbind / show attribute evaluates to.
func (c Case) boundVal(a Attr, k int) (vals.V, bool) {
	if a.X != nil {
		return c.exprVal(a.X, k)
	}
	return c.lookup(a.Text, k), true
}

var (
	exprOps   = []string{"+", "-", "*", "<", ">", "<=", ">=", "==", "!=", "&&", "||", "!", "??"}
	exprSps   = []string{"", "tight", "word"}
	objStyles = []string{"", "tight", "comma", "lines"}
	quotes    = []string{"", "'", "none"}
)
