package c14

// Value kinds beyond verif/internal/vals that this property needs: named scalar types, types
// with a String method, time.Duration, json.Number, []byte, and a struct whose collection fields
// are nil when nothing was loaded into them. goValue builds the Go value, truthyOf gives the
// documented truthiness.

import (
	"encoding/json"
	"net/url"
	"strconv"
	"strings"
	"time"

	"verif/internal/vals"
)

type (
	// Ratio, Qty, Name, Flag: named types over the basic kinds.
	Ratio float32
	Qty   int
	Name  string
	Flag  bool
	// Level has a String method on the value receiver, Money on the pointer receiver.
	Level uint8
	Money struct{ Cents int }
	// Post is a record whose collections stay nil unless they were filled.
	Post struct {
		Title  string
		Tags   []string
		Labels map[string]string
	}
)

func (l Level) String() string { return "level-" + strconv.Itoa(int(l)) }
func (m *Money) String() string {
	return strconv.Itoa(m.Cents/100) + "." + strconv.Itoa(m.Cents%100 + 100)[1:] + " EUR"
}

// goValue builds the Go value described by v.
func goValue(v vals.V) any {
	switch v.K {
	case "Ratio":
		f, _ := strconv.ParseFloat(v.S, 32)
		return Ratio(f)
	case "Qty":
		n, _ := strconv.Atoi(v.S)
		return Qty(n)
	case "Name":
		return Name(v.S)
	case "Flag":
		return Flag(v.S == "true")
	case "Level":
		n, _ := strconv.Atoi(v.S)
		return Level(n)
	case "*Money":
		n, _ := strconv.Atoi(v.S)
		return &Money{Cents: n}
	case "duration":
		n, _ := strconv.ParseInt(v.S, 10, 64)
		return time.Duration(n)
	case "jsonnum":
		return json.Number(v.S)
	case "bytes":
		return []byte(v.S)
	case "url":
		u, _ := url.Parse(v.S)
		return u
	case "nilbytes":
		return []byte(nil)
	case "nilmapss":
		return map[string]string(nil)
	case "post":
		p := Post{Title: v.M["Title"].S}
		if t, ok := v.M["Tags"]; ok {
			p.Tags = make([]string, len(t.L))
			for i, e := range t.L {
				p.Tags[i] = e.S
			}
		}
		if l, ok := v.M["Labels"]; ok {
			p.Labels = map[string]string{}
			for k, e := range l.M {
				p.Labels[k] = e.S
			}
		}
		return p
	}
	return v.Go()
}

// postField resolves p.Tags / p.Labels / p.Title on a "post" description: a collection that is
// not described is the nil slice / nil map of the zero struct.
func postField(p vals.V, field string) vals.V {
	switch field {
	case "Title":
		return vals.Str(p.M["Title"].S)
	case "Tags":
		if t, ok := p.M["Tags"]; ok {
			return vals.V{K: "[]string", L: t.L}
		}
		return vals.V{K: "nil[]string"}
	case "Labels":
		if l, ok := p.M["Labels"]; ok {
			return vals.V{K: "mapss", M: l.M}
		}
		return vals.V{K: "nilmapss"}
	}
	return vals.Missing()
}

// truthyOf is the documented truthiness (docs/syntax.md: `0`, `false`, `""`, `nil` are falsy,
// "any other value" is truthy) and whether the documentation settles it.
//
// Slices and maps: the docs do not list empty collections among the falsy values, so an empty
// slice / map is "any other value". A nil slice or nil map is the same empty collection to a
// template (it prints as [] / map[], has no elements, is not the value nil: in Go `any(s) != nil`);
// a struct field that was never filled holds one. It is taken as truthy like the empty one.
// Typed nil POINTERS stay unsettled (vals.V.Truthy), as does the text "false".
func truthyOf(v vals.V) (truthy, specified bool) {
	switch v.K {
	case "nil[]any", "nil[]string", "nilmap", "nilmapss", "nilbytes":
		return true, true
	case "Ratio":
		f, _ := strconv.ParseFloat(v.S, 32)
		return f != 0, true
	case "Qty", "Level", "duration":
		return strings.TrimLeft(v.S, "-0") != "", true
	case "Name", "jsonnum":
		if v.S == "false" {
			return false, false
		}
		return v.S != "", true
	case "Flag":
		return v.S == "true", true
	case "*Money", "bytes", "post", "url":
		return true, true
	}
	return v.Truthy()
}
