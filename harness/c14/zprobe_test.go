package c14

import (
	"bytes"
	"context"
	"fmt"
	"testing"

	"github.com/titpetric/vuego"
	"verif/internal/memfs"
)

func TestProbe(t *testing.T) {
	data := map[string]any{"rows": []any{map[string]any{"on": true, "v": "r1"}, map[string]any{"on": false, "v": "r2"}, map[string]any{"on": true, "v": "r3"}}, "f": false}
	comps := map[string]string{
		"loop":  `<ul><li v-for="it in rows"><slot name="hdr" :on="it.on" :v="it.v"></slot></li></ul>`,
		"twice": `<section><slot name="hdr" :on="true" :v="'a'"></slot><hr><slot name="hdr" :on="false" :v="'b'"></slot></section>`,
		"dloop": `<ul><li v-for="it in rows"><slot :on="it.on" :v="it.v"></slot></li></ul>`,
		"dtwice": `<section><slot></slot><hr><slot></slot></section>`,
	}
	pages := []string{
		`<div><template include="comp.vuego" :rows="rows"><template v-slot:hdr="sp"><p data-m="1" style="color: red" v-show="sp.on" :title="sp.v" :class="{k: sp.on}">k</p></template></template></div>`,
		`<div><template include="comp.vuego" :rows="rows"><template #hdr="sp"><p data-m="1" style="color: red" class="c" v-show="sp.on">k</p></template></template></div>`,
		`<div><template include="comp.vuego" :rows="rows"><template v-slot="sp"><p data-m="1" style="color: red" v-show="sp.on" :title="sp.v">k</p></template></template></div>`,
		`<div><template include="comp.vuego" :rows="rows"><p data-m="1" style="color: red" v-show="f" title="a{{ f }}">k</p></template></div>`,
	}
	for cn, comp := range comps {
		for _, page := range pages {
			var buf bytes.Buffer
			err := vuego.NewFS(memfs.FromMap(map[string]string{"page.vuego": page, "comp.vuego": comp})).Load("page.vuego").Fill(data).Render(context.Background(), &buf)
			fmt.Printf("%s | %s\n => %q err=%v\n", cn, page, buf.String(), err)
		}
	}
}
