package c14

// Entry points and data delivery: the same page and the same data must give the same element
// whichever door they come through.
//
//	Entry   string / byte / reader   Template.RenderString / RenderByte / RenderReader (inline)
//	        load                      NewFS(fs).Load("page.vuego") ... Render
//	        file                      Template.RenderFile("page.vuego")
//	        vue-render / vue-fragment Vue.Render / Vue.RenderFragment("page.vuego", data)
//	        vue-nodes                 Vue.RenderNodes(nodes parsed here, data)
//	Deliver fill        Fill(map)
//	        assign      Assign key by key (sorted)
//	        fill+assign Fill with every other key, Assign for the rest
//	        (the Vue entry points take the data as an argument)

import (
	"bytes"
	"context"
	"sort"
	"strings"

	"github.com/titpetric/vuego"
	"golang.org/x/net/html"
	"golang.org/x/net/html/atom"

	"verif/internal/hx"
	"verif/internal/memfs"
)

// parseOut reads the output the way a client without scripting does (noscript content is markup).
func parseOut(out string) ([]*hx.N, error) {
	body := &html.Node{Type: html.ElementNode, Data: "body", DataAtom: atom.Body}
	nodes, err := html.ParseFragmentWithOptions(strings.NewReader(out), body, html.ParseOptionEnableScripting(false))
	if err != nil {
		return nil, err
	}
	return hx.Norm(nodes, hx.Collapse, false), nil
}

func renderEntry(c Case) (string, error) {
	page, files := c.source()
	if files == nil {
		files = map[string]string{}
	}
	files["page.vuego"] = page
	ctx := context.Background()
	data := c.goData()
	keys := make([]string, 0, len(data))
	for k := range data {
		keys = append(keys, k)
	}
	sort.Strings(keys)

	deliver := func(t vuego.Template) vuego.Template {
		switch c.Deliver {
		case "assign":
			for _, k := range keys {
				t = t.Assign(k, data[k])
			}
		case "fill+assign":
			part := map[string]any{}
			for i, k := range keys {
				if i%2 == 0 {
					part[k] = data[k]
				}
			}
			t = t.Fill(part)
			for i, k := range keys {
				if i%2 == 1 {
					t = t.Assign(k, data[k])
				}
			}
		default:
			t = t.Fill(data)
		}
		return t
	}
	mk := func() vuego.Template {
		t := vuego.NewFS(memfs.FromMap(files), vuego.WithFuncs(failFuncs))
		if c.Entry == "load" {
			t = t.Load("page.vuego")
		}
		return deliver(t)
	}
	vueEntry := strings.HasPrefix(c.Entry, "vue-")
	after := c.After
	if after == "tpl" && (c.dir("v-once") || vueEntry) {
		after = "pool"
	}
	var t vuego.Template
	switch after {
	case "pool":
		var sink bytes.Buffer
		_ = mk().RenderString(ctx, &sink, c.failSource())
		if !vueEntry {
			t = mk()
		}
	case "tpl":
		t = mk()
		var sink bytes.Buffer
		_ = t.RenderString(ctx, &sink, c.failSource())
	default:
		if !vueEntry {
			t = mk()
		}
	}
	var buf bytes.Buffer
	var err error
	switch c.Entry {
	case "string":
		err = t.RenderString(ctx, &buf, page)
	case "byte":
		err = t.RenderByte(ctx, &buf, []byte(page))
	case "reader":
		err = t.RenderReader(ctx, &buf, strings.NewReader(page))
	case "load":
		err = t.Render(ctx, &buf)
	case "file":
		err = t.RenderFile(ctx, &buf, "page.vuego")
	case "vue-render":
		err = vuego.NewVue(memfs.FromMap(files)).Funcs(failFuncs).Render(&buf, "page.vuego", data)
	case "vue-fragment":
		err = vuego.NewVue(memfs.FromMap(files)).Funcs(failFuncs).RenderFragment(&buf, "page.vuego", data)
	case "vue-nodes":
		body := &html.Node{Type: html.ElementNode, Data: "body", DataAtom: atom.Body}
		nodes, perr := html.ParseFragmentWithOptions(strings.NewReader(page), body, html.ParseOptionEnableScripting(false))
		if perr != nil {
			return "", perr
		}
		err = vuego.NewVue(memfs.FromMap(files)).Funcs(failFuncs).RenderNodes(&buf, nodes, data)
	}
	return buf.String(), err
}

var entries = []string{"string", "byte", "reader", "load", "file", "vue-render", "vue-fragment", "vue-nodes"}
var deliveries = []string{"fill", "assign", "fill+assign"}
