package c14

// Generators: a bounded exhaustive core (every single attribute form x value table x placement)
// and a rapid generator that builds elements by construction (never by rejection). Open known
// findings narrow the generated region: enumerated cases inside a region are skipped, generated
// ones are moved out of it by a deterministic repair; both are counted with rec.Excluded.

import (
	"fmt"
	"strconv"
	"strings"
	"testing"

	"pgregory.net/rapid"

	"verif/internal/ev"
	"verif/internal/kf"
	"verif/internal/run"
	"verif/internal/vals"
)

// known-finding ids (see /verif/findings.d/c14.json; the class-object defects are recorded by C03
// and its ids are reused here, /verif/findings.d/c03.json)
const (
	fTrim    = "C14-static-value-trimmed"               // static / bracketed values lose leading and trailing whitespace
	fObjNil  = "C03-class-object-nil-adds-class"        // :class="{k: x}" adds k when x is nil / undefined (value stringified to "<nil>")
	fObjStr  = "C03-class-object-string-reparsed"       // :class="{k: x}" drops k for non-empty strings that re-parse as zero / blank
	fChain   = "C14-vshow-skipped-in-if-chain"          // v-show on an element that also carries v-if / v-else-if / v-else is ignored
	fDisplay = "C14-vshow-lost-under-bound-display"     // a bound style declaring `display` overrides v-show's display:none
	fKeep    = "C14-vkeep-template-attrs-unevaluated"   // <template v-keep>: bound / interpolated / v-show attributes are not evaluated
	fClsFmt  = "C14-class-merge-nonstring-format"       // class="a" :class="n" with a non-string n renders "a %!s(int=5)"
	fQuote   = "C14-style-object-value-quotes-stripped" // :style="{k: v}": a quote at either end of v is cut off
	fSemi    = "C14-style-semicolon-in-value-cut"       // a ';' inside url(...) or quotes cuts the declaration when the style is rebuilt
)

// other ids under which the same defects may be listed (either one closes the region)
var aliases = map[string][]string{
	fObjNil: {"C03-class-object-stringified", "C14-class-object-stringified"},
	fObjStr: {"C03-class-object-stringified", "C14-class-object-stringified"},
	fChain:  {"C03-vshow-on-chain-member-ignored"},
}

type findings struct {
	open map[string]bool
	rec  *ev.Rec
}

func loadFindings(rec *ev.Rec) *findings {
	f := kf.Load()
	o := map[string]bool{}
	for _, id := range []string{fTrim, fObjNil, fObjStr, fChain, fDisplay, fKeep, fClsFmt, fQuote, fSemi} {
		o[id] = f.Open(id)
		for _, alt := range aliases[id] {
			o[id] = o[id] || f.Open(alt)
		}
	}
	return &findings{open: o, rec: rec}
}

func edgeWS(s string) bool { return s != strings.TrimSpace(s) }

// nilRegion / reparsedRegion: values for which "stringify, then test" disagrees with the
// documented truthiness: nil / undefined (printed as "<nil>", a non-empty string) and non-empty
// strings that are blank or read as the number zero.
func nilRegion(v vals.V) bool { return v.K == "nil" || v.K == "missing" }

func reparsedRegion(v vals.V) bool {
	if v.K != "string" || v.S == "" {
		return false
	}
	t := strings.TrimSpace(v.S)
	if t == "" {
		return true
	}
	f, err := strconv.ParseFloat(t, 64)
	return err == nil && f == 0
}

// objRegion reports which class-object regions the case touches.
func (c Case) objRegion() (isNil, reparsed bool) {
	for _, a := range c.Attrs {
		if (a.Kind == "obj" || a.Kind == "vobj") && a.Name == "class" {
			for _, p := range a.Pairs {
				if p.Src != "path" && p.Src != "str" {
					continue
				}
				for k := 0; k < c.instances(); k++ {
					v, _, _ := c.pairVal(p, k)
					isNil = isNil || nilRegion(v)
					reparsed = reparsed || reparsedRegion(v)
				}
			}
		}
	}
	return
}

func (c Case) showFalsy() bool {
	for _, a := range c.Attrs {
		if a.Kind != "show" {
			continue
		}
		for k := 0; k < c.instances(); k++ {
			var t, spec bool
			if a.Gt != nil {
				_, t, spec = c.pairVal(Pair{Src: "gt", Arg: a.Text, N: *a.Gt}, k)
			} else {
				t, spec = truthyOf(c.lookup(a.Text, k))
			}
			if spec && !t {
				return true
			}
		}
	}
	return false
}

func (c Case) boundDisplay() bool {
	for _, a := range c.Attrs {
		if a.Name != "style" {
			continue
		}
		switch a.Kind {
		case "bind", "vbind":
			for k := 0; k < c.instances(); k++ {
				if v := c.lookup(a.Text, k); v.K == "string" {
					for _, d := range parseDecls(v.S) {
						if d.prop == "display" {
							return true
						}
					}
				}
			}
		case "obj", "vobj":
			for _, p := range a.Pairs {
				if kebab(p.Key) == "display" {
					return true
				}
			}
		}
	}
	return false
}

// classFmtRegion: a static class merged with a bound class whose value is truthy and not a string.
func (c Case) classFmtRegion() []string {
	if !c.has("static", "class") && !c.has("interp", "class") {
		return nil
	}
	var paths []string
	for _, a := range c.Attrs {
		if a.Name == "class" && (a.Kind == "bind" || a.Kind == "vbind") {
			for k := 0; k < c.instances(); k++ {
				v := c.lookup(a.Text, k)
				if t, spec := truthyOf(v); v.K != "string" && (t || !spec) {
					paths = append(paths, a.Text)
					break
				}
			}
		}
	}
	return paths
}

func edgeQuote(s string) bool {
	s = strings.TrimSpace(s)
	return s != "" && (strings.ContainsAny(s[:1], "'\"") || strings.ContainsAny(s[len(s)-1:], "'\""))
}

// quoteRegion lists the data paths of style-object values that start or end with a quote.
func (c Case) quoteRegion() []string {
	var paths []string
	for _, a := range c.Attrs {
		if (a.Kind == "obj" || a.Kind == "vobj") && a.Name == "style" {
			for _, p := range a.Pairs {
				if p.Src != "path" {
					continue
				}
				for k := 0; k < c.instances(); k++ {
					if v := c.lookup(p.Arg, k); v.K == "string" && edgeQuote(v.S) {
						paths = append(paths, p.Arg)
						break
					}
				}
			}
		}
	}
	return paths
}

// semiRegion: some style text of the case (static, bound string, object value) has a ';' inside
// parentheses or quotes.
func (c Case) semiRegion() bool {
	for _, a := range c.Attrs {
		if a.Name != "style" {
			continue
		}
		switch a.Kind {
		case "static":
			if innerSemicolon(a.Text) {
				return true
			}
		case "bind", "vbind":
			for k := 0; k < c.instances(); k++ {
				if v := c.lookup(a.Text, k); v.K == "string" && innerSemicolon(v.S) {
					return true
				}
			}
		case "obj", "vobj":
			for _, p := range a.Pairs {
				for k := 0; k < c.instances(); k++ {
					if v, _, _ := c.pairVal(p, k); v.K == "string" && innerSemicolon(v.S) {
						return true
					}
				}
			}
		}
	}
	return false
}

// noInnerSemicolon rewrites the semicolons inside parentheses / quotes to commas.
func noInnerSemicolon(s string) string {
	parts := splitDecls(s)
	for i := range parts {
		parts[i] = strings.ReplaceAll(parts[i], ";", ",")
	}
	// splitDecls cut at the separating semicolons only; whatever ';' is left inside a part is inner
	return strings.Join(parts, ";")
}

func dynamicKind(k string) bool {
	switch k {
	case "interp", "bind", "vbind", "obj", "vobj", "show":
		return true
	}
	return false
}

// regions lists the open known findings whose input region contains c.
func (f *findings) regions(c Case) []string {
	var out []string
	if f.open[fTrim] && !c.dir("v-pre") {
		for _, a := range c.Attrs {
			if a.Name == "class" || a.Name == "style" {
				continue // compared as tokens / declarations: edge whitespace is immaterial there
			}
			hit := false
			switch a.Kind {
			case "static":
				hit = edgeWS(a.Text)
			case "interp":
				hit = strings.TrimLeft(a.Text, " ") != a.Text || strings.TrimRight(a.Post, " ") != a.Post
			case "lit":
				if a.Path == "" {
					hit = edgeWS(a.Text)
				} else {
					hit = strings.TrimLeft(a.Text, " ") != a.Text || strings.TrimRight(a.Post, " ") != a.Post
				}
			}
			if hit {
				out = append(out, fTrim)
				break
			}
		}
	}
	isNil, reparsed := c.objRegion()
	if f.open[fObjNil] && isNil {
		out = append(out, fObjNil)
	}
	if f.open[fObjStr] && reparsed {
		out = append(out, fObjStr)
	}
	if f.open[fChain] && c.inChain() && c.showFalsy() {
		out = append(out, fChain)
	}
	if f.open[fDisplay] && c.showFalsy() && c.boundDisplay() {
		out = append(out, fDisplay)
	}
	if f.open[fClsFmt] && len(c.classFmtRegion()) > 0 {
		out = append(out, fClsFmt)
	}
	if f.open[fQuote] && len(c.quoteRegion()) > 0 {
		out = append(out, fQuote)
	}
	if f.open[fSemi] && c.semiRegion() {
		out = append(out, fSemi)
	}
	if f.open[fKeep] && c.Tag == "template" {
		for _, a := range c.Attrs {
			if dynamicKind(a.Kind) {
				out = append(out, fKeep)
				break
			}
		}
	}
	return out
}

// repair moves a generated case out of every open region (deterministically, by rewriting the
// offending part only) and counts the exclusions.
func (f *findings) repair(c Case) Case {
	for _, id := range f.regions(c) {
		if f.rec != nil {
			f.rec.Excluded(id)
		}
		switch id {
		case fTrim:
			for i, a := range c.Attrs {
				if a.Name == "class" || a.Name == "style" {
					continue
				}
				switch a.Kind {
				case "static":
					c.Attrs[i].Text = strings.TrimSpace(a.Text)
				case "interp", "lit":
					if a.Path == "" {
						c.Attrs[i].Text = strings.TrimSpace(a.Text)
					} else {
						c.Attrs[i].Text = strings.TrimLeft(a.Text, " ")
						c.Attrs[i].Post = strings.TrimRight(a.Post, " ")
					}
				}
			}
		case fObjNil, fObjStr:
			for i, a := range c.Attrs {
				if (a.Kind == "obj" || a.Kind == "vobj") && a.Name == "class" {
					for j, p := range a.Pairs {
						if p.Src != "path" && p.Src != "str" {
							continue
						}
						for k := 0; k < c.instances(); k++ {
							v, _, _ := c.pairVal(p, k)
							switch {
							case id == fObjNil && nilRegion(v):
								c.Data[p.Arg] = vals.Bool(false) // same documented truthiness, outside the region
							case id == fObjStr && reparsedRegion(v) && p.Src == "str":
								c.Attrs[i].Pairs[j].Arg = "x"
							case id == fObjStr && reparsedRegion(v):
								c.Data[p.Arg] = vals.Str("x")
							}
						}
					}
				}
			}
		case fChain:
			for _, a := range c.Attrs {
				if a.Kind == "show" {
					if a.Gt != nil {
						c.Data[a.Text] = vals.Int(*a.Gt + 1)
					} else if a.Text != forVar {
						c.Data[a.Text] = vals.Bool(true)
					}
				}
			}
		case fDisplay:
			for i, a := range c.Attrs {
				if a.Name != "style" {
					continue
				}
				switch a.Kind {
				case "bind", "vbind":
					if v := c.lookup(a.Text, 0); v.K == "string" && a.Text != forVar {
						c.Data[a.Text] = vals.Str(strings.ReplaceAll(v.S, "display", "opacity"))
					}
				case "obj", "vobj":
					for j, p := range a.Pairs {
						if kebab(p.Key) == "display" {
							c.Attrs[i].Pairs[j].Key = "opacity"
						}
					}
				}
			}
		case fClsFmt:
			for _, p := range c.classFmtRegion() {
				c.Data[p] = vals.Str("b1")
			}
		case fSemi:
			for i, a := range c.Attrs {
				if a.Name != "style" {
					continue
				}
				switch a.Kind {
				case "static":
					c.Attrs[i].Text = noInnerSemicolon(a.Text)
				case "bind", "vbind":
					if v, ok := c.Data[a.Text]; ok && v.K == "string" {
						c.Data[a.Text] = vals.Str(noInnerSemicolon(v.S))
					}
				case "obj", "vobj":
					for j, p := range a.Pairs {
						if p.Src == "str" {
							c.Attrs[i].Pairs[j].Arg = noInnerSemicolon(p.Arg)
						} else if v, ok := c.Data[p.Arg]; ok && v.K == "string" {
							c.Data[p.Arg] = vals.Str(noInnerSemicolon(v.S))
						}
					}
				}
			}
		case fQuote:
			for _, p := range c.quoteRegion() {
				if !strings.HasPrefix(p, slotVar+".") && p != forVar {
					c.Data[p] = vals.Str("local('a b'), serif") // quotes inside the value only
				}
			}
		case fKeep:
			var kept []Attr
			for _, a := range c.Attrs {
				if !dynamicKind(a.Kind) {
					kept = append(kept, a)
				}
			}
			c.Attrs = kept
		}
	}
	return c
}

// ---------------------------------------------------------------- classification

func isSpecialString(v vals.V) bool {
	if v.K != "string" {
		return false
	}
	for _, s := range specialStrings() {
		if s.S == v.S {
			return true
		}
	}
	return false
}

func isOddName(n string) bool {
	for _, o := range oddNames {
		if o == n {
			return true
		}
	}
	return false
}

func isFuncName(c Case, p string) bool {
	if _, ok := c.Data[p]; ok {
		return false
	}
	for _, f := range funcNames {
		if f == p {
			return true
		}
	}
	return false
}

func nonASCII(s string) bool {
	for _, r := range s {
		if r >= 0x80 {
			return true
		}
	}
	return false
}

func classify(c Case) (bool, []string) {
	var cls []string
	add := func(s string) { cls = append(cls, s) }
	for _, a := range c.Attrs {
		mixed := func(s string) bool { return nonASCII(s) && strings.ContainsAny(s, "&<>\"'\r") }
		switch a.Kind {
		case "static", "lit":
			if nonASCII(a.Text) {
				add("non-ascii:" + a.Kind)
				if mixed(a.Text) {
					add("non-ascii+escaped:" + a.Kind)
				}
			}
		case "interp":
			if v := c.lookup(a.Path, 0); nonASCII(a.Text+a.Post) || (v.K == "string" && nonASCII(v.S)) {
				add("non-ascii:interpolated")
			}
		case "bind", "vbind", "show":
			if nonASCII(a.Text) {
				add("non-ascii:variable-name")
			}
			if v := c.lookup(a.Text, 0); v.K == "string" && nonASCII(v.S) {
				add("non-ascii:bound-value")
				if mixed(v.S) {
					add("non-ascii+escaped:bound-value")
				}
			}
		case "obj", "vobj":
			for _, p := range a.Pairs {
				if nonASCII(p.Key) {
					add("non-ascii:" + a.Name + "-object-key")
				}
				if nonASCII(p.Arg) {
					add("non-ascii:object-value-or-name")
				}
			}
		}
	}
	for _, a := range c.Attrs {
		xs := []*Expr{a.X}
		for _, p := range a.Pairs {
			xs = append(xs, p.X)
		}
		for _, x := range xs {
			if x != nil {
				sp := x.Sp
				if sp == "" {
					sp = "spaced"
				}
				add("spelling:expr-" + sp)
				add("spelling:op " + x.Op)
			}
		}
		if a.Upper {
			add("spelling:upper-case-name(" + a.Kind + ")")
		}
		if a.Quote != "" {
			add("spelling:quote-" + a.Quote)
		}
		if a.Obj != "" {
			add("spelling:object-" + a.Obj)
		}
	}
	if c.Entry == "" {
		add("entry:legacy(RenderString | Load.Fill.Render)")
	} else {
		add("entry:" + c.Entry)
		d := c.Deliver
		if d == "" {
			d = "fill"
		}
		add("deliver:" + d)
		for _, a := range c.Attrs {
			if a.Kind == "bind" || a.Kind == "vbind" {
				switch v := c.lookup(a.Text, 0); v.K {
				case "rec", "*rec", "post", "url", "time", "outer", "*Money", "Level", "duration", "jsonnum":
					add("deliver:" + d + "+struct-or-stringer-value")
				}
			}
		}
	}
	for _, a := range c.Attrs {
		switch a.Kind {
		case "bind", "vbind":
			if isFuncName(c, a.Text) {
				add("function-name-as-value:bound-" + map[bool]string{true: "class-or-style", false: "attribute"}[a.Name == "class" || a.Name == "style"])
			}
		case "show":
			if a.Gt == nil && isFuncName(c, a.Text) {
				add("function-name-as-value:v-show")
			}
		case "obj", "vobj":
			for _, p := range a.Pairs {
				if p.Src == "path" && isFuncName(c, p.Arg) {
					add("function-name-as-value:" + a.Name + "-object")
				}
			}
		}
	}
	if c.After != "" {
		add("after-failure:" + c.After)
		if c.has("interp", "") {
			add("after-failure:" + c.After + "+interpolated-attribute")
		}
	}
	{
		coll := func(where string, v vals.V) {
			switch v.K {
			case "nil[]any", "nil[]string", "nilmap", "nilmapss", "nilbytes":
				add("collection:nil(" + where + ")")
			case "[]any", "[]string", "[]int", "map", "mapss", "bytes":
				if len(v.L) == 0 && len(v.M) == 0 && v.S == "" {
					add("collection:empty(" + where + ")")
				} else {
					add("collection:filled(" + where + ")")
				}
			}
		}
		for _, a := range c.Attrs {
			switch a.Kind {
			case "bind", "vbind":
				coll("bound", c.lookup(a.Text, 0))
				if strings.HasPrefix(a.Text, "p.") {
					add("path:struct-field")
				}
			case "show":
				if a.Gt == nil {
					coll("v-show", c.lookup(a.Text, 0))
				}
			case "obj", "vobj":
				for _, p := range a.Pairs {
					if p.Src == "path" {
						coll(a.Name+"-object", c.lookup(p.Arg, 0))
					}
				}
			}
		}
	}
	for _, a := range c.Attrs {
		if a.Name == "class" || a.Name == "style" {
			continue
		}
		brk := func(s string) bool { return strings.ContainsAny(s, "\r\n") }
		switch a.Kind {
		case "static":
			if brk(a.Text) {
				add("line-break:static")
			}
		case "interp":
			if v := c.lookup(a.Path, 0); brk(a.Text) || brk(a.Post) || (v.K == "string" && brk(v.S)) {
				add("line-break:interpolated")
			}
		case "lit":
			if brk(a.Text) || brk(a.Post) {
				add("line-break:bracketed")
			}
		case "bind", "vbind":
			if v := c.lookup(a.Text, 0); v.K == "string" && brk(v.S) {
				add("line-break:bound")
			}
		}
	}
	for _, a := range c.Attrs {
		if isOddName(a.Name) {
			add("odd-name:" + a.Kind)
			if strings.HasPrefix(a.Name, "data-v-") {
				add("odd-name:data-v-*")
			}
		}
	}
	{
		// the style's own display declaration crossed with v-show
		own := ""
		for _, a := range c.Attrs {
			if a.Name != "style" {
				continue
			}
			switch a.Kind {
			case "static":
				for _, d := range parseDecls(a.Text) {
					if d.prop == "display" {
						own = "static-" + d.val
					}
				}
			case "bind", "vbind":
				if v := c.lookup(a.Text, 0); v.K == "string" {
					for _, d := range parseDecls(v.S) {
						if d.prop == "display" {
							own = "bound-string-" + d.val
						}
					}
				}
			case "obj", "vobj":
				for _, p := range a.Pairs {
					if v, _, _ := c.pairVal(p, 0); kebab(p.Key) == "display" && v.K == "string" {
						own = "object-" + v.S
					}
				}
			}
		}
		if own != "" {
			show := "absent"
			if c.has("show", "") {
				show = "truthy-or-unspecified"
				if c.showFalsy() {
					show = "falsy"
				}
			}
			if strings.HasSuffix(own, "-none") {
				add("own-display:" + own + "+v-show-" + show)
			} else {
				add("own-display:other+v-show-" + show)
			}
		}
	}
	for _, a := range c.Attrs {
		switch a.Kind {
		case "bind", "vbind":
			if isSpecialString(c.lookup(a.Text, 0)) {
				add("special-string:bound-" + map[bool]string{true: "class-or-style", false: "attribute"}[a.Name == "class" || a.Name == "style"])
			}
		case "obj", "vobj":
			for _, p := range a.Pairs {
				if v, _, _ := c.pairVal(p, 0); p.Src == "path" && isSpecialString(v) {
					add("special-string:" + a.Name + "-object-value")
				}
			}
		case "show":
			if a.Gt == nil && isSpecialString(c.lookup(a.Text, 0)) {
				add("special-string:v-show")
			}
		}
	}
	add("tag:" + c.Tag)
	if c.Place == "" {
		add("place:div")
	} else {
		add("place:" + c.Place)
	}
	dyn := 0
	boundN := 0
	kinds := map[string]int{}
	names := map[string][]string{}
	for _, a := range c.Attrs {
		kinds[a.Kind]++
		names[a.Name] = append(names[a.Name], a.Kind)
		if dynamicKind(a.Kind) {
			dyn++
		}
		switch a.Kind {
		case "static":
			if a.Name != "data-m" && a.Name != "class" && a.Name != "style" {
				add("form:static")
				if edgeWS(a.Text) {
					add("form:static-edge-whitespace")
				}
			}
		case "interp":
			add("form:interp")
		case "bind", "vbind":
			boundN++
			add("form:" + a.Kind)
			v := c.lookup(a.Text, 0)
			t, spec := truthyOf(v)
			switch {
			case !spec:
				add("bound:unspecified-truthiness")
			case t:
				add("bound:truthy")
			default:
				add("bound:falsy")
			}
			add("kind:" + v.K)
			if a.Text == forVar {
				add("bound:loop-variable")
			}
		case "obj", "vobj":
			boundN++
			add("form:" + a.Kind + "-" + a.Name)
			for _, p := range a.Pairs {
				v, t, spec := c.pairVal(p, 0)
				lbl := "falsy"
				if !spec {
					lbl = "unspecified"
				} else if t {
					lbl = "truthy"
				}
				add("obj-" + a.Name + "-value:" + lbl)
				add("obj-src:" + p.Src)
				if p.Src == "tern" {
					neg := map[bool]string{true: "negated-", false: ""}[p.Neg]
					add("obj-" + a.Name + "-ternary:" + neg + p.Alt)
				}
				if p.Src == "not" {
					add("obj-" + a.Name + "-negation")
				}
				if p.Src == "path" {
					add("kind:" + v.K)
				}
				if a.Name == "style" && kebab(p.Key) != p.Key {
					add("style-key:camelCase")
				}
				if strings.HasPrefix(p.Key, "--") {
					add("style-key:custom-property")
				}
			}
		case "show":
			var t, spec bool
			if a.Gt != nil {
				_, t, spec = c.pairVal(Pair{Src: "gt", Arg: a.Text, N: *a.Gt}, 0)
				add("show:comparison")
			} else {
				v := c.lookup(a.Text, 0)
				t, spec = truthyOf(v)
				add("kind:" + v.K)
			}
			switch {
			case !spec:
				add("show:unspecified")
			case t:
				add("show:truthy")
			default:
				add("show:falsy")
			}
		case "dir":
			add("dir:" + a.Name)
		case "lit":
			if a.Path != "" {
				add("form:lit-mustache")
			} else {
				add("form:lit")
			}
			if leaky(a.Name) {
				add("form:lit-directive-name")
			}
		}
	}
	merge := false
	for n, ks := range names {
		st, bd := false, false
		for _, k := range ks {
			switch k {
			case "static", "interp":
				st = true
			case "bind", "vbind", "obj", "vobj":
				bd = true
			}
		}
		if st && bd {
			switch n {
			case "class":
				add("class:static+bound")
				merge = true
			case "style":
				add("style:static+bound")
				merge = true
			default:
				add("form:static+bound-twin")
			}
		} else if bd && (n == "class" || n == "style") {
			add(n + ":bound-only")
		} else if st && (n == "class" || n == "style") && len(ks) == 1 {
			add(n + ":static-only")
		}
	}
	if kinds["show"] > 0 && len(names["style"]) > 0 {
		add("style:with-v-show")
		merge = true
	}
	// does a bound declaration override a static one?
	for _, a := range c.Attrs {
		if a.Kind == "static" && a.Name == "style" {
			st := map[string]bool{}
			for _, d := range parseDecls(a.Text) {
				st[d.prop] = true
			}
			for _, b := range c.Attrs {
				if b.Name != "style" {
					continue
				}
				switch b.Kind {
				case "obj", "vobj":
					for _, p := range b.Pairs {
						if st[kebab(p.Key)] {
							add("style:override")
						} else {
							add("style:addition")
						}
					}
				case "bind", "vbind":
					if v := c.lookup(b.Text, 0); v.K == "string" {
						for _, d := range parseDecls(v.S) {
							if st[d.prop] {
								add("style:override")
							}
						}
					}
				}
			}
		}
	}
	{
		punct := func(where, v string) {
			if strings.Contains(v, ":") {
				add("style-value:colon(" + where + ")")
			}
			if strings.Contains(v, "!important") {
				add("style-value:!important")
			}
			if strings.ContainsAny(v, "'\"") {
				add("style-value:quotes")
			}
			if strings.ContainsAny(v, "(),/") {
				add("style-value:parens-commas-slashes")
			}
			if strings.Contains(v, ";") {
				add("style-value:inner-semicolon(" + where + ")")
			}
			if strings.Contains(v, "\\") {
				add("style-value:backslash-escape(" + where + ")")
			}
			if edgeQuote(v) {
				add("style-value:quote-at-edge(" + where + ")")
			}
		}
		staticColon, rebuilt := false, false
		for _, a := range c.Attrs {
			if a.Name != "style" && a.Kind != "show" {
				continue
			}
			switch a.Kind {
			case "static":
				for _, d := range parseDecls(a.Text) {
					punct("static", d.val)
					staticColon = staticColon || strings.Contains(d.val, ":")
				}
			case "bind", "vbind":
				if v := c.lookup(a.Text, 0); v.K == "string" {
					for _, d := range parseDecls(v.S) {
						punct("bound-string", d.val)
					}
					if t, spec := truthyOf(v); t && spec {
						rebuilt = true
					}
				}
			case "obj", "vobj":
				for _, p := range a.Pairs {
					if v, _, _ := c.pairVal(p, 0); v.K == "string" {
						punct("object", v.S)
					}
				}
				rebuilt = true
			case "show":
				if c.showFalsy() {
					rebuilt = true
				}
			}
		}
		if staticColon && rebuilt {
			add("style:static-colon-value-rebuilt")
		}
	}
	if multiSlot[c.Place] {
		add(fmt.Sprintf("slot-instances=%d", c.instances()))
		onlyShow := kinds["show"] > 0
		for _, a := range c.Attrs {
			if dynamicKind(a.Kind) && a.Kind != "show" {
				onlyShow = false
			}
		}
		if onlyShow {
			add("slot:all-static+v-show")
			if c.has("static", "style") {
				add("slot:all-static+v-show+static-style")
			}
		}
		usesProps := false
		for _, a := range c.Attrs {
			if strings.HasPrefix(a.Text, slotVar+".") || strings.HasPrefix(a.Path, slotVar+".") {
				usesProps = true
			}
			for _, p := range a.Pairs {
				if strings.HasPrefix(p.Arg, slotVar+".") {
					usesProps = true
				}
			}
		}
		if usesProps {
			add("slot:uses-slot-props")
		}
		for _, a := range c.Attrs {
			if a.Kind != "show" || a.Gt != nil {
				continue
			}
			sawFalsy, mixed, falsyFirst := false, false, false
			var first *bool
			for k := 0; k < c.instances(); k++ {
				t, spec := truthyOf(c.lookup(a.Text, k))
				if !spec {
					continue
				}
				if first == nil {
					first = &t
				} else if t != *first {
					mixed = true
				}
				if t && sawFalsy {
					falsyFirst = true
				}
				if !t {
					sawFalsy = true
				}
			}
			if mixed {
				add("slot:v-show-differs-between-instances")
			}
			if falsyFirst {
				add("slot:falsy-instance-before-truthy")
				if onlyShow && c.has("static", "style") {
					add("slot:all-static+falsy-before-truthy")
				}
			}
		}
	}
	if boundN >= 2 {
		add("several-bound-attributes")
	}
	add(fmt.Sprintf("dynamic=%d", min(dyn, 6)))
	return dyn >= 2 || merge || (multiSlot[c.Place] && dyn >= 1), cls
}

// ---------------------------------------------------------------- value tables

// specialStrings look like falsy values but are ordinary non-empty strings: docs/syntax.md lists
// false, 0, "" and nil as falsy, "any other value" is truthy. Only the exact text "false" is left
// open (vals.V.Truthy), its case and spacing variants are not.
func specialStrings() []vals.V {
	var out []vals.V
	for _, s := range []string{"False", "FALSE", "fAlSe", "True", "TRUE", "Null", "NIL", "nil", "null", "undefined", "0.0", "00", "-0", " false", "false ", "no", "off", "NaN"} {
		out = append(out, vals.Str(s))
	}
	return out
}

// scalarForms: scalars of every Go type whose printed form is easy to get wrong: non-dyadic
// float32, float64 in exponent notation, integer extremes, named types, String methods,
// time.Duration, json.Number, []byte - the oracle is fmt.Sprint of the value.
func scalarForms() []vals.V {
	n := vals.Num
	k := func(kind, s string) vals.V { return vals.V{K: kind, S: s} }
	return []vals.V{
		n("float32", "0.1"), n("float32", "0.35"), n("float32", "2.7"), n("float32", "16777217"), n("float32", "1e-7"),
		n("float64", "0.1"), n("float64", "1e21"), n("float64", "1e-7"), n("float64", "100000000"), n("float64", "123456789.125"), n("float64", "2.7"),
		n("int8", "-128"), n("int8", "127"), n("int16", "-32768"), n("int32", "2147483647"), n("int64", "-9223372036854775808"), n("int64", "9223372036854775807"),
		n("uint8", "255"), n("uint16", "65535"), n("uint32", "4294967295"), n("uint64", "18446744073709551615"), n("uint", "18446744073709551615"), n("int", "-9223372036854775808"),
		k("Ratio", "0.1"), k("Ratio", "0"), k("Qty", "5"), k("Qty", "0"), k("Name", "nm"), k("Name", ""), k("Flag", "true"), k("Flag", "false"),
		k("Level", "3"), k("Level", "0"), k("*Money", "1250"), k("duration", "1500000000"), k("duration", "0"), k("jsonnum", "12.50"), k("jsonnum", "0"),
		k("bytes", "ab"), k("bytes", ""), k("nilbytes", ""), k("nilmapss", ""), k("url", "https://x.test/a/b?q=1#f"),
	}
}

// funcNames are identifiers that name a function of the default function map, or the function
// every case registers itself (boom), and no variable: as a value they are exactly like an
// absent variable (bound attribute omitted, class key off, style property not asserted, v-show
// falsy).
var funcNames = []string{"title", "upper", "lower", "len", "trim", "default", "json", "escape", "int", "string", "type", "jsonPretty", "formatTime", "boom"}

// postVariants: a record whose collections are nil, empty or filled.
func postVariants() []vals.V {
	tags := func(l ...vals.V) vals.V { return vals.V{K: "[]string", L: append([]vals.V{}, l...)} }
	labels := func(m map[string]vals.V) vals.V { return vals.V{K: "mapss", M: m} }
	return []vals.V{
		{K: "post", M: map[string]vals.V{"Title": vals.Str("t")}}, // Tags and Labels nil
		{K: "post", M: map[string]vals.V{"Title": vals.Str("t"), "Tags": tags(), "Labels": labels(map[string]vals.V{})}},
		{K: "post", M: map[string]vals.V{"Title": vals.Str("t"), "Tags": tags(vals.Str("a"), vals.Str("b")), "Labels": labels(map[string]vals.V{"k": vals.Str("v")})}},
		{K: "post", M: map[string]vals.V{"Title": vals.Str(""), "Tags": tags(vals.Str("a"))}}, // Labels nil, Tags filled
	}
}

func tableVals() []vals.V {
	out := append(vals.Scalars(), vals.Containers()...)
	out = append(out, scalarForms()...)
	out = append(out, specialStrings()...)
	out = append(out,
		vals.Str("b1 b2"), vals.Str("hello"),
		vals.Str("color:red"), vals.Str("color: red; width: 2px;"), vals.Str("font-size:3px;margin:0"), vals.Str("display:block"),
		vals.Num("float64", "1.5"), vals.Int(42),
		// CSS punctuation: as a style-object value, as a bound declaration list
		vals.Str("url(https://x.test/v.png)"), vals.Str("red !important"), vals.Str("rgba(1, 2, 3, 0.5)"), vals.Str("local('a b'), serif"),
		vals.Str("background-image: url(https://x.test/z.png); color: red"), vals.Str(`font-family: "Open Sans", serif; width: calc(50% + 1px)`),
		vals.Str("background: url(http://h.test:8080/p.png) no-repeat; color: red !important"),
		// text beyond ASCII next to the escaped characters
		vals.Str("Müller & Söhne"), vals.Str("東京 <Tōkyō>"), vals.Str("Tom's 🍕"), vals.Str("d'été"), vals.Str("e\u0301 \"q\" & é"), vals.Str("вкл>выкл\rx"), vals.Str("größe 見出し"),
		vals.Str("font-family: '明朝', serif; content: \"é & ü\""),
		// line breaks, tabs, runs of blanks
		vals.Str("first line\nsecond  line"), vals.Str("a\r\nb"), vals.Str("\ttab\n"), vals.Str("x\ry"), vals.Str("p\n\nq"),
		// backslash escapes inside quoted strings
		vals.Str(`"x\";y"`), vals.Str(`'it\'s;ok'`), vals.Str(`content: "x\";y"; width: 2px`), vals.Str(`--e: 'a\\'; color: red`),
		// display declarations of the style itself
		vals.Str("none"), vals.Str("flex"), vals.Str("display: none; color: red"), vals.Str("width: 1px; display :  none ;"), vals.Str("DISPLAY: none"),
		// ';' inside a value; quotes at the ends of a value
		vals.Str("url(data:image/png;base64,CCCC)"), vals.Str("'a;b:c'"), vals.Str(`"Open Sans", serif`), vals.Str("serif, 'Open Sans'"),
		vals.Str("background: url(data:image/png;base64,BBBB); color: red"), vals.Str(`content: "x;y:z"; width: 2px`))
	return out
}

func marker() Attr { return Attr{Kind: "static", Name: "data-m", Text: "1"} }

// ---------------------------------------------------------------- exhaustive core

type form struct {
	name  string
	attrs func(x string) []Attr
}

func coreForms() []form {
	st := func(n, v string) Attr { return Attr{Kind: "static", Name: n, Text: v} }
	return []form{
		{"bind", func(x string) []Attr { return []Attr{{Kind: "bind", Name: "title", Text: x}} }},
		{"vbind", func(x string) []Attr { return []Attr{{Kind: "vbind", Name: "title", Text: x}} }},
		{"two-bound", func(x string) []Attr {
			return []Attr{{Kind: "bind", Name: "title", Text: x}, {Kind: "vbind", Name: "id", Text: x}, {Kind: "bind", Name: "alt", Text: "other"}}
		}},
		{"twin", func(x string) []Attr { return []Attr{st("title", "st"), {Kind: "bind", Name: "title", Text: x}} }},
		{"interp", func(x string) []Attr { return []Attr{{Kind: "interp", Name: "title", Text: "a", Path: x, Post: "b"}} }},
		{"class-bind", func(x string) []Attr { return []Attr{{Kind: "bind", Name: "class", Text: x}} }},
		{"class-static+bind", func(x string) []Attr {
			return []Attr{st("class", "s1 s2"), {Kind: "bind", Name: "class", Text: x}}
		}},
		{"class-bind+static", func(x string) []Attr {
			return []Attr{{Kind: "vbind", Name: "class", Text: x}, st("class", "s1")}
		}},
		{"class-obj", func(x string) []Attr {
			return []Attr{{Kind: "obj", Name: "class", Pairs: []Pair{{Key: "k1", Src: "path", Arg: x}}}}
		}},
		{"class-static+obj", func(x string) []Attr {
			return []Attr{st("class", "s1"), {Kind: "obj", Name: "class", Pairs: []Pair{
				{Key: "k1", Src: "path", Arg: x}, {Key: "k-2", Q: true, Src: "bool", Arg: "true"}, {Key: "k3", Src: "bool", Arg: "false"}, {Key: "k4", Src: "gt", Arg: "five", N: 1}}}}
		}},
		{"style-bind", func(x string) []Attr { return []Attr{{Kind: "bind", Name: "style", Text: x}} }},
		{"style-static+bind", func(x string) []Attr {
			return []Attr{st("style", "color: blue; padding: 1px"), {Kind: "bind", Name: "style", Text: x}}
		}},
		{"style-obj", func(x string) []Attr {
			return []Attr{{Kind: "obj", Name: "style", Pairs: []Pair{{Key: "color", Src: "path", Arg: x}}}}
		}},
		{"style-static+obj", func(x string) []Attr {
			return []Attr{st("style", "color: blue; padding: 1px; font-size: 9px"), {Kind: "vobj", Name: "style", Pairs: []Pair{
				{Key: "color", Src: "path", Arg: x}, {Key: "fontSize", Src: "str", Arg: "12px"}, {Key: "--x", Q: true, Src: "path", Arg: x}, {Key: "borderTopWidth", Src: "num", Arg: "2"}, {Key: "--myVar", Q: true, Src: "str", Arg: "7"}}}}
		}},
		{"style-obj+static", func(x string) []Attr {
			return []Attr{{Kind: "obj", Name: "style", Pairs: []Pair{{Key: "backgroundColor", Src: "path", Arg: x}, {Key: "width", Src: "str", Arg: "1px"}}}, st("style", "width:3px;background-color:blue;")}
		}},
		{"show", func(x string) []Attr { return []Attr{{Kind: "show", Text: x}} }},
		{"show+static-style", func(x string) []Attr {
			return []Attr{st("style", "display: block; color: blue"), {Kind: "show", Text: x}}
		}},
		{"show+bound-style", func(x string) []Attr {
			return []Attr{{Kind: "show", Text: x}, {Kind: "obj", Name: "style", Pairs: []Pair{{Key: "color", Src: "str", Arg: "red"}}}, st("style", "color: blue")}
		}},
		{"style-rich-static+show", func(x string) []Attr {
			return []Attr{st("style", `background-image: url(https://x.test/y.png); color: blue !important; font-family: 'Open Sans', serif; content: "a:b"`), {Kind: "show", Text: x}}
		}},
		{"style-rich-static+obj", func(x string) []Attr {
			return []Attr{st("style", "background: url(//cdn.test:8080/a.png) no-repeat; width: calc(100% - 2px); transition: color 0.3s ease-in, width 1s"), {Kind: "obj", Name: "style", Pairs: []Pair{
				{Key: "color", Src: "path", Arg: x}, {Key: "backgroundImage", Src: "path", Arg: "rich"}, {Key: "width", Src: "str", Arg: "calc(50% + 1px)"}}}}
		}},
		{"style-rich-obj+static", func(x string) []Attr {
			return []Attr{{Kind: "vobj", Name: "style", Pairs: []Pair{{Key: "--u", Q: true, Src: "path", Arg: x}, {Key: "boxShadow", Src: "str", Arg: "0 0 1px rgba(1, 2, 3, 0.5)"}, {Key: "color", Src: "str", Arg: "red !important"}}},
				st("style", "color: blue; --u: url(http://h/p?q=r:s); grid-area: 1 / 2 / 3 / 4")}
		}},
		{"multiline-static", func(x string) []Attr {
			return []Attr{st("title", "line one\n    line two"), st("alt", "a\r\nb\rc"), {Kind: "lit", Name: "data-note", Text: "l1\n\tl2  l3"},
				{Kind: "interp", Name: "name", Text: "p\n", Path: x, Post: "\n\nq"}, {Kind: "bind", Name: "id", Text: x}, st("data-a", "\n x \n")}
		}},
		{"style-escape-static+show", func(x string) []Attr {
			return []Attr{st("style", `color: red; content: "x\";y"; --e: 'a\\'; --f: 'it\'s;ok'; width: 1px`), {Kind: "show", Text: x}}
		}},
		{"style-escape-static+obj", func(x string) []Attr {
			return []Attr{st("style", `content: "x\";y"; quotes: "\"" "\";"; color: blue`), {Kind: "obj", Name: "style", Pairs: []Pair{{Key: "color", Src: "path", Arg: x}, {Key: "--g", Q: true, Src: "path", Arg: "esc"}}}}
		}},
		{"style-escape-static+bind", func(x string) []Attr {
			return []Attr{{Kind: "bind", Name: "style", Text: x}, st("style", `--f: "p\;q"; content: 'it\'s;ok'; margin: 0`)}
		}},
		{"style-ternary", func(x string) []Attr {
			return []Attr{st("style", "color: blue; padding: 1px; width: 9px"), {Kind: "obj", Name: "style", Pairs: []Pair{
				{Key: "color", Src: "tern", Arg: "yes", Neg: true, Alt: "str", Then: "black", Else: "white"},
				{Key: "width", Src: "tern", Arg: "nope", Neg: true, Alt: "num", Then: "5", Else: "7"},
				{Key: "fontSize", Src: "tern", Arg: "yes", Alt: "path", Then: x, Else: "other"},
				{Key: "--t", Q: true, Src: "tern", Arg: "nope", Neg: true, Alt: "path", Then: x, Else: "other"},
				{Key: "top", Src: "not", Arg: "nope"}}}}
		}},
		{"class-ternary", func(x string) []Attr {
			return []Attr{st("class", "s1"), {Kind: "obj", Name: "class", Pairs: []Pair{
				{Key: "k1", Src: "not", Arg: "yes"}, {Key: "k-2", Q: true, Src: "not", Arg: "nope"},
				{Key: "k3", Src: "tern", Arg: "nope", Neg: true, Alt: "path", Then: x, Else: "other"},
				{Key: "k4", Src: "tern", Arg: "yes", Neg: true, Alt: "str", Then: "x", Else: ""}}}}
		}},
		{"nonascii-static", func(x string) []Attr {
			return []Attr{st("title", "Müller & Söhne"), st("alt", "東京 <Tōkyō> \"q\""), {Kind: "lit", Name: "data-note", Text: "Tom's 🍕 & d'été"},
				{Kind: "interp", Name: "name", Text: "é&", Path: x, Post: "<ü>"}, {Kind: "vbind", Name: "id", Text: x}, st("class", "größe 見出し")}
		}},
		{"nonascii-object", func(x string) []Attr {
			return []Attr{st("class", "s1 вкл"), {Kind: "obj", Name: "class", Pairs: []Pair{{Key: "größe", Q: true, Src: "path", Arg: x}, {Key: "見出し", Q: true, Src: "bool", Arg: "true"}, {Key: "🍕", Q: true, Src: "path", Arg: "включено"}, {Key: "k1", Src: "path", Arg: "включено"}}},
				st("style", "font-family: '明朝', serif; color: blue"), {Kind: "vobj", Name: "style", Pairs: []Pair{{Key: "fontFamily", Src: "str", Arg: "明朝"}, {Key: "content", Src: "path", Arg: x}, {Key: "--имя", Q: true, Src: "str", Arg: "зн 🍕"}}},
				{Kind: "show", Text: "включено"}}
		}},
		{"style-case-static-upper+obj", func(x string) []Attr {
			return []Attr{st("style", "COLOR: red ; Width : 1px; --X: 1; Font-Size: 9px"), {Kind: "obj", Name: "style", Pairs: []Pair{
				{Key: "color", Src: "path", Arg: x}, {Key: "fontSize", Src: "str", Arg: "12px"}, {Key: "--x", Q: true, Src: "str", Arg: "2"}}}}
		}},
		{"style-case-static-lower+bind-upper", func(x string) []Attr {
			return []Attr{{Kind: "bind", Name: "style", Text: "upstyle"}, st("style", "color: red; width: 1px; --myvar: 1; padding: 2px"), {Kind: "show", Text: x}}
		}},
		{"display-static-none+show", func(x string) []Attr {
			return []Attr{st("style", "color: blue; display: none"), {Kind: "show", Text: x}}
		}},
		{"display-static-upper+show", func(x string) []Attr {
			return []Attr{{Kind: "show", Text: x}, st("style", "DISPLAY:  none ; color: blue")}
		}},
		{"display-obj-none+show", func(x string) []Attr {
			return []Attr{{Kind: "obj", Name: "style", Pairs: []Pair{{Key: "display", Src: "str", Arg: "none"}, {Key: "color", Src: "str", Arg: "red"}}}, {Kind: "show", Text: x}}
		}},
		{"display-bind-none+static+show", func(x string) []Attr {
			return []Attr{st("style", "color: blue; display: flex"), {Kind: "bind", Name: "style", Text: "dnone"}, {Kind: "show", Text: x}}
		}},
		{"display-obj-path", func(x string) []Attr {
			return []Attr{st("style", "display: none; color: blue"), {Kind: "obj", Name: "style", Pairs: []Pair{{Key: "display", Src: "path", Arg: x}}}, {Kind: "show", Text: "yes"}}
		}},
		{"style-semicolon-static+show", func(x string) []Attr {
			return []Attr{st("style", "background: url(data:image/png;base64,AAAA) no-repeat; color: blue; content: 'a;b:c'"), {Kind: "show", Text: x}}
		}},
		{"style-semicolon-static+obj", func(x string) []Attr {
			return []Attr{st("style", "--d: url(data:text/plain;charset=utf-8,x:y); color: blue"), {Kind: "obj", Name: "style", Pairs: []Pair{
				{Key: "color", Src: "path", Arg: x}, {Key: "backgroundImage", Src: "str", Arg: "url(data:image/png;base64,DDDD)"}, {Key: "fontFamily", Src: "path", Arg: "quoted"}}}}
		}},
		{"style-semicolon-static+bind", func(x string) []Attr {
			return []Attr{{Kind: "vbind", Name: "style", Text: x}, st("style", `content: "p;q"; background: url(data:image/png;base64,AAAA); margin: 0`)}
		}},
		{"style-rich-static+bind", func(x string) []Attr {
			return []Attr{st("style", "background-image: url(https://x.test/y.png); color: blue; margin: 0 auto"), {Kind: "bind", Name: "style", Text: x}}
		}},
		{"style-rich-obj", func(x string) []Attr {
			return []Attr{{Kind: "obj", Name: "style", Pairs: []Pair{{Key: "backgroundImage", Src: "path", Arg: x}, {Key: "content", Src: "str", Arg: "a, b"}, {Key: "color", Src: "path", Arg: "imp"}}}}
		}},
		{"lit", func(x string) []Attr {
			return []Attr{{Kind: "lit", Name: "title", Text: "q", Path: x, Post: "r"}, {Kind: "lit", Name: "v-if", Text: x}, {Kind: "lit", Name: ":alt", Text: x + " > 1"}, {Kind: "lit", Name: "v-show", Text: "literal text"}}
		}},
	}
}

type placement struct {
	name  string
	apply func(c *Case)
}

func corePlacements() []placement {
	dir := func(n, v string) Attr { return Attr{Kind: "dir", Name: n, Text: v} }
	front := func(c *Case, a Attr) { c.Attrs = append([]Attr{a}, c.Attrs...) }
	back := func(c *Case, a Attr) { c.Attrs = append(c.Attrs, a) }
	return []placement{
		{"div", func(c *Case) {}},
		{"root", func(c *Case) { c.Place = "root" }},
		{"pre", func(c *Case) { c.Place = "pre" }},
		{"textarea", func(c *Case) { c.Tag = "textarea" }},
		{"v-if", func(c *Case) { front(c, dir("v-if", "yes")) }},
		{"v-else", func(c *Case) { back(c, dir("v-else", "")) }},
		{"v-else-if", func(c *Case) { back(c, dir("v-else-if", "yes")) }},
		{"v-for", func(c *Case) { front(c, dir("v-for", forVar+" in "+forList)) }},
		{"v-for+v-if", func(c *Case) { back(c, dir("v-for", forVar+" in "+forList)); back(c, dir("v-if", "yes")) }},
		{"tplfor", func(c *Case) { c.Place = "tplfor" }},
		{"slot", func(c *Case) { c.Place = "slot" }},
		{"slot#", func(c *Case) { c.Place = "slot#" }},
		{"v-once", func(c *Case) { back(c, dir("v-once", "")) }},
		{"v-html", func(c *Case) { back(c, dir("v-html", "markup")) }},
		{"v-text", func(c *Case) { front(c, dir("v-text", "plain")) }},
		{"input", func(c *Case) { c.Tag = "input" }},
		{"template-v-keep", func(c *Case) { c.Tag = "template"; back(c, dir("v-keep", "")) }},
	}
}

func baseData(x vals.V) map[string]vals.V {
	return map[string]vals.V{
		"x": x, "other": vals.Str("o"), "five": vals.Int(5), "yes": vals.Bool(true), "chainoff": vals.Bool(false),
		"markup": vals.Str("<b>h</b>"), "plain": vals.Str("txt"), "rich": vals.Str("url(https://x.test/r.png)"), "imp": vals.Str("red !important"), "quoted": vals.Str("'Open Sans', serif"), "dnone": vals.Str("width: 1px; display: none"), "включено": vals.Bool(false), "upstyle": vals.Str("COLOR: blue; Width: 2px; --MyVar: 3"), "nope": vals.Bool(false), "esc": vals.Str(`"x\";y"`),
		forList: vals.List("[]any", vals.Str("i1"), vals.Str("i2")),
	}
}

// extendedForm: the forms that exercise the style vocabulary (punctuated values, escapes,
// display declarations, ternaries) rather than the value table.
func extendedForm(name string) bool {
	return strings.HasPrefix(name, "style-rich") || strings.HasPrefix(name, "style-semicolon") || strings.HasPrefix(name, "display-") ||
		strings.HasPrefix(name, "style-escape") || strings.HasSuffix(name, "-ternary") || strings.HasPrefix(name, "style-case")
}

func enumerate(rec *ev.Rec, f *findings, shard, shards int) (int, bool) {
	n := 0
	ok := true
	each := func(c Case) {
		n++
		if n%shards != shard {
			return
		}
		if rs := f.regions(c); len(rs) > 0 {
			for _, id := range rs {
				rec.Excluded(id)
			}
			return
		}
		// the after-failure dimension on a rotating fraction of the cases
		if every := run.Pick(5, 3); n%every == 0 {
			c.After = []string{"pool", "tpl"}[(n/every)%2]
		}
		nt, cls := classify(c)
		if !run.Each(rec, "enum", c, nt, cls, check) {
			ok = false
		}
	}
	nBasic := len(vals.Scalars()) + len(vals.Containers())
	for vi, v := range tableVals() {
		for _, fm := range coreForms() {
			extended := extendedForm(fm.name)
			for _, pl := range corePlacements() {
				if (extended || vi >= nBasic) && !run.Thorough() {
					// quick tier: the style-vocabulary forms, and the values beyond the basic scalar /
					// container table (special strings, punctuated and multi-line strings), go through
					// the distinct evaluation paths only; thorough runs the full product
					switch pl.name {
					case "div":
					case "v-if", "v-for", "tplfor", "slot", "v-html":
						if extended && vi >= nBasic {
							continue // a style-vocabulary form over a non-basic value: one placement
						}
					default:
						continue
					}
				}
				if !extended && vi < nBasic && vi%3 != 0 && !run.Thorough() {
					// quick tier: two of three basic values leave out the placements that share their
					// evaluation path with another one
					switch pl.name {
					case "root", "input", "textarea", "pre", "slot#", "v-else-if", "v-for+v-if", "v-text", "v-once":
						continue
					}
				}
				// neighbours: a static attribute on each side, so that "in place" is observable
				attrs := []Attr{{Kind: "static", Name: "lang", Text: "en"}, marker()}
				attrs = append(attrs, fm.attrs("x")...)
				attrs = append(attrs, Attr{Kind: "static", Name: "data-b", Text: "z w"})
				c := Case{Tag: "p", Attrs: attrs, Data: baseData(v)}
				pl.apply(&c)
				each(c)
				if !ok {
					return n, false
				}
			}
		}
	}
	// collection fields of a record (nil / empty / filled) x every form x the distinct evaluation paths
	for _, pv := range postVariants() {
		for _, x := range []string{"p.Tags", "p.Labels"} {
			for _, fm := range coreForms() {
				for _, pl := range corePlacements() {
					switch pl.name {
					case "div", "v-if", "v-else", "v-for", "tplfor", "slot", "v-html":
					default:
						continue
					}
					attrs := []Attr{{Kind: "static", Name: "lang", Text: "en"}, marker()}
					attrs = append(attrs, fm.attrs(x)...)
					attrs = append(attrs, Attr{Kind: "static", Name: "data-b", Text: "z w"})
					d := baseData(vals.Str("x"))
					d["p"] = pv
					c := Case{Tag: "p", Attrs: attrs, Data: d}
					pl.apply(&c)
					each(c)
					if !ok {
						return n, false
					}
				}
			}
		}
	}
	// spelling: every operator x spaced / tight / word x operands x position x name case / quoting
	type operands struct {
		a, b vals.V
		lit  string
	}
	for _, op := range exprOps {
		var sets []operands
		switch op {
		case "&&", "||":
			for _, a := range []bool{true, false} {
				for _, b := range []bool{true, false} {
					sets = append(sets, operands{a: vals.Bool(a), b: vals.Bool(b)})
				}
			}
		case "!":
			sets = []operands{{a: vals.Bool(true)}, {a: vals.Bool(false)}}
		case "??":
			sets = []operands{{a: vals.Nil(), lit: "dflt"}, {a: vals.Missing(), lit: "dflt"}, {a: vals.Str("x"), lit: "dflt"}}
		default:
			sets = []operands{{a: vals.Int(0), lit: "1"}, {a: vals.Int(1), lit: "1"}, {a: vals.Int(2), lit: "1"}}
		}
		for _, sp := range exprSps {
			for _, set := range sets {
				x := &Expr{Op: op, A: "opa", B: set.lit, Sp: sp}
				if op == "&&" || op == "||" {
					x.B = "opb"
				}
				positions := [][]Attr{
					{{Kind: "bind", Name: "title", Text: "opa", X: x}},
					{{Kind: "vbind", Name: "data-next", Text: "opa", X: x}, {Kind: "static", Name: "data-next", Text: "st"}},
					{{Kind: "static", Name: "class", Text: "s1"}, {Kind: "obj", Name: "class", Pairs: []Pair{{Key: "k1", Src: "expr", Arg: "opa", X: x}}}},
					{{Kind: "static", Name: "style", Text: "width: 9px; color: blue"}, {Kind: "obj", Name: "style", Pairs: []Pair{{Key: "width", Src: "expr", Arg: "opa", X: x}}}},
					{{Kind: "static", Name: "style", Text: "color: blue"}, {Kind: "show", Text: "opa", X: x}},
				}
				for _, pos := range positions {
					for vi, variant := range []struct {
						upper bool
						quote string
					}{{false, ""}, {true, "'"}, {false, "none"}} {
						for _, pl := range corePlacements() {
							if pl.name != "div" && pl.name != "v-for" {
								continue
							}
							attrs := []Attr{{Kind: "static", Name: "lang", Text: "en"}, marker()}
							for _, a := range pos {
								a.Upper = variant.upper
								if a.Kind != "obj" {
									a.Quote = variant.quote
								} else {
									a.Obj = objStyles[(vi+len(sp))%len(objStyles)]
								}
								attrs = append(attrs, a)
							}
							d := baseData(vals.Str("x"))
							if set.a.K != "missing" {
								d["opa"] = set.a
							}
							if x.B == "opb" {
								d["opb"] = set.b
							}
							c := Case{Tag: "p", Attrs: attrs, Data: d}
							pl.apply(&c)
							each(c)
							if !ok {
								return n, false
							}
						}
					}
				}
			}
		}
	}
	// spelling of the attributes themselves: every basic form with upper-case names, single-quoted
	// and unquoted values, and the object-syntax layouts
	for _, fm := range coreForms() {
		if extendedForm(fm.name) {
			continue
		}
		for vi, variant := range []struct {
			upper      bool
			quote, obj string
		}{{true, "", ""}, {false, "'", "tight"}, {false, "none", "comma"}, {true, "'", "lines"}, {true, "none", "tight"}} {
			for _, v := range []vals.V{vals.Str("x"), vals.Bool(false), vals.Int(5)} {
				for _, pl := range corePlacements() {
					switch pl.name {
					case "div", "v-if", "slot", "v-for":
					default:
						continue
					}
					if (vi+len(pl.name))%2 == 1 && !run.Thorough() {
						continue
					}
					attrs := []Attr{{Kind: "static", Name: "lang", Text: "en"}, marker()}
					attrs = append(attrs, fm.attrs("x")...)
					attrs = append(attrs, Attr{Kind: "static", Name: "data-b", Text: "z w"})
					for i := range attrs {
						attrs[i].Upper = variant.upper
						if attrs[i].Kind == "obj" || attrs[i].Kind == "vobj" {
							attrs[i].Obj = variant.obj
						} else {
							attrs[i].Quote = variant.quote
						}
					}
					c := Case{Tag: "p", Attrs: attrs, Data: baseData(v)}
					pl.apply(&c)
					for i := range c.Attrs {
						if c.Attrs[i].Kind == "dir" {
							c.Attrs[i].Upper = variant.upper
						}
					}
					each(c)
					if !ok {
						return n, false
					}
				}
			}
		}
	}
	// entry points x data delivery: whole structs, pointers, Stringers and scalars as the value
	recM := map[string]vals.V{"Name": vals.Str("n"), "Title": vals.Str("t")}
	doorVals := []vals.V{{K: "rec", M: recM}, {K: "*rec", M: recM}, postVariants()[2], postVariants()[0], {K: "url", S: "https://x.test/a/b?q=1#f"},
		{K: "duration", S: "1500000000"}, {K: "jsonnum", S: "12.50"}, {K: "Level", S: "3"}, {K: "*Money", S: "1250"}, {K: "time", S: "86400"},
		{K: "Ratio", S: "0.1"}, {K: "Flag", S: "false"}, vals.Str("x"), vals.Int(5), vals.Nil(), vals.Bool(false), vals.Num("float32", "0.1")}
	doorForms := map[string]bool{"two-bound": true, "twin": true, "interp": true, "class-static+obj": true, "style-static+obj": true, "show+static-style": true, "class-static+bind": true}
	for _, entry := range entries {
		for _, del := range deliveries {
			if strings.HasPrefix(entry, "vue-") && del != "fill" {
				continue // the Vue entry points take the data as an argument
			}
			for _, v := range doorVals {
				for _, fm := range coreForms() {
					if !doorForms[fm.name] {
						continue
					}
					attrs := []Attr{{Kind: "static", Name: "lang", Text: "en"}, marker()}
					attrs = append(attrs, fm.attrs("x")...)
					attrs = append(attrs, Attr{Kind: "static", Name: "data-b", Text: "z w"})
					each(Case{Tag: "p", Attrs: attrs, Data: baseData(v), Entry: entry, Deliver: del})
					if !ok {
						return n, false
					}
				}
			}
		}
	}
	// parser-sensitive containers x entry points: the element is evaluated like anywhere else
	contForms := map[string]bool{"two-bound": true, "interp": true, "class-static+obj": true, "style-static+obj": true, "show+static-style": true, "lit": true, "multiline-static": true}
	for _, place := range []string{"noscript", "td", "select", "svg", "tplwrap"} {
		tag := "p"
		if t, has := containerTag[place]; has {
			tag = t
		}
		for _, entry := range entries {
			for _, v := range []vals.V{vals.Str("x"), vals.Bool(false), vals.Int(5), {K: "url", S: "https://x.test/a"}} {
				for _, fm := range coreForms() {
					if !contForms[fm.name] {
						continue
					}
					for _, chain := range []string{"", "v-if", "v-else"} {
						attrs := []Attr{{Kind: "static", Name: "lang", Text: "en"}, marker()}
						attrs = append(attrs, fm.attrs("x")...)
						attrs = append(attrs, Attr{Kind: "static", Name: "data-b", Text: "z w"})
						switch chain {
						case "v-if":
							attrs = append(attrs, Attr{Kind: "dir", Name: "v-if", Text: "yes"})
						case "v-else":
							attrs = append(attrs, Attr{Kind: "dir", Name: "v-else"})
						}
						each(Case{Tag: tag, Place: place, Attrs: attrs, Data: baseData(v), Entry: entry})
						if !ok {
							return n, false
						}
					}
				}
			}
		}
	}
	// identifiers that name a function, not a variable, as the value x every form x the distinct paths
	for _, fn := range funcNames {
		for _, fm := range coreForms() {
			if extendedForm(fm.name) && !run.Thorough() {
				continue
			}
			for _, pl := range corePlacements() {
				switch pl.name {
				case "div", "v-if", "v-for", "tplfor", "slot", "v-html":
				default:
					continue
				}
				attrs := []Attr{{Kind: "static", Name: "lang", Text: "en"}, marker()}
				attrs = append(attrs, fm.attrs(fn)...)
				attrs = append(attrs, Attr{Kind: "static", Name: "data-b", Text: "z w"})
				c := Case{Tag: "p", Attrs: attrs, Data: baseData(vals.Str("x"))}
				pl.apply(&c)
				each(c)
				if !ok {
					return n, false
				}
			}
		}
	}
	// attribute names: every odd name x form x a few values x a few placements
	for _, name := range oddNames {
		nameVals := []vals.V{vals.Str("x"), vals.Bool(false), vals.Int(5), vals.Nil(), vals.Bool(true), vals.Str("")}
		for _, v := range nameVals[:run.Pick(3, len(nameVals))] {
			nameForms := [][]Attr{
				{{Kind: "static", Name: name, Text: "st"}},
				{{Kind: "bind", Name: name, Text: "x"}},
				{{Kind: "vbind", Name: name, Text: "x"}},
				{{Kind: "interp", Name: name, Text: "a", Path: "x", Post: "b"}},
				{{Kind: "static", Name: name, Text: "st"}, {Kind: "bind", Name: name, Text: "x"}},
				{{Kind: "lit", Name: name, Text: "x > 1"}},
				{{Kind: "static", Name: name, Text: ""}, {Kind: "bind", Name: "title", Text: "x"}, {Kind: "show", Text: "x"}},
			}
			for _, nf := range nameForms {
				for _, pl := range corePlacements() {
					switch pl.name {
					case "div", "v-if", "v-for", "slot", "template-v-keep":
					case "v-else", "tplfor", "v-html":
						if !run.Thorough() {
							continue
						}
					default:
						continue
					}
					attrs := []Attr{{Kind: "static", Name: "lang", Text: "en"}, marker()}
					attrs = append(attrs, nf...)
					attrs = append(attrs, Attr{Kind: "static", Name: "data-b", Text: "z w"})
					c := Case{Tag: "p", Attrs: attrs, Data: baseData(v)}
					pl.apply(&c)
					each(c)
					if !ok {
						return n, false
					}
				}
			}
		}
	}
	// multi-slot placements: every form over the slot props x every ordered pair of `on` values
	// (plus some triples) x placement; every instance is compared with the model of its row
	onVals := []vals.V{vals.Bool(true), vals.Bool(false), vals.Int(0), vals.Int(1), vals.Str(""), vals.Str("False"), vals.Str("x"), vals.Nil(), vals.Num("uint8", "0"), vals.Str("0"), vals.Num("float64", "0.5")}
	onVals = onVals[:run.Pick(6, len(onVals))] // quick tier: the first six values, thorough: all eleven
	var rowSets [][]vals.V
	for _, a := range onVals {
		for _, b := range onVals {
			rowSets = append(rowSets, []vals.V{a, b})
		}
	}
	tr, fa := vals.Bool(true), vals.Bool(false)
	rowSets = append(rowSets, []vals.V{tr, fa, tr}, []vals.V{fa, tr, fa}, []vals.V{fa, fa, tr}, []vals.V{tr, tr, fa}, []vals.V{fa, tr, tr})
	st := func(n, v string) Attr { return Attr{Kind: "static", Name: n, Text: v} }
	slotForms := append(coreForms(),
		form{"slot-all-static", func(x string) []Attr {
			return []Attr{st("style", "color: red"), st("class", "c1"), {Kind: "show", Text: x}}
		}},
		form{"slot-show-first", func(x string) []Attr {
			return []Attr{{Kind: "show", Text: x}, st("style", "color: red; padding: 1px;"), st("title", "t")}
		}},
		form{"slot-mixed", func(x string) []Attr {
			return []Attr{st("style", "color: red"), {Kind: "show", Text: x}, {Kind: "bind", Name: "title", Text: slotVar + ".v"},
				{Kind: "obj", Name: "class", Pairs: []Pair{{Key: "k1", Src: "path", Arg: x}}}, {Kind: "interp", Name: "alt", Text: "a", Path: slotVar + ".v"}}
		}})
	for _, place := range []string{"sloop", "sloop#", "stwice", "sdloop", "sdplain"} {
		for _, rs := range rowSets {
			if place == "stwice" && len(rs) != 2 {
				continue
			}
			if place == "sdplain" && (len(rs) != 2 || rs[0].K != rs[1].K || rs[0].S != rs[1].S) {
				continue // plain content sees no slot props: one value for all instances
			}
			for _, fm := range slotForms {
				if !run.Thorough() && extendedForm(fm.name) {
					continue // quick tier: the style-vocabulary forms are not crossed with the slot rows
				}
				var rows []vals.V
				for i, on := range rs {
					rows = append(rows, vals.Map(map[string]vals.V{"on": on, "v": vals.Str(fmt.Sprintf("r%d", i+1))}))
				}
				x := slotVar + ".on"
				d := baseData(rs[0])
				if place == "sdplain" {
					x = "x"
				}
				d[rowList] = vals.List("[]map", rows...)
				attrs := []Attr{{Kind: "static", Name: "lang", Text: "en"}, marker()}
				attrs = append(attrs, fm.attrs(x)...)
				attrs = append(attrs, Attr{Kind: "static", Name: "data-b", Text: "z w"})
				each(Case{Tag: "p", Place: place, Attrs: attrs, Data: d})
				if !ok {
					return n, false
				}
			}
		}
	}
	// directives: every one alone and every compatible pair, next to one static, one interpolated,
	// one truthy and one falsy bound attribute
	dirs := []Attr{
		{Kind: "dir", Name: "v-if", Text: "yes"}, {Kind: "dir", Name: "v-else-if", Text: "yes"}, {Kind: "dir", Name: "v-else"},
		{Kind: "dir", Name: "v-for", Text: forVar + " in " + forList}, {Kind: "dir", Name: "v-html", Text: "markup"},
		{Kind: "dir", Name: "v-text", Text: "plain"}, {Kind: "dir", Name: "v-once"}, {Kind: "dir", Name: "v-pre"}, {Kind: "show", Text: "yes"}, {Kind: "show", Text: "no"},
	}
	compatible := func(a, b Attr) bool {
		chain := func(x Attr) bool { return x.Name == "v-if" || x.Name == "v-else-if" || x.Name == "v-else" }
		content := func(x Attr) bool { return x.Name == "v-html" || x.Name == "v-text" }
		switch {
		case a.Kind == b.Kind && a.Name == b.Name:
			return false
		case chain(a) && chain(b), content(a) && content(b):
			return false
		case a.Name == "v-pre" || b.Name == "v-pre":
			return false // under v-pre other directives are not processed; what is emitted is not spelled out
		case (a.Name == "v-for" && b.Name == "v-once") || (a.Name == "v-once" && b.Name == "v-for"):
			return false // v-once on the v-for element itself is C16's subject (the element is not rendered at all)
		case (a.Name == "v-for" && (b.Name == "v-else" || b.Name == "v-else-if")) || (b.Name == "v-for" && (a.Name == "v-else" || a.Name == "v-else-if")):
			return false // docs define v-else after a v-for element, not on it
		}
		return true
	}
	for i, d1 := range dirs {
		for j := -1; j < len(dirs); j++ {
			if j == i {
				continue
			}
			ds := []Attr{d1}
			if j >= 0 {
				if !compatible(d1, dirs[j]) {
					continue
				}
				ds = append(ds, dirs[j])
			}
			for _, where := range []string{"front", "back", "split"} {
				mid := []Attr{marker(), {Kind: "static", Name: "title", Text: "st"}}
				pre := d1.Name == "v-pre"
				if !pre {
					mid = append(mid, Attr{Kind: "bind", Name: "lang", Text: "other"}, Attr{Kind: "vbind", Name: "id", Text: "no"})
				}
				mid = append(mid, Attr{Kind: "interp", Name: "alt", Text: "a", Path: "other", Post: ""}, Attr{Kind: "lit", Name: "v-once", Text: "lit"})
				var attrs []Attr
				switch where {
				case "front":
					attrs = append(append(attrs, ds...), mid...)
				case "back":
					attrs = append(append(attrs, mid...), ds...)
				default:
					attrs = append(append(append(attrs, ds[0]), mid...), ds[1:]...)
				}
				d := baseData(vals.Str("x"))
				d["no"] = vals.Bool(false)
				for _, place := range []string{"", "slot", "tplfor"} {
					if place == "tplfor" && (d1.Name == "v-for" || (j >= 0 && dirs[j].Name == "v-for")) {
						continue
					}
					each(Case{Tag: "span", Place: place, Attrs: append([]Attr(nil), attrs...), Data: d})
					if !ok {
						return n, false
					}
				}
			}
		}
	}
	return n, ok
}

// ---------------------------------------------------------------- rapid generator

func pick[T any](t *rapid.T, label string, xs []T) T {
	return xs[rapid.IntRange(0, len(xs)-1).Draw(t, label)]
}

func chance(t *rapid.T, label string, percent int) bool {
	return rapid.IntRange(0, 99).Draw(t, label) < percent
}

type builder struct {
	t      *rapid.T
	c      *Case
	table  []vals.V
	scoped bool // the element is scoped slot content: sp.on / sp.v are available
}

func (b *builder) newVar(v vals.V) string {
	name := fmt.Sprintf("v%d", len(b.c.Data))
	if rapid.IntRange(0, 9).Draw(b.t, name+"-nonascii") >= 8 {
		// a variable name beyond ASCII: 2-, 3-byte letters
		name = pick(b.t, name+"-na", []string{"включено", "größe", "変数", "naïve", "données"}) + strconv.Itoa(len(b.c.Data))
	}
	b.c.Data[name] = v
	return name
}

func (b *builder) anyVal(label string) vals.V {
	if chance(b.t, label+"-nonascii", 12) {
		return pick(b.t, label+"-nav", nonASCIIVals)
	}
	if chance(b.t, label+"-scalarform", 12) {
		return pick(b.t, label+"-sf", scalarForms())
	}
	if chance(b.t, label+"-multiline", 12) {
		return pick(b.t, label+"-ml", multiLineVals)
	}
	if chance(b.t, label+"-special", 12) {
		return pick(b.t, label+"-sp", specialStrings())
	}
	if chance(b.t, label+"-tab", 55) {
		return pick(b.t, label, b.table)
	}
	return vals.GenScalar().Draw(b.t, label+"-sc")
}

// pathFor returns a data path holding v, or now and then the loop variable.
func (b *builder) anyPath(label string, loopVar bool) string {
	if b.scoped && chance(b.t, label+"-sp", 45) {
		return slotVar + "." + pick(b.t, label+"-spf", []string{"on", "v"})
	}
	if loopVar && chance(b.t, label+"-it", 15) {
		return forVar
	}
	// (not on <template>: its own plain attributes - title="x" - are variables to its bindings)
	if b.c.Tag != "template" && chance(b.t, label+"-fn", 6) {
		return pick(b.t, label+"-fname", funcNames) // never a key of the data
	}
	if chance(b.t, label+"-post", 8) {
		// a collection field of a record: nil, empty or filled
		if _, ok := b.c.Data["p"]; !ok {
			b.c.Data["p"] = pick(b.t, label+"-pv", postVariants())
		}
		return "p." + pick(b.t, label+"-pf", []string{"Tags", "Labels", "Tags", "Labels", "Title"})
	}
	return b.newVar(b.anyVal(label))
}

var (
	genericNames = append([]string{"title", "lang", "id", "alt", "name", "data-a", "data-b", "hidden"}, oddNames...)
	// names that look internal or directive-like without being so, and names with punctuation
	oddNames = []string{"data-v-app", "data-v-7ba5bd90", "data-v-html", "data-v-text", "data-vx", "v", "vfor", "v_if", "data-v-html-content2",
		"data-v-step", "x-v-if", "xml:lang", "a.b", "data_x", "aria-label", "x:y.z", "v.once", "vbind"}
	staticTexts = []string{"x", "a b", "", "q1", "Mixed-Case_9", " pad ", "tail  ", "  lead",
		// line breaks, tabs and runs of blanks are part of the value: nothing may fold them
		// text beyond ASCII next to the characters that are escaped
		"Müller & Söhne", "東京 <Tōkyō>", "Tom's 🍕", "d'été", "e\u0301 \"q\" & é", "вкл>выкл\rx", "Müller und Söhne",
		"line one\n    line two", "a\r\nb", "x\ry", "\ttab \n ", "two\n\nblank", "a  b\tc", "\nlead and tail\n"}
	nonASCIIVals  = []vals.V{vals.Str("Müller & Söhne"), vals.Str("東京 <Tōkyō>"), vals.Str("Tom's 🍕"), vals.Str("d'été"), vals.Str("e\u0301 \"q\" & é"), vals.Str("вкл>выкл\rx"), vals.Str("größe"), vals.Str("見出し 🍕")}
	multiLineVals = []vals.V{vals.Str("first line\nsecond  line"), vals.Str("a\r\nb"), vals.Str("\ttab\n"), vals.Str("x\ry"), vals.Str("p\n\nq"), vals.Str("  two  blanks\t")}
	litNames      = []string{"v-if", "v-show", "v-for", ":lang", ":class", "v-bind:id", "v-html", "v-once", "v-else", ":style"}
	litTexts      = []string{"x", "count", "a > b", "some text", "{a: b}", "item in items", " pad ", "l1\n  l2", "a &&\r\n\tb", "x  y", "Müller & Söhne", "東京 <Tōkyō>", "d'été 🍕"}
	simpleVals    = []vals.V{vals.Str("hello"), vals.Str("x"), vals.Int(7), vals.Str(""), vals.Bool(true), vals.Num("float64", "0.5"), vals.Str("a b"), vals.Nil(), vals.Str("first line\nsecond  line"), vals.Str("x\ry")}
	rowOnVals     = []vals.V{vals.Str("False"), vals.Str("FALSE"), vals.Str("00"), vals.Str(" false"), vals.Int(0), vals.Int(1), vals.Str(""), vals.Str("x"), vals.Nil(), vals.Num("uint8", "0"), vals.Num("float64", "0.5"), vals.Str("0"), vals.Num("float32", "0")}
	truthyVals    = []vals.V{vals.Bool(true), vals.Int(1), vals.Str("x"), vals.Num("uint8", "3")}
	classKeys     = []Pair{{Key: "k1"}, {Key: "k-2", Q: true}, {Key: "k3"}, {Key: "k4", Q: true}, {Key: "is-on", Q: true},
		{Key: "größe", Q: true}, {Key: "見出し", Q: true}, {Key: "вкл", Q: true}, {Key: "🍕", Q: true}, {Key: "e\u0301tat", Q: true}}
	styleKeys = []Pair{{Key: "color"}, {Key: "fontSize"}, {Key: "backgroundColor"}, {Key: "borderTopWidth"}, {Key: "width"}, {Key: "--x", Q: true},
		{Key: "--myVar", Q: true}, {Key: "margin-top", Q: true}, {Key: "display"}, {Key: "padding"}, {Key: "color", Q: true}}
	staticDecls = [][2]string{{"color", "blue"}, {"padding", "1px"}, {"width", "3px"}, {"font-size", "9px"}, {"display", "block"}, {"--x", "1"}, {"background-color", "white"}, {"margin-top", "4px"},
		// the style's own display declarations: kept whatever v-show says, unless v-show is falsy
		{"display", "none"}, {"display", "flex"}, {"DISPLAY", "none"},
		// property names are case-insensitive (custom properties are not): a bound lower-case property replaces these
		{"COLOR", "blue"}, {"Width", "3px"}, {"Font-Size", "9px"}, {"BACKGROUND-COLOR", "white"}, {"--X", "upper"}, {"--MyVar", "mixed"}, {"display", " none "}, {"display", "inline-block"},
		// values with CSS punctuation: colons, !important, parentheses, commas, quotes, slashes
		{"background-image", "url(https://x.test/y.png)"}, {"background", "url(//cdn.test:8080/a.png) no-repeat"}, {"color", "blue !important"},
		{"font-family", "'Open Sans', serif"}, {"width", "calc(100% - 2px)"}, {"content", `"a:b"`}, {"--u", "url(http://h/p?q=r:s)"},
		{"transition", "color 0.3s ease-in, width 1s"}, {"background-color", "rgba(1, 2, 3, 0.5)"}, {"grid-area", "1 / 2 / 3 / 4"},
		{"font-family", "'明朝', serif"}, {"content", `"é & <ü> 🍕"`}, {"--имя", "значение"},
		// backslash escapes inside quoted strings: the escaped quote does not end the string
		{"content", `"x\";y"`}, {"content", `'it\'s;ok'`}, {"--e", `'a\\'`}, {"--f", `"p\;q"`}, {"quotes", `"\"" "\";"`},
		// a ';' that is part of the value: data URIs, quoted strings
		{"background", "url(data:image/png;base64,AAAA) no-repeat"}, {"content", "'a;b:c'"}, {"--d", "url(data:text/plain;charset=utf-8,x:y)"}}
	styleStrs = []vals.V{vals.Str("color:red"), vals.Str("color: red; width: 2px;"), vals.Str("font-size:3px;margin:0"), vals.Str("display:block"), vals.Str(""), vals.Str("--x: 2; padding : 0"),
		vals.Str("background-image: url(https://x.test/z.png); color: red"), vals.Str("color: red !important"), vals.Str(`font-family: "Open Sans", serif; width: calc(50% + 1px)`),
		vals.Str("background: url(http://h.test:8080/p.png) no-repeat; margin-top: 0"), vals.Str("content: 'k:v'; color: rgba(9, 8, 7, 0.1)"),
		vals.Str("background: url(data:image/png;base64,BBBB); color: red"), vals.Str(`content: "x;y:z"; width: 2px`),
		vals.Str(`content: "x\";y"; width: 2px`), vals.Str(`--e: 'a\\'; color: red`), vals.Str(`content: 'it\'s;ok'`),
		vals.Str("COLOR: red; Width: 2px"), vals.Str("Font-Size: 3px; --X: 9"), vals.Str("PADDING : 0 ; color:red"),
		vals.Str("display: none"), vals.Str("display:none;color:red"), vals.Str("width: 1px; display :  none ;"), vals.Str("display: flex"), vals.Str("DISPLAY: none; width: 1px")}
	richStyleVals = []vals.V{vals.Str("url(https://x.test/v.png)"), vals.Str("red !important"), vals.Str("rgba(1, 2, 3, 0.5)"), vals.Str("calc(100% - 2px)"),
		vals.Str("local('a b'), serif"), vals.Str("color 0.3s ease-in, width 1s"), vals.Str("1 / 2"), vals.Str("url(//h.test:81/a?b=c:d)"), vals.Str(`"Open Sans", serif`), vals.Str("'k:v'"),
		vals.Str("url(data:image/png;base64,CCCC)"), vals.Str("'a;b:c'"), vals.Str(`"q;r"`), vals.Str("serif, 'Open Sans'"),
		vals.Str(`"x\";y"`), vals.Str(`'it\'s;ok'`), vals.Str(`'a\\'`)}
	richStyleLits = []string{"url(data:image/png;base64,DDDD)", "url(https://x.test/l.png)", "red !important", "rgba(1, 2, 3, 0.5)", "calc(100% - 2px)", "1 / 2", "a, b", "明朝", "Ünï 🍕", "шрифт, serif"}
	classStrs     = []vals.V{vals.Str("b1"), vals.Str("b1 b2"), vals.Str(""), vals.Str(" b3 "), vals.Int(5)}
	styleVals     = []vals.V{vals.Str("red"), vals.Str("明朝, 'MS 明朝'"), vals.Str("größe & <x>"), vals.Str("2px"), vals.Int(5), vals.Num("float64", "0.5"), vals.Str("bold"), vals.Num("uint16", "10")}
)

// expr draws an operator expression with fresh operand variables and a spelling.
func (b *builder) expr(label string) *Expr {
	t := b.t
	x := &Expr{Op: pick(t, label+"-op", exprOps), Sp: pick(t, label+"-sp", exprSps)}
	switch x.Op {
	case "&&", "||":
		x.A = b.newVar(vals.Bool(rapid.Bool().Draw(t, label+"-xa")))
		x.B = b.newVar(vals.Bool(rapid.Bool().Draw(t, label+"-xb")))
	case "!":
		x.A = b.newVar(vals.Bool(rapid.Bool().Draw(t, label+"-xn")))
	case "??":
		x.A = b.newVar(pick(t, label+"-xq", []vals.V{vals.Nil(), vals.Missing(), vals.Str("x"), vals.Int(3)}))
		x.B = "dflt"
	default:
		x.A = b.newVar(vals.Int(rapid.IntRange(0, 3).Draw(t, label+"-xi")))
		x.B = strconv.Itoa(rapid.IntRange(0, 2).Draw(t, label+"-xl"))
	}
	return x
}

func (b *builder) pairValue(label string, p Pair, pool []vals.V, loopVar bool) Pair {
	t := b.t
	if kebab(p.Key) == "display" && chance(t, label+"-disp", 75) {
		v := pick(t, label+"-dv", []string{"none", "none", "flex", "block"})
		if chance(t, label+"-dl", 50) {
			p.Src, p.Arg = "str", v
		} else {
			p.Src, p.Arg = "path", b.newVar(vals.Str(v))
		}
		return p
	}
	if len(pool) > 0 && pool[0].S == styleVals[0].S && chance(t, label+"-rich", 35) {
		// style objects: values with CSS punctuation, from data and as quoted literals
		if chance(t, label+"-richlit", 35) {
			p.Src, p.Arg = "str", pick(t, label+"-rl", richStyleLits)
		} else {
			p.Src, p.Arg = "path", b.newVar(pick(t, label+"-rv", richStyleVals))
		}
		return p
	}
	switch rapid.IntRange(0, 12).Draw(t, label+"-src") {
	case 12:
		p.Src, p.X = "expr", b.expr(label+"-x")
		p.Arg = p.X.A
	case 10:
		// `!flag`
		p.Src, p.Arg = "not", b.newVar(vals.Bool(rapid.Bool().Draw(t, label+"-nb")))
	case 11:
		// `flag ? a : b` / `!flag ? a : b` with string, number or path alternatives
		p.Src, p.Arg = "tern", b.newVar(vals.Bool(rapid.Bool().Draw(t, label+"-tb")))
		p.Neg = rapid.IntRange(0, 3).Draw(t, label+"-tneg") > 0
		switch p.Alt = pick(t, label+"-talt", []string{"str", "str", "num", "path"}); p.Alt {
		case "str":
			alts := pick(t, label+"-ts", [][2]string{{"black", "white"}, {"x", ""}, {"1px", "2px"}, {"", "y"}})
			p.Then, p.Else = alts[0], alts[1]
		case "num":
			alts := pick(t, label+"-tn", [][2]string{{"5", "7"}, {"0", "3"}, {"1", "0"}})
			p.Then, p.Else = alts[0], alts[1]
		default:
			p.Then, p.Else = b.newVar(pick(t, label+"-tp1", pool)), b.newVar(pick(t, label+"-tp2", pool))
		}
	case 0:
		p.Src, p.Arg = "bool", pick(t, label+"-b", []string{"true", "false"})
	case 1:
		p.Src, p.Arg = "str", pick(t, label+"-s", []string{"x", "", "bold", "20px", "0"})
	case 2:
		p.Src, p.Arg = "num", pick(t, label+"-n", []string{"0", "5", "12"})
	case 3:
		p.Src, p.Arg, p.N = "gt", b.newVar(vals.Int(rapid.IntRange(0, 4).Draw(t, label+"-gv"))), rapid.IntRange(0, 3).Draw(t, label+"-gn")
	case 4, 5:
		p.Src, p.Arg = "path", b.newVar(pick(t, label+"-pool", pool))
	default:
		p.Src, p.Arg = "path", b.anyPath(label+"-any", loopVar)
	}
	return p
}

func (b *builder) pairs(label string, keys []Pair, pool []vals.V, loopVar bool) []Pair {
	n := rapid.IntRange(1, 4).Draw(b.t, label+"-n")
	perm := rapid.Permutation(keys).Draw(b.t, label+"-keys")
	var out []Pair
	seen := map[string]bool{}
	for _, k := range perm {
		if len(out) == n {
			break
		}
		if seen[kebab(k.Key)] {
			continue
		}
		seen[kebab(k.Key)] = true
		out = append(out, b.pairValue(fmt.Sprintf("%s-%d", label, len(out)), k, pool, loopVar))
	}
	return out
}

func genCase(f *findings, table []vals.V) func(t *rapid.T) Case {
	return func(t *rapid.T) Case {
		c := Case{Tag: pick(t, "tag", []string{"p", "p", "p", "span", "div", "a", "input", "textarea"}), Data: map[string]vals.V{}}
		b := &builder{t: t, c: &c, table: table}
		mode := "normal"
		// (rapid favours small numbers: the common choice sits at the low end of every range)
		switch m := rapid.IntRange(0, 99).Draw(t, "mode"); {
		case m >= 96:
			mode = "v-pre"
		case m >= 88:
			mode = "v-keep"
			c.Tag = "template"
		}
		// placement and structural directives
		if mode != "v-keep" {
			c.Place = pick(t, "place", []string{"", "", "", "", "", "", "root", "pre", "slot", "slot#", "tplfor", "tplfor", "tplfor",
				"sloop", "sloop", "sloop#", "stwice", "stwice", "sdloop", "sdplain", "noscript", "noscript", "td", "select", "svg", "tplwrap"})
			if tg, forced := containerTag[c.Place]; forced && mode != "v-keep" {
				c.Tag = tg
			}
		}
		multi := multiSlot[c.Place]
		b.scoped = c.scoped()
		// the all-static variant: no bound or interpolated attribute at all, only v-show next to
		// a static style / class (the same content node is then evaluated once per instance)
		allStatic := multi && mode == "normal" && chance(t, "all-static", 30)
		if multi {
			n := 2
			if c.Place != "stwice" {
				n = rapid.IntRange(2, 3).Draw(t, "rows")
			}
			var rows []vals.V
			for i := 0; i < n; i++ {
				var on vals.V
				switch rapid.IntRange(0, 4).Draw(t, fmt.Sprintf("row%d-on", i)) {
				case 0, 1:
					on = vals.Bool(false)
				case 2, 3:
					on = vals.Bool(true)
				default:
					on = pick(t, fmt.Sprintf("row%d-onv", i), rowOnVals)
				}
				v := pick(t, fmt.Sprintf("row%d-v", i), []vals.V{vals.Str(fmt.Sprintf("r%d", i+1)), vals.Int(i), vals.Str(""), vals.Str("b1 b2"), vals.Str("color:red")})
				rows = append(rows, vals.Map(map[string]vals.V{"on": on, "v": v}))
			}
			c.Data[rowList] = vals.List("[]map", rows...)
		}
		var attrs []Attr
		loop := c.Place == "tplfor"
		if mode == "normal" {
			switch rapid.IntRange(0, 9).Draw(t, "chain") {
			case 0, 1:
				attrs = append(attrs, Attr{Kind: "dir", Name: "v-if", Text: b.newVar(pick(t, "ifv", truthyVals))})
			case 2:
				attrs = append(attrs, Attr{Kind: "dir", Name: "v-else"})
			case 3:
				attrs = append(attrs, Attr{Kind: "dir", Name: "v-else-if", Text: b.newVar(pick(t, "elifv", truthyVals))})
			}
			role := ""
			if len(attrs) > 0 {
				role = attrs[0].Name
			}
			if !loop && !multi && (role == "" || role == "v-if") && chance(t, "for", 15) {
				attrs = append(attrs, Attr{Kind: "dir", Name: "v-for", Text: forVar + " in " + forList})
				loop = true
			}
			// v-once on the v-for element itself: C16's subject (nothing is rendered), not generated
			if !multi && !(len(attrs) > 0 && attrs[len(attrs)-1].Name == "v-for") && chance(t, "once", 15) {
				attrs = append(attrs, Attr{Kind: "dir", Name: "v-once"})
			}
			if !voidTag[c.Tag] {
				switch rapid.IntRange(0, 9).Draw(t, "content") {
				case 0:
					attrs = append(attrs, Attr{Kind: "dir", Name: "v-html", Text: b.newVar(vals.Str("<b>h</b>"))})
				case 1:
					attrs = append(attrs, Attr{Kind: "dir", Name: "v-text", Text: b.newVar(vals.Str("txt"))})
				}
			}
		}
		if mode == "v-pre" {
			attrs = append(attrs, Attr{Kind: "dir", Name: "v-pre"})
		}
		if mode == "v-keep" {
			attrs = append(attrs, Attr{Kind: "dir", Name: "v-keep"})
		}
		if loop {
			n := rapid.IntRange(1, 3).Draw(t, "items")
			var items []vals.V
			for i := 0; i < n; i++ {
				items = append(items, vals.Str(fmt.Sprintf("i%d", i+1)))
			}
			c.Data[forList] = vals.List("[]any", items...)
		}
		c.Data["chainoff"] = vals.Bool(false)
		dynamicOK := mode != "v-pre"

		// generic attribute names
		nGeneric := rapid.IntRange(0, 5).Draw(t, "ngeneric")
		perm := rapid.Permutation(genericNames).Draw(t, "names")
		for i := 0; i < nGeneric; i++ {
			name := perm[i]
			lbl := fmt.Sprintf("g%d", i)
			st := Attr{Kind: "static", Name: name, Text: pick(t, lbl+"-text", staticTexts)}
			in := func() Attr {
				a := Attr{Kind: "interp", Name: name, Text: pick(t, lbl+"-pre", []string{"", "a", "a ", " a", "pre-", "l1\n  ", "\t"}), Post: pick(t, lbl+"-post", []string{"", "b", " b", "b ", "-post", "\n\nz", "\r\n"})}
				if b.scoped && chance(t, lbl+"-insp", 30) {
					a.Path = slotVar + ".v"
				} else if loop && chance(t, lbl+"-init", 20) {
					a.Path = forVar
				} else {
					a.Path = b.newVar(pick(t, lbl+"-iv", simpleVals))
				}
				return a
			}
			bd := func() Attr {
				k := pick(t, lbl+"-bk", []string{"bind", "vbind"})
				if rapid.IntRange(0, 9).Draw(t, lbl+"-isx") >= 8 {
					x := b.expr(lbl + "-x")
					return Attr{Kind: k, Name: name, Text: x.A, X: x}
				}
				return Attr{Kind: k, Name: name, Text: b.anyPath(lbl+"-bv", loop)}
			}
			form := rapid.IntRange(0, 9).Draw(t, lbl+"-form")
			if !dynamicOK {
				// v-pre: static, interpolated and bracketed attributes only
				form = pick(t, lbl+"-preform", []int{0, 2, 8})
			}
			if allStatic {
				form = pick(t, lbl+"-staticform", []int{0, 0, 8})
			}
			switch form {
			case 0, 1:
				attrs = append(attrs, st)
			case 2:
				attrs = append(attrs, in())
			case 3, 4:
				attrs = append(attrs, bd())
			case 5:
				attrs = append(attrs, bd())
			case 6:
				if chance(t, lbl+"-twin-order", 50) {
					attrs = append(attrs, st, bd())
				} else {
					attrs = append(attrs, bd(), st)
				}
			case 7:
				attrs = append(attrs, in(), bd())
			default:
				a := Attr{Kind: "lit", Name: name, Text: pick(t, lbl+"-lt", litTexts)}
				if chance(t, lbl+"-lm", 40) {
					a.Text = pick(t, lbl+"-lpre", []string{"", "literal ", "n="})
					a.Path = b.newVar(pick(t, lbl+"-lv", []vals.V{vals.Str("RAW"), vals.Int(123), vals.Str("x")}))
					a.Post = pick(t, lbl+"-lpost", []string{"", " end"})
				}
				attrs = append(attrs, a)
			}
		}
		// class
		if chance(t, "class", 60) {
			staticOnly := !dynamicOK || allStatic
			stc := Attr{Kind: "static", Name: "class", Text: pick(t, "class-st", []string{"s1", "s1 s2", " s1  s2 ", "s3", "größe s1", "見出し", "s2 🍕 вкл"})}
			bdc := func() Attr {
				return Attr{Kind: pick(t, "class-bk", []string{"bind", "vbind"}), Name: "class", Text: func() string {
					if chance(t, "class-any", 35) {
						return b.anyPath("class-bv", loop)
					}
					return b.newVar(pick(t, "class-str", classStrs))
				}()}
			}
			obc := func() Attr {
				return Attr{Kind: pick(t, "class-ok", []string{"obj", "obj", "vobj"}), Name: "class", Pairs: b.pairs("class-pairs", classKeys, truthyVals, loop)}
			}
			v := rapid.IntRange(0, 6).Draw(t, "class-variant")
			if staticOnly {
				v = 0
			}
			switch v {
			case 0:
				attrs = append(attrs, stc)
			case 1:
				attrs = append(attrs, bdc())
			case 2:
				attrs = append(attrs, obc())
			case 3:
				attrs = append(attrs, stc, bdc())
			case 4:
				attrs = append(attrs, bdc(), stc)
			case 5:
				attrs = append(attrs, stc, obc())
			default:
				attrs = append(attrs, obc(), stc)
			}
		}
		// style
		if allStatic || chance(t, "style", 60) {
			sts := func() Attr {
				n := rapid.IntRange(1, 3).Draw(t, "style-n")
				perm := rapid.Permutation(staticDecls).Draw(t, "style-decls")
				sep := pick(t, "style-fmt", [][2]string{{": ", "; "}, {":", ";"}, {" : ", " ;"}})
				var parts []string
				spelled := map[string]string{}
				for _, d := range perm[:n] {
					// one static style does not repeat a property in two letter cases (width … Width):
					// a bound value replaces the first of them only, the second stays and wins in CSS
					// (reported to the lead; not generated)
					if prev, dup := spelled[propName(d[0])]; dup && prev != d[0] {
						continue
					}
					spelled[propName(d[0])] = d[0]
					parts = append(parts, d[0]+sep[0]+d[1])
				}
				txt := strings.Join(parts, sep[1])
				if chance(t, "style-trail", 50) {
					txt += ";"
				}
				return Attr{Kind: "static", Name: "style", Text: txt}
			}
			bds := func() Attr {
				return Attr{Kind: pick(t, "style-bk", []string{"bind", "vbind"}), Name: "style", Text: func() string {
					if chance(t, "style-any", 30) {
						return b.newVar(b.anyVal("style-bv"))
					}
					return b.newVar(pick(t, "style-str", styleStrs))
				}()}
			}
			obs := func() Attr {
				return Attr{Kind: pick(t, "style-ok", []string{"obj", "obj", "vobj"}), Name: "style", Pairs: b.pairs("style-pairs", styleKeys, styleVals, loop)}
			}
			v := rapid.IntRange(0, 6).Draw(t, "style-variant")
			if !dynamicOK || allStatic {
				v = 0
			}
			switch v {
			case 0:
				attrs = append(attrs, sts())
			case 1:
				attrs = append(attrs, bds())
			case 2:
				attrs = append(attrs, obs())
			case 3:
				attrs = append(attrs, sts(), bds())
			case 4:
				attrs = append(attrs, bds(), sts())
			case 5:
				attrs = append(attrs, sts(), obs())
			default:
				attrs = append(attrs, obs(), sts())
			}
		}
		// v-show
		if b.scoped && (allStatic || (dynamicOK && chance(t, "show-sp", 55))) {
			attrs = append(attrs, Attr{Kind: "show", Text: slotVar + ".on"})
		} else if allStatic {
			attrs = append(attrs, Attr{Kind: "show", Text: b.newVar(vals.Bool(rapid.Bool().Draw(t, "show-plain")))})
		} else if dynamicOK && chance(t, "show", 45) {
			switch rapid.IntRange(0, 4).Draw(t, "show-form") {
			case 4:
				x := b.expr("show-x")
				attrs = append(attrs, Attr{Kind: "show", Text: x.A, X: x})
			case 0:
				n := rapid.IntRange(0, 3).Draw(t, "show-n")
				attrs = append(attrs, Attr{Kind: "show", Text: b.newVar(vals.Int(rapid.IntRange(0, 4).Draw(t, "show-gv"))), Gt: &n})
			case 1:
				attrs = append(attrs, Attr{Kind: "show", Text: b.newVar(vals.Bool(rapid.Bool().Draw(t, "show-b")))})
			default:
				attrs = append(attrs, Attr{Kind: "show", Text: b.newVar(b.anyVal("show-v"))})
			}
		}
		// bracketed directive names
		nLit := rapid.IntRange(0, 2).Draw(t, "nlit")
		lperm := rapid.Permutation(litNames).Draw(t, "lit-names")
		for i := 0; i < nLit; i++ {
			attrs = append(attrs, Attr{Kind: "lit", Name: lperm[i], Text: pick(t, fmt.Sprintf("lit%d", i), litTexts)})
		}
		attrs = append(attrs, marker())
		// spelling switches: none of them changes what an attribute means
		for i := range attrs {
			lbl := fmt.Sprintf("sp%d", i)
			if rapid.IntRange(0, 9).Draw(t, lbl+"-upper") >= 8 {
				attrs[i].Upper = true
			}
			switch attrs[i].Kind {
			case "obj", "vobj":
				attrs[i].Obj = objStyles[rapid.IntRange(0, 6).Draw(t, lbl+"-obj")%len(objStyles)]
			default:
				if q := rapid.IntRange(0, 9).Draw(t, lbl+"-quote"); q >= 7 {
					attrs[i].Quote = quotes[1+q%2]
				}
			}
		}
		c.Attrs = rapid.Permutation(attrs).Draw(t, "order")
		if c.Place == "svg" {
			var kept []Attr
			for _, a := range c.Attrs {
				if foreignAdjusted(a.Name) {
					continue // namespaced by the parser in foreign content
				}
				kept = append(kept, a)
			}
			c.Attrs = kept
		}
		if e := rapid.IntRange(0, 13).Draw(t, "entry"); e >= 6 {
			c.Entry = entries[e-6]
			if !strings.HasPrefix(c.Entry, "vue-") {
				c.Deliver = pick(t, "deliver", deliveries)
			}
		}
		switch rapid.IntRange(0, 9).Draw(t, "after") {
		case 8:
			c.After = "pool"
		case 9:
			c.After = "tpl"
		}
		return f.repair(c)
	}
}

// ---------------------------------------------------------------- entry point

func TestProp(t *testing.T) {
	rec := ev.New(prop)
	defer run.Finish(t, rec)
	run.Witnesses(rec, prop, replay)

	f := loadFindings(rec)
	shard, shards := run.Shard()
	if n, ok := enumerate(rec, f, shard, shards); ok {
		rec.Exhaustive(fmt.Sprintf("every single attribute form x value table x placement, every directive alone and in compatible pairs (%d cases)", n))
	}
	run.Rapid(t, rec, "random", genCase(f, tableVals()), classify, check)
}
