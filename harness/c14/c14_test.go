// Package c14 decides C14: attribute binding — a bound attribute is emitted with the value's
// string form when truthy and omitted when falsy, static attributes pass through unchanged and
// in place, `class` merges static and bound classes (object syntax: exactly the truthy keys),
// a `style` object contributes kebab-cased properties that override same-named static
// declarations while keeping the others, `v-show` adds display:none exactly when its condition
// is falsy, directive attributes never reach the output, bracketed [attr] attributes appear
// unbracketed with their value untouched.
//
// A case is ONE element description (tag, ordered attribute list, data). The template source
// is printed from the description, the expected attributes are computed from the description
// by the model in this file (never by vuego), and the rendered output is read back through
// the HTML5 parser (internal/hx) plus the tokenizer (for attribute order, which maps lose).
package c14

import (
	"bytes"
	"context"
	"encoding/json"
	"fmt"
	"sort"
	"strconv"
	"strings"
	"testing"

	"github.com/titpetric/vuego"
	"golang.org/x/net/html"

	"verif/internal/hx"
	"verif/internal/memfs"
	"verif/internal/run"
	"verif/internal/vals"
)

const prop = "C14"

// ---------------------------------------------------------------- case description

// Pair is one `key: value` entry of an object-syntax binding.
type Pair struct {
	Key string `json:"key"`
	Q   bool   `json:"q,omitempty"` // key written in single quotes
	Src string `json:"src"`         // path | str | num | bool | gt | not | tern
	Arg string `json:"arg"`         // path name / literal text
	N   int    `json:"n,omitempty"` // gt: `Arg > N`
	X   *Expr  `json:"x,omitempty"` // Src expr: the value is this expression
	// not:  `!Arg`                         (Arg is a path holding a bool)
	// tern: `Arg ? Then : Else`, with Neg `!Arg ? Then : Else`; Alt says what Then / Else are:
	//       str (written in single quotes), num, path
	Neg  bool   `json:"neg,omitempty"`
	Alt  string `json:"alt,omitempty"`
	Then string `json:"then,omitempty"`
	Else string `json:"else,omitempty"`
}

// Attr is one attribute of the element, in source order.
//
//	static  Name="Text"
//	interp  Name="Text{{ Path }}Post"
//	bind    :Name="Text"            (Text is a data path)
//	vbind   v-bind:Name="Text"
//	obj     :Name="{pairs}"         (Name is class or style)
//	vobj    v-bind:Name="{pairs}"
//	show    v-show="Text"  or  v-show="Text > N" when Gt is set
//	dir     Name="Text" / bare Name (v-if, v-else-if, v-else, v-for, v-html, v-text, v-once, v-pre, v-keep)
//	lit     [Name]="Text" or [Name]="Text{{ Path }}Post"
type Attr struct {
	Kind  string `json:"kind"`
	Name  string `json:"name,omitempty"`
	Text  string `json:"text,omitempty"`
	Path  string `json:"path,omitempty"`
	Post  string `json:"post,omitempty"`
	Gt    *int   `json:"gt,omitempty"`
	Pairs []Pair `json:"pairs,omitempty"`
	// spelling (spell_test.go): none of these changes what the attribute means
	X     *Expr  `json:"x,omitempty"`     // bind / vbind / show: the value is this expression instead of the path Text
	Upper bool   `json:"upper,omitempty"` // the attribute name is written in upper case (:TITLE, V-SHOW, [DATA-X])
	Quote string `json:"quote,omitempty"` // "" double quotes, "'" single quotes, "none" unquoted (where the value allows it)
	Obj   string `json:"obj,omitempty"`   // object syntax layout: "" `{a: x, b: y}`, tight `{a:x,b:y}`, comma (trailing comma), lines (one entry per line, trailing comma)
}

// Case is one element inside a small wrapper.
type Case struct {
	Tag   string            `json:"tag"`             // p, span, div, a, input, template
	Place string            `json:"place,omitempty"` // "" (inside <div>), root, pre (inside <pre>), slot, slot#, tplfor, sloop, sloop#, stwice, sdloop, sdplain
	Attrs []Attr            `json:"attrs"`
	Data  map[string]vals.V `json:"data,omitempty"`
	After string            `json:"after,omitempty"` // "", pool, tpl: a failing variant is rendered first (after_test.go)
	// Entry is the entry point the page goes through, Deliver how the data reaches it (entry_test.go).
	Entry   string `json:"entry,omitempty"`   // "" (legacy: RenderString, or Load.Fill.Render for the slot placements), string, byte, reader, load, file, vue-render, vue-fragment, vue-nodes
	Deliver string `json:"deliver,omitempty"` // "" / fill, assign (key by key), fill+assign
}

const (
	forVar  = "it"    // loop variable of v-for / tplfor
	forList = "items" // list iterated by v-for / tplfor
	rowList = "rows"  // list of {on, v} maps: one slot instantiation per row in the multi-slot placements
	slotVar = "sp"    // name the scoped slot props are bound to: sp.on, sp.v
)

// Multi-slot placements: the element is slot content of a component that instantiates the slot
// once per row (`<slot>` inside v-for) or twice; the same content node is evaluated several
// times in one render, each time with the slot props of its row.
//
//	sloop   <template v-slot:hdr="sp">, component loops over rows
//	sloop#  <template #hdr="sp">, component loops over rows
//	stwice  <template v-slot:hdr="sp">, component uses the slot twice (rows[0], rows[1])
//	sdloop  <template v-slot="sp"> (default scoped slot), component loops over rows
//	sdplain plain default content (no slot props), component loops over rows
var multiSlot = map[string]bool{"sloop": true, "sloop#": true, "stwice": true, "sdloop": true, "sdplain": true}

func (c Case) scoped() bool { return multiSlot[c.Place] && c.Place != "sdplain" }

// instances is the number of times the element is expected in the output.
func (c Case) instances() int {
	switch {
	case c.Place == "stwice":
		return 2
	case multiSlot[c.Place]:
		return len(c.Data[rowList].L)
	case c.loops():
		return len(c.Data[forList].L)
	}
	return 1
}

func (c Case) has(kind, name string) bool {
	for _, a := range c.Attrs {
		if a.Kind == kind && (name == "" || a.Name == name) {
			return true
		}
	}
	return false
}

func (c Case) dir(name string) bool { return c.has("dir", name) }

func (c Case) inChain() bool { return c.dir("v-if") || c.dir("v-else-if") || c.dir("v-else") }

func (c Case) loops() bool { return c.dir("v-for") || c.Place == "tplfor" }

var voidTag = map[string]bool{"input": true, "img": true}

// ---------------------------------------------------------------- source printing

func pairSrc(p Pair) string {
	k := p.Key
	if p.Q {
		k = "'" + k + "'"
	}
	switch p.Src {
	case "str":
		return k + ": '" + p.Arg + "'"
	case "gt":
		return fmt.Sprintf("%s: %s > %d", k, p.Arg, p.N)
	case "not":
		return k + ": !" + p.Arg
	case "expr":
		return k + ": " + p.X.src()
	case "tern":
		alt := func(t string) string {
			if p.Alt == "str" {
				return "'" + t + "'"
			}
			return t
		}
		neg := ""
		if p.Neg {
			neg = "!"
		}
		return k + ": " + neg + p.Arg + " ? " + alt(p.Then) + " : " + alt(p.Else)
	}
	return k + ": " + p.Arg // path, num, bool
}

func attrSrc(a Attr) string {
	// literal text of static / interpolated / bracketed values: & and " are written as references
	esc := func(v string) string {
		// a carriage return is written as a reference: a raw CR would be turned into LF by the
		// template parser's input pre-processing, the reference is part of the value
		v = strings.ReplaceAll(strings.ReplaceAll(v, "&", "&amp;"), `"`, "&quot;")
		return strings.ReplaceAll(v, "\r", "&#13;")
	}
	var n, v string
	switch a.Kind {
	case "static":
		n, v = a.Name, esc(a.Text)
	case "interp":
		n, v = a.Name, esc(a.Text)+"{{ "+a.Path+" }}"+esc(a.Post)
	case "bind", "vbind":
		n, v = ":"+a.Name, a.Text
		if a.Kind == "vbind" {
			n = "v-bind:" + a.Name
		}
		if a.X != nil {
			v = a.X.src()
		}
	case "obj", "vobj":
		var ps []string
		for _, p := range a.Pairs {
			ps = append(ps, pairSrc(p))
		}
		n = ":" + a.Name
		if a.Kind == "vobj" {
			n = "v-bind:" + a.Name
		}
		switch a.Obj {
		case "tight":
			for i := range ps {
				ps[i] = strings.Replace(ps[i], ": ", ":", 1)
			}
			v = "{" + strings.Join(ps, ",") + "}"
		case "comma":
			v = "{" + strings.Join(ps, ", ") + ",}"
		case "lines":
			v = "{\n    " + strings.Join(ps, ",\n    ") + ",\n  }"
		default:
			v = "{" + strings.Join(ps, ", ") + "}"
		}
	case "show":
		n, v = "v-show", a.Text
		if a.Gt != nil {
			v = fmt.Sprintf("%s > %d", a.Text, *a.Gt)
		}
		if a.X != nil {
			v = a.X.src()
		}
	case "dir":
		if a.Text == "" {
			if a.Upper {
				return strings.ToUpper(a.Name)
			}
			return a.Name
		}
		n, v = a.Name, a.Text
	case "lit":
		n, v = "["+a.Name+"]", esc(a.Text)
		if a.Path != "" {
			v = esc(a.Text) + "{{ " + a.Path + " }}" + esc(a.Post)
		}
	default:
		return ""
	}
	if a.Upper {
		n = strings.ToUpper(n) // attribute names are case-insensitive in HTML
	}
	switch {
	case a.Quote == "none" && v != "" && !strings.ContainsAny(v, " \t\n\r\f\"'`=<>"):
		return n + "=" + v
	case a.Quote == "'" && !strings.Contains(v, "'"):
		return n + "='" + v + "'"
	}
	return n + `="` + v + `"`
}

// containerTag: parser-sensitive containers and the tag the element under test must have there.
//
//	noscript <div><noscript>EL</noscript></div>   (any tag; raw text to a parser with scripting on)
//	td       <table><tbody><tr>EL</tr></tbody></table>   EL is the <td>
//	select   <div><select>EL</select></div>              EL is an <option>
//	svg      <div><svg>EL</svg></div>                    EL is a <g> in the SVG namespace
//	tplwrap  <div><template>EL</template></div>         (any tag; the wrapper is dissolved)
var containerTag = map[string]string{"td": "td", "select": "option", "svg": "g"}

func foreignAdjusted(name string) bool {
	return strings.HasPrefix(name, "xml:") || strings.HasPrefix(name, "xlink:") || strings.HasPrefix(name, "xmlns")
}

func (c Case) element() string {
	var sb strings.Builder
	sb.WriteString("<" + c.Tag)
	for _, a := range c.Attrs {
		sb.WriteString(" " + attrSrc(a))
	}
	sb.WriteString(">")
	if !voidTag[c.Tag] {
		sb.WriteString("k</" + c.Tag + ">")
	}
	return sb.String()
}

// source returns the page template and, for the slot placements, the component file.
func (c Case) source() (page string, files map[string]string) {
	el := c.element()
	if c.dir("v-else-if") || c.dir("v-else") {
		// the element is reached through a chain whose first branch is false
		sib := "i"
		if t, ok := containerTag[c.Place]; ok {
			sib = t // the only kind of element the container's parser rules keep
		}
		el = `<` + sib + ` v-if="chainoff">x</` + sib + `>` + el
	}
	switch c.Place {
	case "noscript":
		return `<div><noscript>` + el + `</noscript></div>`, nil
	case "td":
		return `<table><tbody><tr>` + el + `</tr></tbody></table>`, nil
	case "select":
		return `<div><select name="s">` + el + `</select></div>`, nil
	case "svg":
		return `<div><svg width="10" height="10">` + el + `</svg></div>`, nil
	case "tplwrap":
		return `<div><template>` + el + `</template></div>`, nil
	case "root":
		return el, nil
	case "tplfor":
		return `<div><template v-for="` + forVar + ` in ` + forList + `">` + el + `</template></div>`, nil
	case "pre":
		return `<div><pre>` + el + `</pre></div>`, nil
	case "sloop", "sloop#", "stwice", "sdloop", "sdplain":
		slotAttrs := ` name="hdr" :on="row.on" :v="row.v"`
		open, shut := `<template v-slot:hdr="`+slotVar+`">`, `</template>`
		switch c.Place {
		case "sloop#":
			open = `<template #hdr="` + slotVar + `">`
		case "sdloop":
			open, slotAttrs = `<template v-slot="`+slotVar+`">`, ` :on="row.on" :v="row.v"`
		case "sdplain":
			open, shut, slotAttrs = "", "", ""
		}
		comp := `<ul><li v-for="row in ` + rowList + `"><slot` + slotAttrs + `></slot></li></ul>`
		if c.Place == "stwice" {
			comp = `<section><slot name="hdr" :on="` + rowList + `[0].on" :v="` + rowList + `[0].v"></slot><b>sep</b><slot name="hdr" :on="` + rowList + `[1].on" :v="` + rowList + `[1].v"></slot></section>`
		}
		page = `<div><template include="comp.vuego" :` + rowList + `="` + rowList + `">` + open + el + shut + `</template></div>`
		return page, map[string]string{"page.vuego": page, "comp.vuego": comp}
	case "slot", "slot#":
		at := "v-slot:hdr"
		if c.Place == "slot#" {
			at = "#hdr"
		}
		page = `<div><template include="comp.vuego"><template ` + at + `>` + el + `</template></template></div>`
		return page, map[string]string{"page.vuego": page, "comp.vuego": `<section><slot name="hdr"></slot></section>`}
	}
	return `<div>` + el + `</div>`, nil
}

func (c Case) goData() map[string]any {
	d := map[string]any{}
	for k, v := range c.Data {
		if v.K == "missing" {
			continue
		}
		d[k] = goValue(v)
	}
	return d
}

// ---------------------------------------------------------------- the model

// lookup resolves a data path for iteration k of the surrounding loop (if any).
func (c Case) lookup(path string, k int) vals.V {
	if c.scoped() && strings.HasPrefix(path, slotVar+".") {
		rows := c.Data[rowList].L
		if k < len(rows) {
			if v, ok := rows[k].M[strings.TrimPrefix(path, slotVar+".")]; ok {
				return v
			}
		}
		return vals.Missing()
	}
	if path == forVar && c.loops() {
		items := c.Data[forList].L
		if k < len(items) {
			return items[k]
		}
	}
	if v, ok := c.Data[path]; ok {
		return v
	}
	if base, field, ok := strings.Cut(path, "."); ok {
		if p, has := c.Data[base]; has && p.K == "post" {
			return postField(p, field)
		}
	}
	return vals.Missing()
}

func isNumeric(k string) bool {
	for _, n := range vals.NumericKinds {
		if n == k {
			return true
		}
	}
	return false
}

// strForm is the "string form" of a value: fmt.Sprint of the Go value. ok=false for kinds whose
// text is a memory address (pointers to scalars): only presence is asserted for those.
func strForm(v vals.V) (string, bool) {
	switch v.K {
	case "*int", "*string", "func", "chan":
		return "", false
	}
	return fmt.Sprint(goValue(v)), true
}

// pairVal is the value an object entry evaluates to, with its documented truthiness.
func (c Case) pairVal(p Pair, k int) (v vals.V, truthy, specified bool) {
	switch p.Src {
	case "path":
		v = c.lookup(p.Arg, k)
	case "str":
		v = vals.Str(p.Arg)
	case "num":
		v = vals.Num("int", p.Arg)
	case "bool":
		v = vals.Bool(p.Arg == "true")
	case "gt":
		x := c.lookup(p.Arg, k)
		if x.K != "int" {
			return x, false, false // comparisons are only modelled over ints
		}
		n, _ := strconv.Atoi(x.S)
		v = vals.Bool(n > p.N)
	case "expr":
		x, known := c.exprVal(p.X, k)
		if !known {
			return vals.Missing(), false, false
		}
		v = x
	case "not", "tern":
		x := c.lookup(p.Arg, k)
		if x.K != "bool" {
			// negating / branching on a non-boolean operand: C13's subject, not asserted here
			return vals.Missing(), false, false
		}
		cond := x.S == "true"
		if p.Src == "not" {
			v = vals.Bool(!cond)
			break
		}
		if p.Neg {
			cond = !cond
		}
		pickd := p.Else
		if cond {
			pickd = p.Then
		}
		switch p.Alt {
		case "str":
			v = vals.Str(pickd)
		case "num":
			v = vals.Num("int", pickd)
		default:
			v = c.lookup(pickd, k)
		}
	}
	truthy, specified = truthyOf(v)
	return
}

func kebab(key string) string {
	if strings.Contains(key, "-") {
		return key // docs: properties that already contain hyphens are left unchanged
	}
	var sb strings.Builder
	for i, r := range key {
		if i > 0 && r >= 'A' && r <= 'Z' {
			sb.WriteByte('-')
			sb.WriteRune(r - 'A' + 'a')
		} else {
			sb.WriteRune(r)
		}
	}
	return sb.String()
}

type decl struct{ prop, val string }

const malformed = "\x00malformed"

// splitDecls cuts a declaration list at the semicolons that separate declarations: those
// outside parentheses and outside quoted strings (CSS syntax: url(data:image/png;base64,AA)
// and content: "a;b" are single values).
func splitDecls(s string) []string {
	var parts []string
	depth, start := 0, 0
	escaped := false
	var quote rune
	for i, r := range s {
		switch {
		case escaped:
			escaped = false // the character after a backslash inside a string is part of the string
		case quote != 0:
			if r == '\\' {
				escaped = true
			} else if r == quote {
				quote = 0
			}
		case r == '\'' || r == '"':
			quote = r
		case r == '(':
			depth++
		case r == ')':
			if depth > 0 {
				depth--
			}
		case r == ';' && depth == 0:
			parts = append(parts, s[start:i])
			start = i + 1
		}
	}
	return append(parts, s[start:])
}

// propName normalises a property name: CSS property names are case-insensitive (DISPLAY is
// display), custom properties (--myVar) are not.
func propName(s string) string {
	s = strings.TrimSpace(s)
	if strings.HasPrefix(s, "--") {
		return s
	}
	return strings.ToLower(s)
}

// parseDecls reads a declaration list `a: b; c: d`.
func parseDecls(s string) []decl {
	var out []decl
	for _, part := range splitDecls(s) {
		part = strings.TrimSpace(part)
		if part == "" {
			continue
		}
		i := strings.Index(part, ":")
		if i < 0 {
			out = append(out, decl{part, malformed})
			continue
		}
		out = append(out, decl{propName(part[:i]), strings.TrimSpace(part[i+1:])})
	}
	return out
}

// innerSemicolon reports a ';' inside parentheses or quotes (the region of the repaired finding
// C14-style-semicolon-in-value-cut).
func innerSemicolon(s string) bool { return strings.Count(s, ";") > len(splitDecls(s))-1 }

// openQuote reports a quote character that opens a CSS string which is never closed (Tom's):
// where such a value or declaration ends is not defined, nothing is asserted about the style then.
func openQuote(s string) bool {
	var quote rune
	escaped := false
	for _, r := range s {
		switch {
		case escaped:
			escaped = false
		case quote != 0:
			if r == '\\' {
				escaped = true
			} else if r == quote {
				quote = 0
			}
		case r == '\'' || r == '"':
			quote = r
		}
	}
	return quote != 0
}

// separatorInValue reports a ';' that would end the declaration when s is used as one value.
func separatorInValue(s string) bool { return len(splitDecls(s)) > 1 }

// expect is what the statement promises for one rendered instance of the element.
type expect struct {
	must    map[string][]string // attribute -> accepted values
	present map[string]bool     // attribute must exist, value not asserted
	free    map[string]bool     // attribute may or may not exist (unspecified)
	litName map[string]bool     // names that came from a bracketed attribute

	classAny  bool            // some class source exists
	classFree bool            // class not asserted
	classReq  []string        // tokens that must be there, each once
	classOpt  map[string]bool // tokens that may be there (unspecified truthiness)

	styleAny   bool              // some style source exists (static, bound, v-show)
	styleFree  bool              // declarations not asserted (display rule still is)
	style      map[string]string // property -> value
	propFree   map[string]bool   // properties not asserted
	display    string            // "none" | "shown" | "free" (truthiness unspecified) | "" (no v-show)
	boundProps map[string]bool   // properties a bound declaration names: exactly one declaration of each may remain
	keptSeq    []string          // static properties no bound declaration touches, in source order
	addedSeq   []string          // bound properties no static declaration has, in binding order

	order []string // untouched static attribute names in source order
}

func (c Case) model(k int) *expect {
	e := &expect{must: map[string][]string{}, present: map[string]bool{}, free: map[string]bool{}, litName: map[string]bool{},
		classOpt: map[string]bool{}, style: map[string]string{}, propFree: map[string]bool{}}

	// v-pre: "Skip template processing for element and children" — everything stays as written.
	if c.dir("v-pre") {
		for _, a := range c.Attrs {
			switch a.Kind {
			case "static":
				e.must[a.Name] = []string{a.Text}
				e.order = append(e.order, a.Name)
			case "interp":
				e.must[a.Name] = []string{a.Text + "{{ " + a.Path + " }}" + a.Post}
			case "lit":
				raw := a.Text
				if a.Path != "" {
					raw += "{{ " + a.Path + " }}" + a.Post
				}
				e.must[a.Name] = []string{raw}
				e.litName[a.Name] = true
			case "dir":
				// the directive attribute itself must not be emitted (v-pre); others: not generated
			default:
				// bound attributes under v-pre: whether `:n` is emitted verbatim is not spelled
				// out; neither form is asserted
				e.free[a.Name] = true
				e.free[":"+a.Name] = true
				e.free["v-bind:"+a.Name] = true
			}
		}
		return e
	}

	bound := map[string]bool{}  // names with a bound twin
	static := map[string]bool{} // names with a static / interpolated twin
	for _, a := range c.Attrs {
		switch a.Kind {
		case "bind", "vbind", "obj", "vobj":
			bound[a.Name] = true
		case "static", "interp":
			static[a.Name] = true
		}
	}
	showAttr := c.has("show", "")
	boundSet := map[string]bool{} // style properties some bound declaration names
	var boundSeq []string         // asserted bound style properties in binding order
	staticStyle, hasStaticStyle := "", false

	for _, a := range c.Attrs {
		switch a.Kind {
		case "static":
			switch {
			case a.Name == "class":
				e.classAny = true
				e.classReq = append(e.classReq, strings.Fields(a.Text)...)
				if !bound["class"] {
					e.order = append(e.order, a.Name)
				}
			case a.Name == "style":
				e.styleAny = true
				staticStyle, hasStaticStyle = a.Text, true // applied below, once the bound declarations are known
				if !bound["style"] && !showAttr {
					e.order = append(e.order, a.Name)
				}
			case bound[a.Name]:
				// static/bound collision outside class/style: unspecified, not asserted
				e.free[a.Name] = true
			default:
				e.must[a.Name] = []string{a.Text}
				e.order = append(e.order, a.Name)
			}
		case "interp":
			if bound[a.Name] {
				e.free[a.Name] = true
				continue
			}
			v := c.lookup(a.Path, k)
			switch {
			case v.K == "string" || v.K == "bool" || isNumeric(v.K):
				s, _ := strForm(v)
				e.must[a.Name] = []string{a.Text + s + a.Post}
			default:
				// how {{ }} prints nil / containers is C04's business
				e.present[a.Name] = true
			}
		case "bind", "vbind":
			v, known := c.boundVal(a, k)
			truthy, spec := truthyOf(v)
			spec = spec && known
			s, sok := strForm(v)
			switch a.Name {
			case "class":
				e.classAny = true
				switch {
				case !spec || (truthy && !sok):
					e.classFree = true
				case truthy:
					e.classReq = append(e.classReq, strings.Fields(s)...)
				}
			case "style":
				e.styleAny = true
				switch {
				case !spec:
					e.styleFree = true
				case truthy && v.K == "string" && openQuote(s):
					e.styleFree = true // an apostrophe that opens a CSS string and never closes it: not a declaration list
				case truthy && v.K == "string":
					ds := parseDecls(s)
					for _, d := range ds {
						if d.val == malformed {
							e.styleFree = true // not a declaration list: what it contributes is not specified
						}
					}
					for _, d := range ds {
						e.style[d.prop] = d.val
						boundSet[d.prop] = true
						boundSeq = append(boundSeq, d.prop)
					}
				case truthy:
					// a non-string value bound to style: what it contributes is not specified
					e.styleFree = true
				}
			default:
				switch {
				case static[a.Name] || !spec:
					e.free[a.Name] = true
				case truthy && sok:
					e.must[a.Name] = []string{s}
				case truthy:
					e.present[a.Name] = true
				default:
					// falsy: omitted — enforced by the "unexpected attribute" rule
				}
			}
		case "obj", "vobj":
			for _, p := range a.Pairs {
				v, truthy, spec := c.pairVal(p, k)
				switch a.Name {
				case "class":
					e.classAny = true
					switch {
					case !spec:
						e.classOpt[p.Key] = true
					case truthy:
						e.classReq = append(e.classReq, p.Key)
					}
				case "style":
					e.styleAny = true
					pr := kebab(p.Key)
					boundSet[pr] = true
					switch {
					case v.K == "string" && (separatorInValue(v.S) || openQuote(v.S)):
						// a value that ends its own declaration (injection) is not this property's subject;
						// a ';' inside parentheses or quotes is part of the value
						e.styleFree = true
					case v.K == "string" && v.S != "" && v.S == strings.TrimSpace(v.S), isNumeric(v.K):
						s, _ := strForm(v)
						e.style[pr] = s // "Values are applied as-is": colons, quotes, commas, parentheses, !important included
						delete(e.propFree, pr)
						boundSeq = append(boundSeq, pr)
					default:
						// empty, nil, boolean and container values in a style object: unspecified
						delete(e.style, pr)
						e.propFree[pr] = true
					}
				}
			}
		case "show":
			e.styleAny = true
			var truthy, spec bool
			if a.Gt != nil {
				_, truthy, spec = c.pairVal(Pair{Src: "gt", Arg: a.Text, N: *a.Gt}, k)
			} else {
				v, known := c.boundVal(a, k)
				truthy, spec = truthyOf(v)
				spec = spec && known
			}
			switch {
			case !spec:
				e.display = "free"
			case truthy:
				e.display = "shown"
			default:
				e.display = "none"
			}
		case "lit":
			e.litName[a.Name] = true
			if a.Path == "" {
				e.must[a.Name] = []string{a.Text}
				continue
			}
			// docs/syntax.md says bracketed attributes are "not interpolated" and shows, in the same
			// section, `[v-if]="{{count}}"` rendered as "123"; eval_attributes_test.go pins the
			// latter. Both readings are accepted, anything else is a violation.
			raw := a.Text + "{{ " + a.Path + " }}" + a.Post
			acc := []string{raw}
			if v := c.lookup(a.Path, k); v.K == "string" || isNumeric(v.K) {
				s, _ := strForm(v)
				acc = append(acc, a.Text+s+a.Post)
			} else {
				e.present[a.Name] = true
				continue
			}
			e.must[a.Name] = acc
		}
	}
	e.boundProps = boundSet
	if hasStaticStyle {
		staticSet := map[string]bool{}
		for _, d := range parseDecls(staticStyle) {
			if !staticSet[d.prop] && !boundSet[d.prop] {
				e.keptSeq = append(e.keptSeq, d.prop)
			}
			staticSet[d.prop] = true
			if boundSet[d.prop] {
				continue // bound declarations win wherever they stand in the source
			}
			e.style[d.prop] = d.val // a repeated static property: the last one counts
		}
		seen := map[string]bool{}
		for _, p := range boundSeq {
			if !staticSet[p] && !seen[p] {
				e.addedSeq = append(e.addedSeq, p)
			}
			seen[p] = true
		}
	} else {
		seen := map[string]bool{}
		for _, p := range boundSeq {
			if !seen[p] {
				e.addedSeq = append(e.addedSeq, p)
			}
			seen[p] = true
		}
	}
	switch e.display {
	case "none": // whatever else declares display, a falsy v-show wins
		e.style["display"] = "none"
		delete(e.propFree, "display")
	case "free":
		e.propFree["display"] = true
	}
	return e
}

// ---------------------------------------------------------------- reading the output

type instance struct {
	attrs map[string]string
	order []string // attribute names as they appear in the output bytes
}

func markedStartTags(out string) [][]string {
	var res [][]string
	z := html.NewTokenizer(strings.NewReader(out))
	for {
		tt := z.Next()
		if tt == html.ErrorToken {
			return res
		}
		if tt != html.StartTagToken && tt != html.SelfClosingTagToken {
			continue
		}
		tok := z.Token()
		if tok.Data == "noscript" {
			z.NextIsNotRawText() // read the way a client without scripting reads it
		}
		var names []string
		marked := false
		for _, a := range tok.Attr {
			names = append(names, a.Key)
			if a.Key == "data-m" && a.Val == "1" {
				marked = true
			}
		}
		if marked {
			res = append(res, names)
		}
	}
}

var internalNames = map[string]bool{"data-v-html-content": true, "data-v-text-content": true, "v-once-id": true}

func leaky(name string) bool {
	return strings.HasPrefix(name, "v-") || strings.HasPrefix(name, ":") || strings.HasPrefix(name, "#") ||
		strings.HasPrefix(name, "[") || internalNames[name]
}

func render(c Case) (string, error) {
	page, files := c.source()
	ctx := context.Background()
	mk := func() vuego.Template {
		if files != nil {
			return vuego.NewFS(memfs.FromMap(files), vuego.WithFuncs(failFuncs)).Load("page.vuego").Fill(c.goData())
		}
		return vuego.New(vuego.WithFuncs(failFuncs)).Fill(c.goData())
	}
	if c.Entry != "" {
		return renderEntry(c)
	}
	after := c.After
	if after == "tpl" && c.dir("v-once") {
		after = "pool" // what v-once remembers on one Template object across renders is C16's subject
	}
	var t vuego.Template
	switch after {
	case "pool":
		var sink bytes.Buffer
		_ = mk().RenderString(ctx, &sink, c.failSource()) // expected to fail; what it returns is not this property's subject
		t = mk()
	case "tpl":
		t = mk()
		var sink bytes.Buffer
		_ = t.RenderString(ctx, &sink, c.failSource())
	default:
		t = mk()
	}
	var buf bytes.Buffer
	var err error
	if files != nil {
		err = t.Render(ctx, &buf)
	} else {
		err = t.RenderString(ctx, &buf, page)
	}
	return buf.String(), err
}

func check(c Case) error {
	if !c.has("static", "data-m") {
		return nil // not a case of this package
	}
	if t, ok := containerTag[c.Place]; ok && c.Tag != t {
		return nil // the container's parser rules would move or drop the element
	}
	if c.Place == "svg" {
		for _, a := range c.Attrs {
			if foreignAdjusted(a.Name) {
				return nil // xml:lang and the like are namespaced by the parser in foreign content
			}
		}
	}
	// elements whose own condition is off are C03's subject
	for _, a := range c.Attrs {
		if a.Kind == "dir" && (a.Name == "v-if" || a.Name == "v-else-if") {
			if t, spec := truthyOf(c.lookup(a.Text, 0)); !t || !spec {
				return nil
			}
		}
	}
	out, err := render(c)
	page, _ := c.source()
	if err != nil {
		return fmt.Errorf("render of %s failed: %v", page, err)
	}
	forest, err := parseOut(out)
	if err != nil {
		return fmt.Errorf("output of %s does not parse: %v", page, err)
	}
	fail := func(format string, a ...any) error {
		pre := ""
		if c.After != "" {
			pre = "after a failed render (" + c.After + ": " + c.failSource() + "): "
		}
		return fmt.Errorf("%s%s\n  template: %s\n  data: %s\n  output: %s", pre, fmt.Sprintf(format, a...), page, dataString(c.Data), strings.TrimSpace(out))
	}
	if c.After != "" && staleMarker(out) {
		return fail("a value of the failed render (…-STALE) shows up in the next render")
	}
	// nothing but the marked element may carry a directive-looking attribute
	for _, el := range hx.Find(forest, func(n *hx.N) bool { return n.Attrs["data-m"] != "1" }) {
		for name := range el.Attrs {
			if leaky(name) {
				return fail("directive attribute %q reached the output on <%s>", name, el.Tag)
			}
		}
	}
	if multiSlot[c.Place] && (c.dir("v-for") || c.dir("v-once")) {
		return nil // instance numbering would be ambiguous: not a case of this package
	}
	want := c.instances()
	els := hx.Find(forest, func(n *hx.N) bool { return n.Attrs["data-m"] == "1" })
	raw := markedStartTags(out)
	atLeast := want
	if c.dir("v-once") && want > 1 {
		atLeast = 1 // v-once inside a loop renders the element once (docs); how often exactly is C16's subject
	}
	if len(els) > want || len(els) < atLeast || len(raw) != len(els) {
		return fail("expected %d marked element(s), found %d (tokenizer: %d)", want, len(els), len(raw))
	}
	for k := range els {
		if els[k].Tag != c.Tag {
			return fail("marked element is <%s>, want <%s>", els[k].Tag, c.Tag)
		}
		if msg := compare(c.model(k), els[k].Attrs, raw[k]); msg != "" {
			return fail("instance %d: %s", k, msg)
		}
	}
	return nil
}

func compare(e *expect, got map[string]string, order []string) string {
	seen := map[string]bool{}
	for _, n := range order {
		if seen[n] {
			return fmt.Sprintf("attribute %q is emitted twice", n)
		}
		seen[n] = true
	}
	names := make([]string, 0, len(got))
	for n := range got {
		names = append(names, n)
	}
	sort.Strings(names)
	for _, n := range names {
		if leaky(n) && !e.litName[n] && !e.free[n] {
			return fmt.Sprintf("directive/internal attribute %q reached the output (value %q)", n, got[n])
		}
		switch {
		case n == "class" && e.classAny, n == "style" && e.styleAny:
		case e.must[n] != nil, e.present[n], e.free[n]:
		default:
			return fmt.Sprintf("unexpected attribute %s=%q (a falsy/undefined binding must be omitted; nothing else may add attributes)", n, got[n])
		}
	}
	mustNames := make([]string, 0, len(e.must))
	for n := range e.must {
		mustNames = append(mustNames, n)
	}
	sort.Strings(mustNames)
	for _, n := range mustNames {
		g, ok := got[n]
		if !ok {
			return fmt.Sprintf("attribute %q is missing, want %q", n, e.must[n][0])
		}
		hit := false
		for _, w := range e.must[n] {
			if g == w {
				hit = true
			}
		}
		if !hit {
			return fmt.Sprintf("attribute %s=%q, want %q", n, g, e.must[n])
		}
	}
	for _, n := range keys(e.present) {
		if _, ok := got[n]; !ok {
			return fmt.Sprintf("attribute %q is missing (bound to a truthy value)", n)
		}
	}
	// class: token multiset (token order carries no meaning and is not asserted)
	if e.classAny && !e.classFree {
		gotTok := strings.Fields(got["class"])
		count := map[string]int{}
		for _, t := range gotTok {
			count[t]++
		}
		req := map[string]int{}
		for _, t := range e.classReq {
			req[t]++
		}
		for _, t := range sortedKeys(req) {
			if n := req[t]; count[t] != n {
				return fmt.Sprintf("class=%q: token %q appears %d time(s), want %d (expected tokens %v, optional %v)", got["class"], t, count[t], n, e.classReq, keys(e.classOpt))
			}
		}
		for _, t := range sortedKeys(count) {
			n := count[t]
			if req[t] > 0 {
				continue
			}
			if !e.classOpt[t] || n > 1 {
				return fmt.Sprintf("class=%q: token %q must not be there (expected tokens %v, optional %v)", got["class"], t, e.classReq, keys(e.classOpt))
			}
		}
	}
	// style: declaration map
	if e.styleAny {
		gm := map[string]string{}
		for _, d := range parseDecls(got["style"]) {
			gm[d.prop] = d.val
		}
		switch e.display {
		case "none":
			// (a style that is not asserted - e.g. a value with an unclosed quote - cannot be split
			// reliably either: the plain text is searched then)
			if gm["display"] != "none" && !(e.styleFree && strings.Contains(strings.ReplaceAll(got["style"], " ", ""), "display:none")) {
				return fmt.Sprintf("style=%q: v-show condition is falsy, display:none is missing", got["style"])
			}
		case "shown":
			// a truthy v-show adds nothing and takes nothing away: a display declared by the style
			// itself (even display:none) is compared with the other declarations below
			_, declared := e.style["display"]
			if !declared && !e.propFree["display"] && !e.styleFree && gm["display"] == "none" {
				return fmt.Sprintf("style=%q: v-show condition is truthy, display:none must not be added", got["style"])
			}
		}
		if !e.styleFree {
			props := make([]string, 0, len(e.style))
			for p := range e.style {
				props = append(props, p)
			}
			sort.Strings(props)
			for _, p := range props {
				if e.propFree[p] {
					continue
				}
				g, ok := gm[p]
				if !ok {
					return fmt.Sprintf("style=%q: declaration %s:%s is missing", got["style"], p, e.style[p])
				}
				if g != e.style[p] {
					return fmt.Sprintf("style=%q: %s is %q, want %q", got["style"], p, g, e.style[p])
				}
			}
			gp := make([]string, 0, len(gm))
			for p := range gm {
				gp = append(gp, p)
			}
			sort.Strings(gp)
			for _, p := range gp {
				if _, ok := e.style[p]; !ok && !e.propFree[p] {
					return fmt.Sprintf("style=%q: unexpected declaration %s:%s", got["style"], p, gm[p])
				}
			}
			// a bound declaration REPLACES the static one of the same property (names compared
			// without regard to letter case, custom properties exactly): both side by side would
			// leave the outcome to the cascade
			seenDecl := map[string]int{}
			for _, d := range parseDecls(got["style"]) {
				seenDecl[d.prop]++
			}
			for _, p := range keys(e.boundProps) {
				if p == "display" && e.display != "" {
					continue // v-show writes its own display declaration; where it stands is not asserted
				}
				if seenDecl[p] > 1 && !e.propFree[p] {
					return fmt.Sprintf("style=%q: %s is declared %d times, the bound declaration must replace the static one", got["style"], p, seenDecl[p])
				}
			}
			// declaration order: the kept static declarations among themselves and the added
			// bound declarations among themselves (shorthand / longhand pairs depend on it);
			// where an overridden property or display:none stands is not asserted
			dpos := map[string]int{}
			for i, d := range parseDecls(got["style"]) {
				if _, dup := dpos[d.prop]; !dup {
					dpos[d.prop] = i
				}
			}
			for _, seq := range [][]string{e.keptSeq, e.addedSeq} {
				last, lastProp := -1, ""
				for _, p := range seq {
					i, ok := dpos[p]
					if !ok || p == "display" {
						continue
					}
					if i < last {
						return fmt.Sprintf("style=%q: declaration %q moved in front of %q (expected relative order %v)", got["style"], p, lastProp, seq)
					}
					last, lastProp = i, p
				}
			}
		}
	}
	// static attributes stay in place: same relative order as in the source
	pos := map[string]int{}
	for i, n := range order {
		pos[n] = i
	}
	last, lastName := -1, ""
	for _, n := range e.order {
		p, ok := pos[n]
		if !ok {
			continue // reported above if it had to exist
		}
		if p < last {
			return fmt.Sprintf("static attribute %q moved in front of %q (output order %v, source order of statics %v)", n, lastName, order, e.order)
		}
		last, lastName = p, n
	}
	return ""
}

func sortedKeys(m map[string]int) []string {
	out := make([]string, 0, len(m))
	for k := range m {
		out = append(out, k)
	}
	sort.Strings(out)
	return out
}

func keys(m map[string]bool) []string {
	out := make([]string, 0, len(m))
	for k := range m {
		out = append(out, k)
	}
	sort.Strings(out)
	return out
}

func dataString(d map[string]vals.V) string {
	ks := make([]string, 0, len(d))
	for k := range d {
		ks = append(ks, k)
	}
	sort.Strings(ks)
	var parts []string
	for _, k := range ks {
		parts = append(parts, k+"="+d[k].String())
	}
	return strings.Join(parts, " ")
}

func replay(kind string, raw json.RawMessage) error { return run.Decode(raw, check) }

func TestReplay(t *testing.T) { run.ReplayMain(t, prop, replay) }
