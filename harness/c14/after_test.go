package c14

// The "after-failure" dimension: a failing variant of the case is rendered first, then the case
// itself, and the case must meet its usual expectation: nothing a failed render touched (pooled
// builders and scope maps, the Template object's own variable stack) may reach the next render.
//
//	After = "pool": the failing variant runs on a fresh engine in the same process, the case on
//	                another fresh engine (process-wide pools)
//	After = "tpl":  ONE Template object renders the failing variant through RenderString and
//	                then the case (the object's variable stack; no Fill in between: Fill replaces
//	                the stack and would hide what the failed render left on it)
//
// The failing variant collides with the case: it is the case's own page, preceded by a top-level
// <template name="…-STALE" :n="1005" …> that binds the very names the case reads (also the ones
// the case leaves undefined) to recognisably different values, and it fails LATE: in the last
// attribute of the case's own element (`data-fail="tail {{ name }} {{ boom() }}"`, literal text
// and a successful mustache first), with a second failing element behind the page as a fallback.

import (
	"errors"
	"sort"
	"strconv"
	"strings"

	"github.com/titpetric/vuego"
)

var failFuncs = vuego.FuncMap{"boom": func() (string, error) { return "", errors.New("boom failed") }}

// names lists the data names the case reads (the part before a dot), sorted.
func (c Case) names() []string {
	set := map[string]bool{}
	add := func(p string) {
		if p == "" {
			return
		}
		base, _, _ := strings.Cut(p, ".")
		set[base] = true
	}
	for k := range c.Data {
		add(k)
	}
	for _, a := range c.Attrs {
		switch a.Kind {
		case "bind", "vbind", "show":
			add(a.Text)
			if a.X != nil {
				add(a.X.A)
				if a.X.Op == "&&" || a.X.Op == "||" {
					add(a.X.B)
				}
			}
		case "interp", "lit":
			add(a.Path)
		case "dir":
			if a.Name == "v-html" || a.Name == "v-text" {
				add(a.Text)
			}
		case "obj", "vobj":
			for _, p := range a.Pairs {
				switch p.Src {
				case "expr":
					add(p.X.A)
					if p.X.Op == "&&" || p.X.Op == "||" {
						add(p.X.B)
					}
				case "path", "gt", "not":
					add(p.Arg)
				case "tern":
					add(p.Arg)
					if p.Alt == "path" {
						add(p.Then)
						add(p.Else)
					}
				}
			}
		}
	}
	out := make([]string, 0, len(set))
	for n := range set {
		out = append(out, n)
	}
	sort.Strings(out)
	return out
}

// failSource is the failing variant of the case's page.
func (c Case) failSource() string {
	keep := map[string]bool{forVar: true, forList: true, rowList: true, slotVar: true, "chainoff": true, "p": true}
	for _, a := range c.Attrs {
		if a.Kind == "dir" && (a.Name == "v-if" || a.Name == "v-else-if") {
			keep[a.Text] = true // the element must still be reached
		}
	}
	var sb strings.Builder
	sb.WriteString("<template")
	first := "chainoff"
	for _, n := range c.names() {
		if keep[n] || strings.ToLower(n) != n || nonASCII(n) {
			continue
		}
		if first == "chainoff" {
			first = n
		}
		switch v := c.Data[n]; {
		case v.K == "bool":
			sb.WriteString(" :" + n + `="` + strconv.FormatBool(v.S != "true") + `"`)
		case v.K == "int":
			k, _ := strconv.Atoi(v.S)
			sb.WriteString(" :" + n + `="` + strconv.Itoa(k%1000+1000) + `"`)
		default:
			// strings, other kinds and the names the case leaves undefined
			sb.WriteString(" " + n + `="` + n + `-STALE"`)
		}
	}
	sb.WriteString("></template>")
	fc := c
	fc.Attrs = append(append([]Attr(nil), c.Attrs...), Attr{Kind: "interp", Name: "data-fail", Text: "tail ", Path: first, Post: " {{ boom() }}"})
	page, _ := fc.source()
	sb.WriteString(page)
	sb.WriteString(`<p title="stale {{ ` + first + ` }} {{ boom() }}">x</p>`)
	return sb.String()
}

func staleMarker(out string) bool { return strings.Contains(out, "-STALE") }
