package c07

// "The previous result available as `content`" - exactly the previous result, edges included.
//
// The nesting check of c07_test.go embeds content through <div v-html="content">, where leading
// and trailing whitespace is insignificant. This file looks at the places where the edges of the
// previous result survive: {{ content }} inside <pre>, a pass-through <template v-html="content">
// inside <pre>, the expression len(content), and plain-text layouts.
//
// Oracle (no expected bytes are computed by vuego for the chain itself; the relation is between
// independent renders): let R(j) be the bytes written when the page and its first j layouts are
// rendered as a chain of their own (fresh engine, layout j naming nothing further). The statement
// says layout j receives R(j-1) as `content`. Layout j shows content and len(content) at places
// that can be read back from R(j) without loss, so for every j: shown content == R(j-1) byte for
// byte, shown length == len(R(j-1)). What R(j-1) looks like (indentation vuego adds, line breaks
// it appends) is not asserted.

import (
	"context"
	"encoding/json"
	"fmt"
	"html"
	"strconv"
	"strings"

	"github.com/titpetric/vuego"
	"pgregory.net/rapid"

	"verif/internal/fw"
	"verif/internal/hx"
	"verif/internal/memfs"
	"verif/internal/run"
)

// EdgeLink is one layout of an edge chain.
type EdgeLink struct {
	// Kind: "pre"  = <pre data-c>{{ content }}</pre> + length cell
	//       "raw"  = <pre data-r><template v-html="content"></template></pre> + length cell
	//       "text" = a plain-text layout: Lead + ID[[{{ content }}]]len + Trail
	Kind  string `json:"kind"`
	Lead  string `json:"lead,omitempty"`  // text layouts: what precedes the payload (indentation)
	Trail string `json:"trail,omitempty"` // what follows the last byte of the layout's payload (line breaks or none)
}

// EdgeCase is a page rendering to plain text with significant edges, wrapped by 1-3 layouts.
type EdgeCase struct {
	PageText string     `json:"page_text"`
	Links    []EdgeLink `json:"links"`
	Via      string     `json:"via,omitempty"`
}

func edgeID(j int) string { return fmt.Sprintf("e%d", j) }

// edgeFiles builds the files of the chain page + first n layouts (layout n names nothing).
func edgeFiles(c EdgeCase, n int) map[string]string {
	files := map[string]string{}
	page := "---\n"
	if n >= 1 {
		page += "layout: " + edgeID(1) + "\n"
	}
	page += "pg: " + pgVal + "\n---\n" + c.PageText
	files["pages/p.vuego"] = page
	for j := 1; j <= n; j++ {
		l := c.Links[j-1]
		id := edgeID(j)
		var sb strings.Builder
		if j < n {
			sb.WriteString("---\nlayout: " + edgeID(j+1) + "\n---\n")
		}
		lenCell := `<b data-len="` + id + `">{{ len(content) }}</b>`
		switch l.Kind {
		case "raw":
			sb.WriteString(`<pre data-r="` + id + `"><template v-html="content"></template></pre>` + lenCell + l.Trail)
		case "text":
			sb.WriteString(l.Lead + id + "[[{{ content }}]]{{ len(content) }}" + l.Trail)
		default:
			sb.WriteString(`<pre data-c="` + id + `">{{ content }}</pre>` + lenCell + l.Trail)
		}
		files["layouts/"+id+".vuego"] = sb.String()
	}
	return files
}

func edgeRender(c EdgeCase, n int) ([]byte, error) {
	m := memfs.New()
	for p, src := range edgeFiles(c, n) {
		m.Write(p, src, memfsTime)
	}
	m.SetBudget(openBudget)
	w := &sink{b: fw.Budget{Limit: writeBudget}}
	var err error
	data := map[string]any{"fd": fdVal}
	if c.Via == "renderfile" {
		err = vuego.NewFS(m).Fill(data).RenderFile(context.Background(), w, "pages/p.vuego")
	} else {
		err = vuego.NewFS(m).Load("pages/p.vuego").Fill(data).Render(context.Background(), w)
	}
	if m.Runaway() {
		return w.Got, fmt.Errorf("open budget exhausted (err=%v)", err)
	}
	return w.Got, err
}

func checkEdges(c EdgeCase) error {
	if len(c.Links) == 0 || len(c.Links) > 4 {
		return nil
	}
	prev, err := edgeRender(c, 0)
	if err != nil {
		return fmt.Errorf("page alone: unexpected error %v", err)
	}
	for j := 1; j <= len(c.Links); j++ {
		cur, err := edgeRender(c, j)
		if err != nil {
			return fmt.Errorf("chain of %d layouts: unexpected error %v", j, err)
		}
		id := edgeID(j)
		l := c.Links[j-1]
		where := fmt.Sprintf("layout %d of %d (%s, kind %s)", j, len(c.Links), id, l.Kind)
		var shown, shownLen string
		haveShown := true
		if l.Kind == "text" {
			// payload: id[[ escaped content ]]digits ; brackets are not escaped, the outermost
			// pair belongs to this layout
			s := string(cur)
			a := strings.Index(s, id+"[[")
			b := strings.LastIndex(s, "]]")
			if a < 0 || b < a {
				return fmt.Errorf("%s: payload markers not found in %q", where, short(cur))
			}
			shown = html.UnescapeString(s[a+len(id)+2 : b])
			rest := s[b+2:]
			k := 0
			for k < len(rest) && rest[k] >= '0' && rest[k] <= '9' {
				k++
			}
			shownLen = rest[:k]
		} else {
			forest, perr := hx.Frag(string(cur), hx.Collapse)
			if perr != nil {
				return fmt.Errorf("%s: output does not parse: %v", where, perr)
			}
			attr := "data-c"
			if l.Kind == "raw" {
				attr = "data-r"
			}
			cells := hx.Find(forest, func(n *hx.N) bool { return n.Attrs[attr] == id })
			lens := hx.Find(forest, func(n *hx.N) bool { return n.Attrs["data-len"] == id })
			if len(cells) != 1 || len(lens) != 1 {
				return fmt.Errorf("%s: want exactly one content cell and one length cell, got %d and %d in %q", where, len(cells), len(lens), short(cur))
			}
			shownLen = hx.TextOf(lens[0].Kids, "")
			if l.Kind == "raw" && strings.ContainsAny(string(prev), "<&") {
				haveShown = false // passed-through markup is parsed again: only the length is read back
			} else {
				shown = hx.TextOf(cells[0].Kids, "") // text inside <pre> is kept verbatim by hx
			}
		}
		want := string(prev)
		if haveShown {
			cmp := want
			if l.Kind != "text" {
				// the HTML parser drops one line break directly after <pre>; CR cannot occur
				cmp = strings.TrimPrefix(cmp, "\n")
			}
			if shown != cmp {
				return fmt.Errorf("%s does not receive the previous result as content:\n  previous result (page + %d layouts rendered on their own): %q\n  content shown: %q", where, j-1, want, shown)
			}
		}
		if n, perr := strconv.Atoi(strings.TrimSpace(shownLen)); perr != nil || n != len(want) {
			return fmt.Errorf("%s: len(content) shows %q, the previous result has %d bytes: %q", where, shownLen, len(want), short(prev))
		}
		prev = cur
	}
	return nil
}

func classifyEdges(c EdgeCase) (bool, []string) {
	cls := []string{fmt.Sprintf("edges:links=%d", len(c.Links))}
	t := c.PageText
	switch {
	case t != strings.TrimLeft(t, " \t") && !strings.HasSuffix(t, "\n"):
		cls = append(cls, "edges:page-text-indented,no-final-newline")
	case t != strings.TrimLeft(t, " \t"):
		cls = append(cls, "edges:page-text-indented")
	}
	switch {
	case strings.HasSuffix(t, "\n\n"):
		cls = append(cls, "edges:page-text-ends-in-blank-lines")
	case !strings.HasSuffix(t, "\n"):
		cls = append(cls, "edges:page-text-without-final-newline")
	case strings.HasSuffix(strings.TrimSuffix(t, "\n"), " "):
		cls = append(cls, "edges:page-text-trailing-blanks")
	}
	for _, l := range c.Links {
		cls = append(cls, "edges:kind="+l.Kind)
		if l.Kind == "text" && (l.Lead != "" || l.Trail != "\n") {
			cls = append(cls, "edges:text-layout-with-own-edges")
		}
	}
	if c.Via == "renderfile" {
		cls = append(cls, "via=RenderFile")
	} else {
		cls = append(cls, "via=Load.Fill.Render")
	}
	return true, cls
}

var edgeTexts = []string{
	"plain text\n",
	"  indented text\n",
	"  indented, no final newline",
	"no final newline",
	"blank lines follow\n\n\n",
	"\ttab indented \n",
	"    first\n  second\n\n",
	"trailing blanks   \n",
}

var edgeLeads = []string{"", "  ", "\t"}
var edgeTrails = []string{"\n", "", "\n\n\n", "  \n"}
var edgeKinds = []string{"pre", "raw", "text"}

// edgeStage: every page text x every layout kind for chains of 1 link, kind pairs for 2 links,
// and a rotating selection of triples; text layouts take their own lead / trail from the index.
func edgeStage(rec edgeRecorder) bool {
	n := 0
	emit := func(c EdgeCase) bool {
		for i := range c.Links {
			if c.Links[i].Kind == "text" {
				c.Links[i].Lead = edgeLeads[(n+i)%len(edgeLeads)]
			}
			c.Links[i].Trail = edgeTrails[(n/2+i)%len(edgeTrails)]
		}
		if n%2 == 1 {
			c.Via = "renderfile"
		}
		n++
		return rec(n-1, c)
	}
	for _, t := range edgeTexts {
		for _, k1 := range edgeKinds {
			if !emit(EdgeCase{PageText: t, Links: []EdgeLink{{Kind: k1}}}) {
				return false
			}
			for _, k2 := range edgeKinds {
				if !emit(EdgeCase{PageText: t, Links: []EdgeLink{{Kind: k1}, {Kind: k2}}}) {
					return false
				}
				k3 := edgeKinds[(n+len(t))%len(edgeKinds)]
				if !emit(EdgeCase{PageText: t, Links: []EdgeLink{{Kind: k1}, {Kind: k2}, {Kind: k3}}}) {
					return false
				}
			}
		}
	}
	return true
}

type edgeRecorder func(i int, c EdgeCase) bool

func genEdges(t *rapid.T) EdgeCase {
	var sb strings.Builder
	sb.WriteString(rapid.SampledFrom([]string{"", "", " ", "   ", "\t", " \t "}).Draw(t, "lead"))
	lines := rapid.IntRange(1, 3).Draw(t, "lines")
	for i := 0; i < lines; i++ {
		if i > 0 {
			sb.WriteString("\n" + rapid.SampledFrom([]string{"", "  ", "\t"}).Draw(t, "indent"))
		}
		sb.WriteString(rapid.StringMatching(`[a-z]{1,6}( [a-z]{1,4})?`).Draw(t, "words"))
	}
	sb.WriteString(rapid.SampledFrom([]string{"", "\n", "\n\n", "  \n", "\n\n\n\n", " "}).Draw(t, "trail"))
	c := EdgeCase{PageText: sb.String()}
	n := rapid.IntRange(1, 3).Draw(t, "links")
	for i := 0; i < n; i++ {
		l := EdgeLink{Kind: rapid.SampledFrom(edgeKinds).Draw(t, "kind")}
		if l.Kind == "text" {
			l.Lead = rapid.SampledFrom(edgeLeads).Draw(t, "l.lead")
		}
		l.Trail = rapid.SampledFrom(edgeTrails).Draw(t, "l.trail")
		c.Links = append(c.Links, l)
	}
	if rapid.Bool().Draw(t, "via") {
		c.Via = "renderfile"
	}
	return c
}

func replayEdges(raw json.RawMessage) error { return run.Decode(raw, checkEdges) }
