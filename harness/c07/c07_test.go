// Package c07 decides C07: layout chains nest innermost-first, apply the default layout only
// when due, and end.
//
// A case is a *description* of a file set (page + layout files, each with an optional
// front-matter `layout:` and an optional front-matter `k:`), the Fill data and the entry point.
// The oracle is a reference walker over that description (never over vuego): it follows the
// documented rules
//
//	docs/themes.md "Layout Chaining": each layout receives the previous output as `content`;
//	docs/themes.md "Layout Resolution": explicit *.vuego path relative to the current file,
//	    then <dir of current file>/<name>.vuego, then layouts/<name>.vuego;
//	statement: layouts/base.vuego is applied iff the page names no layout and the file exists;
//	statement: a chain that does not end (cycle / more links than the maximum) is an error,
//	    and an error comes "instead of output" (zero bytes at the destination writer).
//
// and produces the expected nesting of markers plus, per link, the set of admissible values of
// the colliding key k. The observed output is parsed with the HTML5 parser (internal/hx).
package c07

import (
	"context"
	"encoding/json"
	"fmt"
	"io"
	"io/fs"
	"path"
	"sort"
	"strings"
	"testing"
	"time"

	"github.com/titpetric/vuego"
	"pgregory.net/rapid"

	"verif/internal/ev"
	"verif/internal/fw"
	"verif/internal/hx"
	"verif/internal/kf"
	"verif/internal/memfs"
	"verif/internal/run"
)

const prop = "C07"

// fixed mtime of every file (no clock involved)
var memfsTime = time.Unix(1000, 0)

const (
	basePath = "layouts/base.vuego"
	pgVal    = "pgv" // value of the page-only front-matter key pg
	fdVal    = "fdv" // value of the Fill-only key fd

	// The maximum: layout()'s error reads "layout chain depth exceeded maximum of 100", and what
	// it counts on the repository's tree is every template rendered in the chain, the page
	// included (one count per loop iteration, each iteration loads and renders one template).
	// So a chain of up to 100 templates (the page and 99 layouts) ends normally, and the first
	// chain that has "more links than the documented maximum" is the one with 101 templates (the
	// page and 100 layouts): from there on an error and zero bytes, below it the complete nesting.
	maxTemplates = 100

	openBudget  = 3000
	writeBudget = 1 << 20
)

// File describes one template file.
type File struct {
	Path   string `json:"path"`
	Layout string `json:"layout,omitempty"` // front-matter `layout:` value; "" = names no layout
	// Empty (only when Layout == ""): how "no layout" is written: "" = key absent, "bare" =
	// `layout:`, "quoted" = `layout: ""`, "tilde" = `layout: ~`. A key without a value names no
	// layout, so the reference walker does not look at this field.
	Empty string `json:"empty,omitempty"`

	// How the file is written on disk; none of it changes what the front-matter says, so the
	// reference walker does not look at these fields (only NoBody changes the expected document).
	EOL   string `json:"eol,omitempty"`   // "" = LF, "crlf" = CRLF line endings throughout
	Fence string `json:"fence,omitempty"` // blanks after the fences: "open-sp", "close-sp", "close-tab", "both-sp"
	// NoBody (only for files that have front-matter): the file ends with the closing fence,
	// "eof" = without, "eofnl" = with a final line ending. Such a file renders to nothing.
	NoBody string `json:"nobody,omitempty"`
	// Pad (only for files that have front-matter): the front-matter block additionally carries a
	// key `summary` of about this many bytes, written before the other keys; PadList writes it
	// as a YAML list of short items instead of one long scalar. The size of the block changes
	// nothing about what it says.
	Pad     int  `json:"pad,omitempty"`
	PadList bool `json:"pad_list,omitempty"`

	fail bool   // only set by the "latefail" before-operation: the file ends in a failing call
	K    string `json:"k,omitempty"` // front-matter `k:` value; "" = key absent
}

// Long describes a synthetic chain <dir>/c001.vuego -> c002 -> ... -> cN (-> Tail).
type Long struct {
	N    int    `json:"n"`
	Dir  string `json:"dir"`
	Tail string `json:"tail,omitempty"`
	EOL  string `json:"eol,omitempty"` // line endings of every synthetic file
}

// Case is one file-set description.
type Case struct {
	Page  File   `json:"page"`
	Files []File `json:"files,omitempty"`
	Long  *Long  `json:"long,omitempty"`
	FillK string `json:"fill_k,omitempty"` // Fill data value of k; "" = not in Fill
	// FillKind: what is handed to Fill: "" = map[string]any, "struct" = a struct value with json
	// tags k / fd, "ptr" = a pointer to it, "tmap" = a typed map (map[string]string), "embed" = a
	// struct whose k / fd fields are promoted from an embedded struct, "embedptr" = a pointer to
	// that (a layout name supplied through Fill always travels in a map[string]any).
	FillKind string `json:"fill_kind,omitempty"`
	Via      string `json:"via,omitempty"` // "" = Load(p).Fill(d).Render ; "renderfile" = Fill(d).RenderFile(p)

	// LayoutVia: where the page's layout name (Page.Layout) comes from: "" = the page's
	// front-matter (the statement's case); "fill" = key `layout` of the Fill data; "assign" =
	// Assign("layout", name) on the loaded page. In the last two the page's front-matter has no
	// layout key.
	LayoutVia string `json:"layout_via,omitempty"`

	// Steps (optional): a history on ONE long-lived engine instead of a single render on a
	// fresh one: "render" renders the page, "remove" deletes the layout file Path from the
	// filesystem, "restore" writes it back as described (with a newer modification time). Every
	// render is judged by the reference walker over the files present at that moment: which
	// files exist is a fact about the filesystem now, not about what the engine has seen before.
	Steps []Step `json:"steps,omitempty"`

	// Via (above) also takes the less travelled entry points:
	//   "fill-load"          New().Fill(d).Load(p).Render            (Fill before Load)
	//   "view"               vuego.View(engine, p, d).Render
	//   "load-assign-render" Load(p).Assign(fd).Assign(k).Render      (data through Assign, no Fill)
	//   "assign-renderfile"  New().Assign(fd).Assign(k).RenderFile(p)
	//   "bare-load"          Load(p).Render                          (no data at all)
	//   "bare-renderfile"    New().RenderFile(p)                     (no data at all)
	// In the bare forms fd and the Fill k do not exist; in the Assign forms the values travel as
	// plain Assign calls whatever FillKind says.
	// Ctor: "" = vuego.NewFS(fs), "withfs" = vuego.New(vuego.WithFS(fs)).
	Ctor string `json:"ctor,omitempty"`

	// SameTemplate: the renders of this case (one, or one per "render" step of a history) use
	// ONE loaded Template object, filled again before each render (tpl.Fill(data).Render), instead
	// of a fresh Load per render.
	SameTemplate bool `json:"same_template,omitempty"`

	// Before: an operation that fails or is cut short, performed right before the case's own
	// render(s) on the same goroutine. It uses the case's own files with recognisably different
	// data (Fill k and fd suffixed "-STALE"); nothing of it may show in the case's render, which
	// must simply meet the usual expectation.
	//   "failwriter"  the chain is rendered into a writer that fails after a few bytes
	//   "shortwriter" ... into a writer that accepts only part of the first write, without error
	//   "cancel"      ... with a context that is already cancelled
	//   "latefail"    the outermost file of the chain additionally ends in a call of an unknown
	//                 function (after text and successful mustaches): the render fails late
	//   "missingload" Load of a file that does not exist, Assign + Fill + Render on the result
	//   "otherpage"   ANOTHER page of the same site (pages/q.vuego: front-matter layout qlay, k, pg,
	//                 fd with -STALE values; layouts/qlay.vuego) is rendered successfully first,
	//                 through the same entry point; with BeforeSame on the case's engine - requests
	//                 for different pages on one shared engine - else on a fresh one
	// BeforeSame: the failing operation runs on the engine of the case (else on a fresh engine over
	// the same files; "latefail" always uses a fresh engine because its files differ). If the
	// case's own chain cannot end, "failwriter"/"shortwriter" additionally push a small
	// terminating chain of another site through the same kind of writer first.
	Before     string `json:"before,omitempty"`
	BeforeSame bool   `json:"before_same,omitempty"`

	// The filesystem the engine is given. The file set above is the UNION the engine must see;
	// how it is physically stored must not matter.
	FS      string   `json:"fs,omitempty"`      // "" = memfs (Open+Stat+ReadDir); "openonly" = every fs.FS is wrapped so that only Open is available
	Overlay *Overlay `json:"overlay,omitempty"` // nil = one filesystem; otherwise vuego.NewOverlayFS(layer0, layer1...)
}

// Step is one operation of a history.
type Step struct {
	Op   string `json:"op"` // "render" | "remove" | "restore"
	Path string `json:"path,omitempty"`
}

// Overlay distributes the file set over the layers of a vuego.OverlayFS (upper first). The
// overlay serves every path from the first layer that has it (C18), so the reference walker runs
// on the union and never looks at this description.
type Overlay struct {
	Layers int            `json:"layers"`           // number of layers including nil ones
	Nil    []int          `json:"nil,omitempty"`    // indices of nil layers (at least one layer stays non-nil)
	At     map[string]int `json:"at,omitempty"`     // path -> layer index
	Spread bool           `json:"spread,omitempty"` // layout files without an At entry go round-robin over the non-nil layers
	Rest   int            `json:"rest,omitempty"`   // otherwise they go to this layer; the page defaults to the first non-nil layer
	// Stale: paths that additionally exist, with different content (marker "stale", layout zz), in the
	// lowest non-nil layer below the one holding the real file: the upper copy must win.
	Stale []string `json:"stale,omitempty"`
}

// layering resolves an Overlay description: the non-nil layer indices, and for every file of the
// case (page included, in expand order) the layer that holds it. Out-of-range or nil targets fall
// back to the first non-nil layer, so every description is valid.
func layering(c Case) (nonNil []int, at map[string]int, total int) {
	o := c.Overlay
	at = map[string]int{}
	if o == nil {
		return []int{0}, at, 1
	}
	total = o.Layers
	if total < 1 {
		total = 1
	}
	if total > 6 {
		total = 6
	}
	isNil := map[int]bool{}
	for _, i := range o.Nil {
		isNil[i] = true
	}
	for i := 0; i < total; i++ {
		if !isNil[i] {
			nonNil = append(nonNil, i)
		}
	}
	if len(nonNil) == 0 {
		nonNil = []int{total - 1}
		isNil[total-1] = false
	}
	paths := []string{c.Page.Path}
	for _, f := range expand(c) {
		paths = append(paths, f.Path)
	}
	for n, p := range paths {
		l, ok := o.At[p]
		switch {
		case ok && l >= 0 && l < total && !isNil[l]:
		case o.Spread && n > 0:
			l = nonNil[n%len(nonNil)]
		case n > 0 && o.Rest >= 0 && o.Rest < total && !isNil[o.Rest]:
			l = o.Rest
		default:
			l = nonNil[0]
		}
		at[p] = l
	}
	return nonNil, at, total
}

// openOnly hides every optional interface of a filesystem (Stat, ReadDir, ReadFile...).
type openOnly struct{ f fs.FS }

func (o openOnly) Open(name string) (fs.File, error) { return o.f.Open(name) }

const otherPage = "pages/q.vuego"

const staleSource = `---
layout: zz
k: k-stale
---
<div data-m="stale"><div v-html="content"></div></div>
`

// mount builds the engine's filesystem from the description.
func mount(c Case) (fs.FS, []*memfs.FS, []*memfs.FS, map[string]int) {
	nonNil, at, total := layering(c)
	layers := make([]*memfs.FS, total)
	for _, i := range nonNil {
		layers[i] = memfs.New()
	}
	for _, f := range expand(c) {
		layers[at[f.Path]].Write(f.Path, source(f, false), memfsTime)
	}
	layers[at[c.Page.Path]].Write(c.Page.Path, sourceFM(c.Page, true, c.LayoutVia == ""), memfsTime)
	if c.Before == "otherpage" {
		up := layers[nonNil[0]]
		up.Write(otherPage, "---\nlayout: qlay\nk: k-q-STALE\npg: pg-q-STALE\nfd: fd-q-STALE\n---\n<div data-m=\"pages/q\">{{ k }}</div>\n", memfsTime)
		up.Write("layouts/qlay.vuego", "---\nk: k-qlay-STALE\n---\n<div data-m=\"layouts/qlay\">{{ k }}{{ pg }}<div v-html=\"content\"></div></div>\n", memfsTime)
	}
	if c.Overlay != nil {
		for _, p := range c.Overlay.Stale {
			l, ok := at[p]
			if low := nonNil[len(nonNil)-1]; ok && low > l {
				layers[low].Write(p, staleSource, memfsTime)
			}
		}
	}
	var all []*memfs.FS
	stack := make([]fs.FS, total)
	for i, m := range layers {
		if m == nil {
			continue // stays a nil fs.FS in the overlay
		}
		m.SetBudget(openBudget)
		all = append(all, m)
		if c.FS == "openonly" {
			stack[i] = openOnly{m}
		} else {
			stack[i] = m
		}
	}
	if c.Overlay == nil {
		return stack[0], all, layers, at
	}
	var ov fs.FS = vuego.NewOverlayFS(stack[0], stack[1:]...)
	return ov, all, layers, at
}

// nonString lists layout names that YAML reads as non-string scalars when written plainly
// (`layout: 404` for layouts/404.vuego, `layout: true`, `layout: 1.5`): front-matter *names* a
// layout, the name of such a file is the scalar's text. Only canonical spellings are used (what
// `1.0`, `0x10`, `1e3`, `false`, `null` or a date would name is not specified).
var nonString = map[string]any{"404": 404, "2024": 2024, "true": true, "1.5": 1.5}

// typed returns the Go value a YAML reader would produce for the plain scalar name.
func typed(name string) any {
	if v, ok := nonString[name]; ok {
		return v
	}
	return name
}

func markerID(p string) string { return strings.TrimSuffix(p, ".vuego") }

// source renders a file description to template text. Every file shows k, pg and fd in
// separate <b data-v> cells; layouts embed the previous result the documented way
// (<div v-html="content">, docs/themes.md).
func source(f File, isPage bool) string { return sourceFM(f, isPage, true) }

func sourceFM(f File, isPage, withLayout bool) string {
	var sb strings.Builder
	var fm []string
	if f.Layout != "" && withLayout {
		fm = append(fm, "layout: "+f.Layout)
	}
	if f.Layout == "" && withLayout {
		switch f.Empty {
		case "bare":
			fm = append(fm, "layout:")
		case "quoted":
			fm = append(fm, `layout: ""`)
		case "tilde":
			fm = append(fm, "layout: ~")
		}
	}
	if f.K != "" {
		fm = append(fm, "k: "+f.K)
	}
	if isPage {
		fm = append(fm, "pg: "+pgVal)
	}
	eol := "\n"
	if f.EOL == "crlf" {
		eol = "\r\n"
	}
	if len(fm) > 0 && f.Pad > 0 {
		pad := "summary: " + strings.Repeat("lorem ipsum ", f.Pad/12+1)[:max(f.Pad-9, 1)]
		if f.PadList {
			pad = "summary:"
			for n := 0; len(pad) < f.Pad; n++ {
				pad += eol + fmt.Sprintf("  - item %04d of a long list", n)
			}
		}
		fm = append([]string{pad}, fm...)
	}
	if len(fm) > 0 {
		open, closing := "---", "---"
		switch f.Fence {
		case "open-sp":
			open += "  "
		case "close-sp":
			closing += "  "
		case "close-tab":
			closing += "\t"
		case "both-sp":
			open += " "
			closing += "   "
		}
		sb.WriteString(open + eol + strings.Join(fm, eol) + eol + closing)
		switch {
		case f.NoBody == "eof":
			return sb.String()
		case f.NoBody == "eofnl":
			return sb.String() + eol
		}
		sb.WriteString(eol)
	}
	id := markerID(f.Path)
	sb.WriteString(`<div data-m="` + id + `"><b data-v="k">{{ k }}</b><b data-v="pg">{{ pg }}</b><b data-v="fd">{{ fd }}</b>`)
	if !isPage {
		sb.WriteString(`<div data-s="` + id + `" v-html="content"></div>`)
	}
	if f.fail {
		sb.WriteString(" tail {{ fd }} {{ nosuchfn(k) }}")
	}
	sb.WriteString("</div>" + eol)
	return sb.String()
}

// bodiless reports whether the file consists of front-matter only.
func bodiless(f File, isPage bool) bool {
	hasFM := isPage || f.Layout != "" || f.Empty != "" || f.K != ""
	return hasFM && (f.NoBody == "eof" || f.NoBody == "eofnl")
}

// expand returns all layout files of the case (explicit + synthetic chain).
func expand(c Case) []File {
	out := append([]File(nil), c.Files...)
	if c.Long != nil {
		for i := 1; i <= c.Long.N; i++ {
			f := File{Path: fmt.Sprintf("%s/c%03d.vuego", c.Long.Dir, i), EOL: c.Long.EOL}
			if i < c.Long.N {
				f.Layout = fmt.Sprintf("c%03d", i+1)
			} else {
				f.Layout = c.Long.Tail
			}
			out = append(out, f)
		}
	}
	return out
}

// ---------------------------------------------------------------- reference walker

type outcome int

const (
	oOK      outcome = iota // chain ends
	oMissing                // a named layout resolves to no file
	oCycle                  // a file is reached twice: the chain cannot end
	oUnspec                 // unspecified: explicit *.vuego path whose relative target is absent (docs: "used as-is"), or a page named again whose layout name came through Fill / Assign
)

type plan struct {
	out        outcome
	chain      []File // page first, then the layouts in application order
	cycleLen   int
	defaultDue bool // page names no layout and layouts/base.vuego exists
	ambiguous  bool // a taken link had both a relative and a layouts/ candidate (different files)
	fellBack   bool // a taken link from outside layouts/ fell back to layouts/
	explicit   bool // a taken link used an explicit *.vuego path
	// pageReused: a layout names the page file itself and the page has no layout key. The
	// default layout is due for the first template only, so the chain ends there with the page
	// file as outermost layout; it has no content holder, hence the document is the page alone.
	pageReused bool
	// probed: files whose mere existence decided a step (layouts/base.vuego for the default rule,
	// a file found next to the naming file) - the engine must find them wherever they are stored
	probed []string
	// nonStr: a taken link was named by a non-string YAML scalar
	nonStr bool
}

// doc returns the files whose markers make up the expected document, innermost first.
func (pl plan) doc() []File {
	if pl.pageReused {
		return pl.chain[:1]
	}
	return pl.chain
}

func walk(c Case) plan {
	files := map[string]File{}
	for _, f := range expand(c) {
		files[f.Path] = f
	}
	files[c.Page.Path] = c.Page // the page is a file like any other (a layout may name it)
	has := func(p string) bool { _, ok := files[p]; return ok }

	var pl plan
	pl.chain = []File{c.Page}
	seen := map[string]int{c.Page.Path: 0}
	cur := c.Page
	var next string // resolved path of the next link
	if cur.Layout == "" {
		if !has(basePath) {
			return pl // no layout named, no default: the page alone
		}
		pl.defaultDue = true
		pl.probed = append(pl.probed, basePath)
		next = basePath
	}
	for {
		if next == "" {
			name := cur.Layout
			if _, ns := nonString[name]; ns {
				pl.nonStr = true
			}
			dir := path.Dir(cur.Path)
			lay := "layouts/" + name + ".vuego"
			switch {
			case strings.HasSuffix(name, ".vuego"):
				p := path.Join(dir, name)
				if !has(p) {
					pl.out = oUnspec
					return pl
				}
				pl.explicit = true
				pl.probed = append(pl.probed, p)
				next = p
			case has(path.Join(dir, name+".vuego")):
				next = path.Join(dir, name+".vuego")
				pl.probed = append(pl.probed, next)
				if next != lay && has(lay) {
					pl.ambiguous = true
				}
			default:
				next = lay
				if dir != "layouts" {
					pl.fellBack = true
				}
			}
		}
		if !has(next) {
			pl.out = oMissing
			return pl
		}
		if next == c.Page.Path && c.LayoutVia != "" && c.Page.Layout != "" {
			// the page file itself has no layout key (the name came through Fill / Assign):
			// whether that variable still counts when the page file is reached again as a
			// layout is not specified
			pl.out = oUnspec
			return pl
		}
		if next == c.Page.Path && c.Page.Layout == "" {
			pl.pageReused = true
			pl.chain = append(pl.chain, c.Page)
			return pl
		}
		if at, dup := seen[next]; dup {
			pl.out = oCycle
			pl.cycleLen = len(pl.chain) - at
			return pl
		}
		cur = files[next]
		seen[next] = len(pl.chain)
		pl.chain = append(pl.chain, cur)
		next = ""
		if cur.Layout == "" {
			return pl
		}
	}
}

// allowedK returns the admissible values of k inside chain[i] (nil = unasserted).
//
//   - the file's own front-matter defines k: that value (docs/data-loading.md "precedence order":
//     front-matter in the .vuego file first; docs/components.md: "front-matter values are
//     authoritative");
//   - otherwise the page's k must still be visible (statement: "the page's data and front-matter
//     still visible"). What the page's k is, is fixed by the same documented order: the page's
//     front-matter over Fill()/Assign() data. So a layout shows the page's front-matter k if the
//     page defines it, else the Fill k - whatever kind of value was handed to Fill. A k from the
//     front-matter of an intermediate layout is neither;
//   - k defined neither by the page nor by Fill: what an undefined variable renders as is not
//     documented, and nothing of the page is hidden if an earlier layout's k shows: unasserted.
func allowedK(c Case, chain []File, i int, pageReused bool) []string {
	switch {
	case chain[i].K != "":
		return []string{chain[i].K}
	case c.Page.K != "":
		return []string{c.Page.K}
	case c.FillK != "":
		return []string{c.FillK}
	}
	return nil
}

// ---------------------------------------------------------------- execution

// fillK / fillNoK are the struct forms of the Fill data (fields addressed by their json tags).
type fillK struct {
	K  string `json:"k"`
	Fd string `json:"fd"`
}

type fillNoK struct {
	Fd string `json:"fd"`
}

// FillInner / FillInnerNoK are embedded by fillEmbed / fillEmbedNoK: k and fd are promoted fields.
type FillInner struct {
	K  string `json:"k"`
	Fd string `json:"fd"`
}

type FillInnerNoK struct {
	Fd string `json:"fd"`
}

type fillEmbed struct {
	FillInner
	Extra string `json:"extra"`
}

type fillEmbedNoK struct {
	FillInnerNoK
	Extra string `json:"extra"`
}

type sink struct {
	fw.Capture
	b fw.Budget
}

func (s *sink) Write(p []byte) (int, error) {
	_, _ = s.b.Write(p) // panics with fw.Sentinel beyond the byte budget
	return s.Capture.Write(p)
}

type result struct {
	out      []byte
	err      error
	runaway  bool // the open budget was exhausted: the chain did not end on its own
	overflow bool // the byte budget of the destination writer was exhausted
}

// engine is one vuego engine over the mounted file set of a case.
type engine struct {
	root  vuego.Template
	mems  []*memfs.FS    // the non-nil layers
	byIdx []*memfs.FS    // layers by index (nil entries for nil layers)
	at    map[string]int // path -> layer index
	keep  vuego.Template // SameTemplate: the one Template object all renders go through
}

func newEngine(c Case) *engine {
	fsys, mems, byIdx, at := mount(c)
	var root vuego.Template
	if c.Ctor == "withfs" {
		root = vuego.New(vuego.WithFS(fsys))
	} else {
		root = vuego.NewFS(fsys)
	}
	return &engine{root: root, mems: mems, byIdx: byIdx, at: at}
}

func execute(c Case) result {
	e := newEngine(c)
	e.before(c)
	if c.SameTemplate {
		// the kept Template object first goes through a render with stale data as well
		e.renderTo(c, context.Background(), &fw.Capture{}, true)
	}
	return e.render(c)
}

// render performs one render of the case's page on this engine (budgets apply per render).
func (e *engine) render(c Case) (res result) {
	w := &sink{b: fw.Budget{Limit: writeBudget}}
	res = e.renderTo(c, context.Background(), w, false)
	res.out = w.Got
	return res
}

// shortWriter accepts only part of the first write and reports no error (a broken io.Writer).
type shortWriter struct{ n int }

func (s *shortWriter) Write(p []byte) (int, error) {
	s.n++
	if s.n == 1 && len(p) > 1 {
		return len(p) / 2, nil
	}
	return len(p), nil
}

// before performs the failing / aborted operation of c.Before. Its own outcome is not judged.
func (e *engine) before(c Case) {
	if c.Before == "" {
		return
	}
	eng := e
	if !c.BeforeSame || c.Before == "latefail" {
		v := c
		if c.Before == "latefail" {
			v.Files = append([]File(nil), c.Files...)
			doc := walk(c).doc()
			last := doc[len(doc)-1].Path
			if last == v.Page.Path {
				v.Page.fail = true
			}
			for i := range v.Files {
				if v.Files[i].Path == last {
					v.Files[i].fail = true
				}
			}
		}
		eng = newEngine(v)
	}
	s := c
	s.SameTemplate = false
	mk := func() io.Writer {
		if c.Before == "shortwriter" {
			return &shortWriter{}
		}
		return &fw.FailAt{K: 7}
	}
	switch c.Before {
	case "failwriter", "shortwriter":
		if pl := walk(c); pl.out != oOK || len(pl.chain) > maxTemplates {
			other := Case{Page: File{Path: "pages/p.vuego", Layout: "o1", K: "k-other-STALE"}, Files: []File{{Path: "layouts/o1.vuego", Layout: "o2"}, {Path: "layouts/o2.vuego"}}, FillK: "k-fill-STALE"}
			newEngine(other).renderTo(other, context.Background(), mk(), true)
		}
		eng.renderTo(s, context.Background(), mk(), true)
	case "cancel":
		ctx, cancel := context.WithCancel(context.Background())
		cancel()
		eng.renderTo(s, ctx, &fw.Capture{}, true)
	case "latefail":
		eng.renderTo(s, context.Background(), &fw.Capture{}, true)
	case "otherpage":
		o := s
		o.Page = File{Path: otherPage}
		o.LayoutVia = ""
		eng.renderTo(o, context.Background(), &fw.Capture{}, true)
	case "missingload":
		_ = run.Safe(func() error {
			t := eng.root.Load("pages/no-such-page.vuego").Assign("k", "k-assigned-STALE").Fill(map[string]any{"k": "k-fill-STALE", "fd": fdVal + "-STALE", "pg": "pg-STALE"})
			return t.Render(context.Background(), &fw.Capture{})
		})
	}
}

// renderTo performs one render into w. stale: the Fill values carry the suffix "-STALE".
func (e *engine) renderTo(c Case, ctx context.Context, w io.Writer, stale bool) (res result) {
	for _, l := range e.mems {
		l.ResetCounters()
	}
	layers := e.mems
	fdVal := fdVal
	if stale {
		fdVal += "-STALE"
		if c.FillK != "" {
			c.FillK += "-STALE"
		}
	}
	data := map[string]any{"fd": fdVal}
	if c.FillK != "" {
		data["k"] = c.FillK
	}
	if c.LayoutVia == "fill" && c.Page.Layout != "" {
		data["layout"] = typed(c.Page.Layout)
	}
	assign := func(t vuego.Template) vuego.Template {
		if c.LayoutVia == "assign" && c.Page.Layout != "" {
			return t.Assign("layout", typed(c.Page.Layout))
		}
		return t
	}
	var fill any = data
	if c.FillKind != "" && !(c.LayoutVia == "fill" && c.Page.Layout != "") {
		switch {
		case c.FillKind == "tmap":
			tm := map[string]string{"fd": fdVal}
			if c.FillK != "" {
				tm["k"] = c.FillK
			}
			fill = tm
		case c.FillKind == "embed" && c.FillK != "":
			fill = fillEmbed{FillInner: FillInner{K: c.FillK, Fd: fdVal}, Extra: "x"}
		case c.FillKind == "embed":
			fill = fillEmbedNoK{FillInnerNoK: FillInnerNoK{Fd: fdVal}, Extra: "x"}
		case c.FillKind == "embedptr" && c.FillK != "":
			fill = &fillEmbed{FillInner: FillInner{K: c.FillK, Fd: fdVal}, Extra: "x"}
		case c.FillKind == "embedptr":
			fill = &fillEmbedNoK{FillInnerNoK: FillInnerNoK{Fd: fdVal}, Extra: "x"}
		case c.FillK != "" && c.FillKind == "ptr":
			fill = &fillK{K: c.FillK, Fd: fdVal}
		case c.FillK != "":
			fill = fillK{K: c.FillK, Fd: fdVal}
		case c.FillKind == "ptr":
			fill = &fillNoK{Fd: fdVal}
		default:
			fill = fillNoK{Fd: fdVal}
		}
	}
	func() {
		defer func() {
			if r := recover(); r != nil {
				if _, ok := r.(fw.Sentinel); ok {
					res.overflow = true
					return
				}
				panic(r)
			}
		}()
		// no goroutine, no clock: non-termination shows up as an exhausted budget
		plain := func(t vuego.Template) vuego.Template {
			t = t.Assign("fd", fdVal)
			if c.FillK != "" {
				t = t.Assign("k", c.FillK)
			}
			return t
		}
		switch {
		case c.Via == "fill-load":
			res.err = assign(e.root.New().Fill(fill).Load(c.Page.Path)).Render(ctx, w)
		case c.Via == "view":
			res.err = assign(vuego.View(e.root, c.Page.Path, fill)).Render(ctx, w)
		case c.Via == "load-assign-render":
			res.err = assign(plain(e.root.Load(c.Page.Path))).Render(ctx, w)
		case c.Via == "assign-renderfile":
			res.err = assign(plain(e.root.New())).RenderFile(ctx, w, c.Page.Path)
		case c.Via == "bare-load":
			res.err = assign(e.root.Load(c.Page.Path)).Render(ctx, w)
		case c.Via == "bare-renderfile":
			res.err = assign(e.root.New()).RenderFile(ctx, w, c.Page.Path)
		case c.Via == "renderfile" && c.SameTemplate:
			if e.keep == nil {
				e.keep = e.root.New()
			}
			res.err = assign(e.keep.Fill(fill)).RenderFile(ctx, w, c.Page.Path)
		case c.Via == "renderfile":
			res.err = assign(e.root.New().Fill(fill)).RenderFile(ctx, w, c.Page.Path)
		case c.SameTemplate:
			if e.keep == nil {
				e.keep = e.root.Load(c.Page.Path)
			}
			res.err = assign(e.keep.Fill(fill)).Render(ctx, w)
		default:
			res.err = assign(e.root.Load(c.Page.Path).Fill(fill)).Render(ctx, w)
		}
	}()
	for _, l := range layers {
		res.runaway = res.runaway || l.Runaway()
	}
	return res
}

func short(b []byte) string {
	if len(b) > 300 {
		return string(b[:300]) + "…"
	}
	return string(b)
}

// check decides one case: the oracle assertions on the case itself (checkOne) plus, where the
// default layout is due, a metamorphic relation:
// the statement introduces the default only as "applied when the page names no layout and that
// file exists" - it gives the implicit first link no other meaning than an explicit
// `layout: base` would have (no longer limit, no other data, no other nesting). Hence the twin
// case, identical except that the page's front-matter names `base`, must have the same outcome
// (error vs success) and, on success, the same parsed document. The relation is not applied when
// a file next to the page shadows layouts/base.vuego for the explicit name, and not when a
// layout names the page file itself (the page then has a layout key in the twin, which makes the
// twin a genuine cycle while the original chain ends in the key-less page).
func check(c Case) error {
	if c.Page.Path == "" {
		return fmt.Errorf("bad case: no page")
	}
	if len(c.Steps) > 0 {
		return checkHistory(c)
	}
	pl, res, err := checkOne(c)
	if err != nil {
		return err
	}
	if c.LayoutVia != "" && c.Page.Layout != "" {
		return viaConsistency(c, res)
	}
	if !pl.defaultDue || pl.pageReused || pl.out == oUnspec {
		return nil
	}
	shadow := path.Join(path.Dir(c.Page.Path), "base.vuego")
	for _, f := range expand(c) {
		if f.Path == shadow && shadow != basePath {
			return nil
		}
	}
	twin := c
	twin.Page.Layout = "base"
	_, res2, err := checkOne(twin)
	if err != nil {
		return fmt.Errorf("twin case with an explicit `layout: base` on the page: %w", err)
	}
	if (res.err == nil) != (res2.err == nil) {
		return fmt.Errorf("the default layout changes the outcome of the chain (%s, %d layouts): page without layout key -> err=%v, %d bytes; same files with `layout: base` on the page -> err=%v, %d bytes",
			pl.describe(), len(pl.chain)-1, res.err, len(res.out), res2.err, len(res2.out))
	}
	if res.err == nil {
		a, _ := hx.Frag(string(res.out), hx.Collapse)
		b, _ := hx.Frag(string(res2.out), hx.Collapse)
		if d := hx.Diff(a, b, hx.Options{}); d != "" {
			return fmt.Errorf("the document differs between default-applied and explicitly named layouts/base.vuego (%s): %s", pl.describe(), d)
		}
	}
	return nil
}

// readings reports which of the two consistent readings of a layout name supplied through
// Fill / Assign the result fits: named (as the front-matter key would) and/or ignored.
func readings(c Case, res result) (named, ignored bool) {
	named = judge(c, walk(c), res) == nil
	d := c
	d.Page.Layout, d.LayoutVia = "", ""
	ignored = judge(d, walk(d), res) == nil
	return
}

// viaConsistency: whichever reading an implementation takes for a Fill/Assign-supplied layout
// name, it cannot depend on whether layouts/base.vuego exists (the default rule is about pages
// that name NO layout). The sibling case - same files with layouts/base.vuego removed, or added
// as a plain ending layout - must not flip from "only named fits" to "only ignored fits".
func viaConsistency(c Case, res result) error {
	n1, i1 := readings(c, res)
	if n1 == i1 {
		return nil // both fit (the readings coincide here); neither cannot happen after checkOne
	}
	sib := c
	sib.Files = nil
	had := false
	for _, f := range c.Files {
		if f.Path == basePath {
			had = true
			continue
		}
		sib.Files = append(sib.Files, f)
	}
	if !had {
		sib.Files = append(sib.Files, File{Path: basePath})
	}
	_, res2, err := checkOne(sib)
	if err != nil {
		return fmt.Errorf("sibling case with layouts/base.vuego %s: %w", map[bool]string{true: "removed", false: "added"}[had], err)
	}
	n2, i2 := readings(sib, res2)
	if n2 != i2 && n1 != n2 {
		which := map[bool]string{true: "honoured as the page's layout", false: "ignored"}
		return fmt.Errorf("layout name %q supplied through %s is %s with layouts/base.vuego %s but %s with it %s",
			c.Page.Layout, c.LayoutVia, which[n1], map[bool]string{true: "present", false: "absent"}[had], which[n2], map[bool]string{true: "absent", false: "present"}[had])
	}
	return nil
}

// checkOne runs one render and applies the oracle to it.
func checkOne(c Case) (plan, result, error) {
	res := execute(c)
	pl, err := judgeAll(c, res)
	return pl, res, err
}

// noData reports whether the entry point hands no data to the engine.
func noData(c Case) bool { return c.Via == "bare-load" || c.Via == "bare-renderfile" }

// judgeAll applies the oracle to the result of one render of c.
func judgeAll(c Case, res result) (plan, error) {
	if noData(c) {
		c.FillK = "" // nothing is handed to the engine
	}
	pl := walk(c)
	err := judge(c, pl, res)
	if err == nil || c.LayoutVia == "" || c.Page.Layout == "" {
		return pl, err
	}
	// The layout name reaches the page through Fill / Assign instead of front-matter. The
	// statement and the docs speak of the front-matter key only, so two readings are consistent:
	// the variable names the layout exactly as the front-matter key would (what pl describes), or
	// it is no layout key at all (the page names no layout: default rule). The result must be the
	// clean outcome of one of them; a mixture (e.g. taking the layout path but then not seeing the
	// name) is neither.
	d := c
	d.Page.Layout, d.LayoutVia = "", ""
	pl2 := walk(d)
	if err2 := judge(d, pl2, res); err2 != nil {
		return pl, fmt.Errorf("layout name %q supplied through %s: the result fits neither reading.\n as the page's layout: %v\n ignored (page names no layout): %v", c.Page.Layout, c.LayoutVia, err, err2)
	}
	return pl2, nil
}

// current returns the case as it stands after some files were removed: same description, only
// the files still present.
func current(c Case, gone map[string]bool) Case {
	d := c
	d.Steps = nil
	d.Files = nil
	for _, f := range c.Files {
		if !gone[f.Path] {
			d.Files = append(d.Files, f)
		}
	}
	return d
}

// checkHistory runs the steps on one long-lived engine. Stale lower-layer copies are left out
// of a history (removing the upper copy would legitimately reveal them).
func checkHistory(c Case) error {
	base := c
	base.Steps = nil
	if c.Overlay != nil {
		o := *c.Overlay
		o.Stale = nil
		base.Overlay = &o
	}
	e := newEngine(base)
	e.before(base)
	described := map[string]File{}
	for _, f := range base.Files {
		described[f.Path] = f
	}
	gone := map[string]bool{}
	var trail []string
	for si, st := range c.Steps {
		f, ok := described[st.Path]
		switch st.Op {
		case "remove":
			if ok && !gone[st.Path] {
				e.byIdx[e.at[st.Path]].Remove(st.Path)
				gone[st.Path] = true
				trail = append(trail, "remove "+st.Path)
			}
		case "restore":
			if ok && gone[st.Path] {
				e.byIdx[e.at[st.Path]].Write(st.Path, source(f, false), time.Unix(int64(2000+si), 0))
				delete(gone, st.Path)
				trail = append(trail, "restore "+st.Path)
			}
		case "render":
			cur := current(base, gone)
			trail = append(trail, "render")
			if _, err := judgeAll(cur, e.render(cur)); err != nil {
				return fmt.Errorf("step %d of the history on one engine [%s]: %w", si, strings.Join(trail, "; "), err)
			}
		}
	}
	return nil
}

func judge(c Case, pl plan, res result) error {
	layouts := len(pl.chain) - 1

	// termination within the budgets, for every graph
	if res.runaway {
		return fmt.Errorf("render did not end on its own: more than %d file opens (expected outcome %s, err=%v, %d bytes written)", openBudget, pl.describe(), res.err, len(res.out))
	}
	if res.overflow {
		return fmt.Errorf("render wrote more than %d bytes to the destination (expected outcome %s)", writeBudget, pl.describe())
	}
	// an error comes instead of output, for every graph
	if res.err != nil && len(res.out) != 0 {
		return fmt.Errorf("an error was returned (%v) but %d bytes had been written to the destination: %q", res.err, len(res.out), short(res.out))
	}

	switch {
	case pl.out == oUnspec:
		return nil // only termination and error-instead-of-output
	case pl.out == oCycle:
		if res.err == nil {
			return fmt.Errorf("layout cycle of length %d (%s) must yield an error; got nil and %d bytes: %q", pl.cycleLen, pl.describe(), len(res.out), short(res.out))
		}
		return nil
	case pl.out == oMissing:
		if res.err == nil {
			return fmt.Errorf("a named layout resolves to no file (%s): want an error, got nil and %q", pl.describe(), short(res.out))
		}
		return nil
	case layouts+1 > maxTemplates:
		if res.err == nil {
			return fmt.Errorf("chain of %d templates (page + %d layouts) exceeds the maximum of %d: want an error, got nil and %d bytes", layouts+1, layouts, maxTemplates, len(res.out))
		}
		return nil
	default:
		if res.err != nil {
			return fmt.Errorf("chain ends after %d layouts (%s): want success, got error %v", layouts, pl.describe(), res.err)
		}
	}
	return verify(c, pl.doc(), pl.pageReused, res.out)
}

// verify checks that out is exactly one document: chain[last](…chain[1](chain[0])…), with the
// expected values visible at every level.
func verify(c Case, chain []File, pageReused bool, out []byte) error {
	forest, err := hx.Frag(string(out), hx.Collapse)
	if err != nil {
		return fmt.Errorf("output does not parse: %v", err)
	}
	fail := func(format string, a ...any) error {
		return fmt.Errorf("%s\n  expected nesting (outermost first): %s\n  got outline: %s\n  got: %s",
			fmt.Sprintf(format, a...), nesting(chain), hx.Outline(forest), short(out))
	}
	// A link that is front-matter only renders to nothing: the layouts outside it receive an
	// empty `content`, so the document consists of the links after the last such file.
	inner := 0 // index of the innermost file that shows in the document
	for i, f := range chain {
		if bodiless(f, i == 0) {
			inner = i + 1
		}
	}
	// every expected marker exactly once, nothing else: one document, no intermediate result
	count := map[string]int{}
	for _, id := range hx.MarkerIDs(forest) {
		count[id]++
	}
	for _, f := range chain[inner:] {
		if n := count[markerID(f.Path)]; n != 1 {
			return fail("marker of %s occurs %d times in the output, want exactly once", f.Path, n)
		}
	}
	if len(count) != len(chain)-inner {
		return fail("output contains %d distinct markers, want %d (chain of %d files, the innermost %d render to nothing)", len(count), len(chain)-inner, len(chain), inner)
	}
	if inner == len(chain) {
		if len(forest) != 0 {
			return fail("the outermost file has no body: want an empty document")
		}
		return nil
	}
	level := forest
	for i := len(chain) - 1; i >= inner; i-- {
		f := chain[i]
		id := markerID(f.Path)
		if len(level) != 1 || level[0].Tag == "" {
			return fail("at depth %d: want exactly one element (marker %s), got %s", len(chain)-1-i, id, hx.String(level))
		}
		n := level[0]
		if n.Attrs["data-m"] != id {
			return fail("at depth %d: want marker %s, got %s", len(chain)-1-i, id, n.Brief())
		}
		cells := map[string]string{}
		var slot *hx.N
		for _, k := range n.Kids {
			if k.Tag == "" {
				return fail("marker %s: unexpected text %q", id, k.Text)
			}
			if v, ok := k.Attrs["data-v"]; ok {
				cells[v] = hx.TextOf(k.Kids, " ")
			} else if _, ok := k.Attrs["data-s"]; ok {
				if slot != nil {
					return fail("marker %s: more than one content holder", id)
				}
				slot = k
			} else {
				return fail("marker %s: unexpected child %s", id, k.Brief())
			}
		}
		if cells["pg"] != pgVal {
			return fail("in %s the page's front-matter key pg shows %q, want %q (page front-matter must stay visible)", f.Path, cells["pg"], pgVal)
		}
		if cells["fd"] != fdVal && !noData(c) {
			return fail("in %s the Fill key fd shows %q, want %q (page data must stay visible)", f.Path, cells["fd"], fdVal)
		}
		if allowed := allowedK(c, chain, i, pageReused); allowed != nil {
			ok := false
			for _, a := range allowed {
				ok = ok || cells["k"] == a
			}
			if !ok {
				return fail("in %s k shows %q, want one of %v (own front-matter k=%q, page front-matter k=%q, Fill k=%q)", f.Path, cells["k"], allowed, f.K, c.Page.K, c.FillK)
			}
		}
		if i == 0 {
			if slot != nil {
				return fail("page marker has a content holder")
			}
			break
		}
		if slot == nil {
			return fail("layout %s has no content holder in the output", f.Path)
		}
		if i == inner {
			if len(slot.Kids) != 0 {
				return fail("layout %s wraps a file without body: want an empty content holder, got %s", f.Path, hx.String(slot.Kids))
			}
			break
		}
		level = slot.Kids
	}
	return nil
}

func nesting(chain []File) string {
	var ids []string
	for i := len(chain) - 1; i >= 0; i-- {
		ids = append(ids, markerID(chain[i].Path))
	}
	return strings.Join(ids, " > ")
}

func (pl plan) describe() string {
	var p []string
	for _, f := range pl.chain {
		p = append(p, f.Path)
	}
	s := strings.Join(p, " -> ")
	if len(p) > 8 {
		s = strings.Join(p[:3], " -> ") + fmt.Sprintf(" -> …(%d files)… -> ", len(p)-5) + strings.Join(p[len(p)-2:], " -> ")
	}
	switch pl.out {
	case oCycle:
		return fmt.Sprintf("cycle of length %d after %s", pl.cycleLen, s)
	case oMissing:
		return "missing target after " + s
	case oUnspec:
		return "unspecified explicit path after " + s
	}
	return "ends: " + s
}

// ---------------------------------------------------------------- classification

func classify(c Case) (bool, []string) {
	pl := walk(c)
	layouts := len(pl.chain) - 1
	var cls []string
	switch pl.out {
	case oOK:
		if layouts+1 > maxTemplates {
			cls = append(cls, "outcome=too-long")
		} else {
			cls = append(cls, "outcome=ends")
		}
		switch {
		case layouts <= 5:
			cls = append(cls, fmt.Sprintf("layouts=%d", layouts))
		case layouts+1 >= maxTemplates-2 && layouts+1 <= maxTemplates+2:
			cls = append(cls, fmt.Sprintf("templates=%d(at the limit)", layouts+1))
		case layouts+1 < maxTemplates:
			cls = append(cls, "templates=7..97")
		default:
			cls = append(cls, "templates>=103")
		}
	case oCycle:
		cls = append(cls, "outcome=cycle")
		if pl.cycleLen <= 4 {
			cls = append(cls, fmt.Sprintf("cycle-len=%d", pl.cycleLen))
		} else {
			cls = append(cls, "cycle-len>=5")
		}
		if pl.cycleLen == len(pl.chain) {
			cls = append(cls, "cycle-through-page")
		} else {
			cls = append(cls, fmt.Sprintf("cycle-after-prefix=%d", min(len(pl.chain)-pl.cycleLen, 4)))
		}
	case oMissing:
		cls = append(cls, "outcome=missing", fmt.Sprintf("missing-after-layouts=%d", min(layouts, 5)))
	case oUnspec:
		cls = append(cls, "outcome=unspecified-explicit")
	}
	baseExists := false
	for _, f := range expand(c) {
		if f.Path == basePath {
			baseExists = true
		}
	}
	switch {
	case c.Page.Layout == "" && baseExists:
		cls = append(cls, "page-no-layout+base-present(default due)")
	case c.Page.Layout == "" && !baseExists:
		cls = append(cls, "page-no-layout+base-absent(no default)")
	case baseExists:
		cls = append(cls, "page-names-layout+base-present(default not due)")
	default:
		cls = append(cls, "page-names-layout+base-absent")
	}
	if pl.ambiguous {
		cls = append(cls, "link:relative-shadows-layouts/")
	}
	if pl.fellBack {
		cls = append(cls, "link:fallback-to-layouts/")
	}
	if pl.explicit {
		cls = append(cls, "link:explicit-path")
	}
	if pl.pageReused {
		cls = append(cls, "page-file-reused-as-last-layout")
	}
	if pl.nonStr {
		cls = append(cls, "link:name-is-non-string-yaml-scalar")
	}
	if len(c.Steps) > 0 {
		cls = append(cls, historyClasses(c)...)
	}
	if c.Before != "" {
		where := "fresh-engine"
		if c.BeforeSame && c.Before != "latefail" {
			where = "same-engine"
		}
		cls = append(cls, "after-failure:"+c.Before+"("+where+")")
	}
	if c.SameTemplate {
		cls = append(cls, "same-template-object")
	}
	switch c.FillKind {
	case "struct":
		cls = append(cls, "fill=struct")
	case "ptr":
		cls = append(cls, "fill=pointer-to-struct")
	case "tmap":
		cls = append(cls, "fill=typed-map")
	case "embed":
		cls = append(cls, "fill=struct-with-embedded-fields")
	case "embedptr":
		cls = append(cls, "fill=pointer-to-struct-with-embedded-fields")
	default:
		cls = append(cls, "fill=map")
	}
	{
		big := 0
		for i, f := range pl.chain {
			if f.Pad > big && (i == 0 || f.Layout != "" || f.Empty != "" || f.K != "") && !(i > 0 && i == len(pl.chain)-1 && pl.pageReused) {
				big = f.Pad
			}
		}
		switch {
		case big > 4096:
			cls = append(cls, "front-matter>4KiB-on-chain")
		case big > 0:
			cls = append(cls, "front-matter-padded<=4KiB-on-chain")
		}
	}
	if pl.out == oOK && len(pl.chain) > 1 && c.Page.K != "" && c.FillK != "" {
		for i := 1; i < len(pl.chain); i++ {
			if pl.chain[i].K == "" {
				cls = append(cls, "k:layout-must-see-page-front-matter-over-fill("+map[string]string{"": "map"}[c.FillKind]+c.FillKind+")")
				break
			}
		}
	}
	{
		crlf, blanks, nobody := false, false, false
		for i, f := range pl.chain {
			if i > 0 && i == len(pl.chain)-1 && pl.pageReused {
				break
			}
			crlf = crlf || f.EOL == "crlf"
			blanks = blanks || (f.Fence != "" && (i == 0 || f.Layout != "" || f.Empty != "" || f.K != ""))
			nobody = nobody || bodiless(f, i == 0)
		}
		if crlf {
			cls = append(cls, "spelling:crlf-file-on-chain")
		}
		if blanks {
			cls = append(cls, "spelling:blanks-after-fence-on-chain")
		}
		if nobody {
			cls = append(cls, "spelling:front-matter-only-file-on-chain")
		}
	}
	if c.Page.Layout == "" && c.Page.Empty != "" && c.LayoutVia == "" {
		if baseExists {
			cls = append(cls, "page-layout-key-empty("+c.Page.Empty+")+base-present")
		} else {
			cls = append(cls, "page-layout-key-empty("+c.Page.Empty+")+base-absent")
		}
	}
	if n := len(pl.chain); pl.out == oOK && n > 1 && pl.chain[n-1].Layout == "" && pl.chain[n-1].Empty != "" && !pl.pageReused {
		cls = append(cls, "last-layout-has-empty-layout-key")
	}
	if c.LayoutVia != "" && c.Page.Layout != "" {
		cls = append(cls, "page-layout-supplied-via="+c.LayoutVia)
	}
	// an intermediate layout defines k, an outer layout does not, and the page or Fill does
	if pl.out == oOK && (c.Page.K != "" || c.FillK != "") {
		seenK := false
		for i := 1; i < len(pl.chain); i++ {
			if pl.chain[i].K != "" {
				seenK = true
			} else if seenK {
				cls = append(cls, "k:outer-layout-must-see-page-value-past-intermediate-layout-k")
				break
			}
		}
	}
	// collisions on k among the files actually on the chain
	layK := 0
	for i := 1; i < len(pl.chain); i++ {
		if pl.chain[i].K != "" {
			layK++
		}
	}
	var col []string
	if c.Page.K != "" {
		col = append(col, "page")
	}
	if c.FillK != "" {
		col = append(col, "fill")
	}
	if layK == 1 {
		col = append(col, "layout")
	} else if layK > 1 {
		col = append(col, "layouts")
	}
	if pl.out == oOK && layouts+1 <= maxTemplates {
		if len(col) >= 2 {
			cls = append(cls, "k-collision:"+strings.Join(col, "+"))
		} else if len(col) == 1 {
			cls = append(cls, "k-only:"+col[0])
		} else {
			cls = append(cls, "k-nowhere")
		}
	}
	switch {
	case c.Overlay == nil && c.FS == "openonly":
		cls = append(cls, "fs=single,open-only")
	case c.Overlay == nil:
		cls = append(cls, "fs=single")
	default:
		nonNil, at, total := layering(c)
		cls = append(cls, fmt.Sprintf("fs=overlay(%d non-nil layers)", len(nonNil)))
		if c.FS == "openonly" {
			cls = append(cls, "overlay:open-only-layers")
		}
		if len(nonNil) < total {
			cls = append(cls, "overlay:nil-layer")
		}
		baseLow, relLow := false, false
		for n, p := range pl.probed {
			if at[p] != nonNil[0] {
				if n == 0 && pl.defaultDue {
					baseLow = true
				} else {
					relLow = true
				}
			}
		}
		if baseLow {
			cls = append(cls, "overlay:default-base-only-in-lower-layer")
		}
		if relLow {
			cls = append(cls, "overlay:relative-target-only-in-lower-layer")
		}
		lower := false
		for i := 1; i < len(pl.chain); i++ {
			lower = lower || at[pl.chain[i].Path] != nonNil[0]
		}
		if lower {
			cls = append(cls, "overlay:chain-uses-lower-layer")
		}
		for _, p := range c.Overlay.Stale {
			if l, ok := at[p]; ok && nonNil[len(nonNil)-1] > l {
				cls = append(cls, "overlay:stale-copy-shadowed")
				break
			}
		}
	}
	switch c.Via {
	case "renderfile":
		cls = append(cls, "via=RenderFile")
	case "":
		cls = append(cls, "via=Load.Fill.Render")
	default:
		cls = append(cls, "via="+c.Via)
	}
	if c.Ctor == "withfs" {
		cls = append(cls, "ctor=New(WithFS)")
	}
	nt := layouts >= 2 || pl.out == oCycle || pl.ambiguous
	return nt, cls
}

// historyClasses labels a history by what its removals / restores do to the expected chain.
func historyClasses(c Case) []string {
	set := map[string]bool{"history": true}
	gone := map[string]bool{}
	base := c
	base.Steps = nil
	var prev *plan
	renders := 0
	onChain := func(pl *plan, p string) bool {
		if pl == nil {
			return false
		}
		for _, f := range pl.chain[1:] {
			if f.Path == p {
				return true
			}
		}
		return false
	}
	pending := ""
	for _, st := range c.Steps {
		switch st.Op {
		case "remove":
			gone[st.Path] = true
			if onChain(prev, st.Path) {
				if st.Path == basePath && prev.defaultDue {
					pending = "history:default-base-removed-after-it-was-applied"
				} else {
					pending = "history:file-of-the-previous-chain-removed"
				}
			}
		case "restore":
			if gone[st.Path] {
				delete(gone, st.Path)
				if prev != nil {
					pending = "history:file-restored-between-renders"
				}
			}
		case "render":
			pl := walk(current(base, gone))
			renders++
			if pending != "" {
				set[pending] = true
				pending = ""
			}
			if prev != nil && (prev.out != pl.out || len(prev.chain) != len(pl.chain)) {
				set["history:expected-outcome-changes-between-renders"] = true
			}
			prev = &pl
		}
	}
	set[fmt.Sprintf("history:renders=%d", min(renders, 5))] = true
	var out []string
	for k := range set {
		out = append(out, k)
	}
	sort.Strings(out)
	return out
}

// ---------------------------------------------------------------- generators

// state of one file slot in the enumerations: -1 absent, otherwise index into names ("" = no layout key)
func fileFromState(p string, st int, names []string) (File, bool) {
	if st < 0 {
		return File{}, false
	}
	return File{Path: p, Layout: names[st]}, true
}

// kValue is the distinct token a source defines for k.
func kValue(p string) string { return "k-" + strings.NewReplacer("/", "-", ".vuego", "").Replace(p) }

const kFill = "k-fill"

// enumGraphs enumerates every graph over slots (each absent or present naming one of names)
// x every page option, calling f with a running index; it stops when f returns false.
func enumGraphs(slots []string, names []string, pageNames []string, f func(i int, c Case) bool) int {
	n := 0
	st := make([]int, len(slots))
	var rec func(d int) bool
	rec = func(d int) bool {
		if d == len(slots) {
			for _, pn := range pageNames {
				c := Case{Page: File{Path: "pages/p.vuego", Layout: pn}}
				for j, p := range slots {
					if fl, ok := fileFromState(p, st[j], names); ok {
						c.Files = append(c.Files, fl)
					}
				}
				if !f(n, c) {
					return false
				}
				n++
			}
			return true
		}
		for s := -1; s < len(names); s++ {
			st[d] = s
			if !rec(d + 1) {
				return false
			}
		}
		return true
	}
	rec(0)
	return n
}

// applyKMask sets k in the sources selected by the bits of m: bit0 page, bit1 Fill, bit 2+j file j.
func applyKMask(c *Case, m int) {
	if m&1 != 0 {
		c.Page.K = kValue(c.Page.Path)
	}
	if m&2 != 0 {
		c.FillK = kFill
	}
	for j := range c.Files {
		if m&(4<<j) != 0 {
			c.Files[j].K = kValue(c.Files[j].Path)
		}
	}
}

// shapeCase builds, by construction, a chain of exactly L layouts n1..nL with a chosen ending.
// dirs bit i-1 places n_i in pages/ (1) or layouts/ (0); decoys bit i-1 adds a same-named file in
// the other directory wherever that does not change which file the link must resolve to (next to
// the naming file it would shadow layouts/, so it is only added when the target is the nearer one);
// viaDefault makes n1 = layouts/base.vuego reached through the default rule (page names nothing).
// end: -3 chain ends, -2 last names a missing file, j>=0 last names chain[j] again (0 = the page).
func shapeCase(L, dirs, decoys int, viaDefault bool, end int, alt int) Case {
	c := Case{Page: File{Path: "pages/p.vuego"}}
	dirOf := func(i int) string { // i = 0 is the page
		if i == 0 || dirs&(1<<(i-1)) != 0 {
			if i == 1 && viaDefault {
				return "layouts"
			}
			return "pages"
		}
		return "layouts"
	}
	nameOf := func(i int) string {
		if i == 0 {
			return "p"
		}
		if i == 1 && viaDefault {
			return "base"
		}
		if alt == 2 && i <= len(uniNames) {
			return uniNames[(i-1+L)%len(uniNames)] // names beyond ASCII
		}
		if alt == 1 && i <= 4 {
			return []string{"404", "true", "1.5", "2024"}[i-1] // names YAML reads as int / bool / float
		}
		return fmt.Sprintf("n%d", i)
	}
	// how file `from` spells file `to`
	spell := func(from, to int) string {
		if dirOf(from) == dirOf(to) || dirOf(to) == "layouts" {
			return nameOf(to) // same directory, or the layouts/ fallback
		}
		return "../" + dirOf(to) + "/" + nameOf(to) + ".vuego"
	}
	chain := make([]File, L+1)
	chain[0] = c.Page
	for i := 1; i <= L; i++ {
		chain[i] = File{Path: dirOf(i) + "/" + nameOf(i) + ".vuego"}
		if !(i == 1 && viaDefault) {
			chain[i-1].Layout = spell(i-1, i)
		}
	}
	switch {
	case end == -2:
		chain[L].Layout = "zz"
	case end >= 0:
		chain[L].Layout = spell(L, end)
	}
	c.Page = chain[0]
	c.Files = append(c.Files, chain[1:]...)
	for i := 1; i <= L; i++ {
		if decoys&(1<<(i-1)) == 0 || (i == 1 && viaDefault) {
			continue
		}
		other := "pages"
		if dirOf(i) == "pages" {
			other = "layouts"
		}
		// a decoy next to the naming file would (rightly) win: only add it where it must lose
		if other == dirOf(i-1) && other != "layouts" {
			continue
		}
		if other == "layouts" && dirOf(i-1) == "layouts" {
			continue
		}
		c.Files = append(c.Files, File{Path: other + "/" + nameOf(i) + ".vuego", Layout: "zz", K: "k-decoy"})
	}
	return c
}

var rapidDirs = []string{"layouts", "pages"}
var rapidNames = []string{"a", "404", "İstanbul", "base"}

func genCase(t *rapid.T) Case {
	c := Case{Page: File{Path: "pages/p.vuego"}}
	// candidate files: {a,b,c,base} x {layouts,pages}; at most 6 present
	type cand struct{ dir, name string }
	var cands []cand
	for _, n := range rapidNames {
		for _, d := range rapidDirs {
			cands = append(cands, cand{d, n})
		}
	}
	present := map[string]bool{}
	for _, cd := range cands {
		if len(c.Files) >= 6 {
			break
		}
		// layouts/base.vuego present half of the time, the others 2 in 3
		var in bool
		if cd.dir == "layouts" && cd.name == "base" {
			in = rapid.Bool().Draw(t, "base")
		} else {
			in = rapid.IntRange(0, 2).Draw(t, "in:"+cd.dir+"/"+cd.name) > 0
		}
		if in {
			p := cd.dir + "/" + cd.name + ".vuego"
			c.Files = append(c.Files, File{Path: p})
			present[p] = true
		}
	}
	present[c.Page.Path] = true
	// a layout name as written in front-matter, for a file living in dir
	drawName := func(label, dir string, allowNone bool) string {
		opts := []string{"a", "404", "İstanbul", "base", "a", "İstanbul", "p", "zz"}
		if allowNone {
			opts = append(opts, "", "")
		}
		n := rapid.SampledFrom(opts).Draw(t, label)
		if n == "" || n == "zz" {
			return n
		}
		// spelling: plain name, explicit file name, explicit path into the other directory.
		// Explicit spellings are only produced when their target exists (what happens
		// otherwise is not specified), by construction rather than rejection.
		switch rapid.IntRange(0, 5).Draw(t, label+":form") {
		case 0:
			if present[path.Join(dir, n+".vuego")] {
				return n + ".vuego"
			}
		case 1:
			other := "layouts"
			if dir == "layouts" {
				other = "pages"
			}
			if present[other+"/"+n+".vuego"] {
				return "../" + other + "/" + n + ".vuego"
			}
		}
		return n
	}
	c.Page.Layout = drawName("page.layout", "pages", true)
	for i := range c.Files {
		c.Files[i].Layout = drawName("layout:"+c.Files[i].Path, path.Dir(c.Files[i].Path), true)
	}
	// k collisions
	if rapid.Bool().Draw(t, "k:page") {
		c.Page.K = kValue(c.Page.Path)
	}
	if rapid.Bool().Draw(t, "k:fill") {
		c.FillK = kFill
	}
	for i := range c.Files {
		if rapid.IntRange(0, 2).Draw(t, "k:"+c.Files[i].Path) == 0 {
			c.Files[i].K = kValue(c.Files[i].Path)
		}
	}
	// occasionally hang a synthetic chain below the graph
	if rapid.IntRange(0, 19).Draw(t, "long") == 0 {
		l := &Long{N: rapid.SampledFrom([]int{7, 30, 60, 85, 99, 100, 101, 130}).Draw(t, "long.n"), Dir: rapid.SampledFrom(rapidDirs).Draw(t, "long.dir")}
		l.Tail = rapid.SampledFrom([]string{"", "", "a", "c001", "zz"}).Draw(t, "long.tail")
		c.Long = l
		// somebody names its head: by plain name where that resolves (same directory, or the
		// layouts/ fallback), by explicit path from layouts/ into pages/
		who := rapid.IntRange(0, len(c.Files)).Draw(t, "long.from")
		namer := &c.Page
		if who > 0 {
			namer = &c.Files[who-1]
		}
		if l.Dir == "pages" && path.Dir(namer.Path) == "layouts" {
			namer.Layout = "../pages/c001.vuego"
		} else {
			namer.Layout = "c001"
		}
	}
	if rapid.Bool().Draw(t, "via") {
		c.Via = "renderfile"
	}
	if c.Page.Layout == "" {
		c.Page.Empty = rapid.SampledFrom(emptySpellings).Draw(t, "page.empty")
	}
	for i := range c.Files {
		if c.Files[i].Layout == "" && rapid.IntRange(0, 2).Draw(t, "empty?:"+c.Files[i].Path) == 0 {
			c.Files[i].Empty = rapid.SampledFrom(emptySpellings[1:]).Draw(t, "empty:"+c.Files[i].Path)
		}
	}
	spell := func(f *File, label string) {
		if rapid.IntRange(0, 2).Draw(t, "crlf:"+label) == 0 {
			f.EOL = "crlf"
		}
		if rapid.IntRange(0, 2).Draw(t, "fence?:"+label) == 0 {
			f.Fence = rapid.SampledFrom([]string{"open-sp", "close-sp", "close-tab", "both-sp"}).Draw(t, "fence:"+label)
		}
		if rapid.IntRange(0, 14).Draw(t, "nobody?:"+label) == 0 {
			f.NoBody = rapid.SampledFrom([]string{"eof", "eofnl"}).Draw(t, "nobody:"+label)
		}
	}
	spell(&c.Page, "page")
	for i := range c.Files {
		spell(&c.Files[i], c.Files[i].Path)
	}
	if c.Long != nil && rapid.Bool().Draw(t, "long.crlf") {
		c.Long.EOL = "crlf"
	}
	c.FillKind = rapid.SampledFrom([]string{"", "", "struct", "ptr", "tmap", "embed", "embedptr"}).Draw(t, "fill.kind")
	cyclic := walk(c).out == oCycle
	padOf := func(f *File, label string) {
		if !cyclic && rapid.IntRange(0, 4).Draw(t, "pad?:"+label) == 0 {
			f.Pad = rapid.SampledFrom([]int{10, 1000, 4000, 4090, 4100, 4200, 8192}).Draw(t, "pad:"+label)
			f.PadList = rapid.Bool().Draw(t, "padlist:"+label)
		}
	}
	padOf(&c.Page, "page")
	for i := range c.Files {
		padOf(&c.Files[i], c.Files[i].Path)
	}
	if c.Page.Layout != "" {
		c.LayoutVia = rapid.SampledFrom([]string{"", "", "", "", "fill", "assign"}).Draw(t, "layout.via")
	}
	if c.LayoutVia == "" && rapid.IntRange(0, 2).Draw(t, "via.rare?") == 0 {
		c.Via = rapid.SampledFrom(rareVias).Draw(t, "via.rare")
	}
	if rapid.IntRange(0, 3).Draw(t, "ctor") == 0 {
		c.Ctor = "withfs"
	}
	if rapid.IntRange(0, 3).Draw(t, "before?") == 0 {
		c.Before = rapid.SampledFrom(beforeKinds).Draw(t, "before")
		c.BeforeSame = rapid.Bool().Draw(t, "before.same")
	}
	if c.LayoutVia == "" && (c.Via == "" || c.Via == "renderfile") && rapid.IntRange(0, 3).Draw(t, "same.template") == 0 {
		c.SameTemplate = true
	}
	// a history on one engine
	if len(c.Files) > 0 && c.LayoutVia == "" && rapid.IntRange(0, 3).Draw(t, "history") == 0 {
		c.Steps = []Step{{Op: "render"}}
		n := rapid.IntRange(1, 3).Draw(t, "history.rounds")
		for r := 0; r < n; r++ {
			p := c.Files[rapid.IntRange(0, len(c.Files)-1).Draw(t, "history.file")].Path
			op := rapid.SampledFrom([]string{"remove", "remove", "restore"}).Draw(t, "history.op")
			c.Steps = append(c.Steps, Step{Op: op, Path: p}, Step{Op: "render"})
		}
	}
	// storage
	switch rapid.IntRange(0, 5).Draw(t, "fs") {
	case 0, 1:
	case 2:
		c.FS = "openonly"
	default:
		o := &Overlay{Layers: rapid.IntRange(2, 4).Draw(t, "ov.layers"), At: map[string]int{}}
		keep := rapid.IntRange(0, o.Layers-1).Draw(t, "ov.keep") // this layer is never nil
		var live []int
		for i := 0; i < o.Layers; i++ {
			if i != keep && rapid.IntRange(0, 3).Draw(t, fmt.Sprintf("ov.nil%d", i)) == 0 {
				o.Nil = append(o.Nil, i)
			} else {
				live = append(live, i)
			}
		}
		// the page mostly above
		if rapid.IntRange(0, 3).Draw(t, "ov.page") == 0 {
			o.At[c.Page.Path] = rapid.SampledFrom(live).Draw(t, "ov.pageat")
		}
		for _, f := range c.Files {
			o.At[f.Path] = rapid.SampledFrom(live).Draw(t, "ov.at:"+f.Path)
			if rapid.IntRange(0, 2).Draw(t, "ov.stale:"+f.Path) == 0 {
				o.Stale = append(o.Stale, f.Path)
			}
		}
		o.Spread = rapid.Bool().Draw(t, "ov.spread") // only matters for a synthetic chain
		o.Rest = rapid.SampledFrom(live).Draw(t, "ov.rest")
		if rapid.IntRange(0, 3).Draw(t, "ov.openonly") == 0 {
			c.FS = "openonly"
		}
		c.Overlay = o
	}
	return c
}

func replay(kind string, raw json.RawMessage) error {
	if strings.HasPrefix(kind, "edges") {
		return replayEdges(raw)
	}
	return run.Decode(raw, check)
}

// stage runs one bounded enumeration: emit feeds cases to yield; the stage stops at its first
// failing case (a broken termination rule makes every further cyclic case cost the full budget)
// and is recorded as exhaustive only when it ran to completion.
type stage struct {
	rec           *ev.Rec
	kind          string
	shard, shards int
	n             int
	failed        bool
}

func (s *stage) yield(c Case) bool {
	if s.failed {
		return false
	}
	i := s.n
	s.n++
	if i%s.shards != s.shard {
		return true
	}
	nt, cls := classify(c)
	if !run.Each(s.rec, s.kind, c, nt, cls, check) {
		s.failed = true
		return false
	}
	return true
}

var spellCombos = []struct{ eol, fence string }{
	{"", ""}, {"crlf", ""}, {"", "close-sp"}, {"crlf", "close-tab"}, {"", "open-sp"}, {"crlf", "both-sp"}, {"", ""}, {"", "close-tab"},
}

// rotateSpell varies how each file is written (LF / CRLF, blanks or a TAB after the fences, and
// now and then a front-matter-only file ending at the closing fence) as a function of the index.
func rotateSpell(c *Case, i int) {
	set := func(f *File, n int) {
		sc := spellCombos[n%len(spellCombos)]
		f.EOL, f.Fence = sc.eol, sc.fence
	}
	set(&c.Page, i)
	for j := range c.Files {
		set(&c.Files[j], i/3+3*j+1)
	}
	if c.Long != nil && i%2 == 1 {
		c.Long.EOL = "crlf"
	}
	switch i % 13 {
	case 5:
		c.Page.NoBody = "eof"
	case 9:
		if len(c.Files) > 0 {
			c.Files[(i/13)%len(c.Files)].NoBody = []string{"eofnl", "eof"}[(i/13)%2]
		}
	}
}

// spellings: a chain page -> layouts/a -> layouts/404 where one of the three files is written in
// every combination of line ending x fence blanks x body / front-matter only (closing fence at
// end of file with and without a final line ending); both entry points.
func spellings(s *stage) {
	for _, eol := range []string{"", "crlf"} {
		for _, fence := range []string{"", "open-sp", "close-sp", "close-tab", "both-sp"} {
			for _, nb := range []string{"", "eof", "eofnl"} {
				for who := 0; who < 3; who++ {
					for _, via := range []string{"", "renderfile"} {
						c := Case{Page: File{Path: "pages/p.vuego", Layout: "a", K: kValue("pages/p.vuego")},
							Files: []File{{Path: "layouts/a.vuego", Layout: "404"}, {Path: "layouts/404.vuego", K: kValue("layouts/404.vuego")}}, Via: via}
						if s.n%2 == 0 {
							c.FillK = kFill
						}
						f := &c.Page
						if who > 0 {
							f = &c.Files[who-1]
						}
						f.EOL, f.Fence, f.NoBody = eol, fence, nb
						rotateFS(&c, s.n/2)
						if !s.yield(c) {
							return
						}
					}
				}
			}
		}
	}
}

// histories: every graph over {layouts/a, pages/a, layouts/base} (names none / a / base) x page
// {none, a, base} x every present layout file f: on ONE engine render, remove f, render, restore
// f, render; every third history also removes a second file in between. Storage, Fill kind and
// entry point rotate with the index.
func histories(s *stage) {
	names := []string{"", "a", "base"}
	enumGraphs([]string{"layouts/a.vuego", "pages/a.vuego", basePath}, names, names, func(_ int, c Case) bool {
		for j := range c.Files {
			i := s.n
			d := c
			d.Files = append([]File(nil), c.Files...)
			p := d.Files[j].Path
			d.Steps = []Step{{Op: "render"}, {Op: "remove", Path: p}, {Op: "render"}}
			if i%3 == 2 && len(d.Files) > 1 {
				q := d.Files[(j+1)%len(d.Files)].Path
				d.Steps = append(d.Steps, Step{Op: "remove", Path: q}, Step{Op: "render"}, Step{Op: "restore", Path: q})
			}
			d.Steps = append(d.Steps, Step{Op: "restore", Path: p}, Step{Op: "render"})
			applyKMask(&d, (i*5+i/7)%(4<<len(d.Files)))
			if i%2 == 1 {
				d.Via = "renderfile"
			}
			rotateFS(&d, i)
			rotateFill(&d, i/2)
			d.SameTemplate = i%2 == 0
			rotateEntry(&d, i, 2)
			if i%5 == 3 {
				d.Before = beforeKinds[(i/5)%len(beforeKinds)]
				d.BeforeSame = (i/5)%2 == 0
			}
			if !s.yield(d) {
				return false
			}
		}
		return true
	})
}

// fillKinds: chains of 1 and 2 layouts (also through the default rule) x every subset of k
// sources {page front-matter, Fill, each layout} x Fill data as map / struct / pointer to struct
// x both entry points: the documented precedence (front-matter over Fill) decides what the
// page's k is, and the layouts must see exactly that.
func fillKinds(s *stage) {
	for shape := 0; shape < 3; shape++ {
		for m := 0; m < 16; m++ {
			for _, kind := range []string{"", "struct", "ptr", "tmap", "embed", "embedptr"} {
				for _, via := range []string{"", "renderfile"} {
					c := Case{Page: File{Path: "pages/p.vuego", Layout: "a"}, Via: via, FillKind: kind}
					switch shape {
					case 0:
						c.Files = []File{{Path: "layouts/a.vuego"}, {Path: "layouts/404.vuego"}}
					case 1:
						c.Files = []File{{Path: "layouts/a.vuego", Layout: "404"}, {Path: "layouts/404.vuego"}}
					case 2:
						c.Page.Layout = ""
						c.Files = []File{{Path: basePath, Layout: "404"}, {Path: "layouts/404.vuego"}}
					}
					applyKMask(&c, m)
					if !s.yield(c) {
						return
					}
				}
			}
		}
	}
}

// rotateFill varies the kind of value handed to Fill with the index.
func rotateFill(c *Case, i int) {
	c.FillKind = []string{"", "struct", "tmap", "ptr", "embed", "", "embedptr", "tmap"}[i%8]
}

var padSizes = []int{10, 1000, 4000, 4200, 8192, 70000}

// rotatePad gives the front-matter of some files a long `summary` value (10 bytes .. 70 KB).
// Chains that cannot end are left alone (every one of their ~100 iterations would parse the
// block again, which only costs time), and the largest size is kept for the pad stage.
func rotatePad(c *Case, i int) {
	if walk(*c).out == oCycle {
		return
	}
	sizes := padSizes[:len(padSizes)-1]
	if i%5 == 0 {
		c.Page.Pad = sizes[(i/5)%len(sizes)]
		c.Page.PadList = (i/25)%2 == 1
	}
	for j := range c.Files {
		if (i+j)%7 == 1 {
			c.Files[j].Pad = sizes[(i/7+j)%len(sizes)]
			c.Files[j].PadList = (i/35+j)%2 == 1
		}
	}
}

// padded: a chain page -> layouts/a -> layouts/404 where one of the three files (each has
// front-matter) carries a summary of 10 .. 70000 bytes as one scalar or as a list; both entry points.
func padded(s *stage) {
	for who := 0; who < 3; who++ {
		for _, size := range padSizes {
			for _, list := range []bool{false, true} {
				for _, via := range []string{"", "renderfile"} {
					c := Case{Page: File{Path: "pages/p.vuego", Layout: "a", K: kValue("pages/p.vuego")},
						Files: []File{{Path: "layouts/a.vuego", Layout: "404"}, {Path: "layouts/404.vuego", K: kValue("layouts/404.vuego")}}, Via: via}
					f := &c.Page
					if who > 0 {
						f = &c.Files[who-1]
					}
					f.Pad, f.PadList = size, list
					if s.n%3 == 0 {
						f.EOL = "crlf"
					}
					rotateFS(&c, s.n/2)
					rotateFill(&c, s.n/2)
					if !s.yield(c) {
						return
					}
				}
			}
		}
	}
}

var beforeKinds = []string{"failwriter", "otherpage", "latefail", "shortwriter", "otherpage", "missingload", "failwriter", "cancel", "otherpage"}

var rareVias = []string{"fill-load", "bare-renderfile", "view", "assign-renderfile", "bare-load", "load-assign-render"}

// rotateEntry sends a rotating fraction of the cases (one in `every`) through the less travelled
// entry points and the other constructor. Cases whose layout name travels through Fill / Assign
// and cases going through one kept Template object keep the two main entry points.
func rotateEntry(c *Case, i, every int) {
	if i%every == 1 && c.LayoutVia == "" && !c.SameTemplate {
		c.Via = rareVias[(i/every)%len(rareVias)]
	}
	if i%5 == 2 {
		c.Ctor = "withfs"
	}
}

// rotateAfterFailure makes a rotating fraction of the cases (one in `every`) start with a failing
// or aborted operation, and a further fraction go through one kept Template object.
func rotateAfterFailure(c *Case, i, every int) {
	if i%every == 0 {
		j := i / every
		c.Before = beforeKinds[j%len(beforeKinds)]
		c.BeforeSame = (j/len(beforeKinds))%2 == 1
	}
	if i%every == every/2 && c.LayoutVia == "" {
		c.SameTemplate = true
	}
}

// uniNames: layout file names beyond ASCII: Cyrillic, CJK, accented Latin (precomposed and with a
// combining accent), Turkish dotted capital I / dotless i, sharp s, Greek with final sigma, emoji.
var uniNames = []string{"статья", "記事", "artículo", "İstanbul", "ılık", "straße", "λόγος", "e\u0301cole", "😀page", "Ünïcode-ß"}

// unicodeNames: for every such name a chain page -> NAME -> second NAME (in layouts/), NAME placed
// next to the page or in layouts/, spelled plainly or with the .vuego suffix / as explicit path,
// the page in pages/ or in a directory with a non-ASCII name; k values carry the names.
func unicodeNames(s *stage) {
	for n, name := range uniNames {
		second := uniNames[(n+3)%len(uniNames)]
		for _, pageDir := range []string{"pages", "страницы", "ページ"} {
			for place := 0; place < 2; place++ { // 0 next to the page, 1 in layouts/
				for form := 0; form < 2; form++ { // 0 plain, 1 with suffix / explicit path
					dir := pageDir
					if place == 1 {
						dir = "layouts"
					}
					spelled := name
					if form == 1 && place == 0 {
						spelled = name + ".vuego"
					} else if form == 1 {
						spelled = "../layouts/" + name + ".vuego"
					}
					secondSpelled := second
					if place == 0 {
						secondSpelled = second // falls back to layouts/
					}
					c := Case{Page: File{Path: pageDir + "/p.vuego", Layout: spelled, K: "k-страница-値"},
						Files: []File{{Path: dir + "/" + name + ".vuego", Layout: secondSpelled}, {Path: "layouts/" + second + ".vuego", K: kValue("layouts/" + second + ".vuego")}}}
					if place == 0 && s.n%2 == 0 {
						c.Files = append(c.Files, File{Path: "layouts/" + name + ".vuego", Layout: "zz"}) // shadowed by the file next to the page
					}
					if s.n%3 == 0 {
						c.FillK = "k-fill-ü-ß-😀"
					}
					if s.n%2 == 1 {
						c.Via = "renderfile"
					}
					rotateFS(&c, s.n)
					rotateSpell(&c, s.n)
					c.Page.NoBody = ""
					for j := range c.Files {
						c.Files[j].NoBody = ""
					}
					if !s.yield(c) {
						return
					}
				}
			}
		}
	}
}

var emptySpellings = []string{"", "bare", "quoted", "tilde"}

// rotateEmpty writes "no layout" of the page and of the layout files in one of its spellings
// (key absent, `layout:`, `layout: ""`, `layout: ~`) as a function of the running index.
func rotateEmpty(c *Case, i int) {
	if c.Page.Layout == "" {
		c.Page.Empty = emptySpellings[i%4]
	}
	for j := range c.Files {
		if c.Files[j].Layout == "" {
			c.Files[j].Empty = emptySpellings[(i/4+j)%4]
		}
	}
}

// emptyKeys: the page's layout key absent / `layout:` / `layout: ""` / `layout: ~` x
// layouts/base.vuego absent / present ending / present with an empty key itself / present and
// continuing into layouts/a x pages/base.vuego decoy x both entry points; storage rotates.
func emptyKeys(s *stage) {
	for _, pe := range emptySpellings {
		for base := 0; base < 4; base++ {
			for _, be := range emptySpellings[1:] {
				for _, decoy := range []bool{false, true} {
					for _, via := range []string{"", "renderfile"} {
						if base != 2 && be != "bare" {
							continue
						}
						c := Case{Page: File{Path: "pages/p.vuego", Empty: pe, K: kValue("pages/p.vuego")}, Via: via, FillK: kFill}
						switch base {
						case 1:
							c.Files = append(c.Files, File{Path: basePath})
						case 2:
							c.Files = append(c.Files, File{Path: basePath, Empty: be})
						case 3:
							c.Files = append(c.Files, File{Path: basePath, Layout: "a"}, File{Path: "layouts/a.vuego", Empty: pe})
						}
						if decoy {
							c.Files = append(c.Files, File{Path: "pages/base.vuego", Layout: "zz"})
						}
						rotateFS(&c, s.n/2)
						if !s.yield(c) {
							return
						}
					}
				}
			}
		}
	}
}

// rotateFS varies how the file set is stored as a function of the running index: a single
// filesystem (with and without the optional Stat/ReadDir interfaces) or a vuego.OverlayFS with
// the page in the upper layer and the layouts in lower layers, spread over the layers, split by a
// bit pattern, with a nil layer in between, with stale copies shadowed by the upper layer.
func rotateFS(c *Case, i int) {
	j := i / 7
	switch i % 7 {
	case 0, 1:
	case 2:
		c.FS = "openonly"
	case 3: // page above, every layout below
		c.Overlay = &Overlay{Layers: 2, Rest: 1}
	case 4: // three layers, the middle one nil, layouts round-robin, upper copies shadow stale ones
		c.Overlay = &Overlay{Layers: 3, Nil: []int{1}, Spread: true}
		for _, f := range c.Files {
			c.Overlay.Stale = append(c.Overlay.Stale, f.Path)
		}
	case 5, 6: // explicit split of the (few) described files by the bits of j
		o := &Overlay{Layers: 2 + j%2, At: map[string]int{}, Rest: 1}
		for n, f := range c.Files {
			o.At[f.Path] = (j >> (1 + n)) % o.Layers
			if o.At[f.Path] == 0 && (j>>n)&1 == 1 {
				o.Stale = append(o.Stale, f.Path)
			}
		}
		if j%5 == 4 { // insert a nil layer right below the upper one
			o.Layers++
			o.Nil = []int{1}
			o.Rest++
			for k, v := range o.At {
				if v >= 1 {
					o.At[k] = v + 1
				}
			}
		}
		if i%7 == 6 {
			c.FS = "openonly"
		}
		c.Overlay = o
	}
}

// overlaySplits: every graph over {layouts/a, pages/a, layouts/base} (names none / a / base) x
// page {none, a, base} x every assignment of the present layout files to the upper or the lower
// layer of a two-layer overlay (page in the upper layer); nil layer in between, stale copies,
// open-only layers and the entry point rotate with the index.
func overlaySplits(s *stage) {
	names := []string{"", "a", "base"}
	enumGraphs([]string{"layouts/a.vuego", "pages/a.vuego", basePath}, names, names, func(_ int, c Case) bool {
		for m := 0; m < 1<<len(c.Files); m++ {
			i := s.n
			d := c
			d.Files = append([]File(nil), c.Files...)
			o := &Overlay{Layers: 2, At: map[string]int{}}
			for n, f := range d.Files {
				o.At[f.Path] = (m >> n) & 1
				if o.At[f.Path] == 0 && i%3 == 0 {
					o.Stale = append(o.Stale, f.Path)
				}
			}
			if i%4 == 3 { // upper, nil, lower
				o.Layers = 3
				o.Nil = []int{1}
				for k, v := range o.At {
					o.At[k] = v * 2
				}
			}
			d.Overlay = o
			if i%5 == 2 {
				d.FS = "openonly"
			}
			if i%2 == 1 {
				d.Via = "renderfile"
			}
			applyKMask(&d, (i*7+i/3)%(4<<len(d.Files)))
			rotateEmpty(&d, i/2)
			rotateSpell(&d, i)
			rotateFill(&d, i)
			rotatePad(&d, i)
			rotateAfterFailure(&d, i, run.Pick(5, 2))
			rotateEntry(&d, i, 3)
			if !s.yield(d) {
				return false
			}
		}
		return true
	})
}

// longChains: synthetic chains around the maximum, in layouts/ and next to the page, ending,
// closing into a cycle, or running into a missing file; the page naming the head or reaching
// it through the default layout.
func longChains(s *stage) {
	for _, n := range []int{6, 20, 40, 80, 90, 97, 98, 99, 100, 101, 102, 110, 150} {
		for _, dir := range []string{"layouts", "pages"} {
			for _, tail := range []string{"", "c001", "zz"} {
				for _, viaBase := range []bool{false, true} {
					if tail != "" && n != 6 && n != 40 && n != 101 {
						continue
					}
					if viaBase && dir != "layouts" {
						continue
					}
					c := Case{Page: File{Path: "pages/p.vuego", K: kValue("pages/p.vuego")}, Long: &Long{N: n, Dir: dir, Tail: tail}, FillK: kFill}
					if viaBase {
						c.Files = []File{{Path: basePath, Layout: "c001"}}
					} else {
						c.Page.Layout = "c001"
					}
					if s.n%2 == 1 {
						c.Via = "renderfile"
					}
					rotateFS(&c, s.n)
					rotateSpell(&c, s.n)
					rotateAfterFailure(&c, s.n, 3)
					rotateEntry(&c, s.n, 3)
					c.Page.NoBody = "" // keep the long chains fully observable
					for j := range c.Files {
						c.Files[j].NoBody = ""
					}
					if !s.yield(c) {
						return
					}
				}
			}
		}
	}
}

// limitZone: for every chain length around the maximum (93..106 templates), the chain hanging
// below layouts/base.vuego reached through the default rule; check() compares each with its
// explicitly named twin. Chains in layouts/ and next to the page, both entry points.
func limitZone(s *stage) {
	for n := 91; n <= 104; n++ {
		for _, dir := range []string{"layouts", "pages"} {
			for _, via := range []string{"", "renderfile"} {
				head := "c001"
				if dir == "pages" {
					head = "../pages/c001.vuego"
				}
				c := Case{Page: File{Path: "pages/p.vuego", K: kValue("pages/p.vuego")}, Files: []File{{Path: basePath, Layout: head}},
					Long: &Long{N: n, Dir: dir}, Via: via}
				if n%2 == 0 {
					c.FillK = kFill
				}
				rotateFS(&c, s.n/2) // both entry points see the same storage
				if !s.yield(c) {
					return
				}
			}
		}
	}
}

// shapes: chains by construction: every length 0..5 x every placement of the links in layouts/
// or next to the page x every ending (ends, missing, back to each earlier file including itself
// and the page) x named / default-applied first link; decoy files, an idle layouts/base.vuego,
// the k sources and the entry point rotate with the index.
func shapes(s *stage) {
	for L := 0; L <= 5; L++ {
		for dirs := 0; dirs < 1<<L; dirs++ {
			for end := -3; end <= L; end++ {
				for _, viaDefault := range []bool{false, true} {
					if viaDefault && (L == 0 || dirs&1 != 0) {
						continue
					}
					if end >= 0 && L == 0 {
						continue // the page naming itself is emitted below
					}
					i := s.n
					c := shapeCase(L, dirs, (i*5+3)%(1<<L), viaDefault, end, (i/2)%3)
					if !viaDefault && L > 0 && i%3 == 0 {
						c.Files = append(c.Files, File{Path: basePath, Layout: "zz"}) // present but not due
					}
					applyKMask(&c, (i*7+i/5)%(4<<min(len(c.Files), L)))
					if i%2 == 1 {
						c.Via = "renderfile"
					}
					rotateEmpty(&c, i/3)
					rotateSpell(&c, i)
					rotateFill(&c, i/2)
					rotatePad(&c, i)
					rotateAfterFailure(&c, i, run.Pick(5, 2))
					rotateEntry(&c, i, 3)
					if !viaDefault && L > 0 {
						switch i % 6 {
						case 1:
							c.LayoutVia = "fill"
						case 4:
							c.LayoutVia = "assign"
						}
					}
					rotateFS(&c, i)
					if !s.yield(c) {
						return
					}
				}
			}
		}
	}
	for _, via := range []string{"", "renderfile"} {
		if !s.yield(Case{Page: File{Path: "pages/p.vuego", Layout: "p"}, Via: via}) {
			return
		}
	}
}

// allGraphs: every graph over the layout files {layouts/a, layouts/404, pages/a, layouts/base}
// (+ pages/404 in the thorough tier; 404 is a name YAML reads as an integer): each absent or
// present naming none / a / 404 / base / zz (no
// such file) (thorough: also p, the page itself), x every page option none / a / 404 / base / p / zz.
// k sources and entry point rotate.
func allGraphs(s *stage, slots []string) {
	pageNames := []string{"", "a", "404", "base", "p", "zz"}
	names := pageNames
	if !run.Thorough() {
		// quick tier: layout files do not name the page (cycles through the page are covered by
		// the shape stage and by the random stage); the page itself still may
		names = []string{"", "a", "404", "base", "zz"}
	}
	enumGraphs(slots, names, pageNames, func(_ int, c Case) bool {
		i := s.n
		applyKMask(&c, (i*11+i/37)%(4<<len(c.Files)))
		if (i/3)%2 == 1 {
			c.Via = "renderfile"
		}
		rotateFS(&c, i)
		rotateEmpty(&c, i/5)
		rotateSpell(&c, i)
		rotateFill(&c, i/3)
		rotateAfterFailure(&c, i, run.Pick(8, 2))
		rotateEntry(&c, i, 4)
		if run.Thorough() {
			rotatePad(&c, i) // quick: front-matter sizes are covered by the pad, overlay, shape and random stages
		}
		return s.yield(c)
	})
}

// allGraphsK: every graph over {layouts/a, pages/a, layouts/base} with names none / a / base
// x page {none, a, base} x every subset of k sources {page, Fill, each file} x both entry points.
func allGraphsK(s *stage) {
	names := []string{"", "a", "base"}
	enumGraphs([]string{"layouts/a.vuego", "pages/a.vuego", basePath}, names, names, func(_ int, c Case) bool {
		masks := 4 << len(c.Files)
		if walk(c).out != oOK {
			masks = 1 // no document is expected: the k sources cannot matter
		}
		for m := 0; m < masks; m++ {
			for _, via := range []string{"", "renderfile"} {
				d := c
				d.Files = append([]File(nil), c.Files...)
				applyKMask(&d, m)
				d.Via = via
				rotateFill(&d, s.n/2) // both entry points see the same kind
				if !s.yield(d) {
					return false
				}
			}
		}
		return true
	})
}

func TestProp(t *testing.T) {
	rec := ev.New(prop)
	defer run.Finish(t, rec)
	run.Witnesses(rec, prop, replay)
	_ = kf.Load() // no open finding restricts the generators of this property

	shard, shards := run.Shard()

	// Stages run from cheap and targeted to expensive. Once a stage has failed, the violation is
	// established (replay file written by run.Finish) and the later stages are skipped: with a
	// broken termination rule every further cyclic case would cost the full open budget.
	slots := []string{"layouts/a.vuego", "layouts/404.vuego", "pages/a.vuego", basePath}
	if run.Thorough() {
		slots = append(slots, "pages/404.vuego")
	}
	for _, x := range []struct {
		kind, what string
		emit       func(*stage)
	}{
		{"long", "synthetic chains of 6..150 layouts", longChains},
		{"zone", "default-applied vs explicitly named base over chains of 93..106 templates", limitZone},
		{"overlay", "all layout graphs over 3 files x 3 page options x every upper/lower split of the layout files", overlaySplits},
		{"history", "all layout graphs over 3 files x 3 page options x each file removed and restored between renders on one engine", histories},
		{"fill", "chains of 1-2 layouts x every subset of k sources x Fill as map / struct / pointer / typed map / embedding struct / pointer to it x 2 entry points", fillKinds},
		{"pad", "one file of a 3-file chain with a front-matter block of 10..70000 bytes (scalar / list)", padded},
		{"spell", "one file of a 3-file chain in every line-ending x fence-blanks x body/front-matter-only spelling", spellings},
		{"unicode", "non-ASCII layout names x page directory x next to the page / in layouts/ x plain / .vuego-suffixed spelling", unicodeNames},
		{"empty", "page layout key absent/empty in three spellings x base absent/present/continuing", emptyKeys},
		{"shape", "chain shapes: lengths 0..5 x placements x endings x default/named", shapes},
		{"enum", fmt.Sprintf("all layout graphs over %d layout files x 6 page options", len(slots)), func(s *stage) { allGraphs(s, slots) }},
		{"enumk", "all layout graphs over 3 files x 3 page options x all k-source subsets x 2 entry points", allGraphsK},
	} {
		s := &stage{rec: rec, kind: x.kind, shard: shard, shards: shards}
		x.emit(s)
		if s.failed {
			rec.Note("stage %s failed at case %d; later stages skipped", x.kind, s.n-1)
			return
		}
		rec.Exhaustive(fmt.Sprintf("%s (%d cases)", x.what, s.n))
	}

	// content edges: exact comparison where the edges of the previous result survive
	edgesOK := edgeStage(func(i int, c EdgeCase) bool {
		if i%shards != shard {
			return true
		}
		nt, cls := classifyEdges(c)
		return run.Each(rec, "edges", c, nt, cls, checkEdges)
	})
	if !edgesOK {
		rec.Note("stage edges failed; later stages skipped")
		return
	}
	rec.Exhaustive("content edges: 8 page texts x layout kinds pre / raw / text in chains of 1-3 links")
	run.Rapid(t, rec, "edges-random", genEdges, classifyEdges, checkEdges)

	// random graphs over up to 6 files with spellings, collisions and long tails
	run.Rapid(t, rec, "random", genCase, classify, check)
}

func TestReplay(t *testing.T) { run.ReplayMain(t, prop, replay) }
