package c07

import (
	"fmt"
	"testing"
	"time"
)

func TestTiming(t *testing.T) {
	for _, c := range []Case{
		{Page: File{Path: "pages/p.vuego", Layout: "a"}, Files: []File{{Path: "layouts/a.vuego", Layout: "a"}}},
		{Page: File{Path: "pages/p.vuego", Layout: "a"}, Files: []File{{Path: "layouts/a.vuego", Layout: "b"}, {Path: "layouts/b.vuego"}}},
		{Page: File{Path: "pages/p.vuego", Layout: "c001"}, Long: &Long{N: 99, Dir: "layouts"}},
	} {
		st := time.Now()
		err := check(c)
		fmt.Println(time.Since(st), err)
		st = time.Now()
		classify(c)
		fmt.Println("classify", time.Since(st))
	}
}
