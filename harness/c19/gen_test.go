package c19

// Generated family: random DOM trees over block / inline / void / table / raw-text elements,
// serialised to template source by an always-escaping serialiser (so the source means exactly
// the tree that was drawn). All randomness comes from rapid; the resulting Case is plain data.

import (
	"regexp"
	"strings"
	"unicode"

	"golang.org/x/net/html"

	"pgregory.net/rapid"

	"verif/internal/ev"
	"verif/internal/kf"
)

type genEnv struct {
	k   *kf.File
	rec *ev.Rec
}

// avoid reports whether the region of finding id has to be avoided (the finding is open) and
// counts the avoided draw.
func (g *genEnv) avoid(id string) bool {
	if g.k != nil && g.k.Open(id) {
		if g.rec != nil {
			g.rec.Excluded(id)
		}
		return true
	}
	return false
}

// --- model ------------------------------------------------------------------------------------

type attr struct {
	name  string
	val   string
	bare  bool // written without a value
	quote byte // '"', '\'' or 0 (unquoted, only when the value allows it)
	raw   bool // author style: < > and harmless & are written raw inside the quotes
	sep   string
}

type node struct {
	text    string // text node: source text (already escaped by the piece generator)
	comment string
	tag     string
	attrs   []attr
	kids    []*node
	void    bool
	slash   string // "/", " /" or "" written before > of a void element
	omitEnd bool
	rawBody string // script/style/noscript/pre/textarea/title: source of the content
	inline  bool   // children are phrasing content: no layout whitespace may be added
	isText  bool
}

// --- serialiser -------------------------------------------------------------------------------

func escAttr(v string, quote byte, raw bool) string {
	var sb strings.Builder
	for i := 0; i < len(v); i++ {
		ch := v[i]
		switch {
		case ch == '&':
			next := byte(' ')
			if i+1 < len(v) {
				next = v[i+1]
			}
			harmless := next == ' ' || next == '&' || next == '=' || next == '\n' || next == '"' || next == '\'' || next == ')' || next == '|'
			if raw && harmless {
				sb.WriteByte('&')
			} else {
				sb.WriteString("&amp;")
			}
		case ch == '<' && !raw:
			sb.WriteString("&lt;")
		case ch == '>' && !raw:
			sb.WriteString("&gt;")
		case ch == '"' && quote == '"':
			sb.WriteString("&quot;")
		case ch == '\'' && quote == '\'':
			sb.WriteString("&#39;")
		default:
			sb.WriteByte(ch)
		}
	}
	return sb.String()
}

func unquotable(v string) bool {
	if v == "" {
		return false
	}
	return !strings.ContainsAny(v, " \t\n\r\f\"'=<>`&/")
}

func (n *node) openTag() string {
	var sb strings.Builder
	sb.WriteString("<" + n.tag)
	for _, a := range n.attrs {
		sep := a.sep
		if sep == "" {
			sep = " "
		}
		sb.WriteString(sep + a.name)
		if a.bare {
			continue
		}
		q := a.quote
		if q == 0 && !unquotable(a.val) {
			q = '"'
		}
		if q == 0 {
			sb.WriteString("=" + a.val)
			continue
		}
		sb.WriteString("=" + string(q) + escAttr(a.val, q, a.raw) + string(q))
	}
	if n.void {
		sb.WriteString(n.slash)
	}
	sb.WriteString(">")
	return sb.String()
}

// write serialises the tree. pretty adds newline + indentation between the children of
// elements with block content (never inside phrasing content, pre, textarea, raw text).
func write(sb *strings.Builder, n *node, pretty bool, depth int) {
	switch {
	case n.isText:
		sb.WriteString(n.text)
		return
	case n.tag == "":
		sb.WriteString("<!--" + n.comment + "-->")
		return
	}
	sb.WriteString(n.openTag())
	if n.void {
		return
	}
	if n.rawBody != "" || rawTags[n.tag] {
		sb.WriteString(n.rawBody)
	} else {
		lay := pretty && !n.inline && len(n.kids) > 0
		for _, k := range n.kids {
			if lay {
				sb.WriteString("\n" + strings.Repeat("  ", depth+1))
			}
			write(sb, k, pretty, depth+1)
		}
		if lay {
			sb.WriteString("\n" + strings.Repeat("  ", depth))
		}
	}
	if !n.omitEnd {
		sb.WriteString("</" + n.tag + ">")
	}
}

func serialise(roots []*node, pretty bool) string {
	var sb strings.Builder
	for i, r := range roots {
		if pretty && i > 0 {
			sb.WriteString("\n")
		}
		write(&sb, r, pretty, 0)
	}
	if pretty {
		sb.WriteString("\n")
	}
	return sb.String()
}

// --- draws ------------------------------------------------------------------------------------

type gen struct {
	*genEnv
	t        *rapid.T
	doctype  bool // a doctype precedes the body
	attrCase int  // spelling of attribute names: 0 as drawn, 1 upper case, 2 mixed case
	bytes    bool // this case may contain bytes that are not valid UTF-8
	long     int  // this case contains a very long line of that many characters
}

// badBytes: text that is not valid UTF-8 (Latin-1 letters, a lead byte without continuation, 0xFF,
// an overlong sequence, an encoded surrogate, a truncated 4-byte sequence), stored byte-encoded.
var badBytes = func() []string {
	raw := []string{"caf\xe9", "\xc3", "\xff", "\xc0\xaf", "\xed\xa0\x80", "\xf0\x9f", "na\xefve \xe9t\xe9", "\xe9", "x\x80y", "Gr\xfc\xdfe"}
	for i := range raw {
		raw[i] = encodeBytes(raw[i])
	}
	return raw
}()

// maybeBytes replaces a drawn piece by invalid-UTF-8 text in cases that carry such bytes.
func (g *gen) maybeBytes(s string) string {
	if g.bytes && g.chance("bad", 3) {
		return g.pick("badb", badBytes)
	}
	return s
}

func (g *gen) pick(label string, xs []string) string { return rapid.SampledFrom(xs).Draw(g.t, label) }
func (g *gen) n(label string, lo, hi int) int        { return rapid.IntRange(lo, hi).Draw(g.t, label) }
func (g *gen) chance(label string, outOf int) bool {
	return rapid.IntRange(0, outOf-1).Draw(g.t, label) == outOf-1
}

var words = []string{"x", "hello", "world", "42", "a.b", "é", "naïve", "日本", "😀", "–", "ok;", "#1", "50%", "a/b", "(c)", "[d]", "=", "--", "e=mc2"}

var mustachesSafe = []string{
	"{{ name }}", "{{ a < b }}", "{{ a > b }}", "{{ a <= b && c >= d }}", "{{ x && y || !z }}",
	"{{ user.name | upper }}", "{{ items | json }}", `{{ a < b ? "lt" : 'ge' }}`, `{{ "it's" }}`,
	`{{ 'say "hi"' }}`, "{{ n<1 }}", "{{ a>b }}", "{{a&&b}}", "{{ s & 1 }}", "{{  spaced   out  }}",
	"{{\n  multi\n  line\n}}", "{{ x }}{{ y }}", "{{ a < b }} and {{ c > d }}", "{{ i<=9&&j>=0 }}", "{{ a&b }}",
}

// need escaping in the source because, written raw, the HTML5 parser reads a tag or a
// character reference; region of finding fMustache
var mustachesRisky = []string{"{{ a<b }}", "{{ '<b>' + x }}", `{{ "</p>" }}`, "{{ p&lt }}", "{{ x ? '<i>' : '&amp;' }}"}

var wideBits = []string{"ü", "Grüße", "–", "©", "日本", "😀", "é", "naïve 😀", "→", "ß", "€", "𝒳"}

// mustacheBody composes an expression from plain tokens, multi-byte text (2-, 3- and 4-byte
// runes) and hazards (text that must stay escaped: "<" + letter, "</", "<!", "<?",
// character-reference-like text, quotes) in random order, so that non-ASCII text often
// precedes a hazard and the byte offset of the hazard differs from its rune offset.
func (g *gen) mustacheBody() string {
	var sb strings.Builder
	sb.WriteString("{{ ")
	k := g.n("mbk", 2, 5)
	for i := 0; i < k; i++ {
		if i > 0 {
			sb.WriteString(g.pick("mbsep", []string{" ", "", " + ", `" + "`, " "}))
		}
		switch g.n("mbp", 0, 5) {
		case 0, 1:
			sb.WriteString(g.maybeBytes(g.pick("mbwide", wideBits)))
		case 2:
			sb.WriteString(g.pick("mbhaz", []string{"<b>", "</p>", "<br>", "<!-- x -->", "<?x", "a<b", "&amp;", "&lt;", "<i class='x'>", `"<em>"`}))
		case 3:
			sb.WriteString(g.entityLike())
		default:
			sb.WriteString(g.pick("mbplain", []string{"x", "a < b", "n", `"q"`, "'s'", "&&", "|", "user.name", `"`, "'"}))
		}
	}
	sb.WriteString(" }}")
	return sb.String()
}

func rawSafeText(s string) bool { return !riskyText(s) }

// escText escapes text for the source; mustaches that are safe may be written raw.
func escText(s string, raw bool) string {
	if raw && rawSafeText(s) {
		return s
	}
	s = strings.ReplaceAll(s, "&", "&amp;")
	s = strings.ReplaceAll(s, "<", "&lt;")
	s = strings.ReplaceAll(s, ">", "&gt;")
	return s
}

// textSource draws the source of one text run (phrasing context).
func (g *gen) textSource(allowWS bool) string {
	var sb strings.Builder
	k := g.n("pieces", 1, 4)
	for i := 0; i < k; i++ {
		if i > 0 {
			sb.WriteString(g.pick("sp", []string{" ", " ", "", "  ", "\n", "\n      ", "\t"}))
		}
		switch g.n("piece", 0, 11) {
		case 0, 1, 2, 3:
			sb.WriteString(g.maybeBytes(g.pick("w", words)))
		case 4, 5, 6:
			m := g.pick("m", mustachesSafe)
			sb.WriteString(escText(m, g.n("mraw", 0, 3) > 0))
		case 7:
			m := g.pick("mr", mustachesRisky)
			if g.chance("mrbody", 2) {
				m = g.mustacheBody()
			} else if g.chance("mrent", 2) {
				e := g.entityLike()
				m = g.pick("mrshape", []string{`{{ html("%s") }}`, "{{ a %s b }}", "{{ '%s' + x }}", "{{ x | default(\"%s%s\") }}"})
				m = strings.ReplaceAll(m, "%s", e)
			}
			if riskyText(m) && g.avoid(fMustache) {
				m = "{{ a < b }}"
			}
			sb.WriteString(escText(m, false))
		case 8:
			sb.WriteString(g.pick("esc", []string{"&lt;", "&gt;", "&amp;", "&quot;", `"`, "'", "&#39;", "a &lt; b &amp;&amp; c &gt; d", "&lt;b&gt;", "&#60;", "&#x26;"}))
		case 9:
			// literal ampersand sequences: the text shows "&amp;", "&lt;" ...
			if g.chance("litgen", 2) {
				sb.WriteString(escText(g.entityLike(), false))
				break
			}
			sb.WriteString(g.pick("lit", []string{"&amp;amp;", "&amp;lt;", "&amp;#60;", "&amp;copy", "&amp;nbsp;", "AT&amp;T", "a &amp;b"}))
		case 10:
			e := g.pick("ent", []string{"&copy;", "&nbsp;", "&mdash;", "&hellip;", "&eacute;", "&nbsp;|&nbsp;", "\u00a0", "&emsp;", "\u3000"})
			if hasWideSpace(html.UnescapeString(e)) && g.avoid(fNbsp) {
				e = "&middot;"
			}
			sb.WriteString(e)
		case 11:
			sb.WriteString(g.pick("lone", []string{"}}", "{ x }", "} }", "}"}))
		}
	}
	s := sb.String()
	if allowWS {
		s = g.pick("lead", []string{"", "", " ", "\n  "}) + s + g.pick("trail", []string{"", "", " ", "\n"})
	}
	return s
}

// unbalancedSource draws the source of a text run with UNBALANCED mustache braces: an opening
// {{ that is never closed (or a lone }}, "{ {", "{{{"), with escaped specials before and after
// it. Such braces are plain text, so everything around them must stay escaped. After the
// opener the run contains no "}}"; callers make sure that the run is a text node of its own
// (its neighbours are elements), so no later text can close it by accident.
func (g *gen) unbalancedSource() string {
	specials := []string{"&lt;b&gt; bold &lt;/b&gt;", "&amp;", "&amp;amp;", "1 &lt; 2", "&gt;", "&lt;", "a &amp;&amp; b", "&amp;lt;", "x &lt;i&gt;", "&lt;!-- c --&gt;", "word", "AT&amp;T"}
	var sb strings.Builder
	if g.chance("ubpre", 2) {
		sb.WriteString(g.pick("ubp", specials) + g.pick("ubs", []string{" ", "", "\n  "}))
	}
	if g.chance("ubbal", 4) {
		sb.WriteString(escText(g.pick("ubm", []string{"{{ name }}", "{{ a < b }}", "{{ x && y }}"}), true) + " ")
	}
	if g.chance("ubclose", 4) {
		sb.WriteString("}} " + g.pick("ubp2", specials) + " ")
	}
	sb.WriteString(g.pick("ubopen", []string{"{{", "{{ x", "Type {{ to open", "{{{", "{{ a &lt; b", "{{ {{", "{{ x }", "{{ &amp;", "{ {", "}}", "{{x"}))
	k := g.n("ubk", 1, 3)
	for i := 0; i < k; i++ {
		sb.WriteString(g.pick("ubs2", []string{" ", " ", "", "\n"}) + g.pick("ubq", specials))
	}
	if g.chance("ubtail", 3) {
		sb.WriteString(g.pick("ubt", []string{" }", " {", " {{", "."}))
	}
	return sb.String()
}

// unbalancedBlock places an unbalanced run where the formatter has a separate text path: as the
// only child (inline rendering), between block children (block-mode text), between inline
// children (inline rendering with siblings), inside <pre> (with and without element children).
func (g *gen) unbalancedBlock() *node {
	txt := &node{isText: true, text: g.unbalancedSource()}
	el := func(tag string) *node { return &node{tag: tag, inline: true, kids: []*node{{isText: true, text: "x"}}} }
	switch g.n("ubwhere", 0, 5) {
	case 0:
		return &node{tag: g.pick("ubtag", []string{"p", "div", "h2", "span", "li", "blockquote"}), inline: true, kids: []*node{txt}}
	case 1:
		return &node{tag: "div", kids: []*node{el("p"), txt, el("p")}}
	case 2:
		return &node{tag: "section", inline: true, kids: []*node{txt, el("div")}}
	case 3:
		return &node{tag: "p", inline: true, kids: []*node{el("b"), txt, el("i")}}
	case 4:
		return &node{tag: "pre", rawBody: g.pick("ubprelead", []string{"", "  ", "<code>x</code>"}) + txt.text + g.pick("ubpretail", []string{"", "\n", "<b>y</b>"})}
	default:
		return &node{tag: "div", inline: true, kids: []*node{el("span"), txt, &node{tag: "br", void: true}, {isText: true, text: "after }}"}}}
	}
}

func (g *gen) text(allowWS bool) *node { return &node{isText: true, text: g.textSource(allowWS)} }

func (g *gen) comment() *node {
	return &node{comment: g.maybeBytes(g.pick("c", []string{" note ", "TODO: x < y", " a\n   b ", "", " {{ not a mustache }} ", " <b>markup</b> "}))}
}

// --- attributes -------------------------------------------------------------------------------

var exprs = []string{
	"ok", "a < b && c", "x > 1", "items.length >= 2 || !done", "a == 'x'", `name != "y"`, "!hidden",
	"a<b", "n>=10&&n<=20", "user && user.roles", `role == "admin" && age > 18`, "a & b", "(a || b) && c < 3",
}

var bindVals = map[string][]string{
	":class":    {"{a: x > 1}", "{'is-on': on, \"b\": !off}", "[a, b]", "x ? 'a' : 'b'", `{ "active": i == cur, 'big': n > 10 }`, "cls"},
	":style":    {"{color: c}", "{ 'font-size': size + 'px', width: w > 0 ? w : 1 }", `"color: " + c`},
	":href":     {"'/p/' + id", "url", `"/u?id=" + id + "&tab=" + tab`, "'/s?q=' + q + '&lt=' + n"},
	":title":    {`"say " + n`, "t", `'it' + "'s"`, "a < b ? 'lt' : 'ge'"},
	":key":      {"item.id", "i"},
	":disabled": {"!ok", "n < 1"},
}

var events = map[string][]string{
	"@click":          {"go('x')", "count++", "n = n < 9 ? n + 1 : 0", `say("hi")`, "open = !open", "a && b()"},
	"@submit.prevent": {"save", "save($event)"},
	"@input":          {"v = $event.target.value"},
}

var freeBits = []string{
	"x", "hello world", "a  b", " lead", "trail ", "a\nb", "a\n    b", "a\tb", `"`, `say "hi"`, "'", "it's", `"'`,
	"&", "&&", "a & b", "AT&T", "&amp;", "&lt;", "&quot;", "&#39;", "&copy", "&copy;", "&lt", "&amp", "&notit;", "&#x3c;", "a&b=c", "?a=1&b=2", "?a=1&copy=2&lt=3",
	"<", ">", "<=", "=>", "a < b", "a<b", "<b>", "</p>", "{{ x }}", "{{ a < b }}", `{{ "q" }}`, "{a: 1}", `{"a": 1, "b": "x"}`,
	"é", "日本", "ü", "Grüße", "–", "©", "😀", "€", "100%", "a;b", "=", "`", "\\", "\r\n", "\u00a0", "a\u00a0b", "\u2003x",
}

// entityLike draws literal text that looks like a character reference: named (letters only, with
// digits in the name, upper case, legacy names that work without semicolon, prefixes of longer
// names, unknown names), decimal and hexadecimal (valid, zero, remapped, out of range, empty),
// with and without the semicolon and followed by the characters that change how an attribute
// reads it (=, letter, digit). In the source its ampersand is escaped (&amp;frac12;), so the
// template MEANS the literal text.
func (g *gen) entityLike() string {
	name := g.pick("entname", []string{
		"amp", "lt", "gt", "quot", "copy", "nbsp", "not", "notit", "frac12", "frac14", "frac34", "sup1", "sup2", "sup3",
		"there4", "blk14", "blk12", "blk34", "emsp13", "emsp14", "Aacute", "AMP", "LT", "ETH", "bogus", "b0gus", "x1",
		"#60", "#x3c", "#X3C", "#38", "#0", "#128", "#x110000", "#", "#x", "#X", "#xZ", "#1a", "#189",
	})
	e := "&" + name + g.pick("entterm", []string{";", "", ";", "=", "x", "1", " ", ";;"})
	if hasEmptyHexRef(e) && g.avoid(fHexEmpty) {
		e = "&#x"
	}
	return e
}

func (g *gen) freeValue() string {
	k := g.n("bits", 1, 3)
	var sb strings.Builder
	for i := 0; i < k; i++ {
		if i > 0 {
			sb.WriteString(g.pick("bsp", []string{" ", "", "  ", "\n"}))
		}
		if g.chance("entbit", 4) {
			sb.WriteString(g.entityLike())
			continue
		}
		sb.WriteString(g.maybeBytes(g.pick("bit", freeBits)))
	}
	return sb.String()
}

// sanitise moves a drawn value out of the regions of the open findings (construction, not
// rejection): the value stays as hostile as the open findings allow.
func (g *gen) sanitise(v string) string {
	if strings.Contains(v, `"`) && g.avoid(fQuote) {
		v = strings.ReplaceAll(v, `"`, "'")
	}
	if reparseAttr(v) != v && g.avoid(fAmp) {
		// break every character reference the value would read back as: "& " never starts one
		v = strings.ReplaceAll(v, "&", "& ")
		if reparseAttr(v) != v {
			v = strings.ReplaceAll(v, "&", "and")
		}
	}
	if hasWideSpace(v) && g.avoid(fNbsp) {
		v = strings.Map(func(r rune) rune {
			if r > 0x7f && unicode.IsSpace(r) {
				return '_'
			}
			return r
		}, v)
	}
	if isBlank(v) && g.avoid(fBlank) {
		v = ""
	}
	return v
}

func (g *gen) attrs(tag string, extra ...attr) []attr {
	var out []attr
	seen := map[string]bool{}
	push := func(a attr) {
		key := strings.ToLower(a.name)
		if seen[key] {
			return
		}
		seen[key] = true
		a.val = g.sanitise(a.val)
		a.quote = []byte{'"', '"', '"', '\'', 0}[g.n("q", 0, 4)]
		a.raw = g.chance("araw", 2)
		a.sep = g.pick("asep", []string{" ", " ", " ", "  ", "\n    ", "\n", "\t", "\n\t\t"})
		switch g.attrCase {
		case 1:
			a.name = strings.ToUpper(a.name)
		case 2:
			a.name = titleCase(a.name)
		}
		out = append(out, a)
	}
	for _, a := range extra {
		push(a)
	}
	k := g.n("nattr", 0, 3)
	for i := 0; i < k; i++ {
		switch g.n("akind", 0, 15) {
		case 0:
			push(attr{name: "class", val: g.pick("cls", []string{"a", "a b", "btn  btn-primary", "\n    a\n    b\n  ", " x ", "{{ cls }}", "a {{ b }} c"})})
		case 1:
			push(attr{name: g.pick("free", []string{"title", "alt", "placeholder", "aria-label", "data-x", "data-json", "value", "content"}), val: g.freeValue()})
		case 2:
			push(attr{name: g.pick("cond", []string{"v-if", "v-show", "v-else-if"}), val: g.pick("expr", exprs)})
		case 3:
			push(attr{name: "v-for", val: g.pick("for", []string{"item in items", "(i, v) in list", "(k, v) in obj", "n in nums"})})
		case 4:
			name := g.pick("bind", []string{":class", ":style", ":href", ":title", ":key", ":disabled"})
			push(attr{name: name, val: g.pick("bv", bindVals[name])})
		case 5:
			name := g.pick("ev", []string{"@click", "@submit.prevent", "@input"})
			push(attr{name: name, val: g.pick("evv", events[name])})
		case 6:
			if g.chance("slotbare", 2) {
				push(attr{name: g.pick("slot", []string{"#slot", "#header", "#default", "v-slot:footer"}), bare: true})
			} else {
				push(attr{name: g.pick("slotv", []string{"#default", "#item", "v-slot:row"}), val: g.pick("slotp", []string{"props", "{ item }", "{ item, index }"})})
			}
		case 7:
			push(attr{name: g.pick("brk", []string{"[attr]", "[title]", "[data-id]"}), val: g.pick("brv", []string{"v", "a < b", `"x" + y`, "t && u"})})
		case 8:
			push(attr{name: g.pick("bare", []string{"v-else", "v-once", "v-pre", "disabled", "hidden", "required"}), bare: true})
		case 9:
			push(attr{name: g.pick("vb", []string{"v-html", "v-text", "v-model", "v-bind:foo", "v-bind:data-id.sync"}), val: g.pick("vbv", []string{"raw", "a < b ? x : y", "user.name", `"<b>" + s + "</b>"`, "'&amp;'"})})
		case 10:
			push(attr{name: "id", val: g.pick("id", []string{"main", "a-1", "{{ id }}"})})
		case 11:
			push(attr{name: "style", val: g.pick("sty", []string{"color: red;", "color: red;  margin: 0", "background: url('a.png')", `font-family: "Open Sans", serif`, "width: {{ w }}px"})})
		case 12:
			push(attr{name: "href", val: g.pick("href", []string{"#", "/a/b", "/s?q=1&p=2", "/s?a=1&amp=2&lt=3", "https://x.test/?a=b&c=d#e", "mailto:a@b.c", "{{ url }}", "/p/{{ id }}?x=1&y=2"})})
		case 15:
			// the same name several times on one element (docs/components.md: repeated :require)
			name := g.pick("dupname", []string{":require", ":required", ":require", "v-bind:x", "class", "data-x", "@click", "title"})
			vals := []string{"type", "text", "a < b", "b", `say "hi"`, "", "x && y", "title"}
			reps := g.n("dupn", 2, 3)
			for j := 0; j < reps; j++ {
				delete(seen, strings.ToLower(name))
				push(attr{name: name, val: g.pick("dupval", vals)})
			}
		case 14:
			e := g.entityLike()
			shape := g.pick("entshape", []string{"%s", "'%s'", "type %s for a half", "a%sb", "%s%s", "x ? '%s' : y", "?a=1%s2", "Grüße %s", "😀%s", "日本 – %s ©", "\"ü\" + \"%s\""})
			push(attr{name: g.pick("entattr", []string{"title", ":title", "v-html", "data-ent", "alt", "@click", "href"}), val: strings.ReplaceAll(shape, "%s", e)})
		case 13:
			push(attr{name: g.pick("empty", []string{"value", "alt", "data-empty", "class"}), val: g.pick("emptyv", []string{"", "", " ", "  ", "\n"})})
		}
	}
	return out
}

// --- elements ---------------------------------------------------------------------------------

type forbid struct{ a, button, label, form bool }

var inlineNames = []string{"span", "b", "i", "em", "strong", "code", "small", "a", "button", "label", "abbr", "kbd"}

// phrasing draws inline content: text runs, inline elements, void elements, comments.
func (g *gen) phrasing(depth int, fb forbid) []*node {
	k := g.n("ph", 1, 4)
	var out []*node
	for i := 0; i < k; i++ {
		switch g.n("phk", 0, 9) {
		case 0, 1, 2, 3:
			out = append(out, g.text(true))
		case 4, 5, 6:
			if depth <= 0 {
				out = append(out, g.text(true))
				continue
			}
			tag := g.pick("itag", inlineNames)
			nf := fb
			switch tag {
			case "a":
				if fb.a {
					tag = "span"
				}
				nf.a = true
			case "button":
				if fb.button {
					tag = "b"
				}
				nf.button = true
			case "label":
				if fb.label {
					tag = "i"
				}
				nf.label = true
			}
			el := &node{tag: tag, inline: true, attrs: g.attrs(tag)}
			if !g.chance("iempty", 8) {
				el.kids = g.phrasing(depth-1, nf)
			}
			out = append(out, el)
		case 7:
			switch g.n("void", 0, 2) {
			case 0:
				out = append(out, &node{tag: "br", void: true, slash: g.pick("sl", []string{"", "", "/", " /"})})
			case 1:
				out = append(out, &node{tag: "img", void: true, attrs: g.attrs("img", attr{name: "src", val: g.pick("src", []string{"a.png", "/i?w=1&h=2", "{{ src }}"})}), slash: g.pick("sl", []string{"", "/", " /"})})
			case 2:
				out = append(out, &node{tag: "input", void: true, attrs: g.attrs("input", attr{name: "type", val: "text"}), slash: g.pick("sl", []string{"", "", " /"})})
			}
		case 8:
			out = append(out, g.comment())
		case 9:
			if fb.label { // textarea is interactive content too; keep it out of label/button/a nests
				out = append(out, g.text(true))
				continue
			}
			out = append(out, g.textarea())
		}
	}
	return out
}

var preBits = []string{"x", "  indented", "a   b", "\n", "\n\n", "\t", "tab\tsep", "  ", "line1\nline2", "{{ code }}", "{{ a < b }}", "&lt;tag&gt;", "a &amp;&amp; b", "if (a &lt; b) {\n    return;\n}", "trailing  ", "é", "&quot;q&quot;", "&amp;frac12;", "&amp;sup2 x", "&amp;#189;"}

func (g *gen) preformatted() *node {
	n := &node{tag: "pre", attrs: g.attrs("pre")}
	var sb strings.Builder
	k := g.n("prek", 0, 4)
	for i := 0; i < k; i++ {
		if g.chance("preel", 5) {
			tag := g.pick("pretag", []string{"code", "b", "span"})
			sb.WriteString("<" + tag + ">" + g.pick("prein", preBits) + "</" + tag + ">")
			continue
		}
		sb.WriteString(g.maybeBytes(g.pick("pre", preBits)))
	}
	content := sb.String()
	if strings.HasPrefix(content, "\n") {
		if g.avoid(fPreNL) {
			content = strings.TrimLeft(content, "\n")
		} else {
			content = "\n" + content // the parser drops the first newline after <pre>
		}
	} else if g.chance("prenl", 3) {
		content = "\n" + content // cosmetic newline after the tag, not part of the content
	}
	n.rawBody = content
	if content == "" {
		n.rawBody = ""
	}
	return n
}

var taBits = []string{"x", "hello world", "  two  spaces  ", "line1\nline2", "\n", "\tindent", " ", "{{ v }}", "{{ a < b }}", "&lt;b&gt;", "a &amp; b", "&lt;/textarea&gt;", "trail \n", "&amp;frac34;", "&amp;there4"}

func (g *gen) textarea() *node {
	n := &node{tag: "textarea", attrs: g.attrs("textarea")}
	var sb strings.Builder
	k := g.n("tak", 0, 3)
	for i := 0; i < k; i++ {
		sb.WriteString(g.pick("ta", taBits))
	}
	content := sb.String()
	// content is source text; its parsed value differs only by entity decoding, which does not
	// touch whitespace
	if content != collapse(content) && g.avoid(fTextarea) {
		content = collapse(content)
	}
	if strings.HasPrefix(content, "\n") {
		content = "\n" + content
	}
	n.rawBody = content
	return n
}

var scripts = []string{
	"", "x()", "\nconsole.log('hi');\n", "if (a < b && c > d) {\n    x();\n}", "var s = \"a  b\";\nvar t = '</' + 'p>';",
	"\n  const t = `line1\n    line2`;\n  f(t);\n", "/* {{ not }} */ var v = {{ data | json }};", "a &amp;&amp; b", "\n\n\nlate();\n\n\n", "   \n  ", "let html = '<b>' + x + '</b>';",
	"for (let i = 0; i < n; i++) {\n\tdo(i)\n}",
}
var styles = []string{
	"", ".a{color:red}", "\n.a > .b { color: red; }\n\n.c::before { content: \"\\201C\"; }\n", "  body { margin: 0 }  ", "@media (min-width: 10px) {\n  .x { y: z }\n}\n", "a[href^=\"http\"] { b: c }", ".w { width: {{ w }}px; }",
}

func (g *gen) script() *node {
	n := &node{tag: "script", rawBody: g.pick("js", scripts)}
	if g.chance("src", 4) {
		n.attrs = g.attrs("script", attr{name: "src", val: "/app.js?v=1&m=2"})
		n.rawBody = ""
	} else if g.chance("stype", 3) {
		n.attrs = []attr{{name: "type", val: g.pick("stypev", []string{"module", "text/x-template", "application/json"}), quote: '"', sep: " "}}
	}
	return n
}

func (g *gen) style() *node {
	return &node{tag: "style", rawBody: g.pick("css", styles)}
}

func (g *gen) noscript() *node {
	body := g.pick("ns", []string{"Please enable JavaScript", `<img src="/px.gif?a=1&amp;b=2" alt="">`, `<iframe src="//t.test/ns.html" height="0"></iframe>`, "a &amp; b", "<p>no js</p>",
		"Scripts are off: the &lt;b&gt; menu &amp;amp; search will not work.", "use &amp;lt;noscript&amp;gt;", "&lt;p&gt;escaped&lt;/p&gt; <p>real</p>", "a &amp;amp; b &amp;frac12;", "&lt;!-- c --&gt; <b>x</b> &lt;/b&gt;",
		"\n  <p>Enable  JS</p>\n  &lt;script&gt;\n"})
	if strings.ContainsAny(body, "<>&") && g.avoid(fRawText) {
		body = "Please enable JavaScript"
	}
	return &node{tag: "noscript", rawBody: body}
}

var nsAttrPool = [][2]string{
	{"xlink:href", "#a"}, {"xlink:title", "t &amp; u"}, {"xlink:type", "simple"}, {"xlink:show", "new"}, {"xlink:actuate", "onLoad"}, {"xlink:role", "r"}, {"xlink:arcrole", "ar"},
	{"xml:lang", "en"}, {"xml:space", "preserve"}, {"xml:base", "/b/"}, {"xmlns:xlink", "http://www.w3.org/1999/xlink"},
}

// nsAttrs draws attributes whose prefix the HTML5 parser splits off on svg / math elements
// (xlink:*, xml:*, xmlns:xlink), alone or next to an un-prefixed attribute with the same local
// name and another value (xml:lang="en" lang="de").
func (g *gen) nsAttrs() []attr {
	if g.avoid(fNsAttr) {
		return nil
	}
	var out []attr
	k := g.n("nsk", 0, 3)
	seen := map[string]bool{}
	for i := 0; i < k; i++ {
		p := nsAttrPool[g.n("nsa", 0, len(nsAttrPool)-1)]
		if seen[p[0]] {
			continue
		}
		seen[p[0]] = true
		local := attr{name: p[0][strings.Index(p[0], ":")+1:], val: "local-" + p[1], quote: '"', sep: " "}
		ns := attr{name: p[0], val: strings.ReplaceAll(p[1], "&amp;", "&"), quote: '"', sep: " "}
		switch g.n("nsl", 0, 3) {
		case 0:
			if !seen[local.name] {
				out = append(out, local, ns)
			}
		case 1:
			if !seen[local.name] {
				out = append(out, ns, local)
			}
		default:
			out = append(out, ns)
		}
		seen[local.name] = true
	}
	return out
}

// math draws a small MathML island (foreign content like svg).
func (g *gen) math() *node {
	root := &node{tag: "math", attrs: append(g.attrs("math"), g.nsAttrs()...)}
	root.kids = append(root.kids, &node{tag: "mi", inline: true, kids: []*node{{isText: true, text: "x"}}})
	root.kids = append(root.kids, &node{tag: "mo", inline: true, kids: []*node{{isText: true, text: g.pick("mo", []string{"&lt;", "&gt;", "&amp;", "=", "&amp;lt;"})}}})
	root.kids = append(root.kids, &node{tag: "mtext", inline: true, kids: []*node{g.text(false)}})
	if g.chance("mstyle", 3) {
		body := g.pick("mstylev", []string{"a &amp; b", "a &amp;lt; b"})
		if riskyText(html.UnescapeString(body)) && g.avoid(fForeign) {
			body = "a &amp; b"
		}
		root.kids = append(root.kids, &node{tag: "style", rawBody: body})
	}
	return root
}

func (g *gen) svg() *node {
	if g.chance("math", 6) {
		return g.math()
	}
	ns := !g.avoid(fNsAttr)
	root := &node{tag: "svg", attrs: g.attrs("svg", attr{name: "viewBox", val: "0 0 24 24"}, attr{name: "xmlns", val: "http://www.w3.org/2000/svg"})}
	if ns && g.chance("xmlnsx", 2) {
		root.attrs = append(root.attrs, attr{name: "xmlns:xlink", val: "http://www.w3.org/1999/xlink", quote: '"', sep: " "})
	}
	root.attrs = append(root.attrs, g.nsAttrs()...)
	k := g.n("svgk", 1, 3)
	for i := 0; i < k; i++ {
		switch g.n("svgc", 0, 6) {
		case 0:
			root.kids = append(root.kids, &node{tag: "path", void: true, slash: "/", attrs: []attr{{name: "d", val: "M0 0L1 1\n  L2 2z", quote: '"', sep: " "}, {name: "fill-rule", val: "evenodd", quote: '"', sep: " "}}})
		case 1:
			root.kids = append(root.kids, &node{tag: "circle", attrs: []attr{{name: "cx", val: "1", sep: " "}, {name: ":r", val: "r > 1 ? r : 1", quote: '"', raw: true, sep: " "}}})
		case 2:
			href := "href"
			if ns && g.chance("xlink", 2) {
				href = "xlink:href"
			}
			root.kids = append(root.kids, &node{tag: "use", void: true, slash: " /", attrs: append([]attr{{name: href, val: "#icon-{{ name }}", quote: '"', sep: " "}}, g.nsAttrs()...)})
		case 3:
			root.kids = append(root.kids, &node{tag: "g", attrs: []attr{{name: "clip-path", val: "url(#c)", quote: '"', sep: " "}}, kids: []*node{
				{tag: "clipPath", attrs: []attr{{name: "id", val: "c", sep: " "}}, kids: []*node{{tag: "rect", void: true, slash: "/", attrs: []attr{{name: "width", val: "1", sep: " "}}}}},
			}})
		case 5:
			// inside svg, <style>/<script> are not raw text: entities are decoded
			body := g.pick("fstyle", []string{".a &gt; .b { fill: red }", "a &amp; b", "\n  .a{}\n\n   .b{}\n", "a &amp;lt; b", "a &lt;b&gt; c", "x &amp;amp; y", "&amp;frac12;"})
			tag := g.pick("ftag", []string{"style", "style", "script"})
			if riskyText(html.UnescapeString(body)) && g.avoid(fForeign) {
				body = ".a &gt; .b { fill: red }"
			}
			root.kids = append(root.kids, &node{tag: tag, rawBody: body})
		case 6:
			txt := g.pick("fdesct", []string{"icon", "a &amp;lt; b", "x &lt;b&gt;", "{{ label }}", "&amp;frac12;"})
			if g.chance("fdesc", 2) {
				root.kids = append(root.kids, &node{tag: "title", rawBody: txt})
			} else {
				root.kids = append(root.kids, &node{tag: "desc", inline: true, kids: []*node{{isText: true, text: txt}}})
			}
		case 4:
			root.kids = append(root.kids, &node{tag: "text", inline: true, attrs: []attr{{name: "x", val: "0", sep: " "}}, kids: []*node{g.text(false)}})
		}
	}
	return root
}

var pEnders = map[string]bool{"div": true, "section": true, "article": true, "p": true, "ul": true, "ol": true, "table": true, "pre": true, "h1": true, "h2": true, "h3": true, "hr": true, "form": true, "blockquote": true, "nav": true, "header": true, "footer": true, "main": true, "dl": true, "figure": true, "details": true, "fieldset": true}

func (g *gen) cell(depth int, fb forbid) *node {
	c := &node{tag: g.pick("cell", []string{"td", "td", "th"}), attrs: g.attrs("td")}
	if depth > 0 && g.chance("cellblock", 4) {
		c.kids = g.flow(depth-1, fb, 2)
	} else {
		c.inline = true
		if !g.chance("cellempty", 6) {
			c.kids = g.phrasing(depth-1, fb)
		}
	}
	return c
}

func (g *gen) row(depth int, fb forbid) *node {
	r := &node{tag: "tr", attrs: g.attrs("tr")}
	k := g.n("cells", 1, 3)
	for i := 0; i < k; i++ {
		r.kids = append(r.kids, g.cell(depth, fb))
	}
	g.omitEnds(r.kids)
	return r
}

func (g *gen) rows(depth int, fb forbid) []*node {
	var out []*node
	k := g.n("rows", 1, 2)
	for i := 0; i < k; i++ {
		if g.chance("tplrow", 6) {
			out = append(out, &node{tag: "template", attrs: []attr{{name: "v-for", val: "r in rows", quote: '"', sep: " "}}, kids: []*node{g.row(depth, fb)}})
			continue
		}
		out = append(out, g.row(depth, fb))
	}
	g.omitEnds(out)
	return out
}

// omitEnds leaves out end tags the HTML syntax allows to be omitted: an li / dt / dd / td / th /
// tr directly followed by a sibling of its kind (or last in its parent).
func (g *gen) omitEnds(sibs []*node) {
	for i, s := range sibs {
		switch s.tag {
		case "li", "td", "th", "tr", "dt", "dd":
		default:
			continue
		}
		ok := i == len(sibs)-1
		if !ok {
			nx := sibs[i+1]
			switch s.tag {
			case "td", "th":
				ok = nx.tag == "td" || nx.tag == "th"
			case "dt", "dd":
				ok = nx.tag == "dt" || nx.tag == "dd"
			default:
				ok = nx.tag == s.tag
			}
		}
		if ok && g.chance("omit", 5) {
			s.omitEnd = true
		}
	}
}

func (g *gen) table(depth int, fb forbid) *node {
	t := &node{tag: "table", attrs: g.attrs("table")}
	if g.chance("caption", 4) {
		t.kids = append(t.kids, &node{tag: "caption", inline: true, kids: g.phrasing(0, fb)})
	}
	if g.chance("colgroup", 4) {
		t.kids = append(t.kids, &node{tag: "colgroup", kids: []*node{{tag: "col", void: true, attrs: g.attrs("col")}, {tag: "col", void: true, slash: "/"}}})
	}
	if g.chance("thead", 3) {
		t.kids = append(t.kids, &node{tag: "thead", kids: g.rows(depth, fb)})
	}
	if g.chance("notbody", 3) {
		t.kids = append(t.kids, g.rows(depth, fb)...) // the parser supplies the tbody
	} else {
		t.kids = append(t.kids, &node{tag: "tbody", attrs: g.attrs("tbody"), kids: g.rows(depth, fb)})
	}
	if g.chance("tfoot", 5) {
		t.kids = append(t.kids, &node{tag: "tfoot", kids: g.rows(depth, fb)})
	}
	return t
}

var containers = []string{"div", "div", "section", "article", "nav", "header", "footer", "main", "aside", "blockquote", "template", "my-card", "x-layout", "slot"}

// flow draws block-level content.
func (g *gen) flow(depth int, fb forbid, max int) []*node {
	k := g.n("fl", 1, max)
	var out []*node
	for i := 0; i < k; i++ {
		out = append(out, g.block(depth, fb))
	}
	// a <p> may leave out its end tag before a block sibling
	for i := 0; i+1 < len(out); i++ {
		if out[i].tag == "p" && !out[i+1].isText && pEnders[out[i+1].tag] && g.chance("pomit", 4) {
			if out[i+1].tag == "table" && g.doctype && g.avoid(fQuirks) {
				continue
			}
			out[i].omitEnd = true
		}
	}
	return out
}

func (g *gen) block(depth int, fb forbid) *node {
	kind := g.n("bk", 0, 27)
	if depth <= 0 && kind < 6 {
		kind = 6
	}
	switch kind {
	case 0, 1, 2, 3: // container with block content
		tag := g.pick("ctag", containers)
		n := &node{tag: tag, attrs: g.attrs(tag)}
		if !g.chance("cempty", 10) {
			n.kids = g.flow(depth-1, fb, 3)
		}
		return n
	case 4: // list
		n := &node{tag: g.pick("list", []string{"ul", "ol"}), attrs: g.attrs("ul")}
		k := g.n("lis", 1, 3)
		for i := 0; i < k; i++ {
			li := &node{tag: "li", attrs: g.attrs("li")}
			if g.chance("liblock", 3) {
				li.kids = g.flow(depth-1, fb, 2)
			} else {
				li.inline = true
				li.kids = g.phrasing(depth-1, fb)
			}
			n.kids = append(n.kids, li)
		}
		g.omitEnds(n.kids)
		return n
	case 5:
		return g.table(depth-1, fb)
	case 6, 7, 8: // phrasing container
		tag := g.pick("ptag", []string{"p", "p", "h1", "h2", "h3", "h6", "p"})
		n := &node{tag: tag, inline: true, attrs: g.attrs(tag)}
		switch g.n("pfill", 0, 11) {
		case 0: // empty
		case 1: // an opening {{ that is never closed is plain text
			n.kids = []*node{{isText: true, text: g.pick("unclosed", []string{"{{ a &lt; b", "x {{ y &amp;&amp; z", "{{"})}}
		default:
			n.kids = g.phrasing(depth, fb)
		}
		return n
	case 9: // mixed content: text and inline elements directly inside a block container
		n := &node{tag: "div", inline: true, attrs: g.attrs("div")}
		n.kids = g.phrasing(depth, fb)
		return n
	case 10:
		return g.preformatted()
	case 11:
		return g.script()
	case 12:
		return g.style()
	case 13:
		return g.textarea()
	case 14:
		return &node{tag: "hr", void: true, attrs: g.attrs("hr"), slash: g.pick("sl", []string{"", "/", " /"})}
	case 15:
		return g.comment()
	case 16: // inline element at block level
		tag := g.pick("itag", inlineNames)
		nf := fb
		switch tag {
		case "a":
			if fb.a {
				tag = "span"
			}
			nf.a = true
		case "button":
			if fb.button {
				tag = "span"
			}
			nf.button = true
		case "label":
			if fb.label {
				tag = "span"
			}
			nf.label = true
		}
		n := &node{tag: tag, inline: true, attrs: g.attrs(tag)}
		n.kids = g.phrasing(depth-1, nf)
		return n
	case 17: // text directly in flow content
		return g.text(false)
	case 18:
		if fb.form {
			return g.text(false)
		}
		nf := fb
		nf.form = true
		n := &node{tag: "form", attrs: g.attrs("form")}
		n.kids = g.flow(depth-1, nf, 3)
		return n
	case 19:
		n := &node{tag: "dl"}
		k := g.n("dls", 1, 2)
		for i := 0; i < k; i++ {
			n.kids = append(n.kids, &node{tag: "dt", inline: true, kids: g.phrasing(0, fb)})
			n.kids = append(n.kids, &node{tag: "dd", inline: true, kids: g.phrasing(0, fb)})
		}
		g.omitEnds(n.kids)
		return n
	case 20:
		return g.noscript()
	case 21:
		return g.svg()
	case 27:
		// self-closing spelling of a non-void element: for the HTML5 parser the slash means nothing
		// and the element stays open (both sides of the comparison read it the same way)
		// (not inside form / a / button / label: their end tags do not simply close what is open)
		if fb.form || fb.a || fb.button || fb.label {
			return g.text(false)
		}
		tag := g.pick("sctag", []string{"slot", "slot", "my-card", "template", "x-icon", "div"})
		return &node{tag: tag, void: true, slash: g.pick("scsl", []string{"/", " /"}), attrs: g.attrs(tag)}
	case 22:
		n := &node{tag: g.pick("fig", []string{"details", "figure", "fieldset"})}
		cap := map[string]string{"details": "summary", "figure": "figcaption", "fieldset": "legend"}[n.tag]
		n.kids = append(n.kids, &node{tag: cap, inline: true, kids: g.phrasing(0, fb)})
		n.kids = append(n.kids, g.flow(depth-1, fb, 2)...)
		return n
	case 23:
		return g.title()
	case 24, 25:
		return g.unbalancedBlock()
	default: // block inside a link (valid in HTML5): inline element that must be laid out as a block
		if fb.a {
			return g.text(false)
		}
		nf := fb
		nf.a = true
		n := &node{tag: "a", attrs: g.attrs("a", attr{name: "href", val: "/x"})}
		n.kids = g.flow(depth-1, nf, 2)
		return n
	}
}

func (g *gen) title() *node {
	return &node{tag: "title", rawBody: g.pick("title", []string{"Home", "{{ title }}", "a &lt; b &amp; c", "{{ a < b ? 'x' : 'y' }} | Site", "  spaced   title  ", "&lt;b&gt; not bold", "", "&amp;frac12; price", "{{ t }} &amp;sup2"})}
}

func (g *gen) head() *node {
	h := &node{tag: "head"}
	k := g.n("headk", 0, 4)
	for i := 0; i < k; i++ {
		switch g.n("hk", 0, 7) {
		case 0:
			h.kids = append(h.kids, &node{tag: "meta", void: true, attrs: []attr{{name: "charset", val: "utf-8", quote: byte(g.n("mq", 0, 1)) * '"', sep: " "}}, slash: g.pick("sl", []string{"", " /"})})
		case 1:
			h.kids = append(h.kids, &node{tag: "meta", void: true, attrs: g.attrs("meta", attr{name: "name", val: "description"}, attr{name: "content", val: g.freeValue()})})
		case 2:
			h.kids = append(h.kids, g.title())
		case 3:
			h.kids = append(h.kids, &node{tag: "link", void: true, attrs: g.attrs("link", attr{name: "rel", val: "stylesheet"}, attr{name: "href", val: "/a.css?v=1&t=2"})})
		case 4:
			h.kids = append(h.kids, g.style())
		case 5:
			h.kids = append(h.kids, g.script())
		case 6:
			h.kids = append(h.kids, g.comment())
		case 7:
			// scripting off: only link / meta / style stay inside a noscript in head
			h.kids = append(h.kids, &node{tag: "noscript", rawBody: g.pick("hns", []string{
				`<link rel="stylesheet" href="/ns.css?a=1&amp;b=2">`, "<style>.js-only { display: none }</style>", `<meta http-equiv="refresh" content="0; url=/nojs?a=1&amp;lt=2">`,
				`<link rel="x" title="&lt;b&gt; &amp;amp;">`, "<style>a &gt; b {}</style><link rel=y>",
			})})
		}
	}
	return h
}

func (g *gen) frontMatter() string {
	var sb strings.Builder
	sb.WriteString("---\n")
	k := g.n("fmk", 0, 4)
	for i := 0; i < k; i++ {
		sb.WriteString(g.pick("fm", []string{
			"title: Home\n", "count: 42\n", "items:\n  - apple\n  - banana\n", "layout: layouts/base.vuego\n", "# a comment\n", "\n",
			"html: \"<b>bold</b> & more\"\n", "expr: 'a < b && c > d'\n", "nested:\n  key:   spaced   value\n  list: [1, 2,   3]\n", "text: |\n  line one\n    indented\n", "quote: \"say \\\"hi\\\"\"\n", "trailing: space   \n", "tmpl: '<p>{{ x }}</p>'\n",
		}))
	}
	sb.WriteString("---\n")
	return sb.String()
}

// longBlock draws an element that carries one very long line (the U+F6FF token): a minified
// bundle in <script>, a base64 data: URI in <style> or in an attribute, a long line in <pre>,
// <textarea>, <noscript>, inline text, a comment; alone on its line, or with lines around it.
func (g *gen) longBlock() *node {
	around := func(s string) string {
		return g.pick("lpre", []string{"", "", "first();\n", "\n  a\n"}) + s + g.pick("lpost", []string{"", "", "\nlast();", "\n\n  tail  x\n"})
	}
	switch g.n("lkind", 0, 9) {
	case 0, 1:
		return &node{tag: "script", rawBody: around(`var b="` + longTok + `";`)}
	case 2, 3:
		return &node{tag: "style", rawBody: around(".a{background:url(data:image/png;base64," + longTok + ")}")}
	case 4:
		return &node{tag: "pre", rawBody: around("  " + longTok + "  end")}
	case 5:
		return &node{tag: "textarea", rawBody: around(longTok)}
	case 6:
		return &node{tag: "img", void: true, attrs: []attr{{name: "src", val: "data:image/png;base64," + longTok, quote: '"', sep: " "}, {name: "alt", val: "x", quote: '"', sep: "\n  "}}}
	case 7:
		return &node{tag: g.pick("ltag", []string{"p", "span", "li", "div", "h2", "label"}), inline: true, kids: []*node{{isText: true, text: "x " + longTok + " y"}}}
	case 8:
		return &node{tag: "div", kids: []*node{{tag: "p", inline: true, kids: []*node{{isText: true, text: "a"}}}, {isText: true, text: longTok + " {{ x }}"}, {comment: " " + longTok + " "}}}
	default:
		return &node{tag: "noscript", rawBody: "<p>" + longTok + "</p>"}
	}
}

var tagInSource = regexp.MustCompile(`(</?)([a-zA-Z][a-zA-Z0-9-]*)`)

var structuralTags = map[string]bool{"html": true, "head": true, "body": true, "template": true, "slot": true, "table": true, "thead": true, "tbody": true, "tfoot": true, "tr": true, "td": true, "th": true, "caption": true, "colgroup": true, "col": true, "title": true, "script": true, "style": true, "pre": true, "textarea": true, "br": true, "img": true}

func titleCase(s string) string {
	b := []byte(strings.ToLower(s))
	up := true
	for i, ch := range b {
		if ch >= 'a' && ch <= 'z' {
			if up {
				b[i] = ch - 32
			}
			up = false
		} else {
			up = true
		}
	}
	return string(b)
}

// respellTags rewrites the tag names of a source (start and end tags) in another letter case;
// HTML tag names are case-insensitive. only == nil means every tag.
func respellTags(src string, f func(string) string, only map[string]bool) string {
	return tagInSource.ReplaceAllStringFunc(src, func(m string) string {
		sub := tagInSource.FindStringSubmatch(m)
		if only != nil && !only[strings.ToLower(sub[2])] {
			return m
		}
		return sub[1] + f(sub[2])
	})
}

// respellEntities rewrites the named references &amp; &lt; &gt; &quot; as decimal (mode 0),
// hexadecimal (mode 1) or alternating (mode 2) numeric references.
func respellEntities(src string, mode int) string {
	dec := map[string]string{"&amp;": "&#38;", "&lt;": "&#60;", "&gt;": "&#62;", "&quot;": "&#34;"}
	hex := map[string]string{"&amp;": "&#x26;", "&lt;": "&#X3c;", "&gt;": "&#x3E;", "&quot;": "&#x22;"}
	n := 0
	return namedRef.ReplaceAllStringFunc(src, func(m string) string {
		n++
		switch {
		case mode == 0, mode == 2 && n%3 == 1:
			return dec[m]
		case mode == 1, mode == 2 && n%3 == 2:
			return hex[m]
		}
		return m
	})
}

var namedRef = regexp.MustCompile(`&(amp|lt|gt|quot);`)

// genCase draws one generated template; 1 in 40 gets 2-5 companions that are formatted at the
// same time.
func (g0 *genEnv) genCase(t *rapid.T) Case {
	c := g0.genOne(t)
	g := &gen{genEnv: g0, t: t}
	if c.Long == 0 && g.chance("conc", 40) {
		c.ConcVia = g.pick("concvia", []string{"string", "shared"})
		n := g.n("concn", 2, 5)
		for i := 0; i < n; i++ {
			k := g0.genOne(t)
			k.Long, k.After, k.Ctor, k.Indent, k.NoFinal = 0, "", "", 0, false
			k.Body = strings.ReplaceAll(k.Body, longTok, "x")
			c.Conc = append(c.Conc, k)
		}
	}
	return c
}

func (g0 *genEnv) genOne(t *rapid.T) Case {
	g := &gen{genEnv: g0, t: t}
	c := Case{Kind: "gen"}
	if g.chance("attrcase", 6) {
		g.attrCase = g.n("attrcasek", 1, 2)
	}
	g.bytes = g.chance("bytes", 10)
	c.RawBytes = g.bytes
	if g.chance("long", 60) {
		g.long = rapid.SampledFrom([]int{4096, 65534, 65535, 65536, 65537, 204800}).Draw(t, "longn")
		c.Long = g.long
	}
	if g.chance("after", 4) {
		c.After = g.pick("afterk", []string{"fragment", "document", "both"})
	}
	if g.chance("fm", 3) {
		c.FrontMatter = g.frontMatter()
		c.Gap = g.pick("gap", []string{"", "", "\n", "\n\n", " \n", "\t\n\n", "  \n \n", "\n   \n\t"})
	}
	pretty := g.chance("pretty", 2)
	shape := g.n("shape", 0, 9)
	fb := forbid{}
	switch {
	case shape <= 4: // fragment
		roots := g.flow(3, fb, 3)
		if g.long > 0 {
			roots = append(roots, g.longBlock())
		}
		c.Body = serialise(roots, pretty)
	case shape == 5: // fragment whose roots are table-scoped elements
		var roots []*node
		switch g.n("tfrag", 0, 4) {
		case 0:
			roots = g.rows(2, fb)
			if roots[0].tag == "template" { // the context of the fragment is that of a leading <tr>
				roots = append([]*node{g.row(1, fb)}, roots...)
			}
			c.Ctx = "tbody"
		case 1:
			k := g.n("cells", 1, 3)
			for i := 0; i < k; i++ {
				roots = append(roots, g.cell(2, fb))
			}
			c.Ctx = "tr"
		case 2:
			roots = append(roots, &node{tag: g.pick("sect", []string{"thead", "tbody", "tfoot"}), kids: g.rows(2, fb)})
			if g.chance("sect2", 2) {
				roots = append(roots, &node{tag: "tbody", kids: g.rows(1, fb)})
			}
			c.Ctx = "table"
		case 3:
			roots = append(roots, &node{tag: "col", void: true, attrs: g.attrs("col")}, &node{tag: "col", void: true})
			c.Ctx = "colgroup"
		case 4:
			if g.chance("capfirst", 2) {
				roots = append(roots, &node{tag: "caption", inline: true, attrs: g.attrs("caption"), kids: g.phrasing(1, fb)})
			} else {
				roots = append(roots, &node{tag: "colgroup", attrs: g.attrs("colgroup"), kids: []*node{{tag: "col", void: true}}})
			}
			roots = append(roots, &node{tag: "tbody", kids: g.rows(1, fb)})
			c.Ctx = "table"
		}
		c.Body = serialise(roots, pretty)
	default: // full document
		c.Doc = true
		switch g.n("dt", 0, 5) {
		case 0, 1, 2:
			c.Doctype = "<!DOCTYPE html>"
		case 3:
			c.Doctype = "<!doctype html>"
			if g.avoid(fDocCase) {
				c.Doctype = "<!DOCTYPE html>"
			}
		case 4:
			c.Doctype = g.pick("dtx", []string{`<!DOCTYPE html PUBLIC "-//W3C//DTD XHTML 1.0 Strict//EN" "http://www.w3.org/TR/xhtml1/DTD/xhtml1-strict.dtd">`, "<!DOCTYPE HTML>", "<!DOCTYPE  html >", "<!DocType Html>", "<!doctype HTML>", "<!Doctype html>"})
			if !strings.HasPrefix(c.Doctype, "<!DOCTYPE") && g.avoid(fDocCase) {
				c.Doctype = "<!DOCTYPE html>"
			}
		case 5: // no doctype: the document starts with <html
		}
		g.doctype = c.Doctype != ""
		htmlEl := &node{tag: "html"}
		if g.chance("lang", 2) {
			htmlEl.attrs = g.attrs("html", attr{name: "lang", val: "en"})
		}
		if !g.chance("nohead", 5) {
			htmlEl.kids = append(htmlEl.kids, g.head())
		}
		body := &node{tag: "body", attrs: g.attrs("body")}
		body.kids = g.flow(3, fb, 3)
		if g.long > 0 {
			body.kids = append(body.kids, g.longBlock())
		}
		htmlEl.kids = append(htmlEl.kids, body)
		src := serialise([]*node{htmlEl}, pretty)
		if c.Doctype != "" {
			src = g.pick("dtsep", []string{"\n", "\n", "", "\n\n"}) + src
		}
		c.Body = src
	}
	// spelling dimension: equivalent spellings of the same markup
	switch g.n("tagcase", 0, 9) {
	case 7:
		c.Body = respellTags(c.Body, strings.ToUpper, nil)
	case 8:
		c.Body = respellTags(c.Body, titleCase, nil)
	case 9:
		c.Body = respellTags(c.Body, strings.ToUpper, structuralTags)
	}
	switch g.n("entspell", 0, 7) {
	case 5:
		c.Body = respellEntities(c.Body, 0)
	case 6:
		c.Body = respellEntities(c.Body, 1)
	case 7:
		c.Body = respellEntities(c.Body, 2)
	}
	// end-of-file dimension: what the last line of the file is, and whether a newline follows it.
	// Shapes: front matter only (empty body), just the two delimiters, an empty front-matter block
	// before a body of one line, a body of exactly one line, or the drawn file as it is; then the
	// file ends without a newline, with one, or with a blank line. (Line endings are still "\n"
	// here; the CR / CRLF dimensions below apply on top.)
	if g.chance("eof", 4) {
		oneLine := []string{"<p>hello</p>", "hello", "{{ title }}", "<hr>", "<!-- note -->", "<span>a</span> b", "<div></div>", "<p>a &amp; b</p>", "<ul><li>x</li></ul>"}
		shape := g.n("eofshape", 0, 6)
		if shape <= 3 {
			c.Doc, c.Doctype, c.Ctx, c.Long = false, "", "", 0
		}
		switch shape {
		case 0: // front matter only
			if c.FrontMatter == "" {
				c.FrontMatter = g.frontMatter()
			}
			c.Gap, c.Body = "", ""
		case 1: // the two delimiters and nothing else
			c.FrontMatter, c.Gap, c.Body = "---\n---\n", "", ""
		case 2: // empty front-matter block, body of one line
			c.FrontMatter, c.Gap, c.Body = "---\n---\n", "", g.pick("eofline", oneLine)
		case 3: // body of exactly one line
			c.Body = g.pick("eofline", oneLine)
		}
		tail := g.pick("eoftail", []string{"", "", "", "\n", "\n\n"})
		if c.Body != "" {
			c.Body = strings.TrimRight(c.Body, "\n") + tail
		} else {
			// the closing delimiter is the last line; a blank line after it is not part of the block
			c.FrontMatter = strings.TrimRight(c.FrontMatter, "\n")
			if tail != "" {
				c.FrontMatter += "\n"
				c.Gap = tail[1:]
			}
		}
	}
	switch {
	case c.FrontMatter == "" && !c.Doc && c.Ctx == "" && g.chance("bom", 30):
		c.Body = "\uFEFF" + c.Body
	case g.chance("cr", 20):
		c.Body = strings.ReplaceAll(strings.ReplaceAll(c.Body, "\r\n", "\n"), "\n", "\r")
	}
	if g.chance("crlf", 12) {
		c.FrontMatter = strings.ReplaceAll(c.FrontMatter, "\n", "\r\n")
		c.Gap = strings.ReplaceAll(c.Gap, "\n", "\r\n")
		c.Body = strings.ReplaceAll(strings.ReplaceAll(c.Body, "\r\n", "\n"), "\n", "\r\n")
	}
	if c.Ctx != "" && leadTagCR.MatchString(c.Body) && g.avoid(fCtxCR) {
		c.Body = strings.Replace(c.Body, "\r\n", " ", 1)
	}
	if g.chance("opts", 5) {
		c.Indent = rapid.SampledFrom([]int{4, 1, 8}).Draw(t, "indent")
		c.NoFinal = g.chance("nofinal", 2)
	} else if g.chance("ctor", 3) {
		c.Ctor = g.pick("ctork", []string{"string", "options", "zero", "flat"})
	}
	return c
}
