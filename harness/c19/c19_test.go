// Package c19 decides C19: formatting a template is idempotent and preserves what the template
// means.
//
// Oracle (never computed with vuego): the formatted text is fed back to Format (idempotence, byte
// for byte) and both the input and the formatted text are parsed with the HTML5 parser
// (golang.org/x/net/html, trusted base) and reduced to the normal form of internal/hx:
//
//   - same elements, same attribute names (namespace prefix included; a name that is repeated
//     on an element must be repeated as often, occurrence by occurrence), same attribute values
//     after collapsing whitespace runs inside the values;
//   - same text with ALL whitespace removed ("the same non-whitespace text"; whitespace is what
//     HTML calls whitespace: space, tab, LF, FF, CR - U+00A0 and friends are content), except inside
//     <pre> and <textarea> where the text must be exactly the same ("raw-text elements and <pre>
//     content are not altered"), and inside <script>/<style> where the text must be exactly the
//     same apart from whitespace at the two ends of the content (the placement of the content
//     relative to the tags is layout; the repository's suite pins the trimming of blank lines
//     there). Every other raw-text element of the HTML5 parser (noscript, iframe, xmp, ...) is
//     compared like ordinary text, i.e. with whitespace removed;
//   - same multiset of {{ ... }} expressions found in text (whitespace runs inside an expression
//     collapsed);
//   - the front-matter block is a byte-identical prefix of the output and the doctype follows it
//     byte for byte.
//
// Deliberately NOT asserted (not in the statement): layout/indentation, comments, where
// whitespace is put between elements (even where a browser would render it), Unicode
// whitespace such as U+00A0 counts as whitespace, the order of attributes, that Format never
// returns an error on generated or fuzzed input (such inputs are counted and skipped; an error
// on a file of the repository's own corpus is reported).
package c19

import (
	"encoding/json"
	"fmt"
	"os"
	"path/filepath"
	"regexp"
	"sort"
	"strconv"
	"strings"
	"sync"
	"testing"
	"unicode"
	"unicode/utf8"

	"github.com/titpetric/vuego/formatter"
	"golang.org/x/net/html"
	"golang.org/x/net/html/atom"

	"verif/internal/ev"
	"verif/internal/hx"
	"verif/internal/kf"
	"verif/internal/run"
)

const prop = "C19"

// Finding ids (open findings exclude their input region from the generated search).
const (
	fQuote    = "C19-attr-double-quote"
	fAmp      = "C19-attr-ampersand-reparse"
	fBlank    = "C19-attr-blank-value"
	fDocCase  = "C19-lowercase-doctype"
	fTextarea = "C19-textarea-whitespace"
	fPreNL    = "C19-pre-leading-newline"
	fRawText  = "C19-noscript-escaped"
	fNsAttr   = "C19-svg-namespaced-attr"
	fQuirks   = "C19-doctype-quirks-parse"
	fMustache = "C19-mustache-unescaped"
	fCtxCR    = "C19-table-fragment-cr"
	fNbsp     = "C19-nbsp-treated-as-whitespace"
	fForeign  = "C19-foreign-rawtext-name"
	fHexEmpty = "C19-empty-hex-reference"
)

var allFindings = []string{fQuote, fAmp, fBlank, fDocCase, fTextarea, fPreNL, fRawText, fNsAttr, fQuirks, fMustache, fCtxCR, fNbsp, fForeign, fHexEmpty}

// Case is one template source, split into the parts the statement talks about. The source
// handed to Format is FrontMatter + Gap + Doctype + Body.
type Case struct {
	Kind        string `json:"kind"`           // "corpus-vuego", "corpus-docs", "gen", "fuzz"
	Name        string `json:"name,omitempty"` // corpus: file (and block number)
	FrontMatter string `json:"front_matter,omitempty"`
	Gap         string `json:"gap,omitempty"` // whitespace between front-matter and the rest
	Doctype     string `json:"doctype,omitempty"`
	Body        string `json:"body"`
	Doc         bool   `json:"doc,omitempty"`     // full document (parsed with html.Parse)
	Ctx         string `json:"ctx,omitempty"`     // fragment context element (default body)
	Indent      int    `json:"indent,omitempty"`  // 0 = default options
	NoFinal     bool   `json:"nofinal,omitempty"` // InsertFinal=false
	MustFormat  bool   `json:"must_format,omitempty"`
	// Long > 0: every U+F6FF in the text fields stands for a run of Long characters without a
	// line break (keeps cases with 64 KiB lines small and replayable).
	Long int `json:"long,omitempty"`
	// RawBytes: every rune U+F780..U+F7FF in the text fields stands for the single byte
	// 0x80..0xFF (bytes that are not valid UTF-8 cannot be stored in JSON).
	RawBytes bool `json:"raw_bytes,omitempty"`
	// After: "fragment", "document" or "both": the case is (also) formatted on a Formatter whose
	// previous call failed on a too deeply nested fragment / document.
	After string `json:"after,omitempty"`
	// Ctor selects the public entry point (see newFormatter).
	Ctor string `json:"ctor,omitempty"`
	// Conc: companions formatted at the same time, each in its own goroutine, through FormatString
	// (ConcVia "string") or through one shared *Formatter (ConcVia "shared").
	Conc    []Case `json:"conc,omitempty"`
	ConcVia string `json:"conc_via,omitempty"`
}

const longTok = "\uF6FF"

// longRun is a deterministic run of n base64 characters.
func longRun(n int) string {
	const alpha = "ABCDEFGHIJKLMNOPQRSTUVWXYZabcdefghijklmnopqrstuvwxyz0123456789+/"
	b := make([]byte, n)
	for i := range b {
		b[i] = alpha[(i*7+i/64)%64]
	}
	return string(b)
}

// encodeBytes stores the bytes >= 0x80 of s one by one as U+F700+byte; decodeBytes undoes it.
func encodeBytes(s string) string {
	var sb strings.Builder
	for i := 0; i < len(s); i++ {
		if s[i] >= 0x80 {
			sb.WriteRune(0xF700 + rune(s[i]))
		} else {
			sb.WriteByte(s[i])
		}
	}
	return sb.String()
}

func decodeBytes(s string) string {
	var sb strings.Builder
	for _, r := range s {
		if r >= 0xF780 && r <= 0xF7FF {
			sb.WriteByte(byte(r - 0xF700))
		} else {
			sb.WriteRune(r)
		}
	}
	return sb.String()
}

// expanded returns the case with the Long and RawBytes encodings resolved.
func (c Case) expanded() Case {
	if c.Long == 0 && !c.RawBytes {
		return c
	}
	run := ""
	if c.Long > 0 {
		run = longRun(c.Long)
	}
	f := func(s string) string {
		if c.RawBytes {
			s = decodeBytes(s)
		}
		if c.Long > 0 {
			s = strings.ReplaceAll(s, longTok, run)
		}
		return s
	}
	c.FrontMatter, c.Gap, c.Doctype, c.Body = f(c.FrontMatter), f(c.Gap), f(c.Doctype), f(c.Body)
	c.Long, c.RawBytes = 0, false
	return c
}

func (c Case) source() string {
	c = c.expanded()
	return c.FrontMatter + c.Gap + c.Doctype + c.Body
}

// theRec lets check count inputs that Format refused (never used to decide anything).
var theRec *ev.Rec

// fmter is what every public entry point of the formatter package offers.
type fmter interface {
	Format(string) (string, error)
}

type viaFormatString struct{}

func (viaFormatString) Format(s string) (string, error) { return formatter.FormatString(s) }

// newFormatter builds the entry point the case asks for: Ctor "" = NewFormatter (default
// options) or NewFormatterWithOptions (Indent / NoFinal set), "options" = NewFormatterWithOptions
// even for the default option set, "flat" = NewFormatterWithOptions{IndentWidth: 0, InsertFinal:
// true}, "zero" = a zero-value Formatter, "string" = the package function FormatString.
func newFormatter(c Case) fmter {
	switch c.Ctor {
	case "string":
		return viaFormatString{}
	case "zero":
		return new(formatter.Formatter)
	case "flat":
		return formatter.NewFormatterWithOptions(formatter.FormatterOptions{IndentWidth: 0, InsertFinal: true})
	}
	if c.Ctor == "" && c.Indent == 0 && !c.NoFinal {
		return formatter.NewFormatter()
	}
	o := formatter.DefaultFormatterOptions()
	if c.Indent != 0 {
		o.IndentWidth = c.Indent
	}
	o.InsertFinal = !c.NoFinal
	return formatter.NewFormatterWithOptions(o)
}

// ---------------------------------------------------------------------------------------------
// reference parse and normal form

var ctxAtoms = map[string]atom.Atom{"body": atom.Body, "tr": atom.Tr, "tbody": atom.Tbody, "table": atom.Table, "colgroup": atom.Colgroup}

func parseSrc(s string, doc bool, ctx string) ([]*html.Node, error) {
	if doc {
		return hx.ParseDoc(s)
	}
	return parseMode(s, doc, ctx, true)
}

// parseMode parses with the scripting flag of the HTML5 tree builder set explicitly. The flag
// decides how <noscript> is read: raw text when scripting is on (a browser), markup when it is
// off (a crawler, a server-side tool). A template means the same after formatting only if it
// parses the same under both.
func parseMode(s string, doc bool, ctx string, scripting bool) ([]*html.Node, error) {
	opt := html.ParseOptionEnableScripting(scripting)
	if doc {
		d, err := html.ParseWithOptions(strings.NewReader(s), opt)
		if err != nil {
			return nil, err
		}
		var out []*html.Node
		for c := d.FirstChild; c != nil; c = c.NextSibling {
			out = append(out, c)
		}
		return out, nil
	}
	if ctx == "" {
		ctx = "body"
	}
	a, ok := ctxAtoms[ctx]
	if !ok {
		return nil, fmt.Errorf("unknown context %q", ctx)
	}
	return html.ParseFragmentWithOptions(strings.NewReader(s), &html.Node{Type: html.ElementNode, Data: ctx, DataAtom: a}, opt)
}

// walk visits every node below the forest.
func walk(nodes []*html.Node, f func(*html.Node)) {
	for _, n := range nodes {
		f(n)
		var kids []*html.Node
		for c := n.FirstChild; c != nil; c = c.NextSibling {
			kids = append(kids, c)
		}
		walk(kids, f)
	}
}

// normalise reduces a parse to the hx normal form (Strip mode) with two refinements: attribute
// names carry their namespace prefix (xlink:href), and script/style text is trimmed at its ends.
func normalise(nodes []*html.Node) []*hx.N {
	walk(nodes, func(n *html.Node) {
		if n.Type == html.TextNode {
			n.Data = protectSpaces(n.Data)
		}
		if n.Type != html.ElementNode {
			return
		}
		// golang.org/x/net/html keeps repeated attributes (and vuego gives them meaning: the
		// documented way to require several props is to repeat :require on <template>). The
		// k-th occurrence of a name is compared with the k-th occurrence on the other side.
		occ := map[string]int{}
		for i, a := range n.Attr {
			if a.Namespace != "" {
				n.Attr[i].Key = a.Namespace + ":" + a.Key
				n.Attr[i].Namespace = ""
			}
			n.Attr[i].Val = protectSpaces(a.Val)
			occ[n.Attr[i].Key]++
			if k := occ[n.Attr[i].Key]; k > 1 {
				n.Attr[i].Key = fmt.Sprintf("%s (occurrence %d)", n.Attr[i].Key, k)
			}
		}
	})
	l := hx.Norm(nodes, hx.Strip, false)
	var post func(l []*hx.N)
	post = func(l []*hx.N) {
		for _, n := range l {
			if n.Tag == "script" || n.Tag == "style" {
				var kids []*hx.N
				for _, k := range n.Kids {
					if k.Tag == "" && !k.Doctype {
						k.Text = strings.TrimSpace(k.Text)
						if k.Text == "" {
							continue
						}
					}
					kids = append(kids, k)
				}
				n.Kids = kids
			}
			post(n.Kids)
		}
	}
	post(l)
	return l
}

// hasWideSpace reports whether s contains a character that Unicode classes as white space but
// HTML does not (U+00A0 no-break space, U+2003 em space, U+3000 ...). In HTML those are content:
// they are not collapsed and &nbsp; is how templates write a space that must survive.
func hasWideSpace(s string) bool {
	for _, r := range s {
		if r > 0x7f && unicode.IsSpace(r) {
			return true
		}
	}
	return false
}

// protectSpaces maps those characters into the private use area so that the whitespace
// handling of the normal form (strings.Fields) leaves them alone.
func protectSpaces(s string) string {
	if !hasWideSpace(s) {
		return s
	}
	// byte-safe: bytes that are not valid UTF-8 are copied as they are (strings.Map would turn
	// them into U+FFFD on both sides of the comparison)
	var sb strings.Builder
	for i := 0; i < len(s); {
		r, w := utf8.DecodeRuneInString(s[i:])
		switch {
		case r == utf8.RuneError && w == 1:
			sb.WriteByte(s[i])
		case r > 0x7f && unicode.IsSpace(r):
			sb.WriteRune(0xE000 + r%0x1000)
		default:
			sb.WriteString(s[i : i+w])
		}
		i += w
	}
	return sb.String()
}

// readable undoes protectSpaces inside a failure message.
func readable(msg string) string {
	var sb strings.Builder
	for _, r := range msg {
		switch {
		case r == 0xE0A0:
			sb.WriteString("[U+00A0]")
		case r >= 0xE000 && r < 0xF000:
			sb.WriteString("[wide space]")
		default:
			sb.WriteRune(r)
		}
	}
	return sb.String()
}

func collapse(s string) string { return strings.Join(strings.Fields(s), " ") }

func attrEq(tag, key, a, b string) bool { return collapse(a) == collapse(b) }

// wideBeforeHazard: a non-ASCII character followed, later in s, by text that must be written
// escaped (a tag-like "<x" or something that decodes as a character reference).
func wideBeforeHazard(s string) bool {
	for i, r := range s {
		if r > 0x7f {
			return riskyText(s[i:])
		}
	}
	return false
}

var upperTag = regexp.MustCompile(`</?[a-z]*[A-Z]`)
var upperAttr = regexp.MustCompile(`\s[:@#]?[A-Z][A-Za-z-]*=`)
var numericRef = regexp.MustCompile(`&#[xX]?[0-9a-fA-F]+;`)
var selfClosedNonVoid = regexp.MustCompile(`<(slot|my-card|template|x-icon|div)\b[^>]*/>`)
var digitRef = regexp.MustCompile(`&[A-Za-z]+[0-9]`)
var mustacheRe = regexp.MustCompile(`(?s)\{\{(.*?)\}\}`)

// mustaches lists the {{ ... }} expressions of all text nodes, whitespace-collapsed, sorted.
func mustaches(nodes []*html.Node) []string {
	var out []string
	walk(nodes, func(n *html.Node) {
		if n.Type != html.TextNode {
			return
		}
		for _, m := range mustacheRe.FindAllStringSubmatch(n.Data, -1) {
			out = append(out, collapse(m[1]))
		}
	})
	sort.Strings(out)
	return out
}

func firstDiff(a, b string) string {
	i := 0
	for i < len(a) && i < len(b) && a[i] == b[i] {
		i++
	}
	lo := i - 30
	if lo < 0 {
		lo = 0
	}
	cut := func(s string) string {
		hi := i + 40
		if hi > len(s) {
			hi = len(s)
		}
		if lo > len(s) {
			return ""
		}
		return s[lo:hi]
	}
	return fmt.Sprintf("first difference at byte %d: %q vs %q", i, cut(a), cut(b))
}

func short(s string) string {
	if len(s) > 400 {
		return s[:400] + "…"
	}
	return s
}

// check is the property: idempotence, then preservation.
func check(c Case) error {
	c = c.expanded()
	if c.After != "" {
		// the same Formatter value, right after a call that failed
		f := newFormatter(c)
		failBefore(f, c.After)
		if err := checkWith(c, f); err != nil {
			return fmt.Errorf("on a Formatter whose previous Format call failed (%s): %w", c.After, err)
		}
	}
	if err := checkWith(c, newFormatter(c)); err != nil {
		return err
	}
	if len(c.Conc) > 0 {
		return checkConcurrent(c)
	}
	return nil
}

// checkConcurrent formats the case and its companions at the same time, one goroutine per
// source, several rounds each, through FormatString or through one shared *Formatter. Formatting
// is a function of the source: every concurrent result must be the result the same source gives
// when it is formatted alone (which checkWith has already decided).
func checkConcurrent(c Case) error {
	srcs := []string{c.source()}
	for _, k := range c.Conc {
		srcs = append(srcs, k.expanded().source())
	}
	want := make([]string, len(srcs))
	for i, s := range srcs {
		o, err := formatter.NewFormatter().Format(s)
		if err != nil {
			return nil // Format refuses one of the sources: nothing to compare
		}
		want[i] = o
	}
	var f fmter = viaFormatString{}
	if c.ConcVia == "shared" {
		f = formatter.NewFormatter()
	}
	const rounds = 12
	errs := make([]error, len(srcs))
	start := make(chan struct{})
	var wg sync.WaitGroup
	for i := range srcs {
		wg.Add(1)
		go func(i int) {
			defer wg.Done()
			defer func() {
				if r := recover(); r != nil {
					errs[i] = fmt.Errorf("PANIC in concurrent Format: %v", r)
				}
			}()
			<-start
			for r := 0; r < rounds; r++ {
				got, err := f.Format(srcs[i])
				if err != nil {
					errs[i] = fmt.Errorf("concurrent Format failed: %v", err)
					return
				}
				if got != want[i] {
					errs[i] = fmt.Errorf("%s (source %q)", firstDiff(want[i], got), short(srcs[i]))
					return
				}
			}
		}(i)
	}
	close(start)
	wg.Wait()
	for i, e := range errs {
		if e != nil {
			return fmt.Errorf("formatting %d sources at the same time via %s: the result for source %d differs from its result when formatted alone: %v", len(srcs), map[bool]string{true: "one shared *Formatter", false: "FormatString"}[c.ConcVia == "shared"], i, e)
		}
	}
	return nil
}

// Format can refuse one kind of input: markup nested deeper than the HTML parser's limit of 512
// open elements. What such a failed call leaves behind must not show in the next result.
var (
	deepMarkup   = strings.Repeat("<div>", 600) + "x" + strings.Repeat("</div>", 600)
	deepFragment = "---\ntitle: broken page\nlayout: poison\n---\n" + deepMarkup + "\n"
	deepDocument = "<!DOCTYPE html SYSTEM \"poison\">\n<html><body>" + deepMarkup + "</body></html>\n"
)

// failBefore makes f fail: after = "fragment" (front matter + too deep fragment), "document"
// (doctype + too deep document) or "both". That the call fails is not part of the statement:
// it is counted, not asserted.
func failBefore(f fmter, after string) {
	var inputs []string
	switch after {
	case "fragment":
		inputs = []string{deepFragment}
	case "document":
		inputs = []string{deepDocument}
	default:
		inputs = []string{deepFragment, deepDocument}
	}
	for _, in := range inputs {
		_, err := f.Format(in)
		if theRec != nil {
			if err != nil {
				theRec.Count("after-failure:previous-call-failed", 1)
			} else {
				theRec.Count("after-failure:previous-call-did-not-fail", 1)
			}
		}
	}
}

// checkWith decides the property for one case on the given Formatter.
func checkWith(c Case, f fmter) error {
	src := c.source()
	o1, err := f.Format(src)
	if err != nil {
		if c.MustFormat {
			return fmt.Errorf("Format failed on a template of the repository's own corpus (%s): %v", c.Name, err)
		}
		// the statement does not promise that Format accepts every input: skipped, counted
		if theRec != nil {
			theRec.Count("skipped:format-error", 1)
		}
		return nil
	}
	// (a) idempotence, byte for byte
	o2, err := f.Format(o1)
	if err != nil {
		return fmt.Errorf("not idempotent: formatting the formatted output failed: %v (input %q, formatted %q)", err, short(src), short(o1))
	}
	if o2 != o1 {
		return fmt.Errorf("not idempotent: Format(Format(x)) != Format(x); %s (input %q)", firstDiff(o1, o2), short(src))
	}
	// (b) front-matter block: byte-identical prefix
	if !strings.HasPrefix(o1, c.FrontMatter) {
		return fmt.Errorf("front-matter block not kept byte for byte: input starts %q, output starts %q", c.FrontMatter, short(o1))
	}
	rest := o1[len(c.FrontMatter):]
	// (c) doctype: follows the front-matter, byte for byte
	if c.Doctype != "" {
		if !strings.HasPrefix(strings.TrimLeft(rest, " \t\r\n"), c.Doctype) {
			return fmt.Errorf("doctype not kept byte for byte: input has %q, output (after front-matter) starts %q", c.Doctype, short(rest))
		}
	}
	// (d) same elements / attribute names / values / text under the HTML5 parser
	// in both modes of the tree builder (scripting off: <noscript> holds markup; on: raw text)
	for _, scripting := range []bool{false, true} {
		mode := map[bool]string{false: "scripting off", true: "scripting on"}[scripting]
		in, err := parseMode(c.Doctype+c.Body, c.Doc, c.Ctx, scripting)
		if err != nil {
			return nil // the reference parser refuses the input: nothing to compare against
		}
		out, err := parseMode(rest, c.Doc, c.Ctx, scripting)
		if err != nil {
			return fmt.Errorf("formatted output no longer parses: %v", err)
		}
		mi, mo := mustaches(in), mustaches(out)
		ni, no := normalise(in), normalise(out)
		if d := hx.Diff(ni, no, hx.Options{AttrEq: attrEq}); d != "" {
			return fmt.Errorf("meaning changed (input vs formatted, HTML5 parse, %s): %s\n input:     %q\n formatted: %q", mode, readable(d), short(src), short(o1))
		}
		// (e) same mustache expressions
		if strings.Join(mi, "\x00") != strings.Join(mo, "\x00") {
			return fmt.Errorf("mustache expressions changed (%s): %q vs %q (input %q, formatted %q)", mode, mi, mo, short(src), short(o1))
		}
	}
	return nil
}

// ---------------------------------------------------------------------------------------------
// regions of the open findings, decided from the reference parse of the input only

// reparseAttr returns what the HTML5 tokenizer reads back when v is written between double
// quotes with nothing escaped but the double quote itself.
func reparseAttr(v string) string {
	z := html.NewTokenizer(strings.NewReader(`<a t="` + strings.ReplaceAll(v, `"`, "&quot;") + `">`))
	if z.Next() != html.StartTagToken {
		return v + "\x00"
	}
	tok := z.Token()
	if len(tok.Attr) != 1 {
		return v + "\x00"
	}
	return tok.Attr[0].Val
}

// hasEmptyHexRef: the literal text "&#x;" (a hexadecimal reference without digits). The HTML
// standard leaves it alone, golang.org/x/net/html - the parser the formatter itself uses -
// reads it as U+FFFD.
func hasEmptyHexRef(s string) bool {
	return strings.Contains(s, "&#x;") || strings.Contains(s, "&#X;")
}

func isBlank(s string) bool { return s != "" && strings.TrimSpace(s) == "" }

var tagLike = regexp.MustCompile(`<[A-Za-z/!?]`)

// riskyText reports whether s, written into HTML text without escaping, reads back as
// something else (a tag opens, or a character reference is decoded).
func riskyText(s string) bool {
	return tagLike.MatchString(s) || html.UnescapeString(s) != s
}

func mustacheRisky(text string) bool {
	for _, m := range mustacheRe.FindAllString(text, -1) {
		if riskyText(m) {
			return true
		}
	}
	return false
}

var escapedRaw = map[string]bool{"noscript": true, "iframe": true, "xmp": true, "noembed": true, "noframes": true, "plaintext": true}

var foreignRawNames = map[string]bool{"style": true, "script": true, "noscript": true, "iframe": true, "xmp": true, "noembed": true, "noframes": true, "plaintext": true}

func textOf(n *html.Node) string {
	var sb strings.Builder
	for c := n.FirstChild; c != nil; c = c.NextSibling {
		if c.Type == html.TextNode {
			sb.WriteString(c.Data)
		}
	}
	return sb.String()
}

func inside(n *html.Node, tags ...string) bool {
	for p := n.Parent; p != nil; p = p.Parent {
		if p.Type == html.ElementNode && p.Namespace == "" {
			for _, t := range tags {
				if p.Data == t {
					return true
				}
			}
		}
	}
	return false
}

// regions reports in which finding regions the input lies (independent of whether the finding
// is open). Used to skip corpus files and fuzz inputs, and to prove that the generator's
// construction really avoids the open regions (class "gen-in-open-region" must stay 0).
func regions(c Case) map[string]bool {
	c = c.expanded()
	r := map[string]bool{}
	lead := strings.ToLower(strings.TrimLeft(c.Doctype+c.Body, " \t\r\n"))
	exact := strings.TrimLeft(c.Doctype+c.Body, " \t\r\n")
	if (strings.HasPrefix(lead, "<!doctype") && !strings.HasPrefix(exact, "<!DOCTYPE")) || (strings.HasPrefix(lead, "<html") && !strings.HasPrefix(exact, "<html")) {
		r[fDocCase] = true
	}
	if c.Ctx != "" && c.Ctx != "body" && leadTagCR.MatchString(exact) {
		r[fCtxCR] = true
	}
	nodes, err := parseSrc(c.Doctype+c.Body, c.Doc, c.Ctx)
	if err != nil {
		return r
	}
	walk(nodes, func(n *html.Node) {
		switch n.Type {
		case html.ElementNode:
			for _, a := range n.Attr {
				if strings.Contains(a.Val, `"`) {
					r[fQuote] = true
				}
				if reparseAttr(a.Val) != a.Val {
					r[fAmp] = true
				}
				if isBlank(a.Val) {
					r[fBlank] = true
				}
				if a.Namespace != "" {
					r[fNsAttr] = true
				}
				if hasWideSpace(a.Val) {
					r[fNbsp] = true
				}
				if hasEmptyHexRef(a.Val) {
					r[fHexEmpty] = true
				}
			}
			if n.Namespace != "" {
				// inside svg / math the names style, script, xmp ... are ordinary elements: the parser
				// decodes entities in them and builds child elements
				if foreignRawNames[n.Data] {
					if riskyText(textOf(n)) {
						r[fForeign] = true
					}
					for c := n.FirstChild; c != nil; c = c.NextSibling {
						if c.Type == html.ElementNode {
							r[fForeign] = true
						}
					}
				}
				return
			}
			switch {
			case n.Data == "textarea":
				if t := textOf(n); t != collapse(t) {
					r[fTextarea] = true
				}
			case n.Data == "pre":
				if n.FirstChild != nil && n.FirstChild.Type == html.TextNode && strings.HasPrefix(n.FirstChild.Data, "\n") {
					r[fPreNL] = true
				}
			case escapedRaw[n.Data]:
				if strings.ContainsAny(textOf(n), "<>&") {
					r[fRawText] = true
				}
			}
		case html.TextNode:
			if n.Parent != nil && n.Parent.Type == html.ElementNode && (n.Parent.Data == "script" || n.Parent.Data == "style" || escapedRaw[n.Parent.Data]) {
				return
			}
			if mustacheRisky(n.Data) {
				r[fMustache] = true
			}
			for _, m := range mustacheRe.FindAllString(n.Data, -1) {
				if hasEmptyHexRef(m) {
					r[fHexEmpty] = true
				}
			}
			if hasWideSpace(n.Data) && !inside(n, "pre", "textarea") {
				r[fNbsp] = true
			}
		}
	})
	if c.Doc && c.Doctype != "" {
		// the doctype decides between the no-quirks and the quirks tree builder
		if without, err := parseSrc(c.Body, true, ""); err == nil {
			var with []*html.Node
			for _, n := range nodes {
				if n.Type != html.DoctypeNode {
					with = append(with, n)
				}
			}
			if hx.Diff(hx.Norm(with, hx.Strip, false), hx.Norm(without, hx.Strip, false), hx.Options{}) != "" {
				r[fQuirks] = true
			}
		}
	}
	return r
}

// openRegions returns the open findings whose region contains c, sorted.
func openRegions(c Case, k *kf.File) []string {
	var out []string
	r := regions(c)
	for _, id := range allFindings {
		if r[id] && k.Open(id) {
			out = append(out, id)
		}
	}
	return out
}

// ---------------------------------------------------------------------------------------------
// corpus family

func repoRoot() string {
	if r := os.Getenv("VERIF_REPO"); r != "" {
		return r
	}
	return "/repo"
}

// splitSource splits a raw template into the parts of a Case with its own, strict notion of a
// front-matter block: first line exactly "---", closed by the next line that is exactly "---".
func splitSource(kind, name, src string) Case {
	c := Case{Kind: kind, Name: name}
	rest := src
	if strings.HasPrefix(src, "---\n") || strings.HasPrefix(src, "---\r\n") {
		lines := strings.SplitAfter(src, "\n")
		n := len(lines[0])
		for i := 1; i < len(lines); i++ {
			n += len(lines[i])
			if l := strings.TrimRight(lines[i], "\r\n"); l == "---" && strings.HasSuffix(lines[i], "\n") {
				c.FrontMatter = src[:n]
				rest = src[n:]
				break
			}
		}
	}
	trimmed := strings.TrimLeft(rest, " \t\r\n")
	c.Gap = rest[:len(rest)-len(trimmed)]
	low := strings.ToLower(trimmed)
	switch {
	case strings.HasPrefix(low, "<!doctype"):
		if i := strings.Index(trimmed, ">"); i >= 0 {
			c.Doctype = trimmed[:i+1]
			c.Body = trimmed[i+1:]
		} else {
			c.Body = trimmed
		}
		c.Doc = true
	case strings.HasPrefix(low, "<html"):
		c.Body = trimmed
		c.Doc = true
	default:
		c.Body = trimmed
		c.Ctx = leadingContext(trimmed)
	}
	return c
}

var leadTagCR = regexp.MustCompile(`^<[a-zA-Z]+[\r\f]`)
var leadTag = regexp.MustCompile(`^<([a-zA-Z][a-zA-Z0-9-]*)[\s/>]`)

// leadingContext is the HTML context in which a fragment starting with a table-scoped element
// keeps that element.
func leadingContext(s string) string {
	m := leadTag.FindStringSubmatch(s + " ")
	if m == nil {
		return ""
	}
	switch strings.ToLower(m[1]) {
	case "td", "th":
		return "tr"
	case "tr":
		return "tbody"
	case "thead", "tbody", "tfoot", "caption", "colgroup":
		return "table"
	case "col":
		return "colgroup"
	}
	return ""
}

var fenceOpen = regexp.MustCompile("^\\s*```\\s*(html|vue)\\s*$")

// docSnippets extracts the fenced html / vue blocks of a markdown file.
func docSnippets(md string) []string {
	var out []string
	var cur []string
	in := false
	for _, line := range strings.Split(md, "\n") {
		switch {
		case !in && fenceOpen.MatchString(line):
			in, cur = true, nil
		case in && strings.TrimSpace(line) == "```":
			in = false
			out = append(out, strings.Join(cur, "\n")+"\n")
		case in:
			cur = append(cur, line)
		}
	}
	return out
}

// corpus lists the repository's own templates and documentation snippets in a stable order.
func corpus() []Case {
	root := repoRoot()
	var files []string
	_ = filepath.WalkDir(root, func(p string, d os.DirEntry, err error) error {
		if err != nil {
			if d != nil && d.IsDir() {
				return filepath.SkipDir
			}
			return nil
		}
		if d.IsDir() && (d.Name() == ".git" || d.Name() == "node_modules") {
			return filepath.SkipDir
		}
		if !d.IsDir() && strings.HasSuffix(d.Name(), ".vuego") {
			files = append(files, p)
		}
		return nil
	})
	sort.Strings(files)
	var out []Case
	for _, p := range files {
		b, err := os.ReadFile(p)
		if err != nil {
			continue
		}
		rel, _ := filepath.Rel(root, p)
		c := splitSource("corpus-vuego", rel, string(b))
		c.MustFormat = true
		out = append(out, c)
	}
	mds, _ := filepath.Glob(filepath.Join(root, "docs", "*.md"))
	sort.Strings(mds)
	for _, p := range mds {
		b, err := os.ReadFile(p)
		if err != nil {
			continue
		}
		rel, _ := filepath.Rel(root, p)
		for i, s := range docSnippets(string(b)) {
			c := splitSource("corpus-docs", fmt.Sprintf("%s#%d", rel, i+1), s)
			c.MustFormat = true
			out = append(out, c)
		}
	}
	return out
}

// ---------------------------------------------------------------------------------------------
// classes

var blockTags = map[string]bool{"div": true, "section": true, "article": true, "nav": true, "ul": true, "ol": true, "li": true, "header": true, "footer": true, "main": true, "form": true, "blockquote": true, "p": true, "h1": true, "h2": true, "h3": true, "h4": true, "h5": true, "h6": true, "dl": true, "dt": true, "dd": true, "figure": true, "figcaption": true, "details": true, "summary": true, "fieldset": true, "legend": true, "aside": true, "html": true, "head": true, "body": true}
var inlineTags = map[string]bool{"span": true, "a": true, "b": true, "i": true, "em": true, "strong": true, "code": true, "small": true, "label": true, "button": true, "abbr": true, "kbd": true, "mark": true, "sub": true, "sup": true, "time": true, "u": true, "s": true, "q": true, "cite": true}
var voidTags = map[string]bool{"br": true, "img": true, "input": true, "hr": true, "meta": true, "link": true, "col": true, "area": true, "base": true, "embed": true, "source": true, "track": true, "wbr": true}
var tableTags = map[string]bool{"table": true, "thead": true, "tbody": true, "tfoot": true, "tr": true, "td": true, "th": true, "caption": true, "colgroup": true}
var rawTags = map[string]bool{"script": true, "style": true, "textarea": true, "pre": true, "title": true, "noscript": true}

func classify(c Case) (bool, []string) {
	set := map[string]bool{}
	add := func(s string) { set[s] = true }
	add("family:" + c.Kind)
	if c.After != "" {
		add("after-failure:" + c.After)
	}
	switch {
	case c.Ctor != "":
		add("entry:" + c.Ctor)
	case c.Indent == 0 && !c.NoFinal:
		add("entry:NewFormatter")
	default:
		add("entry:NewFormatterWithOptions")
	}
	if len(c.Conc) > 0 {
		add("concurrent:" + c.ConcVia)
	}
	if c.Long > 0 && strings.Contains(c.Body, longTok) {
		add(fmt.Sprintf("long-line:%d", c.Long))
	}
	c = c.expanded()
	if !utf8.ValidString(c.source()) {
		add("bytes:not-valid-utf8")
	}
	switch {
	case c.Doc:
		add("shape:document")
	case c.Ctx != "" && c.Ctx != "body":
		add("shape:table-fragment")
	default:
		add("shape:fragment")
	}
	if c.FrontMatter != "" {
		add("front-matter")
	}
	switch {
	case strings.HasPrefix(c.Doctype, "<!DOCTYPE"):
		add("doctype:upper")
	case c.Doctype != "":
		add("doctype:other-case")
	case c.Doc:
		add("doctype:none(<html>)")
	}
	if strings.Contains(c.source(), "\r\n") {
		add("crlf")
	}
	if src := c.source(); strings.Contains(strings.ReplaceAll(src, "\r\n", ""), "\r") {
		add("spelling:bare-CR")
	}
	if strings.HasPrefix(c.Body, "\uFEFF") {
		add("spelling:BOM")
	}
	if upperTag.MatchString(c.Body) {
		add("spelling:upper/mixed-case-tag")
		if c.Doc && c.Doctype == "" {
			add("spelling:upper/mixed-case-<html>-without-doctype")
		}
	}
	if upperAttr.MatchString(c.Body) {
		add("spelling:upper/mixed-case-attribute")
	}
	if numericRef.MatchString(c.Body) {
		add("spelling:numeric-reference")
	}
	if selfClosedNonVoid.MatchString(c.Body) {
		add("spelling:self-closed-non-void")
	}
	if strings.ContainsAny(c.Gap, " \t") {
		add("spelling:blanks-after-front-matter")
	}
	if c.Indent != 0 || c.NoFinal {
		add("options:non-default")
	}
	elems := 0
	nodes, err := parseSrc(c.Doctype+c.Body, c.Doc, c.Ctx)
	if err == nil {
		walk(nodes, func(n *html.Node) {
			switch n.Type {
			case html.CommentNode:
				add("comment")
			case html.ElementNode:
				elems++
				t := n.Data
				switch {
				case n.Namespace != "":
					add("el:" + n.Namespace)
					if foreignRawNames[t] {
						add("el:" + n.Namespace + ":" + t)
					}
				case rawTags[t]:
					add("el:" + t)
					if t == "noscript" {
						if inside(n, "head") {
							add("el:noscript-in-head")
						}
						if c.Doc {
							add("el:noscript-in-document")
						}
					}
					if txt := textOf(n); (t == "pre" || t == "textarea") && txt != collapse(txt) {
						add(t + ":significant-whitespace")
					}
				case tableTags[t]:
					add("el:table")
				case voidTags[t]:
					add("el:void")
				case inlineTags[t]:
					add("el:inline")
				case blockTags[t]:
					add("el:block")
				case t == "template" || t == "slot":
					add("el:template/slot")
				case strings.Contains(t, "-"):
					add("el:custom")
				default:
					add("el:other")
				}
				names := map[string]bool{}
				for _, a := range n.Attr {
					if names[a.Namespace+":"+a.Key] {
						add("attr-name:repeated")
					}
					names[a.Namespace+":"+a.Key] = true
				}
				for _, a := range n.Attr {
					k, v := a.Key, a.Val
					switch {
					case a.Namespace != "":
						add("attr-name:namespaced")
						add("attr-name:namespaced:" + a.Namespace)
						for _, b := range n.Attr {
							if b.Namespace == "" && b.Key == a.Key {
								add("attr-name:namespaced-next-to-local-name")
							}
						}
					case strings.HasPrefix(k, "v-"):
						add("attr-name:v-directive")
					case strings.HasPrefix(k, ":"):
						add("attr-name::bind")
					case strings.HasPrefix(k, "@"):
						add("attr-name:@event")
					case strings.HasPrefix(k, "#"):
						add("attr-name:#slot")
					case strings.HasPrefix(k, "["):
						add("attr-name:[attr]")
					}
					if v == "" {
						add("attr-value:empty")
					}
					if strings.Contains(v, `"`) {
						add("attr-value:double-quote")
					}
					if strings.Contains(v, `'`) {
						add("attr-value:single-quote")
					}
					if strings.Contains(v, "&") {
						add("attr-value:ampersand")
						if reparseAttr(v) != v {
							add("attr-value:entity-like")
						}
						if digitRef.MatchString(v) {
							add("attr-value:entity-like-name-with-digit")
						}
						if wideBeforeHazard(v) {
							add("attr-value:non-ascii-before-entity-like")
						}
					}
					if strings.ContainsAny(v, "<>") {
						add("attr-value:comparison")
					}
					if strings.ContainsAny(v, "\n\r") {
						add("attr-value:newline")
					}
					if v != "" && collapse(v) != v {
						add("attr-value:collapsible-whitespace")
					}
					if isBlank(v) {
						add("attr-value:blank")
					}
					if strings.Contains(v, "{{") {
						add("attr-value:mustache")
					}
					if hasWideSpace(v) {
						add("attr-value:nbsp")
					}
				}
			case html.TextNode:
				if n.Parent != nil && (n.Parent.Data == "script" || n.Parent.Data == "style") {
					return
				}
				ms := mustacheRe.FindAllString(n.Data, -1)
				for _, m := range ms {
					add("text:mustache")
					if strings.Contains(m, "<") {
						add("text:mustache-with-<")
					}
					if strings.Contains(m, ">") {
						add("text:mustache-with->")
					}
					if strings.Contains(m, "&") {
						add("text:mustache-with-&")
					}
					if html.UnescapeString(m) != m {
						add("text:mustache-with-entity-like")
					}
					if digitRef.MatchString(m) {
						add("text:mustache-with-entity-like-name-with-digit")
					}
					if wideBeforeHazard(m) {
						add("text:mustache-non-ascii-before-hazard")
					}
					if strings.ContainsAny(m, `"'`) {
						add("text:mustache-with-quote")
					}
				}
				plain := mustacheRe.ReplaceAllString(n.Data, "")
				if strings.ContainsAny(plain, "<>&") {
					add("text:escaped-special")
				}
				if strings.ContainsAny(plain, `"'`) {
					add("text:quote")
				}
				if i := strings.Index(plain, "{{"); i >= 0 {
					add("text:unclosed-{{")
					if strings.ContainsAny(plain[i:], "<>&") {
						add("text:unclosed-{{-then-special")
					}
					if inside(n, "pre") {
						add("pre:unclosed-{{")
					}
				}
				if strings.Contains(plain, "}}") {
					add("text:lone-}}")
				}
				if hasWideSpace(plain) {
					add("text:nbsp")
				}
			}
		})
	}
	var cls []string
	for k := range set {
		cls = append(cls, k)
	}
	sort.Strings(cls)
	return elems > 0, cls
}

// ---------------------------------------------------------------------------------------------

func replay(kind string, raw json.RawMessage) error {
	return run.Decode(raw, check)
}

func TestProp(t *testing.T) {
	rec := ev.New(prop)
	theRec = rec
	defer run.Finish(t, rec)
	run.Witnesses(rec, prop, replay)
	k := kf.Load()

	shard, shards := run.Shard()
	// family 1: the repository's own corpus and documentation snippets (every shard takes a slice)
	cs := corpus()
	done := 0
	for i, c := range cs {
		if i%shards != shard {
			continue
		}
		if open := openRegions(c, k); len(open) > 0 {
			for _, id := range open {
				rec.Excluded(id)
			}
			rec.Count("corpus-skipped-open-finding", 1)
			rec.Note("corpus input %s skipped: in the region of open finding(s) %s", c.Name, strings.Join(open, ","))
			continue
		}
		c.After = []string{"", "fragment", "document", "both"}[i%4]
		c.Ctor = []string{"", "string", "options", "zero", "flat"}[(i/4)%5]
		nt, cls := classify(c)
		run.Each(rec, "corpus", c, nt, cls, check)
		done++
	}
	if len(cs) < 50 {
		rec.Note("corpus unexpectedly small: %d inputs under %s", len(cs), repoRoot())
	}
	rec.Note("corpus: %d inputs (.vuego files and fenced html/vue blocks of docs/*.md), %d checked by this shard", len(cs), done)
	{
		rec.Exhaustive(fmt.Sprintf("every .vuego file under the repository and every fenced html/vue block of docs/*.md (%d inputs)", len(cs)))
	}

	// family 2: generated fragments and documents
	g := &genEnv{k: k, rec: rec}
	classifyGen := func(c Case) (bool, []string) {
		nt, cls := classify(c)
		if len(openRegions(c, k)) > 0 {
			cls = append(cls, "gen-in-open-region")
		}
		return nt, cls
	}
	run.Rapid(t, rec, "gen", g.genCase, classifyGen, check)
}

// TestReplay replays a JSON replay file, or a corpus file written by the native fuzz engine
// ("go test fuzz v1" followed by one string literal).
func TestReplay(t *testing.T) {
	path := os.Getenv("VERIF_REPLAY_FILE")
	if b, err := os.ReadFile(path); path != "" && err == nil && strings.HasPrefix(string(b), "go test fuzz v1") {
		lines := strings.SplitN(strings.TrimSpace(string(b)), "\n", 2)
		lit := ""
		if len(lines) == 2 {
			lit = strings.TrimSuffix(strings.TrimPrefix(strings.TrimSpace(lines[1]), "string("), ")")
		}
		x, err := strconv.Unquote(lit)
		if err != nil {
			fmt.Printf("REPLAY-ERROR cannot decode fuzz corpus file %s: %v\n", path, err)
			t.Fatalf("cannot decode %s: %v", path, err)
		}
		c := splitSource("fuzz", "", x)
		if cerr := run.Safe(func() error { return check(c) }); cerr != nil {
			fmt.Printf("FAILURE-DETAIL property=%s kind=fuzz %s\n", prop, strings.ReplaceAll(cerr.Error(), "\n", " ⏎ "))
			fmt.Printf("VIOLATION property=%s replay=%s\n", prop, path)
			t.Fail()
			return
		}
		fmt.Printf("REPLAY-PASS property=%s replay=%s\n", prop, path)
		return
	}
	run.ReplayMain(t, prop, replay)
}
