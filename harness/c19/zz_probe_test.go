package c19

import (
	"encoding/json"
	"os"
	"fmt"
	"testing"

	"github.com/titpetric/vuego/formatter"
)

func TestProbe(t *testing.T) {
	f := formatter.NewFormatter()
	for _, in := range []string{
		`<p title='say "hi"'>x</p>`,
		`<p title="a &amp;lt; b">x</p>`,
		`<p title="x &amp;lt y &amp;amp z &amp;copy= &amp;copy1 &amp;copy">x</p>`,
		"<!doctype html>\n<html><head><title>t</title></head><body><p>x</p></body></html>",
		"<!DOCTYPE html>\n<html><head><title>t</title></head><body><p>x</p></body></html>",
		"<HTML><head><title>t</title></head><body><p>x</p></body></HTML>",
		"<textarea>  a   b\n  c </textarea>",
		"<textarea>\n\nx</textarea>",
		`<input value=" ">`,
		"<pre>\n\nx\n</pre>",
		"<pre>\nx\n</pre>",
		"<div><pre>  a\n   b  </pre></div>",
		"<noscript><img src=x></noscript>",
		"<!DOCTYPE html>\n<html><head><noscript><link rel=x></noscript></head><body><noscript><img src=x></noscript><p>a<table><tr><td>x</td></tr></table></body></html>",
		"<p>a<table><tr><td>x</td></tr></table>",
		`<p>{{ a&lt;b }} {{ a &amp;amp b }}</p>`,
		`<p>{{ "a  b" }}</p>`,
		"<script>a</script>",
		"<div><div><script>\n  if (a < b) {\n    x();\n  }\n</script></div></div>",
		"<pre><script>a < b</script></pre>",
		`<svg viewBox="0 0 1 1"><use xlink:href="#a"/><path d="M0 0"/></svg>`,
		"---\ntitle: x\n---\n<p>x</p>",
		"---\r\ntitle: x\r\n---\r\n<p>x</p>\r\n",
		"---\ntitle: x\n---\n\n\n<!DOCTYPE html>\n<html><body>x</body></html>",
		`<div v-if="a < b && c" :class="{a: x > 1}" @click="go('x')" #slot [attr]="v" v-bind:Foo.sync="x">y</div>`,
		"<p title=\"a\nb\tc  d\">x</p>",
		"<title>a <b> {{ x < y }}</title>",
		"<iframe>a < b</iframe>",
		"<xmp>a < b</xmp>",
		"<div>a<!-- c -->b</div>",
		"<textarea>a &lt;/textarea&gt; b</textarea>",
	} {
		o1, err := f.Format(in)
		if err != nil {
			fmt.Printf("IN  %q\nERR %v\n\n", in, err)
			continue
		}
		o2, _ := f.Format(o1)
		o3, _ := f.Format(o2)
		fmt.Printf("IN  %q\nO1  %q\n", in, o1)
		if o2 != o1 {
			fmt.Printf("O2  %q\n", o2)
		}
		if o3 != o2 {
			fmt.Printf("O3  %q\n", o3)
		}
		fmt.Println()
	}
}

func TestCorpusReport(t *testing.T) {
	for _, c := range corpus() {
		r := regions(c)
		var in []string
		for _, id := range allFindings {
			if r[id] {
				in = append(in, id)
			}
		}
		err := check(c)
		if err != nil || len(in) > 0 {
			msg := ""
			if err != nil {
				msg = err.Error()
				if len(msg) > 300 {
					msg = msg[:300]
				}
			}
			fmt.Printf("%-60s regions=%v\n    %s\n", c.Name, in, msg)
		}
	}
}

func TestWriteWitnesses(t *testing.T) {
	type w struct {
		id, slug, what string
		c          Case
	}
	ws := []w{
		{fQuote, "attr-double-quote", "an attribute value containing a double quote is written unescaped between double quotes: the value is cut at the quote, extra attributes appear, and every further pass changes the text again", Case{Kind: "gen", Body: "<p title='say \"hi\"'>x</p>\n"}},
		{fAmp, "attr-ampersand-reparse", "an attribute value containing a literal character-reference-like text (source &amp;lt;) is written with a bare ampersand and reads back as a different value", Case{Kind: "gen", Body: "<p title=\"a &amp;lt; b\">x</p>\n"}},
		{fBlank, "attr-blank-value", "a whitespace-only attribute value is written as value=\"\" by the first pass and as a bare attribute by the second (not idempotent)", Case{Kind: "gen", Body: "<input value=\" \">\n"}},
		{fDocCase, "lowercase-doctype", "a document starting with <!doctype html> (lower case) is treated as a fragment: doctype, html, head and body disappear", Case{Kind: "gen", Doc: true, Doctype: "<!doctype html>", Body: "\n<html><head><title>t</title></head><body><p>x</p></body></html>\n"}},
		{fTextarea, "textarea-whitespace", "whitespace inside <textarea> (a raw-text element whose whitespace is its value) is collapsed and trimmed", Case{Kind: "gen", Body: "<textarea>a  b\n  c</textarea>\n"}},
		{fPreNL, "pre-leading-newline", "<pre> content that starts with a newline loses that newline on every pass (the parser drops the first newline after <pre>, the formatter does not re-add it)", Case{Kind: "gen", Body: "<pre>\n\nx</pre>\n"}},
		{fRawText, "noscript-escaped", "the content of <noscript> (raw text for the HTML5 parser the formatter uses) is entity-escaped, once more on every pass", Case{Kind: "gen", Body: "<noscript><img src=\"x.gif\"></noscript>\n"}},
		{fNsAttr, "svg-namespaced-attr", "namespaced attributes inside <svg> lose their prefix: xlink:href becomes href, xmlns:xlink becomes xlink", Case{Kind: "gen", Body: "<svg><use xlink:href=\"#a\"></use></svg>\n"}},
		{fQuirks, "doctype-quirks-parse", "the doctype is cut off before parsing, so a document with a doctype is parsed in quirks mode: <p> is not closed by a following <table> and the output nests the table inside the paragraph", Case{Kind: "gen", Doc: true, Doctype: "<!DOCTYPE html>", Body: "\n<html><body><p>a<table><tr><td>x</td></tr></table></body></html>\n"}},
		{fMustache, "mustache-unescaped", "text inside {{ }} is written back unescaped even when the source had it escaped: {{ a&lt;b }} becomes {{ a<b }}, which the parser reads as a tag", Case{Kind: "gen", Body: "<p>{{ a&lt;b }}</p>\n"}},
		{fCtxCR, "table-fragment-cr", "a fragment starting with a table-scoped tag whose name is followed by a carriage return (CRLF file, attributes on the next line) is parsed in body context: the td/tr/th tags are dropped", Case{Kind: "gen", Ctx: "tr", Body: "<td\r\n  class=\"a\">x</td>\r\n"}},
	}
	type finding struct {
		ID       string `json:"id"`
		Property string `json:"property"`
		Status   string `json:"status"`
		What     string `json:"what"`
		Witness  string `json:"witness"`
		Line     string `json:"line"`
	}
	var fs []finding
	for _, x := range ws {
		err := check(x.c)
		if err == nil {
			t.Errorf("%s: witness passes", x.id)
			continue
		}
		if !regions(x.c)[x.id] {
			t.Errorf("%s: witness not in its own region", x.id)
		}
		raw, _ := json.Marshal(x.c)
		rp := map[string]any{"property": "C19", "kind": "gen", "case": json.RawMessage(raw), "msg": err.Error()}
		b, _ := json.MarshalIndent(rp, "", " ")
		rel := "replays/known/C19-" + x.slug + ".json"
		if err := os.WriteFile("/verif/"+rel, append(b, '\n'), 0o644); err != nil {
			t.Fatal(err)
		}
		fs = append(fs, finding{x.id, "C19", "open", x.what, rel, "KNOWN-FINDING: property=C19 " + x.what})
		fmt.Printf("%s\n   %s\n", x.id, short(err.Error()))
	}
	b, _ := json.MarshalIndent(map[string]any{"findings": fs}, "", " ")
	_ = os.MkdirAll("/verif/findings.d", 0o755)
	if err := os.WriteFile("/verif/findings.d/c19.json", append(b, '\n'), 0o644); err != nil {
		t.Fatal(err)
	}
}
