package c19

import (
	"fmt"
	"testing"

	"github.com/titpetric/vuego/formatter"
)

func TestProbe(t *testing.T) {
	f := formatter.NewFormatter()
	for _, in := range []string{
		`<p title='say "hi"'>x</p>`,
		`<p title="a &amp;lt; b">x</p>`,
		`<p title="x &amp;lt y &amp;amp z &amp;copy= &amp;copy1 &amp;copy">x</p>`,
		"<!doctype html>\n<html><head><title>t</title></head><body><p>x</p></body></html>",
		"<!DOCTYPE html>\n<html><head><title>t</title></head><body><p>x</p></body></html>",
		"<HTML><head><title>t</title></head><body><p>x</p></body></HTML>",
		"<textarea>  a   b\n  c </textarea>",
		"<textarea>\n\nx</textarea>",
		`<input value=" ">`,
		"<pre>\n\nx\n</pre>",
		"<pre>\nx\n</pre>",
		"<div><pre>  a\n   b  </pre></div>",
		"<noscript><img src=x></noscript>",
		"<!DOCTYPE html>\n<html><head><noscript><link rel=x></noscript></head><body><noscript><img src=x></noscript><p>a<table><tr><td>x</td></tr></table></body></html>",
		"<p>a<table><tr><td>x</td></tr></table>",
		`<p>{{ a&lt;b }} {{ a &amp;amp b }}</p>`,
		`<p>{{ "a  b" }}</p>`,
		"<script>a</script>",
		"<div><div><script>\n  if (a < b) {\n    x();\n  }\n</script></div></div>",
		"<pre><script>a < b</script></pre>",
		`<svg viewBox="0 0 1 1"><use xlink:href="#a"/><path d="M0 0"/></svg>`,
		"---\ntitle: x\n---\n<p>x</p>",
		"---\r\ntitle: x\r\n---\r\n<p>x</p>\r\n",
		"---\ntitle: x\n---\n\n\n<!DOCTYPE html>\n<html><body>x</body></html>",
		`<div v-if="a < b && c" :class="{a: x > 1}" @click="go('x')" #slot [attr]="v" v-bind:Foo.sync="x">y</div>`,
		"<p title=\"a\nb\tc  d\">x</p>",
		"<title>a <b> {{ x < y }}</title>",
		"<iframe>a < b</iframe>",
		"<xmp>a < b</xmp>",
		"<div>a<!-- c -->b</div>",
		"<textarea>a &lt;/textarea&gt; b</textarea>",
	} {
		o1, err := f.Format(in)
		if err != nil {
			fmt.Printf("IN  %q\nERR %v\n\n", in, err)
			continue
		}
		o2, _ := f.Format(o1)
		o3, _ := f.Format(o2)
		fmt.Printf("IN  %q\nO1  %q\n", in, o1)
		if o2 != o1 {
			fmt.Printf("O2  %q\n", o2)
		}
		if o3 != o2 {
			fmt.Printf("O3  %q\n", o3)
		}
		fmt.Println()
	}
}
