package c19

// Native fuzz target (thorough tier): raw strings. Asserted on every input: Format does not
// panic. Asserted on inputs inside the property's domain: when Format succeeds, formatting the
// formatted text returns it unchanged. An input is inside the domain when it is not in the
// region of an open finding and when its DOM can be written down at all: the HTML5 parser's
// own serialiser (html.Render, trusted base) must reproduce the tree it was given, and the text
// must be strictly well-formed markup (wellFormed). Trees that
// no markup can express (nested <a>, <form> in <form>, text fostered out of tables, ...) are
// artefacts of the parser's error recovery, not templates.

import (
	"bytes"
	"fmt"
	"io"
	"regexp"
	"strings"
	"testing"
	"unicode/utf8"

	"golang.org/x/net/html"

	"verif/internal/hx"
	"verif/internal/kf"
)

// renderStable reports whether the parser's own serialiser round-trips the parse of s.
func renderStable(s string, doc bool, ctx string) bool {
	nodes, err := parseSrc(s, doc, ctx)
	if err != nil {
		return false
	}
	var buf bytes.Buffer
	for _, n := range nodes {
		if err := html.Render(&buf, n); err != nil {
			return false
		}
	}
	again, err := parseSrc(buf.String(), doc, ctx)
	if err != nil {
		return false
	}
	var buf2 bytes.Buffer
	for _, n := range again {
		if err := html.Render(&buf2, n); err != nil {
			return false
		}
	}
	if buf.String() != buf2.String() {
		return false
	}
	nodes, _ = parseSrc(s, doc, ctx)
	return hx.Diff(hx.Norm(nodes, hx.Collapse, false), hx.Norm(again, hx.Collapse, false), hx.Options{}) == ""
}

var startTagRe = regexp.MustCompile("^<[a-zA-Z][a-zA-Z0-9-]*(\\s+[^\\s\"'<>/=\\x00]+(\\s*=\\s*(\"[^\"]*\"|'[^']*'|[^\\s\"'=<>`]+))?)*\\s*/?>$")
var endTagRe = regexp.MustCompile(`^</[a-zA-Z][a-zA-Z0-9-]*\s*>$`)

// wellFormed is a deliberately strict syntax check done with the tokenizer only: every tag is
// written out and properly nested (no omitted or stray end tags), attributes follow the attribute
// syntax, comments are real comments, there is no doctype in the middle.
func wellFormed(s string) bool {
	z := html.NewTokenizer(strings.NewReader(s))
	var stack []string
	foreign := 0
	for {
		tt := z.Next()
		raw := string(z.Raw())
		switch tt {
		case html.ErrorToken:
			return z.Err() == io.EOF && len(stack) == 0
		case html.TextToken:
			// a "<" that reaches a text token is not followed by a letter, "/", "!" or "?": it is the
			// comparison operator of a mustache or of a script, which templates write raw
			if strings.Contains(raw, "<!--") {
				return false
			}
		case html.StartTagToken, html.SelfClosingTagToken:
			if !startTagRe.MatchString(raw) {
				return false
			}
			name, _ := z.TagName()
			tag := string(name)
			seen := map[string]bool{}
			for {
				k, _, more := z.TagAttr()
				if len(k) > 0 {
					if seen[string(k)] {
						return false // duplicate attribute
					}
					seen[string(k)] = true
				}
				if !more {
					break
				}
			}
			selfClosed := strings.HasSuffix(raw, "/>")
			switch {
			case voidTags[tag]:
			case selfClosed && foreign > 0:
			case selfClosed:
				return false
			default:
				stack = append(stack, tag)
				if tag == "svg" || tag == "math" {
					foreign++
				}
			}
		case html.EndTagToken:
			if !endTagRe.MatchString(raw) {
				return false
			}
			name, _ := z.TagName()
			tag := string(name)
			if len(stack) == 0 || stack[len(stack)-1] != tag {
				return false
			}
			stack = stack[:len(stack)-1]
			if tag == "svg" || tag == "math" {
				foreign--
			}
		case html.CommentToken:
			if !strings.HasPrefix(raw, "<!--") || !strings.HasSuffix(raw, "-->") || len(raw) < 7 {
				return false
			}
			d := raw[4 : len(raw)-3]
			if strings.Contains(d, "--") || strings.HasPrefix(d, ">") || strings.HasPrefix(d, "->") || strings.HasSuffix(d, "-") {
				return false
			}
		default:
			return false
		}
	}
}

// fuzzDomain decides whether idempotence is asserted for the raw input x.
func fuzzDomain(c Case, k *kf.File) (bool, string) {
	x := c.source()
	if !utf8.ValidString(x) || strings.ContainsAny(x, "\x00\f") {
		return false, "not text"
	}
	if open := openRegions(c, k); len(open) > 0 {
		return false, "open finding " + open[0]
	}
	if !wellFormed(c.Body) {
		return false, "not well-formed markup"
	}
	if !renderStable(c.Doctype+c.Body, c.Doc, c.Ctx) {
		return false, "tree not expressible as markup"
	}
	return true, ""
}

func fuzzSeeds() []string {
	seeds := []string{
		"", "<p>x</p>", "<div v-if=\"a < b && c\" :class=\"{a: x > 1}\">{{ a < b }}</div>",
		"---\ntitle: x\n---\n<!DOCTYPE html>\n<html><head><title>t</title></head><body><pre>  a\n b</pre></body></html>\n",
		"<table><tr><td>a<td>b</table>", "<script>if (a < b) { x() }</script><style>.a > .b {}</style>",
		"<ul><li v-for=\"i in items\" @click=\"go('x')\">{{ i | upper }}<li #slot [attr]=v>", "<textarea>a</textarea><input value=x disabled>",
		"<tr><td>x</td></tr>", "<p>a &amp; b &lt; c</p><!-- c -->",
	}
	n := 0
	for _, c := range corpus() {
		if c.Kind == "corpus-vuego" && len(c.source()) < 1500 && n < 12 {
			seeds = append(seeds, c.source())
			n++
		}
	}
	return seeds
}

func FuzzFormat(f *testing.F) {
	for _, s := range fuzzSeeds() {
		f.Add(s)
	}
	k := kf.Load()
	f.Fuzz(func(t *testing.T, x string) {
		if len(x) > 4096 {
			t.Skip()
		}
		c := splitSource("fuzz", "", x)
		fm := newFormatter(c)
		o1, err := fm.Format(x) // a panic here is reported by the fuzz engine
		if err != nil {
			return
		}
		if ok, _ := fuzzDomain(c, k); !ok {
			return
		}
		o2, err := fm.Format(o1)
		if err == nil && o2 == o1 {
			return
		}
		var cerr error
		if err != nil {
			cerr = fmt.Errorf("not idempotent: formatting the formatted output failed: %v (input %q)", err, short(x))
		} else {
			cerr = fmt.Errorf("not idempotent: Format(Format(x)) != Format(x); %s (input %q)", firstDiff(o1, o2), short(x))
		}
		// the fuzz engine minimises the input and writes it to testdata/fuzz/FuzzFormat/<hash>; the
		// driver turns that file into the replay (TestReplay understands its format)
		t.Fatal(cerr)
	})
}
