// Package c18 decides C18: an overlay filesystem serves every path from the first layer that
// has it. Oracle: a union model computed from the layer *descriptions* (never from vuego).
package c18

import (
	"encoding/json"
	"errors"
	"fmt"
	"io"
	"io/fs"
	"os"
	"path"
	"path/filepath"
	"sort"
	"strings"
	"sync"
	"syscall"
	"testing"
	"testing/fstest"
	"time"

	"github.com/titpetric/vuego"
	"pgregory.net/rapid"

	"verif/internal/ev"
	"verif/internal/run"
)

const prop = "C18"

// Entry describes one path of one layer.
type Entry struct {
	Dir     bool   `json:"dir,omitempty"`
	Content string `json:"content,omitempty"`
	Mode    uint32 `json:"mode,omitempty"`
}

// Layer is a layer description; Nil means a nil fs.FS in the stack.
type Layer struct {
	Nil     bool             `json:"nil,omitempty"`
	Entries map[string]Entry `json:"entries,omitempty"`
	// Kind: "" = fstest.MapFS (implements Stat / ReadFile / ReadDir / Glob itself, answers a path
	// below a file with not-exist); "strict" = the same content behind an fs.FS that has ONLY
	// Open and answers a path below a file the way an operating system does: with a
	// "not a directory" error, which is not fs.ErrNotExist; "sub" = the content one directory
	// down in a bigger MapFS, reached through fs.Sub; "dirfs" = the content in a real directory
	// behind os.DirFS (OS error values, OS listing order, no Glob / ReadFile of its own).
	Kind string `json:"kind,omitempty"`
}

// strictFS exposes only Open and reports ENOTDIR for paths below a regular file.
type strictFS struct{ m fstest.MapFS }

func (s strictFS) Open(name string) (fs.File, error) {
	for d := path.Dir(name); d != "." && d != "/"; d = path.Dir(d) {
		if f, ok := s.m[d]; ok && !f.Mode.IsDir() {
			return nil, &fs.PathError{Op: "open", Path: name, Err: syscall.ENOTDIR}
		}
	}
	return s.m.Open(name)
}

// Case is a stack (upper first) plus the queries to run (empty = default set).
// With Nest > 0 the overlay is not built flat: the first Nest layers form a shared base overlay
// mid = NewOverlayFS(NewOverlayFS(l0, l1), l2, ...), from which TWO overlays are derived,
// x = NewOverlayFS(mid, rest...) and y = NewOverlayFS(mid, Alt...); mid, x and y must each
// behave like the flat stack of their layers (an overlay is itself an fs.FS layer).
type Case struct {
	Nest     int      `json:"nest,omitempty"`
	Alt      []Layer  `json:"alt,omitempty"`
	Stack    []Layer  `json:"stack"`
	Paths    []string `json:"paths,omitempty"`
	Patterns []string `json:"patterns,omitempty"`
	// Then: a later state of the same layers (same length, nil-ness and kind as Stack). The
	// layers' backing stores are changed IN PLACE after the first round of queries and the SAME
	// overlay value is queried again: every answer reflects the layers as they are at the call.
	Then []Layer `json:"then,omitempty"`
}

// (the last five are other spellings of names that exist in some layers: not valid fs.FS paths,
// so they are present in no layer)
var defaultPaths = []string{".", "a", "d", "d/x", "d/y", "e", "e/z", "nope", "d/nope", "a/nope", "./a", "d/", "/a", "d//x", "d/../a", "é", "Straße", "日本語", "日本語/二", "caf😀", "cafe"}

// (a run of stars is one star to path.Match: "**/x" means "*/x", exactly one directory level)
var defaultPatterns = []string{"*", "*/*", "d/*", "?", "[ad]*", "a", "d/x", "e/?", "nope*", "[", "*/x", "**", "**/*", "d/**", "**/x", "d**/*", ".*", "caf?", "Stra?e", "???", "?", "*/?", "日*", "[é日]*"}

// closure adds implied parent directories to a layer description.
func closure(l Layer) map[string]Entry {
	out := map[string]Entry{}
	for p, e := range l.Entries {
		out[p] = e
		for d := path.Dir(p); d != "."; d = path.Dir(d) {
			if _, ok := out[d]; !ok {
				out[d] = Entry{Dir: true}
			}
		}
	}
	for p, e := range out {
		// a parent must be a directory
		if d := path.Dir(p); d != "." {
			pe := out[d]
			pe.Dir = true
			pe.Content = ""
			out[d] = pe
		}
		_ = e
	}
	return out
}

func build(l Layer, idx int) fs.FS {
	if l.Nil {
		return nil
	}
	m := buildMap(l, idx)
	switch l.Kind {
	case "strict":
		return strictFS{m}
	case "sub":
		// the same content one directory down in a bigger file system, reached through fs.Sub
		big := fstest.MapFS{"other/readme": &fstest.MapFile{Data: []byte("outside")}, "root/in": &fstest.MapFile{Mode: fs.ModeDir | 0o755}}
		for p, f := range m {
			big["root/in/"+p] = f
		}
		sub, err := fs.Sub(big, "root/in")
		if err != nil {
			panic(err)
		}
		return sub
	case "dirfs":
		// the same content in a real directory (os.DirFS); removed by dirCleanup
		dir, err := os.MkdirTemp("", "verif-c18-")
		if err != nil {
			panic(err)
		}
		dirMu.Lock()
		dirs = append(dirs, dir)
		dirMu.Unlock()
		var names []string
		for p := range m {
			names = append(names, p)
		}
		sort.Strings(names)
		for _, p := range names {
			f := m[p]
			full := filepath.Join(dir, filepath.FromSlash(p))
			if f.Mode.IsDir() {
				_ = os.MkdirAll(full, 0o755)
				continue
			}
			_ = os.MkdirAll(filepath.Dir(full), 0o755)
			if err := os.WriteFile(full, f.Data, 0o644); err != nil {
				panic(err)
			}
			_ = os.Chmod(full, f.Mode.Perm()|0o400)
			_ = os.Chtimes(full, f.ModTime, f.ModTime)
		}
		return os.DirFS(dir)
	}
	return m
}

var dirMu sync.Mutex
var dirs []string

// dirCleanup removes the real directories made for "dirfs" layers so far.
func dirCleanup() {
	dirMu.Lock()
	for _, d := range dirs {
		_ = os.RemoveAll(d)
	}
	dirs = nil
	dirMu.Unlock()
}

func buildMap(l Layer, idx int) fstest.MapFS {
	m := fstest.MapFS{}
	for p, e := range closure(l) {
		mt := time.Unix(int64(1000*(idx+1)+len(p)), 0)
		if e.Dir {
			m[p] = &fstest.MapFile{Mode: fs.ModeDir | 0o755, ModTime: mt}
		} else {
			mode := fs.FileMode(e.Mode)
			if mode == 0 {
				mode = 0o644
			}
			m[p] = &fstest.MapFile{Data: []byte(e.Content), Mode: mode, ModTime: mt}
		}
	}
	return m
}

type have struct {
	layer int
	e     Entry
}

// first returns the first non-nil layer that has p ("." is had by every non-nil layer).
func first(cl []map[string]Entry, nils []bool, p string) (have, bool) {
	for i := range cl {
		if nils[i] {
			continue
		}
		if p == "." {
			return have{i, Entry{Dir: true}}, true
		}
		if e, ok := cl[i][p]; ok {
			return have{i, e}, true
		}
	}
	return have{}, false
}

func children(m map[string]Entry, dir string) map[string]Entry {
	out := map[string]Entry{}
	for p, e := range m {
		if path.Dir(p) == dir || (dir == "." && !strings.Contains(p, "/")) {
			if dir == "." && strings.Contains(p, "/") {
				continue
			}
			out[path.Base(p)] = e
		}
	}
	return out
}

func check(c Case) error {
	defer dirCleanup()
	if len(c.Then) > 0 {
		return checkMutate(c)
	}
	if c.Nest > 0 {
		return checkNested(c)
	}
	return checkStack(c, nil)
}

// checkMutate queries one overlay before and after its layers change underneath it.
func checkMutate(c Case) error {
	if len(c.Then) != len(c.Stack) {
		return nil
	}
	maps := make([]fstest.MapFS, len(c.Stack))
	fss := make([]fs.FS, len(c.Stack))
	then := make([]Layer, len(c.Stack))
	for i, l := range c.Stack {
		then[i] = c.Then[i]
		then[i].Nil, then[i].Kind = l.Nil, l.Kind
		if l.Nil {
			continue
		}
		maps[i] = buildMap(l, i)
		fss[i] = maps[i]
		if l.Kind == "strict" {
			fss[i] = strictFS{maps[i]}
		}
	}
	o := vuego.NewOverlayFS(fss[0], fss[1:]...)
	if err := checkStack(Case{Stack: c.Stack, Paths: c.Paths, Patterns: c.Patterns}, o); err != nil {
		return fmt.Errorf("first state: %w", err)
	}
	for i, l := range then {
		if l.Nil {
			continue
		}
		clear(maps[i])
		for p, f := range buildMap(l, i) {
			maps[i][p] = f
		}
	}
	if err := checkStack(Case{Stack: then, Paths: c.Paths, Patterns: c.Patterns}, o); err != nil {
		return fmt.Errorf("same overlay queried again after its layers changed in place: %w", err)
	}
	return nil
}

// checkNested builds mid / x / y by nesting and checks each against the flat model.
func checkNested(c Case) error {
	n := c.Nest
	if n > len(c.Stack) {
		n = len(c.Stack)
	}
	if n < 1 || c.Stack[0].Nil {
		// an inner overlay made only of nil layers answers ReadDir with ([], nil) for every
		// name (pinned by the repository's own suite), which then reads as an existing empty
		// directory one level up: not asserted
		return nil
	}
	fss := make([]fs.FS, len(c.Stack))
	for i, l := range c.Stack {
		fss[i] = build(l, i)
	}
	alt := make([]fs.FS, len(c.Alt))
	for i, l := range c.Alt {
		alt[i] = build(l, n+i)
	}
	// left-nested base: ((l0 over l1) over l2) ...
	var mid fs.FS = vuego.NewOverlayFS(fss[0])
	for i := 1; i < n; i++ {
		mid = vuego.NewOverlayFS(mid, fss[i])
	}
	x := vuego.NewOverlayFS(mid, fss[n:]...)
	y := vuego.NewOverlayFS(mid, alt...)
	if err := checkStack(Case{Stack: c.Stack, Paths: c.Paths, Patterns: c.Patterns}, x); err != nil {
		return fmt.Errorf("overlay x = NewOverlayFS(mid, rest...) (after y was derived from the same mid): %w", err)
	}
	yl := append(append([]Layer(nil), c.Stack[:n]...), c.Alt...)
	if err := checkStack(Case{Stack: yl, Paths: c.Paths, Patterns: c.Patterns}, y); err != nil {
		return fmt.Errorf("overlay y = NewOverlayFS(mid, alt...): %w", err)
	}
	if m, ok := mid.(*vuego.OverlayFS); ok {
		if err := checkStack(Case{Stack: c.Stack[:n], Paths: c.Paths, Patterns: c.Patterns}, m); err != nil {
			return fmt.Errorf("shared base overlay mid after deriving x and y: %w", err)
		}
	}
	return nil
}

// checkStack compares overlay o (built flat from c.Stack when nil) with the union model.
func checkStack(c Case, o *vuego.OverlayFS) error {
	if len(c.Stack) == 0 {
		return nil
	}
	cl := make([]map[string]Entry, len(c.Stack))
	nils := make([]bool, len(c.Stack))
	fss := make([]fs.FS, len(c.Stack))
	allNil := true
	for i, l := range c.Stack {
		nils[i] = l.Nil
		cl[i] = closure(l)
		fss[i] = build(l, i)
		if !l.Nil {
			allNil = false
		}
	}
	if o == nil {
		if len(fss) == 1 {
			o = vuego.NewOverlayFS(fss[0])
		} else {
			o = vuego.NewOverlayFS(fss[0], fss[1:]...)
		}
	}
	paths := c.Paths
	if len(paths) == 0 {
		paths = defaultPaths
	}
	patterns := c.Patterns
	if len(patterns) == 0 {
		patterns = defaultPatterns
	}
	for _, p := range paths {
		h, ok := first(cl, nils, p)
		// --- Stat / Open
		info, err := fs.Stat(o, p)
		if !ok {
			if err == nil {
				return fmt.Errorf("Stat(%q): path is in no layer but Stat succeeded", p)
			}
			if !errors.Is(err, fs.ErrNotExist) {
				return fmt.Errorf("Stat(%q): path is in no layer, want not-exist, got %v", p, err)
			}
		} else {
			if err != nil {
				return fmt.Errorf("Stat(%q): layer %d has it, got error %v", p, h.layer, err)
			}
			if info.IsDir() != h.e.Dir {
				return fmt.Errorf("Stat(%q).IsDir=%v, but first layer having it (%d) says dir=%v", p, info.IsDir(), h.layer, h.e.Dir)
			}
			if !h.e.Dir {
				if info.Size() != int64(len(h.e.Content)) {
					return fmt.Errorf("Stat(%q).Size=%d want %d from layer %d", p, info.Size(), len(h.e.Content), h.layer)
				}
				wantMode := fs.FileMode(h.e.Mode)
				if wantMode == 0 {
					wantMode = 0o644
				}
				if info.Mode().Perm() != wantMode.Perm() {
					return fmt.Errorf("Stat(%q).Mode=%v want %v from layer %d", p, info.Mode(), wantMode, h.layer)
				}
				if p != "." {
					wantMT := time.Unix(int64(1000*(h.layer+1)+len(p)), 0)
					if !info.ModTime().Equal(wantMT) {
						return fmt.Errorf("Stat(%q).ModTime=%v want %v (layer %d)", p, info.ModTime().Unix(), wantMT.Unix(), h.layer)
					}
				}
			}
		}
		// --- ReadFile
		data, err := fs.ReadFile(o, p)
		switch {
		case !ok:
			if err == nil || !errors.Is(err, fs.ErrNotExist) {
				return fmt.Errorf("ReadFile(%q): path is in no layer, want not-exist, got %q,%v", p, data, err)
			}
		case h.e.Dir:
			if err == nil {
				return fmt.Errorf("ReadFile(%q): first layer having it (%d) has a directory, but got content %q", p, h.layer, data)
			}
		default:
			if err != nil {
				return fmt.Errorf("ReadFile(%q): layer %d has a file, got error %v", p, h.layer, err)
			}
			if string(data) != h.e.Content {
				return fmt.Errorf("ReadFile(%q)=%q want %q from layer %d", p, data, h.e.Content, h.layer)
			}
		}
		// --- ReadDir: union of the listings of the layers in which p is a directory
		want := map[string]bool{} // name -> isDir
		anyDir := false
		for i := range cl {
			if nils[i] {
				continue
			}
			isDir := p == "."
			if e, has := cl[i][p]; has && e.Dir {
				isDir = true
			}
			if !isDir {
				continue
			}
			anyDir = true
			for name, e := range children(cl[i], p) {
				if _, dup := want[name]; !dup {
					want[name] = e.Dir
				}
			}
		}
		ents, err := fs.ReadDir(o, p)
		switch {
		case allNil:
			// pinned by the repository's suite ([] , nil for "."); not asserted
		case !ok:
			if err == nil || !errors.Is(err, fs.ErrNotExist) {
				return fmt.Errorf("ReadDir(%q): path is in no layer, want not-exist, got %d entries, err=%v", p, len(ents), err)
			}
		case !anyDir:
			if err == nil {
				return fmt.Errorf("ReadDir(%q): no layer has it as a directory, but listing succeeded with %d entries", p, len(ents))
			}
		default:
			if err != nil {
				return fmt.Errorf("ReadDir(%q): a layer has this directory (expected %d entries), got error %v", p, len(want), err)
			}
			var names []string
			for _, e := range ents {
				names = append(names, e.Name())
			}
			if !sort.StringsAreSorted(names) {
				return fmt.Errorf("ReadDir(%q) not sorted by name: %v", p, names)
			}
			if len(ents) != len(want) {
				return fmt.Errorf("ReadDir(%q)=%v want the union %v", p, names, keys(want))
			}
			for _, e := range ents {
				d, has := want[e.Name()]
				if !has {
					return fmt.Errorf("ReadDir(%q) lists %q which no layer has; want %v", p, e.Name(), keys(want))
				}
				if e.IsDir() != d {
					return fmt.Errorf("ReadDir(%q): entry %q IsDir=%v, but the uppermost layer listing it says %v", p, e.Name(), e.IsDir(), d)
				}
			}
		}
	}
	// --- Glob
	for _, pat := range patterns {
		got, err := fs.Glob(o, pat)
		if _, bad := path.Match(pat, ""); bad != nil {
			continue // malformed pattern: result unspecified, only "returns"
		}
		if err != nil {
			return fmt.Errorf("Glob(%q): error %v", pat, err)
		}
		wantSet := map[string]bool{}
		for i := range cl {
			if nils[i] {
				continue
			}
			for p := range cl[i] {
				if m, _ := path.Match(pat, p); m {
					wantSet[p] = true
				}
			}
		}
		want := keysB(wantSet)
		if !sort.StringsAreSorted(got) {
			return fmt.Errorf("Glob(%q) not sorted: %v", pat, got)
		}
		if strings.Join(got, "\x00") != strings.Join(want, "\x00") {
			return fmt.Errorf("Glob(%q)=%v want %v", pat, got, want)
		}
	}
	if allNil {
		return nil
	}
	// --- other doors to the same content: Open + the file's own methods, fs.Sub, fs.WalkDir
	for _, p := range paths {
		h, ok := first(cl, nils, p)
		f, err := o.Open(p)
		if !ok {
			if err == nil {
				_ = f.Close()
				return fmt.Errorf("Open(%q): path is in no layer but Open succeeded", p)
			}
			if !errors.Is(err, fs.ErrNotExist) {
				return fmt.Errorf("Open(%q): path is in no layer, want not-exist, got %v", p, err)
			}
		} else {
			if err != nil {
				return fmt.Errorf("Open(%q): layer %d has it, got error %v", p, h.layer, err)
			}
			st, serr := f.Stat()
			if serr != nil {
				_ = f.Close()
				return fmt.Errorf("Open(%q).Stat(): %v", p, serr)
			}
			if st.IsDir() != h.e.Dir {
				_ = f.Close()
				return fmt.Errorf("Open(%q).Stat().IsDir=%v, but the first layer having it (%d) says dir=%v", p, st.IsDir(), h.layer, h.e.Dir)
			}
			if !h.e.Dir {
				data, rerr := io.ReadAll(f)
				if rerr != nil || string(data) != h.e.Content {
					_ = f.Close()
					return fmt.Errorf("Open(%q) + ReadAll = %q, %v; want %q from layer %d", p, data, rerr, h.e.Content, h.layer)
				}
				if st.Size() != int64(len(h.e.Content)) {
					_ = f.Close()
					return fmt.Errorf("Open(%q).Stat().Size=%d want %d from layer %d", p, st.Size(), len(h.e.Content), h.layer)
				}
			}
			_ = f.Close()
		}
		// a file below a directory, reached through fs.Sub of the overlay
		if i := strings.LastIndex(p, "/"); i > 0 && fs.ValidPath(p) {
			sub, err := fs.Sub(o, p[:i])
			if err != nil {
				return fmt.Errorf("fs.Sub(overlay, %q): %v", p[:i], err)
			}
			data, err := fs.ReadFile(sub, p[i+1:])
			switch {
			case !ok:
				if err == nil || !errors.Is(err, fs.ErrNotExist) {
					return fmt.Errorf("ReadFile(fs.Sub(overlay, %q), %q): path is in no layer, want not-exist, got %q,%v", p[:i], p[i+1:], data, err)
				}
			case h.e.Dir:
				if err == nil {
					return fmt.Errorf("ReadFile(fs.Sub(overlay, %q), %q): a directory in layer %d, but got content %q", p[:i], p[i+1:], h.layer, data)
				}
			default:
				if err != nil || string(data) != h.e.Content {
					return fmt.Errorf("ReadFile(fs.Sub(overlay, %q), %q) = %q, %v; want %q from layer %d", p[:i], p[i+1:], data, err, h.e.Content, h.layer)
				}
			}
		}
	}
	// fs.WalkDir over the overlay visits exactly what the union model has: the listing of a
	// directory is the union over the layers in which it is a directory, and whether an entry
	// is descended into is decided by the uppermost layer that lists it
	var wantWalk []string
	var walk func(p string, dir bool)
	walk = func(p string, dir bool) {
		wantWalk = append(wantWalk, p)
		if !dir {
			return
		}
		union := map[string]bool{}
		for i := range cl {
			if nils[i] {
				continue
			}
			if e, has := cl[i][p]; p != "." && !(has && e.Dir) {
				continue
			}
			for name, e := range children(cl[i], p) {
				if _, dup := union[name]; !dup {
					union[name] = e.Dir
				}
			}
		}
		for _, name := range keysB(union) {
			walk(path.Join(p, name), union[name])
		}
	}
	walk(".", true)
	var gotWalk []string
	werr := fs.WalkDir(o, ".", func(p string, d fs.DirEntry, err error) error {
		if err != nil {
			return fmt.Errorf("at %q: %w", p, err)
		}
		gotWalk = append(gotWalk, p)
		return nil
	})
	if werr != nil {
		return fmt.Errorf("fs.WalkDir(overlay, \".\"): %v (the union model walks %v)", werr, wantWalk)
	}
	if strings.Join(gotWalk, "\x00") != strings.Join(wantWalk, "\x00") {
		return fmt.Errorf("fs.WalkDir(overlay, \".\") visited %v, the union model %v", gotWalk, wantWalk)
	}
	return nil
}

func keys(m map[string]bool) []string { return keysB(m) }
func keysB(m map[string]bool) []string {
	out := make([]string, 0, len(m))
	for k := range m {
		out = append(out, k)
	}
	sort.Strings(out)
	return out
}

func classify(c Case) (bool, []string) {
	var cls []string
	cl := make([]map[string]Entry, 0)
	nilN := 0
	for _, l := range c.Stack {
		if l.Nil {
			nilN++
			continue
		}
		cl = append(cl, closure(l))
	}
	for _, l := range c.Stack {
		if l.Kind == "strict" {
			cls = append(cls, "open-only-layer-with-ENOTDIR")
			break
		}
	}
	for _, l := range c.Stack {
		if l.Kind == "sub" || l.Kind == "dirfs" {
			cls = append(cls, "layer-kind-"+l.Kind)
			break
		}
	}
	if nilN > 0 {
		cls = append(cls, "has-nil-layer")
	}
	if len(cl) == 0 {
		cls = append(cls, "all-nil")
	}
	nt := false
	shadowKinds := false
	for i := 0; i < len(cl); i++ {
		for j := i + 1; j < len(cl); j++ {
			for p, e := range cl[i] {
				if f, ok := cl[j][p]; ok && (e.Dir != f.Dir || e.Content != f.Content) {
					nt = true
					if e.Dir != f.Dir {
						shadowKinds = true
					}
				}
			}
		}
	}
	for _, m := range cl {
		for p, e := range m {
			if e.Dir && len(children(m, p)) == 0 {
				cls = append(cls, "has-empty-dir")
				break
			}
		}
	}
	if nt {
		cls = append(cls, "shadowing")
	}
	if shadowKinds {
		cls = append(cls, "file-vs-dir-shadowing")
	}
	cls = append(cls, fmt.Sprintf("layers=%d", len(c.Stack)))
	if c.Nest > 0 {
		cls = append(cls, fmt.Sprintf("nested-base=%d", c.Nest), "two-overlays-derived-from-one-base")
	}
	if len(c.Then) > 0 {
		cls = append(cls, "layers-change-between-queries")
	}
	return nt, cls
}

// layerChoices enumerates every consistent layer over the small universe.
func layerChoices(idx int) []Layer {
	tag := fmt.Sprintf("L%d", idx)
	type opt = map[string]Entry
	aOpts := []opt{{}, {"a": {Content: tag + "a", Mode: 0o600 + uint32(idx)}}, {"a": {Dir: true}}}
	leaf := func(p string) []opt {
		return []opt{{}, {p: {Content: tag + p}}, {p: {Dir: true}}}
	}
	var dOpts []opt
	dOpts = append(dOpts, opt{}, opt{"d": {Content: tag + "d"}}, opt{"d": {Dir: true}})
	for _, x := range leaf("d/x") {
		for _, y := range leaf("d/y") {
			if len(x) == 0 && len(y) == 0 {
				continue
			}
			m := opt{}
			for k, v := range x {
				m[k] = v
			}
			for k, v := range y {
				m[k] = v
			}
			dOpts = append(dOpts, m)
		}
	}
	eOpts := []opt{{}, {"e/z": {Content: tag + "z"}}, {"e": {Dir: true}}}
	var out []Layer
	out = append(out, Layer{Nil: true})
	for _, a := range aOpts {
		for _, d := range dOpts {
			for _, e := range eOpts {
				m := map[string]Entry{}
				for _, o := range []opt{a, d, e} {
					for k, v := range o {
						m[k] = v
					}
				}
				out = append(out, Layer{Entries: m})
			}
		}
	}
	return out
}

func genLayer(t *rapid.T, idx int) Layer {
	if rapid.IntRange(0, 9).Draw(t, "nil") == 0 {
		return Layer{Nil: true}
	}
	// (names that differ only in case are different names; dots, blanks and unicode are ordinary)
	universe := []string{".a", ".d/x", "a", "b", "d", "d/x", "d/y", "d/s", "d/s/t", "e", "e/z", "d-b", "d-b/x", "d.o", "d.o/x", "A", "D", "D/x", "d/X", "e/Z", "a b", "é", "d/é.x", "Straße", "Ärzte/ß", "日本語", "日本語/二", "caf😀", "e\u0301"}
	m := map[string]Entry{}
	blocked := map[string]bool{}
	for _, p := range universe {
		if blocked[path.Dir(p)] || blocked[path.Dir(path.Dir(p))] {
			continue
		}
		switch rapid.IntRange(0, 3).Draw(t, "k"+p) {
		case 0, 1: // absent
		case 2:
			content := rapid.StringMatching(`[a-z]{0,3}`).Draw(t, "c"+p) + fmt.Sprint(idx)
			// boundary sizes (round 16): a file of exactly 0 bytes is still a file the layer HAS (empty is
			// not absent); contents around the block sizes readers and copiers work in
			switch rapid.IntRange(0, 7).Draw(t, "sz"+p) {
			case 0, 1:
				content = ""
			case 2:
				content = strings.Repeat(content+"-", rapid.SampledFrom([]int{4095, 4096, 4097, 32768, 65537}).Draw(t, "szn"+p)/(len(content)+1)+1)
			}
			m[p] = Entry{Content: content, Mode: uint32(rapid.SampledFrom([]int{0o644, 0o600, 0o755, 0o444}).Draw(t, "m"+p))}
			blocked[p] = true
		case 3:
			m[p] = Entry{Dir: true}
		}
	}
	return Layer{Entries: m, Kind: rapid.SampledFrom([]string{"", "", "strict", "sub", "dirfs"}).Draw(t, "kind")}
}

func replay(kind string, raw json.RawMessage) error {
	return run.Decode(raw, check)
}

func TestProp(t *testing.T) {
	rec := ev.New(prop)
	defer run.Finish(t, rec)
	run.Witnesses(rec, prop, replay)

	shard, shards := run.Shard()
	// exhaustive: all stacks of 1 and 2 layers (3 layers in the thorough tier)
	depth := run.Pick(2, 3)
	choices := make([][]Layer, depth)
	for i := range choices {
		choices[i] = layerChoices(i)
	}
	n := 0
	var enum func(prefix []Layer, d int) bool
	enum = func(prefix []Layer, d int) bool {
		if len(prefix) > 0 {
			n++
			if n%shards == shard {
				c := Case{Stack: append([]Layer(nil), prefix...)}
				if d == 3 {
					// three-layer stacks: a reduced query set keeps the full enumeration affordable
					c.Paths = []string{".", "a", "d", "d/x", "e", "nope"}
					c.Patterns = []string{"*", "*/*", "[ad]*"}
				}
				nt, cls := classify(c)
				if !run.Each(rec, "enum", c, nt, cls, check) {
					return false
				}
			}
		}
		if d == depth {
			return true
		}
		for _, l := range choices[d] {
			if !enum(append(prefix, l), d+1) {
				return false
			}
		}
		return true
	}
	if enum(nil, 0) {
		rec.Exhaustive(fmt.Sprintf("all stacks of 1..%d layers over the 5-path universe (%d stacks) x all queries", depth, n))
	}

	// exhaustive: file-over-directory and prefix-named sibling directories, layers of both kinds.
	// (a) a path below something that is a FILE in an upper layer and a directory in a lower
	// one, the upper layer answering "not a directory"; (b) directories whose name is a prefix
	// of a sibling's ("d", "d-b", "d.o": fs.Glob lists matches directory by directory, which is
	// not the lexical order of the full paths).
	if run.First() {
		var opts []Layer
		for _, kind := range []string{"", "strict"} {
			for mask := 0; mask < 16; mask++ {
				m := map[string]Entry{}
				if mask&1 != 0 {
					m["d/x"] = Entry{Content: "dx" + kind}
				}
				if mask&2 != 0 {
					m["d-b/x"] = Entry{Content: "dbx" + kind}
				}
				if mask&4 != 0 {
					m["d.o/x"] = Entry{Content: "dox" + kind}
				}
				if mask&8 != 0 {
					if mask&1 != 0 {
						continue
					}
					m["d"] = Entry{Content: "d-is-a-file" + kind}
				}
				opts = append(opts, Layer{Entries: m, Kind: kind})
			}
		}
		opts = append(opts, Layer{Nil: true})
		okP := true
		np := 0
		for _, up := range opts {
			for _, lo := range opts {
				if !okP {
					break
				}
				np++
				c := Case{Stack: []Layer{up, lo}, Paths: []string{".", "d", "d/x", "d-b", "d-b/x", "d.o/x", "d/x/deeper", "d/nope"}, Patterns: []string{"*", "*/x", "d*/x", "d*/*", "*/*", "d[-.]*/x"}}
				nt, cls := classify(c)
				if !run.Each(rec, "prefix-enum", c, nt || true, cls, check) {
					okP = false
				}
			}
		}
		if okP {
			rec.Exhaustive(fmt.Sprintf("all two-layer stacks over {d/x, d-b/x, d.o/x, d as a file} x layer kinds {MapFS, Open-only with ENOTDIR} (%d stacks)", np))
		}
	}

	// exhaustive: names that differ only in letter case, within a layer and across layers
	if run.First() {
		var opts []Layer
		for mask := 0; mask < 32; mask++ {
			m := map[string]Entry{}
			for bit, p := range []string{"c/Button", "c/button", "C/button", "c/BUTTON", "readme"} {
				if mask&(1<<bit) != 0 {
					m[p] = Entry{Content: fmt.Sprintf("%s-%d", p, mask)}
				}
			}
			opts = append(opts, Layer{Entries: m})
		}
		okC := true
		for ui, up := range opts {
			for li, lo := range opts {
				if !okC || (ui+li)%3 != 0 && !run.Thorough() {
					continue
				}
				c := Case{Stack: []Layer{up, lo}, Paths: []string{".", "c", "C", "c/Button", "c/button", "C/button", "c/BUTTON", "C/Button", "readme", "README"}, Patterns: []string{"*", "*/*", "c/*", "C/*", "[cC]/[bB]*", "c/[Bb]utton", "*/button", "*/B*"}}
				_, cls := classify(c)
				if !run.Each(rec, "case-enum", c, true, append(cls, "names-differing-only-in-case"), check) {
					okC = false
				}
			}
		}
	}

	// exhaustive: names beyond ASCII (continuation bytes in 0x80-0x9F, three- and four-byte
	// characters, a combining mark) present or absent per layer, queried by name and by ? patterns
	if run.First() {
		names := []string{"Straße", "Ärzte/ß", "日本語/二", "caf😀", "cafe", "e\u0301"}
		var opts []Layer
		for mask := 0; mask < 1<<len(names); mask++ {
			m := map[string]Entry{}
			for bit, p := range names {
				if mask&(1<<bit) != 0 {
					m[p] = Entry{Content: fmt.Sprintf("%s-%d", p, mask)}
				}
			}
			opts = append(opts, Layer{Entries: m, Kind: []string{"", "strict", "sub"}[mask%3]})
		}
		okU := true
		for ui, up := range opts {
			for li, lo := range opts {
				if !okU || (ui*7+li)%5 != 0 && !run.Thorough() {
					continue
				}
				c := Case{Stack: []Layer{up, lo}, Paths: []string{".", "Straße", "Strasse", "Ärzte", "Ärzte/ß", "日本語", "日本語/二", "caf😀", "cafe", "café", "e\u0301", "é"}, Patterns: []string{"*", "*/*", "caf?", "Stra?e", "Stra??e", "???", "?", "*/?", "日*", "[Ä日]*/*", "e?", "?\u0301"}}
				_, cls := classify(c)
				if !run.Each(rec, "unicode-enum", c, true, append(cls, "names-beyond-ascii"), check) {
					okU = false
				}
			}
		}
	}

	// layers changing underneath one overlay value: two-layer stacks, one layer replaced
	if run.First() {
		var up, lo []Layer
		for i, l := range layerChoices(0) {
			if !l.Nil && i%8 == 1 {
				up = append(up, l)
			}
		}
		for i, l := range layerChoices(1) {
			if !l.Nil && i%9 == 2 {
				lo = append(lo, l)
			}
		}
		okM := true
		nm := 0
		for _, u := range up {
			for _, l := range lo {
				for _, u2 := range up {
					for which := 0; which < 2 && okM; which++ {
						c := Case{Stack: []Layer{u, l}, Then: []Layer{u2, l}}
						if which == 1 {
							l2 := lo[(nm*5+3)%len(lo)]
							c.Then = []Layer{u, l2}
						}
						nm++
						_, cls := classify(c)
						if !run.Each(rec, "mutate-enum", c, true, cls, check) {
							okM = false
						}
					}
				}
			}
		}
	}
	run.Rapid(t, rec, "mutate", func(t *rapid.T) Case {
		n := rapid.IntRange(1, 3).Draw(t, "layers")
		c := Case{}
		for i := 0; i < n; i++ {
			c.Stack = append(c.Stack, genLayer(t, i))
			c.Then = append(c.Then, genLayer(t, i))
		}
		c.Paths = []string{".", "a", "b", "d", "d/x", "d/y", "d/s", "e", "e/z", "zz", "d-b/x"}
		c.Patterns = []string{"*", "*/*", "d/*", "d*/x"}
		return c
	}, func(c Case) (bool, []string) { _, cls := classify(c); return true, cls }, check)

	// nested construction: deterministic small cases + random
	if run.First() {
		ch := layerChoices(0)
		pick := func(i int) Layer { return ch[(i*37+11)%len(ch)] }
		k := 0
		for nest := 1; nest <= 3; nest++ {
			for rest := 0; rest <= 2; rest++ {
				for v := 0; v < 12; v++ {
					c := Case{Nest: nest}
					for i := 0; i < nest+rest; i++ {
						k++
						c.Stack = append(c.Stack, pick(k+v*5))
					}
					k++
					c.Alt = []Layer{pick(k + v*7)}
					nt, cls := classify(c)
					run.Each(rec, "nested-enum", c, nt || true, cls, check)
				}
			}
		}
	}
	run.Rapid(t, rec, "nested", genNested, func(c Case) (bool, []string) { _, cls := classify(c); return true, cls }, check)

	run.Rapid(t, rec, "random", func(t *rapid.T) Case {
		n := rapid.IntRange(1, 4).Draw(t, "layers")
		c := Case{}
		for i := 0; i < n; i++ {
			c.Stack = append(c.Stack, genLayer(t, i))
		}
		c.Paths = []string{".", "a", "b", "d", "d/x", "d/y", "d/s", "d/s/t", "e", "e/z", "zz", "d/zz", "d-b", "d-b/x", "d.o/x", "a/x", "d/x/deeper", "A", "D", "D/x", "d/X", "e/Z", "a b", "é", "d/é.x", "E"}
		c.Patterns = []string{"*", "*/*", "*/*/*", "d/*", "d/s/?", "[a-d]", "e*", "*/[xz]", "*/x", "d*/x", "d*/*", "d[-.]*/x", "[aA]", "[dD]/[xX]", "?/*", "* *", "*/?.x"}
		return c
	}, classify, check)
}

func genNested(t *rapid.T) Case {
	n := rapid.IntRange(2, 5).Draw(t, "layers")
	c := Case{}
	for i := 0; i < n; i++ {
		c.Stack = append(c.Stack, genLayer(t, i))
	}
	c.Nest = rapid.IntRange(1, n).Draw(t, "nest")
	k := rapid.IntRange(1, 2).Draw(t, "alt")
	for i := 0; i < k; i++ {
		c.Alt = append(c.Alt, genLayer(t, c.Nest+i))
	}
	c.Paths = []string{".", "a", "b", "d", "d/x", "d/y", "d/s", "d/s/t", "e", "e/z", "zz", "d/zz", "d-b/x", "d.o/x", "a/x"}
	c.Patterns = []string{"*", "*/*", "*/*/*", "d/*", "[a-d]", "e*", "*/x", "d*/*"}
	return c
}

func TestReplay(t *testing.T) { run.ReplayMain(t, prop, replay) }
