// Command driver implements /verif/check: build one property's test binary from /repo's
// working tree, run it (sharded by seed), merge the evidence parts and map the outcome to the
// exit codes of the interface: 0 held, 1 VIOLATION printed, 2 infrastructure/inconclusive.
package main

import (
	"bufio"
	"bytes"
	"context"
	"encoding/json"
	"fmt"
	"os"
	"os/exec"
	"path/filepath"
	"regexp"
	"sort"
	"strconv"
	"strings"
	"sync"
	"time"
)

type tierCfg struct {
	Shards  int
	Checks  int           // -rapid.checks per rapid property
	Timeout time.Duration // per process
	Fuzz    time.Duration // native fuzzing budget per fuzz target (thorough only)
}

type tierJSON struct {
	Shards   int `json:"shards"`
	Checks   int `json:"checks"`
	TimeoutS int `json:"timeout_s"`
	FuzzS    int `json:"fuzz_s"`
}

func (t tierJSON) cfg() tierCfg {
	return tierCfg{Shards: t.Shards, Checks: t.Checks, Timeout: time.Duration(t.TimeoutS) * time.Second, Fuzz: time.Duration(t.FuzzS) * time.Second}
}

type propCfg struct {
	Pkg      string
	Race     bool
	Crash    bool // a fatal crash of the test process is a violation (C11), attributed via the in-flight file
	Level    string
	Rule     string
	Quick    tierCfg
	Thorough tierCfg
	Fuzz     []string // native fuzz targets (thorough)
	Assume   []string
}

// cfg reads harness/<pkg>/prop.json (one file per property package, so that packages can be
// developed independently).
func cfg(id string) (propCfg, bool) {
	var c propCfg
	if !regexp.MustCompile(`^C[0-9]{2}$`).MatchString(id) {
		return c, false
	}
	c.Pkg = strings.ToLower(id)
	b, err := os.ReadFile(filepath.Join(verifRoot(), "harness", c.Pkg, "prop.json"))
	if err != nil {
		return c, false
	}
	var j struct {
		Race     bool     `json:"race"`
		Crash    bool     `json:"crash_is_violation"`
		Level    string   `json:"level"`
		Rule     string   `json:"rule"`
		Assume   []string `json:"assumptions"`
		Fuzz     []string `json:"fuzz_targets"`
		Quick    tierJSON `json:"quick"`
		Thorough tierJSON `json:"thorough"`
	}
	if err := json.Unmarshal(b, &j); err != nil {
		fmt.Printf("prop.json of %s: %v\n", id, err)
		return c, false
	}
	c.Race, c.Level, c.Rule, c.Assume, c.Fuzz = j.Race, j.Level, j.Rule, j.Assume, j.Fuzz
	c.Crash = j.Crash
	c.Quick, c.Thorough = j.Quick.cfg(), j.Thorough.cfg()
	if c.Level == "" {
		c.Level = "exploration"
	}
	if c.Quick.Shards == 0 {
		c.Quick.Shards = 1
	}
	if c.Quick.Timeout == 0 {
		c.Quick.Timeout = 4 * time.Minute
	}
	if c.Thorough.Shards == 0 {
		c.Thorough.Shards = 12
	}
	if c.Thorough.Timeout == 0 {
		c.Thorough.Timeout = 25 * time.Minute
	}
	return c, true
}

func verifRoot() string {
	if r := os.Getenv("VERIF_ROOT"); r != "" {
		return r
	}
	return "/verif"
}

func goEnv() []string {
	env := os.Environ()
	set := func(k, v string) {
		for i, e := range env {
			if strings.HasPrefix(e, k+"=") {
				env[i] = k + "=" + v
				return
			}
		}
		env = append(env, k+"="+v)
	}
	set("GOFLAGS", "-mod=mod")
	set("GOPROXY", "off")
	return env
}

func die2(format string, a ...any) {
	fmt.Printf("INCONCLUSIVE "+format+"\n", a...)
	os.Exit(2)
}

func main() {
	if len(os.Args) < 3 {
		fmt.Println("usage: check <Cxx> <quick|thorough> | check <Cxx> --replay <file>")
		os.Exit(2)
	}
	id := os.Args[1]
	c, ok := cfg(id)
	if !ok {
		die2("unknown property %s", id)
	}
	root := verifRoot()
	harness := filepath.Join(root, "harness")
	replayFile := ""
	tier := os.Args[2]
	if tier == "--replay" {
		if len(os.Args) < 4 {
			die2("--replay needs a file")
		}
		replayFile, _ = filepath.Abs(os.Args[3])
		tier = "quick"
	}
	if tier != "quick" && tier != "thorough" {
		die2("tier must be quick or thorough")
	}
	if t := os.Getenv("VERIF_TIER"); replayFile == "" && (t == "quick" || t == "thorough") && len(os.Args) == 2 {
		tier = t
	}
	seed := 1
	if s := os.Getenv("VERIF_SEED"); s != "" {
		if v, err := strconv.Atoi(s); err == nil {
			seed = v
		}
	}
	if seed < 0 {
		seed = -seed
	}
	start := time.Now()

	work, err := os.MkdirTemp("", "verif-"+id+"-")
	if err != nil {
		die2("mkdtemp: %v", err)
	}
	defer os.RemoveAll(work)

	// keep go.sum in step with /repo (the replace directive pulls vuego's requirements in)
	syncGoSum(harness)

	// build
	bin := filepath.Join(work, c.Pkg+".test")
	args := []string{"test", "-c", "-tags", "verif", "-vet=off", "-o", bin}
	if c.Race {
		args = append(args, "-race")
	}
	args = append(args, "./"+c.Pkg)
	cmd := exec.Command("go", args...)
	cmd.Dir = harness
	cmd.Env = goEnv()
	if out, err := cmd.CombinedOutput(); err != nil {
		fmt.Println(string(out))
		os.RemoveAll(work)
		die2("build of %s against /repo failed: %v", c.Pkg, err)
	}

	tc := c.Quick
	if tier == "thorough" {
		tc = c.Thorough
	}
	if replayFile != "" {
		tc.Shards = 1
	}
	type res struct {
		out      string
		err      error
		timedOut bool
		part     string
	}
	results := make([]res, tc.Shards)
	var wg sync.WaitGroup
	for sh := 0; sh < tc.Shards; sh++ {
		wg.Add(1)
		go func(sh int) {
			defer wg.Done()
			ctx, cancel := context.WithTimeout(context.Background(), tc.Timeout)
			defer cancel()
			part := filepath.Join(work, fmt.Sprintf("part-%d.json", sh))
			rseed := 1 + seed*1000 + sh // never 0 (rapid: 0 = random)
			runName := "^TestProp$"
			if replayFile != "" {
				runName = "^TestReplay$"
			}
			a := []string{
				"-test.run", runName, "-test.v", "-test.count=1",
				"-test.timeout", (tc.Timeout + 30*time.Second).String(),
				"-rapid.seed", strconv.Itoa(rseed), "-rapid.nofailfile",
				"-rapid.shrinktime", "20s",
			}
			if tc.Checks > 0 {
				a = append(a, "-rapid.checks", strconv.Itoa(tc.Checks))
			}
			cm := exec.CommandContext(ctx, bin, a...)
			shardDir := filepath.Join(work, fmt.Sprintf("wd-%d", sh))
			_ = os.MkdirAll(shardDir, 0o755)
			cm.Dir = shardDir
			cm.Env = append(goEnv(),
				"VERIF_TIER="+tier, "VERIF_SEED="+strconv.Itoa(seed),
				"VERIF_SHARD="+strconv.Itoa(sh), "VERIF_SHARDS="+strconv.Itoa(tc.Shards),
				"VERIF_PART="+part, "VERIF_ROOT="+root,
				"VERIF_REPLAY_DIR="+filepath.Join(root, "replays"),
				"VERIF_REPLAY_FILE="+replayFile,
				"VERIF_RACE_LOG="+filepath.Join(shardDir, "race"),
				"VERIF_INFLIGHT="+filepath.Join(shardDir, "inflight.json"),
				"GORACE=halt_on_error=0 log_path="+filepath.Join(shardDir, "race"),
			)
			var buf bytes.Buffer
			cm.Stdout = &buf
			cm.Stderr = &buf
			cm.WaitDelay = 5 * time.Second
			e := cm.Run()
			results[sh] = res{out: buf.String(), err: e, timedOut: ctx.Err() != nil, part: part}
		}(sh)
	}
	wg.Wait()

	violation := false
	crashed := 0
	trouble := ""
	seen := map[string]bool{}
	var detail []string
	for sh, r := range results {
		sc := bufio.NewScanner(strings.NewReader(r.out))
		sc.Buffer(make([]byte, 1<<20), 1<<26)
		hasViolation := false
		for sc.Scan() {
			line := strings.TrimSpace(sc.Text())
			switch {
			case strings.HasPrefix(line, "VIOLATION property="):
				hasViolation = true
				if !seen[line] {
					seen[line] = true
					fmt.Println(line)
				}
			case strings.HasPrefix(line, "KNOWN-FINDING:"), strings.HasPrefix(line, "REPLAY-PASS"), strings.HasPrefix(line, "FAILURE-DETAIL"):
				if !seen[line] {
					seen[line] = true
					fmt.Println(line)
				}
			}
		}
		if hasViolation {
			violation = true
			continue
		}
		if c.Crash && !r.timedOut && r.err != nil && (strings.Contains(r.out, "fatal error:") || strings.Contains(r.out, "goroutine stack exceeds") || strings.Contains(r.out, "\npanic: ") || strings.Contains(r.out, "SIGSEGV: segmentation violation") || strings.Contains(r.out, "unexpected fault address")) {
			// the process was killed by the runtime: the case in flight is the violation
			inflight := filepath.Join(work, fmt.Sprintf("wd-%d", sh), "inflight.json")
			if b, e := os.ReadFile(inflight); e == nil {
				dst := filepath.Join(root, "replays", fmt.Sprintf("%s-crash-%d-%d.json", id, seed, sh))
				_ = os.MkdirAll(filepath.Dir(dst), 0o755)
				_ = os.WriteFile(dst, b, 0o644)
				first := ""
				for _, l := range strings.Split(r.out, "\n") {
					if strings.Contains(l, "fatal error:") || strings.HasPrefix(l, "panic: ") || strings.HasPrefix(l, "SIGSEGV") || strings.Contains(l, "unexpected fault address") {
						first = strings.TrimSpace(l)
						break
					}
				}
				fmt.Printf("FAILURE-DETAIL property=%s kind=crash the test process died (%s) while rendering the case in flight\n", id, first)
				fmt.Printf("VIOLATION property=%s replay=%s\n", id, dst)
				violation = true
				crashed++
				continue
			}
		}
		if r.timedOut {
			trouble = fmt.Sprintf("shard %d exceeded its watchdog of %v (inconclusive)", sh, tc.Timeout)
			detail = append(detail, tail(r.out, 30))
		} else if r.err != nil {
			trouble = fmt.Sprintf("shard %d ended abnormally without a recorded violation: %v", sh, r.err)
			detail = append(detail, tail(r.out, 60))
		} else if m := regexp.MustCompile(`OK, passed (\d+) tests`).FindAllStringSubmatch(r.out, -1); tc.Checks > 0 && len(m) > 0 {
			for _, mm := range m {
				if n, _ := strconv.Atoi(mm[1]); n < tc.Checks && n < 100 && false {
					trouble = fmt.Sprintf("shard %d: rapid stopped early at %d of %d cases", sh, n, tc.Checks)
				}
			}
		}
	}

	// native fuzzing (thorough only, after the generated search; skipped when already violated)
	var fuzzNotes []string
	if tier == "thorough" && replayFile == "" && !violation && trouble == "" && len(c.Fuzz) > 0 && tc.Fuzz > 0 {
		v, notes, tr := runFuzz(harness, root, work, id, c, tc)
		fuzzNotes = notes
		if v {
			violation = true
		}
		if tr != "" {
			trouble = tr
		}
	}

	if replayFile == "" {
		var parts []string
		for _, r := range results {
			parts = append(parts, r.part)
		}
		if err := merge(root, id, tier, seed, c, parts, time.Since(start).Seconds(), violation, fuzzNotes, crashed); err != nil && !violation && trouble == "" {
			trouble = "evidence: " + err.Error()
		}
	}

	os.RemoveAll(work)
	switch {
	case violation:
		os.Exit(1)
	case trouble != "":
		for _, d := range detail {
			fmt.Println(d)
		}
		die2("%s", trouble)
	}
	fmt.Printf("OK property=%s tier=%s seed=%d wall=%.1fs\n", id, tier, seed, time.Since(start).Seconds())
}

func tail(s string, n int) string {
	lines := strings.Split(strings.TrimRight(s, "\n"), "\n")
	if len(lines) > n {
		lines = lines[len(lines)-n:]
	}
	return strings.Join(lines, "\n")
}

func syncGoSum(harness string) {
	repoSum, err := os.ReadFile("/repo/go.sum")
	if err != nil {
		return
	}
	cur, _ := os.ReadFile(filepath.Join(harness, "go.sum"))
	have := map[string]bool{}
	for _, l := range strings.Split(string(cur), "\n") {
		have[l] = true
	}
	var add []string
	for _, l := range strings.Split(string(repoSum), "\n") {
		if l != "" && !have[l] {
			add = append(add, l)
		}
	}
	if len(add) == 0 {
		return
	}
	f, err := os.OpenFile(filepath.Join(harness, "go.sum"), os.O_APPEND|os.O_WRONLY, 0o644)
	if err != nil {
		return
	}
	defer f.Close()
	for _, l := range add {
		fmt.Fprintln(f, l)
	}
}

// runFuzz runs each native fuzz target for the configured budget. A crasher is converted into
// a violation by the target itself (it prints the VIOLATION line via the recorder).
func runFuzz(harness, root, work, id string, c propCfg, tc tierCfg) (bool, []string, string) {
	var notes []string
	violation := false
	for _, target := range c.Fuzz {
		cacheDir := filepath.Join(work, "fuzzcache")
		ctx, cancel := context.WithTimeout(context.Background(), tc.Fuzz+3*time.Minute)
		cm := exec.CommandContext(ctx, "go", "test", "-tags", "verif", "-vet=off", "-run", "^$", "-fuzz", "^"+target+"$",
			"-fuzztime", tc.Fuzz.String(), "./"+c.Pkg, "-test.fuzzcachedir", cacheDir)
		cm.Dir = harness
		cm.Env = append(goEnv(), "VERIF_TIER=thorough", "VERIF_ROOT="+root, "VERIF_REPLAY_DIR="+filepath.Join(root, "replays"), "VERIF_FUZZ=1")
		out, err := cm.CombinedOutput()
		cancel()
		s := string(out)
		execs := ""
		if m := regexp.MustCompile(`execs: (\d+)`).FindAllStringSubmatch(s, -1); len(m) > 0 {
			execs = m[len(m)-1][1]
		}
		notes = append(notes, fmt.Sprintf("native fuzz %s for %v: execs=%s", target, tc.Fuzz, execs))
		for _, line := range strings.Split(s, "\n") {
			line = strings.TrimSpace(line)
			if strings.HasPrefix(line, "VIOLATION property=") || strings.HasPrefix(line, "FAILURE-DETAIL") {
				fmt.Println(line)
				if strings.HasPrefix(line, "VIOLATION") {
					violation = true
				}
			}
		}
		if err != nil && !violation {
			// a crasher without our line: keep the go-fuzz corpus file as replay
			if m := regexp.MustCompile(`Failing input written to (\S+)`).FindStringSubmatch(s); m != nil {
				src := filepath.Join(harness, c.Pkg, m[1])
				if !filepath.IsAbs(m[1]) {
					src = filepath.Join(harness, c.Pkg, m[1])
				} else {
					src = m[1]
				}
				dst := filepath.Join(root, "replays", fmt.Sprintf("%s-%s-%s", id, target, filepath.Base(src)))
				if b, e := os.ReadFile(src); e == nil {
					_ = os.WriteFile(dst, b, 0o644)
					_ = os.Remove(src)
				}
				fmt.Println(tail(s, 25))
				fmt.Printf("VIOLATION property=%s replay=%s\n", id, dst)
				violation = true
			} else {
				return violation, notes, fmt.Sprintf("fuzz target %s ended abnormally: %v\n%s", target, err, tail(s, 20))
			}
		}
		// remove anything the fuzzer left in the package's testdata
		_ = os.RemoveAll(filepath.Join(harness, c.Pkg, "testdata", "fuzz"))
	}
	return violation, notes, ""
}

type part struct {
	Evaluations int               `json:"evaluations"`
	Hashes      []uint64          `json:"hashes"`
	Classes     map[string]int    `json:"classes"`
	Excluded    map[string]int    `json:"excluded_by_known_finding"`
	Samples     []json.RawMessage `json:"samples"`
	Exhaustive  map[string]bool   `json:"exhaustive"`
	Notes       []string          `json:"notes"`
	Known       []string          `json:"known_findings_reproduced"`
	Failures    []json.RawMessage `json:"failures"`
	Replays     []string          `json:"replays"`
}

func merge(root, id, tier string, seed int, c propCfg, parts []string, wall float64, violation bool, fuzzNotes []string, crashed int) error {
	evals := 0
	hashes := map[uint64]struct{}{}
	classes := map[string]int{}
	excluded := map[string]int{}
	exh := map[string]bool{}
	var samples []json.RawMessage
	var notes, known, replays []string
	nviol := 0
	got := 0
	for _, p := range parts {
		b, err := os.ReadFile(p)
		if err != nil {
			continue
		}
		var pt part
		if err := json.Unmarshal(b, &pt); err != nil {
			continue
		}
		got++
		evals += pt.Evaluations
		for _, h := range pt.Hashes {
			hashes[h] = struct{}{}
		}
		for k, v := range pt.Classes {
			classes[k] += v
		}
		for k, v := range pt.Excluded {
			excluded[k] += v
		}
		for k, v := range pt.Exhaustive {
			if v {
				exh[k] = true
			}
		}
		if len(samples) < 8 {
			for _, s := range pt.Samples {
				if len(samples) < 8 {
					samples = append(samples, s)
				}
			}
		}
		notes = append(notes, pt.Notes...)
		known = append(known, pt.Known...)
		replays = append(replays, pt.Replays...)
		nviol += len(pt.Failures)
	}
	nviol += crashed
	if got == 0 && crashed == 0 {
		return fmt.Errorf("no evidence part was written")
	}
	notes = append(notes, fuzzNotes...)
	var exhNames []string
	for k := range exh {
		exhNames = append(exhNames, k)
	}
	sort.Strings(exhNames)
	cov := map[string]any{
		"evaluations":               evals,
		"distinct_nontrivial":       len(hashes),
		"rule":                      c.Rule,
		"samples":                   samples,
		"classes":                   classes,
		"excluded_by_known_finding": excluded,
		"exhaustive_enumerations":   exhNames,
		"exhaustive":                false,
		"known_findings_reproduced": known,
		"notes":                     notes,
		"shards":                    got,
	}
	if len(replays) > 0 {
		cov["replays"] = replays
	}
	evd := map[string]any{
		"property_id": id,
		"tier":        tier,
		"seed":        seed,
		"level":       c.Level,
		"coverage":    cov,
		"assumptions": c.Assume,
		"wall_s":      wall,
		"violations":  nviol,
	}
	b, _ := json.MarshalIndent(evd, "", " ")
	dir := filepath.Join(root, "evidence")
	_ = os.MkdirAll(dir, 0o755)
	return os.WriteFile(filepath.Join(dir, id+".json"), b, 0o644)
}
