package main

import "time"

var _ = time.Second

// props configures every claimed property: package, tiers, evidence rule text.
var props = map[string]propCfg{
	"C18": {
		Rule:     "exhaustive enumeration of overlay stacks (per layer, per path of the universe {a,d,d/x,d/y,e/z}: absent/file/dir, plus nil layers) x every query (ReadFile, Stat, ReadDir of each path and '.', Glob of a pattern list); random deeper stacks with rapid. Non-trivial = some path is present in >= 2 non-nil layers with different kind or content; distinct = distinct stack description.",
		Quick:    tierCfg{Shards: 1, Checks: 300},
		Thorough: tierCfg{Shards: 8, Checks: 20000},
		Assume:   []string{"testing/fstest.MapFS and the check's own in-memory FS implement io/fs correctly", "reference union model is computed from the layer descriptions, not from vuego code"},
	},
}
