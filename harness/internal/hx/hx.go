// Package hx is the HTML oracle: it parses bytes with the HTML5 parser (golang.org/x/net/html,
// trusted base), reduces the result to a normal form that ignores what the properties call
// insignificant (comments, whitespace-only text, whitespace at the ends of text runs, attribute
// order) and compares / projects it.
package hx

import (
	"fmt"
	"sort"
	"strings"

	"golang.org/x/net/html"
	"golang.org/x/net/html/atom"
)

// N is a normalised node: element (Tag != ""), text (Tag == "" && !Doctype) or doctype.
type N struct {
	Tag     string            `json:"tag,omitempty"`
	Attrs   map[string]string `json:"attrs,omitempty"`
	Text    string            `json:"text,omitempty"`
	Doctype bool              `json:"doctype,omitempty"`
	Kids    []*N              `json:"kids,omitempty"`
}

// Mode selects how text is normalised.
type Mode int

const (
	// Collapse: whitespace runs become one space, ends trimmed, empty runs dropped
	// (exact inside pre/textarea/script/style).
	Collapse Mode = iota
	// Strip: all whitespace removed from text outside raw elements.
	Strip
)

var rawText = map[string]bool{"pre": true, "textarea": true, "script": true, "style": true, "xmp": true}

// Both parsers run with scripting disabled, one of the two configurations an HTML5 user agent
// can be in: the content of <noscript> is then markup (elements), not one raw text run, which
// is the reading under which it matters to a reader of the page.

// ParseFragment parses s as the content of a <body>.
func ParseFragment(s string) ([]*html.Node, error) {
	body := &html.Node{Type: html.ElementNode, Data: "body", DataAtom: atom.Body}
	return html.ParseFragmentWithOptions(strings.NewReader(s), body, html.ParseOptionEnableScripting(false))
}

// ParseDoc parses s as a full document and returns the document node's children.
func ParseDoc(s string) ([]*html.Node, error) {
	doc, err := html.ParseWithOptions(strings.NewReader(s), html.ParseOptionEnableScripting(false))
	if err != nil {
		return nil, err
	}
	var out []*html.Node
	for c := doc.FirstChild; c != nil; c = c.NextSibling {
		out = append(out, c)
	}
	return out, nil
}

// Frag parses and normalises a fragment.
func Frag(s string, m Mode) ([]*N, error) {
	ns, err := ParseFragment(s)
	if err != nil {
		return nil, err
	}
	return Norm(ns, m, false), nil
}

// Doc parses and normalises a document.
func Doc(s string, m Mode) ([]*N, error) {
	ns, err := ParseDoc(s)
	if err != nil {
		return nil, err
	}
	return Norm(ns, m, false), nil
}

func normText(s string, m Mode, raw bool) string {
	if raw {
		return s
	}
	// HTML whitespace only (space, tab, LF, FF, CR): a no-break space and other Unicode spaces
	// are content
	f := strings.FieldsFunc(s, func(r rune) bool { return r == ' ' || r == '\t' || r == '\n' || r == '\f' || r == '\r' })
	if m == Strip {
		return strings.Join(f, "")
	}
	return strings.Join(f, " ")
}

// Norm normalises a sibling list.
func Norm(nodes []*html.Node, m Mode, raw bool) []*N {
	var out []*N
	var pending strings.Builder
	hasPending := false
	flush := func() {
		if !hasPending {
			return
		}
		t := normText(pending.String(), m, raw)
		pending.Reset()
		hasPending = false
		if t == "" {
			return
		}
		out = append(out, &N{Text: t})
	}
	for _, n := range nodes {
		switch n.Type {
		case html.TextNode:
			pending.WriteString(n.Data)
			if m == Collapse && !raw {
				// keep a boundary so "a<!-- -->b" and "a b" stay distinguishable only by spacing
			}
			hasPending = true
		case html.CommentNode:
			// ignored; adjacent text merges
		case html.DoctypeNode:
			flush()
			d := &N{Doctype: true, Text: strings.ToLower(n.Data)}
			for _, a := range n.Attr {
				// public / system identifiers of a legacy doctype
				if d.Attrs == nil {
					d.Attrs = map[string]string{}
				}
				d.Attrs[a.Key] = a.Val
			}
			out = append(out, d)
		case html.ElementNode:
			flush()
			e := &N{Tag: n.Data}
			if len(n.Attr) > 0 {
				e.Attrs = map[string]string{}
				for _, a := range n.Attr {
					if _, dup := e.Attrs[a.Key]; !dup {
						e.Attrs[a.Key] = a.Val
					}
				}
			}
			var kids []*html.Node
			for c := n.FirstChild; c != nil; c = c.NextSibling {
				kids = append(kids, c)
			}
			if n.Data == "template" && n.FirstChild == nil {
				// x/net/html keeps template contents in a DocumentFragment child in some versions
			}
			e.Kids = Norm(kids, m, raw || rawText[n.Data])
			out = append(out, e)
		case html.DocumentNode:
			flush()
			var kids []*html.Node
			for c := n.FirstChild; c != nil; c = c.NextSibling {
				kids = append(kids, c)
			}
			out = append(out, Norm(kids, m, raw)...)
		}
	}
	flush()
	return out
}

// Options for comparison.
type Options struct {
	IgnoreAttrValues bool                             // compare attribute names only
	IgnoreText       bool                             // ignore text nodes entirely
	AttrEq           func(tag, key, a, b string) bool // nil = exact
}

// Diff returns "" when the two forests are equal, otherwise a description of the first
// difference (with its path).
func Diff(a, b []*N, o Options) string {
	return diffList(a, b, o, "")
}

func filterText(l []*N) []*N {
	var out []*N
	for _, n := range l {
		if n.Tag != "" || n.Doctype {
			out = append(out, n)
		}
	}
	return out
}

func diffList(a, b []*N, o Options, path string) string {
	if o.IgnoreText {
		a, b = filterText(a), filterText(b)
	}
	for i := 0; i < len(a) || i < len(b); i++ {
		if i >= len(a) {
			return fmt.Sprintf("%s: extra node on the right: %s", path, b[i].Brief())
		}
		if i >= len(b) {
			return fmt.Sprintf("%s: extra node on the left: %s", path, a[i].Brief())
		}
		x, y := a[i], b[i]
		p := fmt.Sprintf("%s/%d", path, i)
		if x.Tag != y.Tag || x.Doctype != y.Doctype {
			return fmt.Sprintf("%s: %s vs %s", p, x.Brief(), y.Brief())
		}
		if x.Doctype {
			if x.Text != y.Text || attrString(x.Attrs) != attrString(y.Attrs) {
				return fmt.Sprintf("%s: doctype %q%s vs %q%s", p, x.Text, attrString(x.Attrs), y.Text, attrString(y.Attrs))
			}
			continue
		}
		if x.Tag == "" {
			if x.Text != y.Text {
				return fmt.Sprintf("%s: text %q vs %q", p, x.Text, y.Text)
			}
			continue
		}
		p += "<" + x.Tag + ">"
		for k, v := range x.Attrs {
			w, ok := y.Attrs[k]
			if !ok {
				return fmt.Sprintf("%s: attribute %q only on the left (value %q)", p, k, v)
			}
			if !o.IgnoreAttrValues && v != w {
				if o.AttrEq == nil || !o.AttrEq(x.Tag, k, v, w) {
					return fmt.Sprintf("%s: attribute %q: %q vs %q", p, k, v, w)
				}
			}
		}
		for k, w := range y.Attrs {
			if _, ok := x.Attrs[k]; !ok {
				return fmt.Sprintf("%s: attribute %q only on the right (value %q)", p, k, w)
			}
		}
		if d := diffList(x.Kids, y.Kids, o, p); d != "" {
			return d
		}
	}
	return ""
}

// Brief renders a node for messages.
func (n *N) Brief() string {
	switch {
	case n.Doctype:
		return "<!doctype " + n.Text + ">"
	case n.Tag == "":
		return fmt.Sprintf("text %q", n.Text)
	}
	return "<" + n.Tag + attrString(n.Attrs) + ">"
}

func attrString(m map[string]string) string {
	keys := make([]string, 0, len(m))
	for k := range m {
		keys = append(keys, k)
	}
	sort.Strings(keys)
	var sb strings.Builder
	for _, k := range keys {
		fmt.Fprintf(&sb, " %s=%q", k, m[k])
	}
	return sb.String()
}

// Skeleton is the tags + attribute-name projection as a string (text and values dropped).
func Skeleton(l []*N) string {
	var sb strings.Builder
	var walk func([]*N)
	walk = func(l []*N) {
		for _, n := range l {
			if n.Doctype {
				sb.WriteString("<!doctype>")
				continue
			}
			if n.Tag == "" {
				continue
			}
			sb.WriteString("<" + n.Tag)
			keys := make([]string, 0, len(n.Attrs))
			for k := range n.Attrs {
				keys = append(keys, k)
			}
			sort.Strings(keys)
			for _, k := range keys {
				sb.WriteString(" " + k)
			}
			sb.WriteString(">")
			walk(n.Kids)
			sb.WriteString("</>")
		}
	}
	walk(l)
	return sb.String()
}

// String renders the full normal form for messages.
func String(l []*N) string {
	var sb strings.Builder
	var walk func([]*N)
	walk = func(l []*N) {
		for _, n := range l {
			switch {
			case n.Doctype:
				sb.WriteString("<!doctype " + n.Text + ">")
			case n.Tag == "":
				fmt.Fprintf(&sb, "%q", n.Text)
			default:
				sb.WriteString("<" + n.Tag + attrString(n.Attrs) + ">")
				walk(n.Kids)
				sb.WriteString("</" + n.Tag + ">")
			}
		}
	}
	walk(l)
	return sb.String()
}

// TextOf concatenates all text under the forest (normalised form), separated by sep.
func TextOf(l []*N, sep string) string {
	var parts []string
	var walk func([]*N)
	walk = func(l []*N) {
		for _, n := range l {
			if n.Tag == "" && !n.Doctype {
				parts = append(parts, n.Text)
			}
			walk(n.Kids)
		}
	}
	walk(l)
	return strings.Join(parts, sep)
}

// Find returns, in document order, every element for which pred holds.
func Find(l []*N, pred func(*N) bool) []*N {
	var out []*N
	var walk func([]*N)
	walk = func(l []*N) {
		for _, n := range l {
			if n.Tag != "" && pred(n) {
				out = append(out, n)
			}
			walk(n.Kids)
		}
	}
	walk(l)
	return out
}

// Marker is an element tagged data-m="id" together with the text directly inside it.
type Marker struct {
	ID    string
	Text  string // own text (direct text children), space-joined
	All   string // all text below, space-joined
	Attrs map[string]string
	Node  *N
}

// Markers lists the data-m elements in document order.
func Markers(l []*N) []Marker {
	var out []Marker
	for _, n := range Find(l, func(n *N) bool { _, ok := n.Attrs["data-m"]; return ok }) {
		var own []string
		for _, k := range n.Kids {
			if k.Tag == "" && !k.Doctype {
				own = append(own, k.Text)
			}
		}
		out = append(out, Marker{ID: n.Attrs["data-m"], Text: strings.Join(own, " "), All: TextOf(n.Kids, " "), Attrs: n.Attrs, Node: n})
	}
	return out
}

// MarkerIDs returns just the ids, in order.
func MarkerIDs(l []*N) []string {
	var ids []string
	for _, m := range Markers(l) {
		ids = append(ids, m.ID)
	}
	return ids
}

// Outline renders markers as "id[text](child outline)" — the nesting of marked elements.
func Outline(l []*N) string {
	var sb strings.Builder
	var walk func([]*N)
	walk = func(l []*N) {
		for _, n := range l {
			if n.Tag == "" {
				continue
			}
			if id, ok := n.Attrs["data-m"]; ok {
				sb.WriteString(id + "(")
				walk(n.Kids)
				sb.WriteString(")")
			} else {
				walk(n.Kids)
			}
		}
	}
	walk(l)
	return sb.String()
}
