// Package fw provides fault-injecting writers.
package fw

import "errors"

// ErrInjected is returned by FailAt once its quota is used up.
var ErrInjected = errors.New("injected write failure")

// FailAt accepts exactly K bytes in total, then fails every write (a short write first if a
// write straddles the limit). It records everything it accepted.
type FailAt struct {
	K      int
	Got    []byte
	Writes int
	Failed bool
}

func (w *FailAt) Write(p []byte) (int, error) {
	w.Writes++
	room := w.K - len(w.Got)
	if room <= 0 {
		w.Failed = true
		return 0, ErrInjected
	}
	if len(p) <= room {
		w.Got = append(w.Got, p...)
		return len(p), nil
	}
	w.Got = append(w.Got, p[:room]...)
	w.Failed = true
	return room, ErrInjected
}

// Sentinel is the panic value of Budget.
type Sentinel struct{ Limit int }

// Budget panics with Sentinel once more than Limit bytes were written: an output that never
// ends becomes a deterministic, recoverable event.
type Budget struct {
	Limit int
	N     int
}

func (b *Budget) Write(p []byte) (int, error) {
	b.N += len(p)
	if b.N > b.Limit {
		panic(Sentinel{b.Limit})
	}
	return len(p), nil
}

// Capture records bytes and the number of Write calls.
type Capture struct {
	Got    []byte
	Writes int
}

func (c *Capture) Write(p []byte) (int, error) {
	c.Writes++
	c.Got = append(c.Got, p...)
	return len(p), nil
}

// FailNth fails exactly the Nth Write call (0-based) and accepts every other one: a transient
// destination failure.
type FailNth struct {
	N      int
	Got    []byte
	Writes int
	Failed bool
}

func (w *FailNth) Write(p []byte) (int, error) {
	i := w.Writes
	w.Writes++
	if i == w.N {
		w.Failed = true
		return 0, ErrInjected
	}
	w.Got = append(w.Got, p...)
	return len(p), nil
}

// RefuseLarge refuses every single write larger than Max bytes (a message-size limit) and
// accepts smaller ones, also after a refusal.
type RefuseLarge struct {
	Max    int
	Got    []byte
	Writes int
	Failed bool
}

func (w *RefuseLarge) Write(p []byte) (int, error) {
	w.Writes++
	if len(p) > w.Max {
		w.Failed = true
		return 0, ErrInjected
	}
	w.Got = append(w.Got, p...)
	return len(p), nil
}
