// Package fw provides fault-injecting writers.
package fw

import (
	"context"
	"errors"
	"io"
	"net"
	"os"
	"syscall"
)

// ErrInjected is returned by FailAt once its quota is used up.
var ErrInjected = errors.New("injected write failure")

// FailAt accepts exactly K bytes in total, then fails every write (a short write first if a
// write straddles the limit). It records everything it accepted.
type FailAt struct {
	K      int
	Got    []byte
	Writes int
	Failed bool
	// Err is the error to fail with (nil = ErrInjected); see ErrKinds.
	Err error
}

func (w *FailAt) fail() error {
	if w.Err != nil {
		return w.Err
	}
	return ErrInjected
}

func (w *FailAt) Write(p []byte) (int, error) {
	w.Writes++
	room := w.K - len(w.Got)
	if room <= 0 {
		w.Failed = true
		return 0, w.fail()
	}
	if len(p) <= room {
		w.Got = append(w.Got, p...)
		return len(p), nil
	}
	w.Got = append(w.Got, p[:room]...)
	w.Failed = true
	return room, w.fail()
}

// ErrKinds are the identities a failing destination can report: an ordinary error, and the
// ones a vanished peer produces (closed pipe, EPIPE, ECONNRESET, bare and wrapped the way the
// net and os packages wrap them), plus io.EOF / io.ErrShortWrite, which code sometimes treats
// as "not really an error".
var ErrKinds = []string{"", "closedpipe", "epipe", "econnreset", "epipe-wrapped", "econnreset-wrapped", "eof", "shortwrite", "canceled"}

// ErrOf returns the error for a kind of ErrKinds.
func ErrOf(kind string) error {
	switch kind {
	case "closedpipe":
		return io.ErrClosedPipe
	case "epipe":
		return syscall.EPIPE
	case "econnreset":
		return syscall.ECONNRESET
	case "epipe-wrapped":
		return &os.SyscallError{Syscall: "write", Err: syscall.EPIPE}
	case "econnreset-wrapped":
		return &net.OpError{Op: "write", Net: "tcp", Err: &os.SyscallError{Syscall: "write", Err: syscall.ECONNRESET}}
	case "eof":
		return io.EOF
	case "shortwrite":
		return io.ErrShortWrite
	case "canceled":
		return context.Canceled
	}
	return ErrInjected
}

// Sentinel is the panic value of Budget.
type Sentinel struct{ Limit int }

// Budget panics with Sentinel once more than Limit bytes were written: an output that never
// ends becomes a deterministic, recoverable event.
type Budget struct {
	Limit int
	N     int
}

func (b *Budget) Write(p []byte) (int, error) {
	b.N += len(p)
	if b.N > b.Limit {
		panic(Sentinel{b.Limit})
	}
	return len(p), nil
}

// Capture records bytes and the number of Write calls.
type Capture struct {
	Got    []byte
	Writes int
}

func (c *Capture) Write(p []byte) (int, error) {
	c.Writes++
	c.Got = append(c.Got, p...)
	return len(p), nil
}

// FailNth fails exactly the Nth Write call (0-based) and accepts every other one: a transient
// destination failure.
type FailNth struct {
	N      int
	Got    []byte
	Writes int
	Failed bool
}

func (w *FailNth) Write(p []byte) (int, error) {
	i := w.Writes
	w.Writes++
	if i == w.N {
		w.Failed = true
		return 0, ErrInjected
	}
	w.Got = append(w.Got, p...)
	return len(p), nil
}

// RefuseLarge refuses every single write larger than Max bytes (a message-size limit) and
// accepts smaller ones, also after a refusal.
type RefuseLarge struct {
	Max    int
	Got    []byte
	Writes int
	Failed bool
}

func (w *RefuseLarge) Write(p []byte) (int, error) {
	w.Writes++
	if len(p) > w.Max {
		w.Failed = true
		return 0, ErrInjected
	}
	w.Got = append(w.Got, p...)
	return len(p), nil
}

// SW adds a WriteString method (io.StringWriter) to a writer: destinations such as *os.File,
// *bufio.Writer and most http.ResponseWriters have one, and io.WriteString prefers it.
type SW struct{ W io.Writer }

// Write passes through.
func (s SW) Write(p []byte) (int, error) { return s.W.Write(p) }

// WriteString passes through as one Write call.
func (s SW) WriteString(str string) (int, error) { return s.W.Write([]byte(str)) }

// FullCount accepts every byte it is given and reports the full count, but the write that
// reaches offset K also returns an error (a write-then-flush wrapper whose flush failed, a
// quota writer that fails on the write reaching its limit, a tee with a failed second sink).
type FullCount struct {
	K      int
	Got    []byte
	Failed bool
}

// Write never returns a short count.
func (w *FullCount) Write(p []byte) (int, error) {
	w.Got = append(w.Got, p...)
	if len(w.Got) > w.K {
		w.Failed = true
		return len(p), ErrInjected
	}
	return len(p), nil
}
