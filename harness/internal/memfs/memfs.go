// Package memfs is a goroutine-safe in-memory fs.FS (ReadDirFS + StatFS + ReadFileFS) with
// per-file content and mtime, per-path open/read/stat counters, an optional open budget that
// turns runaway recursion into a deterministic event, and snapshots.
package memfs

import (
	"io"
	"io/fs"
	"path"
	"sort"
	"strings"
	"sync"
	"time"
)

type file struct {
	data  []byte
	mtime time.Time
	mode  fs.FileMode
}

// FS is the filesystem.
type FS struct {
	mu      sync.RWMutex
	files   map[string]*file
	opens   map[string]int
	stats   map[string]int
	total   int
	budget  int // 0 = unlimited
	runaway bool
	failing map[string]error
	onClose map[string]func() // one-shot hooks: run when an opened file of that name is closed
	openErr map[string]error  // FailRead: Open fails, Stat keeps working
}

// New creates an empty FS.
func New() *FS {
	return &FS{files: map[string]*file{}, opens: map[string]int{}, stats: map[string]int{}, failing: map[string]error{}}
}

// FromMap creates an FS with the given files, all with mtime t0 (Unix 1000).
func FromMap(m map[string]string) *FS {
	f := New()
	for k, v := range m {
		f.Write(k, v, time.Unix(1000, 0))
	}
	return f
}

// Write creates or replaces a file.
func (f *FS) Write(name, content string, mtime time.Time) {
	f.mu.Lock()
	f.files[name] = &file{data: []byte(content), mtime: mtime, mode: 0o644}
	f.mu.Unlock()
}

// Remove deletes a file.
func (f *FS) Remove(name string) {
	f.mu.Lock()
	delete(f.files, name)
	f.mu.Unlock()
}

// FailOpen makes opening name fail with err (nil clears).
func (f *FS) FailOpen(name string, err error) {
	f.mu.Lock()
	if err == nil {
		delete(f.failing, name)
	} else {
		f.failing[name] = err
	}
	f.mu.Unlock()
}

// FailRead makes Open of name fail with err while Stat keeps answering (too many open files,
// an I/O error, a permission problem on read); nil clears it.
func (f *FS) FailRead(name string, err error) {
	f.mu.Lock()
	if f.openErr == nil {
		f.openErr = map[string]error{}
	}
	if err == nil {
		delete(f.openErr, name)
	} else {
		f.openErr[name] = err
	}
	f.mu.Unlock()
}

// SetBudget limits the total number of file opens; beyond it opens fail and Runaway is set.
func (f *FS) SetBudget(n int) { f.mu.Lock(); f.budget = n; f.mu.Unlock() }

// Runaway reports whether the open budget was exceeded.
func (f *FS) Runaway() bool { f.mu.RLock(); defer f.mu.RUnlock(); return f.runaway }

// Opens returns how often name was opened since the last ResetCounters.
func (f *FS) Opens(name string) int { f.mu.RLock(); defer f.mu.RUnlock(); return f.opens[name] }

// TotalOpens returns the number of opens of all files.
func (f *FS) TotalOpens() int { f.mu.RLock(); defer f.mu.RUnlock(); return f.total }

// ResetCounters zeroes the counters.
func (f *FS) ResetCounters() {
	f.mu.Lock()
	f.opens = map[string]int{}
	f.stats = map[string]int{}
	f.total = 0
	f.runaway = false
	f.mu.Unlock()
}

// Snapshot returns an independent copy of the current files (counters reset, no budget).
func (f *FS) Snapshot() *FS {
	g := New()
	f.mu.RLock()
	for k, v := range f.files {
		g.files[k] = &file{data: append([]byte(nil), v.data...), mtime: v.mtime, mode: v.mode}
	}
	for k, v := range f.failing {
		g.failing[k] = v
	}
	f.mu.RUnlock()
	return g
}

// Files returns a copy of name -> content.
func (f *FS) Files() map[string]string {
	out := map[string]string{}
	f.mu.RLock()
	for k, v := range f.files {
		out[k] = string(v.data)
	}
	f.mu.RUnlock()
	return out
}

func (f *FS) isDir(name string) bool {
	if name == "." {
		return true
	}
	pre := name + "/"
	for k := range f.files {
		if strings.HasPrefix(k, pre) {
			return true
		}
	}
	return false
}

type info struct {
	name  string
	size  int64
	mode  fs.FileMode
	mtime time.Time
}

func (i info) Name() string               { return i.name }
func (i info) Size() int64                { return i.size }
func (i info) Mode() fs.FileMode          { return i.mode }
func (i info) ModTime() time.Time         { return i.mtime }
func (i info) IsDir() bool                { return i.mode.IsDir() }
func (i info) Sys() any                   { return nil }
func (i info) Type() fs.FileMode          { return i.mode.Type() }
func (i info) Info() (fs.FileInfo, error) { return i, nil }

// OnClose registers a one-shot hook that runs when a file of that name, opened after this
// call, is closed - i.e. right after somebody has read it. It models an edit that lands
// between a reader's read and whatever the reader does next.
func (f *FS) OnClose(name string, fn func()) {
	f.mu.Lock()
	if f.onClose == nil {
		f.onClose = map[string]func(){}
	}
	f.onClose[name] = fn
	f.mu.Unlock()
}

type hookedFile struct {
	*openFile
	hook func()
}

func (h *hookedFile) Close() error {
	if h.hook != nil {
		fn := h.hook
		h.hook = nil
		fn()
	}
	return nil
}

type openFile struct {
	info
	r *strings.Reader
}

func (o *openFile) Stat() (fs.FileInfo, error) { return o.info, nil }
func (o *openFile) Read(p []byte) (int, error) { return o.r.Read(p) }
func (o *openFile) Close() error               { return nil }

type openDir struct {
	info
	ents []fs.DirEntry
	off  int
}

func (d *openDir) Stat() (fs.FileInfo, error) { return d.info, nil }
func (d *openDir) Read([]byte) (int, error) {
	return 0, &fs.PathError{Op: "read", Path: d.name, Err: fs.ErrInvalid}
}
func (d *openDir) Close() error { return nil }
func (d *openDir) ReadDir(n int) ([]fs.DirEntry, error) {
	rest := d.ents[d.off:]
	if n <= 0 {
		d.off = len(d.ents)
		return rest, nil
	}
	if len(rest) == 0 {
		return nil, io.EOF
	}
	if n > len(rest) {
		n = len(rest)
	}
	d.off += n
	return rest[:n], nil
}

// Open implements fs.FS.
func (f *FS) Open(name string) (fs.File, error) {
	if !fs.ValidPath(name) {
		return nil, &fs.PathError{Op: "open", Path: name, Err: fs.ErrInvalid}
	}
	f.mu.Lock()
	defer f.mu.Unlock()
	f.opens[name]++
	f.total++
	if f.budget > 0 && f.total > f.budget {
		f.runaway = true
		return nil, &fs.PathError{Op: "open", Path: name, Err: fs.ErrPermission}
	}
	if err, ok := f.failing[name]; ok {
		return nil, &fs.PathError{Op: "open", Path: name, Err: err}
	}
	if err, ok := f.openErr[name]; ok {
		return nil, &fs.PathError{Op: "open", Path: name, Err: err}
	}
	if fl, ok := f.files[name]; ok {
		of := &openFile{info{path.Base(name), int64(len(fl.data)), fl.mode, fl.mtime}, strings.NewReader(string(fl.data))}
		if hook, ok := f.onClose[name]; ok {
			delete(f.onClose, name)
			return &hookedFile{openFile: of, hook: hook}, nil
		}
		return of, nil
	}
	if f.isDir(name) {
		return &openDir{info: info{path.Base(name), 0, fs.ModeDir | 0o755, time.Unix(1, 0)}, ents: f.list(name)}, nil
	}
	return nil, &fs.PathError{Op: "open", Path: name, Err: fs.ErrNotExist}
}

func (f *FS) list(dir string) []fs.DirEntry {
	seen := map[string]fs.DirEntry{}
	for k, v := range f.files {
		var rest string
		if dir == "." {
			rest = k
		} else if strings.HasPrefix(k, dir+"/") {
			rest = k[len(dir)+1:]
		} else {
			continue
		}
		if i := strings.Index(rest, "/"); i >= 0 {
			n := rest[:i]
			seen[n] = info{n, 0, fs.ModeDir | 0o755, time.Unix(1, 0)}
		} else {
			seen[rest] = info{rest, int64(len(v.data)), v.mode, v.mtime}
		}
	}
	out := make([]fs.DirEntry, 0, len(seen))
	for _, e := range seen {
		out = append(out, e)
	}
	sort.Slice(out, func(i, j int) bool { return out[i].Name() < out[j].Name() })
	return out
}

// Stat implements fs.StatFS (does not count as an open).
func (f *FS) Stat(name string) (fs.FileInfo, error) {
	if !fs.ValidPath(name) {
		return nil, &fs.PathError{Op: "stat", Path: name, Err: fs.ErrInvalid}
	}
	f.mu.Lock()
	defer f.mu.Unlock()
	f.stats[name]++
	if err, ok := f.failing[name]; ok {
		return nil, &fs.PathError{Op: "stat", Path: name, Err: err}
	}
	if fl, ok := f.files[name]; ok {
		return info{path.Base(name), int64(len(fl.data)), fl.mode, fl.mtime}, nil
	}
	if f.isDir(name) {
		return info{path.Base(name), 0, fs.ModeDir | 0o755, time.Unix(1, 0)}, nil
	}
	return nil, &fs.PathError{Op: "stat", Path: name, Err: fs.ErrNotExist}
}

// ReadDir implements fs.ReadDirFS.
func (f *FS) ReadDir(name string) ([]fs.DirEntry, error) {
	f.mu.RLock()
	defer f.mu.RUnlock()
	if _, ok := f.files[name]; ok {
		return nil, &fs.PathError{Op: "readdir", Path: name, Err: fs.ErrInvalid}
	}
	if !f.isDir(name) {
		return nil, &fs.PathError{Op: "readdir", Path: name, Err: fs.ErrNotExist}
	}
	return f.list(name), nil
}
