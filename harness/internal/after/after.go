// Package after runs FAILING or aborted operations whose only purpose is what they may leave
// behind: process-wide pools (interpolation builders, scope maps, output buffers), the stack and
// the remembered error of a Template object, per-engine marks. Every operation here fails (or is
// cut short) by construction; a check calls them right before the operation it judges, on the
// same goroutine, and then judges that operation as usual. Names lets the stale values collide
// with the variables the judged template reads: every name is bound to "STALE-<name>".
package after

import (
	"bytes"
	"context"
	"errors"
	"io"
	"strings"
	"testing/fstest"

	"github.com/titpetric/vuego"
)

// ErrDest is what the failing destinations return.
var ErrDest = errors.New("after: destination failed")

// failAfter accepts k bytes, then fails (reporting a short count).
type failAfter struct{ k int }

func (w *failAfter) Write(p []byte) (int, error) {
	if len(p) <= w.k {
		w.k -= len(p)
		return len(p), nil
	}
	n := w.k
	w.k = 0
	return n, ErrDest
}

func stale(names []string) map[string]any {
	m := map[string]any{"afterItems": []any{"STALE-i1", "STALE-i2", "STALE-i3"}}
	for _, n := range names {
		m[n] = "STALE-" + n
	}
	return m
}

func funcs(cancel context.CancelFunc) vuego.FuncMap {
	return vuego.FuncMap{
		"afterBoom": func(v any) (any, error) { return nil, errors.New("after: function failed") },
		"afterSecond": func(v any) (any, error) {
			if s, _ := v.(string); strings.HasSuffix(s, "2") {
				return nil, errors.New("after: second item failed")
			}
			return v, nil
		},
		"afterCancel": func(v any) any {
			if cancel != nil {
				cancel()
			}
			return v
		},
	}
}

// assigns spells <template n1="STALE-n1" ...></template> for the names.
func assigns(names []string) string {
	var sb strings.Builder
	sb.WriteString("<template")
	for _, n := range names {
		if n == "" || strings.ContainsAny(n, " .[\"'<>=") {
			continue
		}
		sb.WriteString(" " + n + `="STALE-` + n + `"`)
	}
	sb.WriteString("></template>")
	return sb.String()
}

func reads(names []string) string {
	var sb strings.Builder
	for _, n := range names {
		if n == "" || strings.ContainsAny(n, " [\"'<>=") {
			continue
		}
		sb.WriteString("{{ " + n + " }} ")
	}
	return sb.String()
}

// sources of failing templates: text and a value in front of the failing mustache (text run
// and attribute), a loop whose second item fails, a missing include with props inside a loop.
func failing(names []string) []string {
	r := reads(names)
	loopVars := "afterIt"
	if len(names) > 0 && !strings.ContainsAny(names[0], " .[\"'<>=") {
		loopVars = names[0]
	}
	props := ""
	for _, n := range names {
		if n != "" && !strings.ContainsAny(n, " .[\"'<>=:") {
			props += " " + n + `="STALE-PROP-` + n + `"`
		}
	}
	return []string{
		assigns(names) + `<p title="STALEATTR ` + r + `{{ afterItems | afterBoom }}">STALETEXT ` + r + `{{ afterItems | afterBoom }} tail</p>`,
		assigns(names) + `<ul><li v-for="(afterIdx, ` + loopVars + `) in afterItems" :data-x="` + loopVars + `">STALELOOP {{ ` + loopVars + ` | afterSecond }}</li><li v-else>none</li></ul>`,
		`<div v-for="afterIt in afterItems"><template include="after-missing-component.vuego"` + props + `><b>STALESLOT ` + r + `</b></template></div>`,
		assigns(names) + `<section><template include="after-required.vuego"` + props + `></template></section>`,
	}
}

var files = fstest.MapFS{
	"after-required.vuego":    {Data: []byte(`<template :required="afterNobodyProvidesThis"><p>never</p></template>`)},
	"after-page.vuego":        {Data: []byte("---\nlayout: after-lay\n---\n<p>STALEPAGE {{ afterItems }}</p>")},
	"layouts/after-lay.vuego": {Data: []byte(`<html><body><div v-html="content"></div>STALELAYOUTTAIL</body></html>`)},
}

// Poison runs the catalogue on engines of its own (process-wide state only).
func Poison(names []string) {
	ctx := context.Background()
	data := stale(names)
	eng := func(cancel context.CancelFunc) vuego.Template {
		return vuego.NewFS(files, vuego.WithFuncs(funcs(cancel)))
	}
	for _, src := range failing(names) {
		_ = eng(nil).Fill(data).RenderString(ctx, io.Discard, src)
	}
	// succeeding renders into destinations that fail / that are cut short by cancellation
	ok := assigns(names) + `<p title="STALEOUT ` + reads(names) + `">STALEOUT ` + reads(names) + strings.Repeat("x", 300) + `</p><i>{{ afterItems | afterCancel }}</i>`
	for _, k := range []int{0, 7, 120} {
		_ = eng(nil).Fill(data).RenderString(ctx, &failAfter{k: k}, ok)
		_ = eng(nil).Load("after-page.vuego").Fill(data).Render(ctx, &failAfter{k: k})
	}
	cctx, cancel := context.WithCancel(ctx)
	_ = eng(cancel).Fill(data).RenderString(cctx, io.Discard, ok)
	cancel()
	_ = eng(nil).Load("after-page.vuego").Fill(data).Render(cctx, io.Discard)
}

// FailOn runs failing and aborted calls ON the given template object (its stack, its
// remembered error, its buffers), which the caller uses again afterwards. The template's
// engine needs no special functions: only unknown filters and missing files are used.
func FailOn(t vuego.Template, names []string) {
	ctx := context.Background()
	r := reads(names)
	var sink bytes.Buffer
	_ = t.RenderString(ctx, &sink, assigns(names)+`<p title="STALEATTR `+r+`{{ afterNoSuchVar | afterNoSuchFilter }}">STALETEXT `+r+`{{ afterNoSuchVar | afterNoSuchFilter }}</p>`)
	_ = t.RenderByte(ctx, &sink, []byte(assigns(names)+`<template include="after-missing-component.vuego"></template>`))
	_ = t.RenderString(ctx, &failAfter{k: 5}, assigns(names)+`<p>STALEOUT `+r+strings.Repeat("y", 200)+`</p>`)
	cctx, cancel := context.WithCancel(ctx)
	cancel()
	_ = t.RenderString(cctx, &sink, assigns(names)+`<p>STALECANCEL `+r+`</p>`)
	_ = t.Render(cctx, &sink)
	_ = t.Render(ctx, &failAfter{k: 3})
	_ = t.RenderFile(ctx, &sink, "after-no-such-file.vuego")
	failed := t.Load("after-no-such-file.vuego")
	for _, n := range names {
		if n != "" && !strings.ContainsAny(n, " .[\"'<>=") {
			failed = failed.Assign(n, "STALE-ASSIGN-"+n)
		}
	}
	_ = failed.Render(ctx, &sink)
	_ = failed.RenderString(ctx, &sink, `<p>`+r+`</p>`)
}

// Leaked reports the first marker of a stale value or of a failed render's text in out.
func Leaked(out string) string {
	for _, m := range []string{"STALE-", "STALEATTR", "STALETEXT", "STALELOOP", "STALESLOT", "STALEOUT", "STALEPAGE", "STALELAYOUTTAIL", "STALECANCEL"} {
		if strings.Contains(out, m) {
			return m
		}
	}
	return ""
}
