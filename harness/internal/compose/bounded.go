package compose

import (
	"fmt"
	"runtime"
	"sync/atomic"
	"time"

	"verif/internal/run"
)

// HangAfter and heapLimit bound one render of a generated case (template sets of a few KiB whose
// renders take about a millisecond and whose outputs are a few KiB). They are the only clock in
// the checks that use Bounded and exist so that a render that never returns - the serialiser
// walking a cyclic sibling list, possibly into a buffer inside the engine where no writer budget
// can reach it - becomes a failure of the case in flight instead of a wedged shard.
const (
	HangAfter = 60 * time.Second
	heapLimit = 2 << 30
)

var hung atomic.Bool

// Hung reports whether some render did not return. The spinning goroutine cannot be stopped, so
// the process winds down: Bounded passes everything from then on and callers should stop early.
func Hung() bool { return hung.Load() }

// Bounded runs fn (render one case and compare) in a goroutine, converts a panic into an error
// and gives up - with an error describing the hang - when fn has not returned after HangAfter or
// when the heap passes heapLimit while it runs (checked every 250 ms; normal cases return
// before the first check).
func Bounded(fn func() error) error {
	if hung.Load() {
		return nil
	}
	done := make(chan error, 1)
	go func() { done <- run.Safe(fn) }()
	tick := time.NewTimer(250 * time.Millisecond)
	defer tick.Stop()
	start := time.Now()
	for {
		select {
		case err := <-done:
			return err
		case <-tick.C:
			var ms runtime.MemStats
			runtime.ReadMemStats(&ms)
			switch {
			case ms.HeapAlloc > heapLimit:
				hung.Store(true)
				return fmt.Errorf("render did not return: after %v it is still running and the heap has grown to %d MiB (the serialiser is looping)", time.Since(start).Round(time.Millisecond), ms.HeapAlloc>>20)
			case time.Since(start) > HangAfter:
				hung.Store(true)
				return fmt.Errorf("render did not return within %v", HangAfter)
			}
			tick.Reset(250 * time.Millisecond)
		}
	}
}
