package compose

import (
	"verif/internal/cat"
	"verif/internal/vals"
)

// Program turns a generated composition case into a catalogue-style program (file set + data),
// so that the fault / history / concurrency properties can run on generated templates too.
// Generated programs always succeed and need the shorthand-component option.
func (c Case) Program(name string) cat.Program {
	data := map[string]vals.V{}
	for _, b := range c.Data {
		switch b.Val.K {
		case "b":
			data[b.Name] = vals.Bool(b.Val.B)
		case "l":
			l := make([]vals.V, len(b.Val.L))
			for i, s := range b.Val.L {
				l[i] = vals.Str(s)
			}
			data[b.Name] = vals.V{K: "[]any", L: l}
		default:
			data[b.Name] = vals.Str(b.Val.S)
		}
	}
	return cat.Program{Name: name, Files: c.Files(), Data: data, Opts: []string{"components"}, Store: c.Store, Feat: []string{"generated-composition"}}
}
