package scratch

import (
	"testing"

	"pgregory.net/rapid"
)

func TestR(t *testing.T) {
	hit, n, u8, u64 := 0, 0, 0, 0
	rapid.Check(t, func(rt *rapid.T) {
		for i := 0; i < 20; i++ {
			n++
			if rapid.Bool().Draw(rt, "b") {
				hit++
			}
			if rapid.Uint8().Draw(rt, "u") < 31 {
				u8++
			}
			if rapid.Uint64().Draw(rt, "u")%100 < 12 {
				u64++
			}
		}
	})
	t.Logf("n=%d bool: %.1f%%  u8<31: %.1f%% u64%%100<12: %.1f%%", n, 100*float64(hit)/float64(n), 100*float64(u8)/float64(n), 100*float64(u64)/float64(n))
}
