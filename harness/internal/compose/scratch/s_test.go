package scratch

import (
	"bytes"
	"context"
	"testing"

	"github.com/titpetric/vuego"
	"verif/internal/memfs"
)

func render(t *testing.T, files map[string]string, data map[string]any) {
	var b bytes.Buffer
	err := vuego.NewFS(memfs.FromMap(files), vuego.WithComponents()).Load("page.vuego").Fill(data).Render(context.Background(), &b)
	t.Logf("err=%v\n%s", err, b.String())
}

func TestA(t *testing.T) {
	render(t, map[string]string{
		"page.vuego":              `<template include="components/KOne.vuego"></template><b>after</b>`,
		"components/KOne.vuego":   `<template include="components/KTwo.vuego"></template><p>one-rest</p>`,
		"components/KTwo.vuego":   `<p>two</p>`,
	}, nil)
	render(t, map[string]string{
		"page.vuego":              `<template include="components/KOne.vuego"></template><b>after</b>`,
		"components/KOne.vuego":   `<p>one-first</p><template include="components/KTwo.vuego"></template><p>one-rest</p>`,
		"components/KTwo.vuego":   `<p>two</p>`,
	}, nil)
	render(t, map[string]string{
		"page.vuego":              `<template include="components/KOne.vuego"></template><b>after</b>`,
		"components/KOne.vuego":   `<template v-if="no"><p>one-first</p></template><p>one-rest</p>`,
	}, nil)
}
