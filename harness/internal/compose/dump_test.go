package compose

import (
	"os"
	"strconv"
	"testing"

	"pgregory.net/rapid"
)

// TestDump prints a few generated programs (COMPOSE_DUMP=n).
func TestDump(t *testing.T) {
	n, _ := strconv.Atoi(os.Getenv("COMPOSE_DUMP"))
	if n == 0 {
		t.Skip("set COMPOSE_DUMP=n")
	}
	g := rapid.Custom(Gen)
	for i := 0; i < n; i++ {
		c := g.Example(i)
		_, classes := Classify(c)
		res := Interpret(c)
		t.Logf("seed %d classes=%v unspecified=%q gray=%d\n%s", i, classes, res.Unspecified, res.Gray, c.Dump())
	}
}
