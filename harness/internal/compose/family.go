package compose

import (
	"encoding/json"
	"strings"
	"testing"

	"verif/internal/ev"
	"verif/internal/run"
)

// Kind is the replay kind of composition cases.
const Kind = "compose"

// Family runs the composition generator as one more rapid family of a property package. focus
// lists class-name fragments (e.g. "chain", "for", "include", "slot"): a case counts as
// non-trivial for that property only if it is non-trivial in general and one of its classes
// contains one of the fragments - every case is checked either way.
func Family(t *testing.T, rec *ev.Rec, focus ...string) {
	run.Rapid(t, rec, Kind, Gen, func(c Case) (bool, []string) {
		nt, cls := Classify(c)
		hit := len(focus) == 0
		out := make([]string, 0, len(cls))
		for _, cl := range cls {
			out = append(out, "compose:"+cl)
			for _, f := range focus {
				if strings.Contains(cl, f) {
					hit = true
				}
			}
		}
		return nt && hit, out
	}, Check)
}

// Replay re-checks a saved composition case.
func Replay(raw json.RawMessage) error { return run.Decode(raw, Check) }
