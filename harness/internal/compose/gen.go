package compose

import (
	"fmt"
	"strings"
	"sync"

	"pgregory.net/rapid"

	"verif/internal/cat"
	"verif/internal/kf"
)

// Size bounds of generated programs.
const (
	MaxNodes = 40 // budget: page 13 + 3 components x 7, plus a small overshoot
	MaxDepth = 4

	pageBudget = 13
	compBudget = 7
)

// Shapes Gen never produces because vuego's behaviour there is unspecified or a known open
// finding (the interpreter reports such a hand-written case as Result.Unspecified):
const (
	// ExclForIfThenElseIf is LIFTED (finding C03-vfor-on-if-member fixed in /repo a76c66e): a
	// looped ELEMENT owns the whole v-else-if / v-else tail that follows it; forItem generates
	// such tails and the interpreter evaluates them as a chain when the loop produced nothing.
	// The constant is kept so that older reports / replays can still name the shape.
	ExclForIfThenElseIf = "for-then-else-if"
	// ExclElseAfterTemplateFor: a v-else-if / v-else tail after a v-for written on <template>, on
	// an include or on a <slot>: "the loop produced nothing" is only defined for a looped element
	// (vuego counts output nodes, so the whitespace inside the template decides).
	ExclElseAfterTemplateFor = "else-after-template-for"
	// ExclPlainTemplateAttrs: <template :x="..."> without include writes through to the enclosing
	// scope (documented deliberate behaviour, C04 anchor propagateTemplateAttributes).
	ExclPlainTemplateAttrs = "plain-template-with-attributes"
	// ExclCollisionPropUndefined: a prop whose name is visible at the include site, bound to an
	// undefined name (vuego binds nothing, Vue binds undefined).
	ExclCollisionPropUndefined = "visible-prop-name-bound-to-undefined"
	// ExclDirectiveOnSlot: v-show written on the <slot> element itself, and v-for together with a
	// chain directive on it (v-if, v-else-if, v-else alone and v-for alone are generated).
	ExclDirectiveOnSlot = "directive-on-slot"
	// ExclBothDefaultForms: plain children next to a <template v-slot> for the unnamed slot.
	ExclBothDefaultForms = "plain-children-and-v-slot-template"
	// ExclCompBodyStartsWithTemplateTag: a component file WITHOUT a <template> root whose first
	// node is a <template ...> tag (include, shorthand component tag, v-if / v-for wrapper) and
	// that has further nodes: vuego takes the first <template> for the component's root and
	// drops the siblings (finding COMPOSE-F1). Gen wraps such a body in a <template> root.
	ExclCompBodyStartsWithTemplateTag = "component-body-starts-with-template-tag"
	// ExclVOnce: v-once is out of scope (C16).
	ExclVOnce = "v-once"
)

var tags = []string{"div", "section", "span", "article", "aside"}

// iface is what includers know of a component before its body exists.
type iface struct {
	props      []string // declared scalar props
	lprops     []string // declared list props
	fm         []Binding
	hasDef     bool
	hasNamed   bool
	defProps   []string
	namedProps []string
}

func (f iface) slotProps(name string) []string {
	if name == "" {
		return f.defProps
	}
	return f.namedProps
}

// boundNames are all names the component binds for whatever is evaluated inside it.
func (f iface) boundNames() []string {
	var out []string
	out = append(out, f.props...)
	out = append(out, f.lprops...)
	for _, b := range f.fm {
		out = append(out, b.Name)
	}
	out = append(out, f.defProps...)
	out = append(out, f.namedProps...)
	return out
}

type gstate struct {
	t      *rapid.T
	left   int
	mk     int
	tok    int
	cnt    map[byte]int
	ifaces []iface
	hot    []string // scalar paths bound so far, in binding order
	pool   []string // scalar paths that exist (or could exist) anywhere in the program
}

type gscope struct {
	file      int      // 0 page, i+1 component i
	depth     int      // nesting depth inside the file
	scalars   []string // scalar paths thought visible here
	sure      []string // plain scalar names certainly defined here
	lists     []string // list names thought visible here
	loopVars  []string // enclosing loop variables of this file, innermost last
	avoid     map[string]bool
	inContent bool
	pending   *[]string // component body: slot names still to place
}

// rapid's integer generators are heavily biased towards small values (IntRange(0,99) < 12 holds
// in ~45% of the draws), which would turn every "deliberate minority" into a majority. Only
// Bool is fair, so uniform numbers are assembled from fair bits (all-false shrinks to lo).
func (g *gstate) bits(k int) int {
	v := 0
	for i := 0; i < k; i++ {
		v <<= 1
		if rapid.Bool().Draw(g.t, "b") {
			v |= 1
		}
	}
	return v
}

func (g *gstate) intn(lo, hi int) int {
	n := hi - lo + 1
	if n <= 1 {
		return lo
	}
	k := 2
	for m := n - 1; m > 0; m >>= 1 {
		k++
	}
	return lo + g.bits(k)%n
}

func (g *gstate) pct(p int) bool { return g.bits(7)*100/128 < p }

func (g *gstate) pick(l []string) string { return l[g.intn(0, len(l)-1)] }

func (g *gstate) name(kind byte) string {
	g.cnt[kind]++
	return fmt.Sprintf("%c%d", kind, g.cnt[kind])
}

func (g *gstate) token() string {
	g.tok++
	return fmt.Sprintf("t%d", g.tok)
}

func (g *gstate) marker(prefix string) string {
	g.mk++
	return fmt.Sprintf("%s%d", prefix, g.mk)
}

func (g *gstate) bind(paths ...string) {
	g.hot = append(g.hot, paths...)
}

func head(path string) string {
	h, _, _ := strings.Cut(path, ".")
	return h
}

func (sc gscope) ok(path string) bool { return !sc.avoid[head(path)] }

func filter(l []string, keep func(string) bool) []string {
	var out []string
	for _, s := range l {
		if keep(s) {
			out = append(out, s)
		}
	}
	return out
}

func (sc gscope) deeper() gscope {
	sc.depth++
	return sc
}

func (sc gscope) withScalars(sure bool, paths ...string) gscope {
	sc.scalars = append(append([]string{}, sc.scalars...), paths...)
	if sure {
		sc.sure = append(append([]string{}, sc.sure...), paths...)
	}
	return sc
}

// scalar picks a scalar path for a read that steers something (condition, prop source, slot
// prop source, attribute): mostly visible, sometimes a recently bound name that is out of scope.
func (g *gstate) scalar(sc gscope) string {
	vis := filter(sc.scalars, sc.ok)
	hot := filter(g.hot, sc.ok)
	r := g.intn(0, 99)
	switch {
	case r < 80 && len(vis) > 0:
		return g.pick(vis)
	case r < 95 && len(hot) > 0:
		return g.recent(hot)
	}
	return "u0"
}

func (g *gstate) recent(hot []string) string {
	n := len(hot)
	if n > 8 {
		hot = hot[n-8:]
	}
	return g.pick(hot)
}

// probe prints 3-4 names: names bound inside the preceding sibling (after), visible names,
// recently bound names and names from anywhere in the program.
func (g *gstate) probe(sc gscope, after []string) Node {
	g.left--
	n := Node{Kind: KProbe, M: g.marker("p")}
	k := g.intn(3, 4)
	after = filter(after, sc.ok)
	vis := filter(sc.scalars, sc.ok)
	hot := filter(g.hot, sc.ok)
	pool := filter(g.pool, sc.ok)
	for len(n.Reads) < k {
		r := g.intn(0, 99)
		switch {
		case len(after) > 0 && len(n.Reads) < 2 && r < 80:
			n.Reads = append(n.Reads, g.pick(after))
		case r < 35 && len(vis) > 0:
			n.Reads = append(n.Reads, g.pick(vis))
		case r < 70 && len(hot) > 0:
			n.Reads = append(n.Reads, g.recent(hot))
		case len(pool) > 0:
			n.Reads = append(n.Reads, g.pick(pool))
		default:
			n.Reads = append(n.Reads, "u0")
		}
	}
	if g.pct(60) {
		n.Bind = g.pick(n.Reads)
	}
	return n
}

// targets are the components the file may include (only later ones: no recursion).
func (g *gstate) targets(sc gscope) []int {
	var out []int
	for j := sc.file; j < len(g.ifaces); j++ {
		out = append(out, j)
	}
	return out
}

// body generates a sibling list of up to maxItems items (each possibly followed by a probe).
func (g *gstate) body(sc gscope, maxItems int) []Node {
	var out []Node
	n := g.intn(1, maxItems)
	for k := 0; k < n && g.left > 0; k++ {
		nodes, bound := g.item(sc)
		out = append(out, nodes...)
		if len(nodes) > 0 && nodes[len(nodes)-1].Kind != KProbe && g.left > 0 && g.pct(75) {
			out = append(out, g.probe(sc, bound))
		}
	}
	return out
}

func (g *gstate) bodyNonEmpty(sc gscope, maxItems int) []Node {
	out := g.body(sc, maxItems)
	if len(out) == 0 {
		out = append(out, g.probe(sc, nil))
	}
	return out
}

// item generates one construct and reports the scalar paths bound inside it.
func (g *gstate) item(sc gscope) ([]Node, []string) {
	canNest := sc.depth < MaxDepth-1 && g.left > 2
	hasTargets := len(g.targets(sc)) > 0
	type opt struct {
		w int
		f func() ([]Node, []string)
	}
	opts := []opt{{20, func() ([]Node, []string) { return []Node{g.probe(sc, nil)}, nil }}}
	if canNest {
		opts = append(opts,
			opt{15, func() ([]Node, []string) { n, b := g.el(sc); return []Node{n}, b }},
			opt{20, func() ([]Node, []string) { return g.chain(sc) }},
			opt{22, func() ([]Node, []string) { return g.forItem(sc) }},
		)
	}
	if hasTargets {
		opts = append(opts, opt{25, func() ([]Node, []string) { n, b := g.inc(sc); return []Node{n}, b }})
	}
	if sc.pending != nil && len(*sc.pending) > 0 {
		opts = append(opts, opt{35, func() ([]Node, []string) { return g.slotItem(sc) }})
	}
	total := 0
	for _, o := range opts {
		total += o.w
	}
	r := g.intn(0, total-1)
	for _, o := range opts {
		if r < o.w {
			return o.f()
		}
		r -= o.w
	}
	return nil, nil
}

// el generates a marked element with attributes, maybe v-show, and children.
func (g *gstate) el(sc gscope) (Node, []string) {
	g.left--
	n := Node{Kind: KEl, Tag: g.pick(tags), M: g.marker("e")}
	if g.pct(30) {
		n.Attrs = append(n.Attrs, Attr{Mode: "static", Name: "data-s", Text: g.token()})
	}
	if g.pct(30) {
		n.Attrs = append(n.Attrs, Attr{Mode: "interp", Name: "data-i", Text: "a", Path: g.scalar(sc), Post: "b"})
	}
	if g.pct(35) {
		n.Attrs = append(n.Attrs, Attr{Mode: "bind", Name: "data-b", Path: g.scalar(sc)})
	}
	if g.pct(15) {
		n.Show = g.scalar(sc)
	}
	var bound []string
	switch {
	case sc.depth < MaxDepth-1 && g.left > 1 && g.pct(65):
		kids := g.body(sc.deeper(), 2)
		n.Kids = kids
		bound = boundIn(kids)
	case g.left > 0 && g.pct(50):
		n.Kids = []Node{g.probe(sc.deeper(), nil)}
	}
	return n, bound
}

// boundIn collects the scalar paths bound by constructs inside ns (for follow-up probes).
func boundIn(ns []Node) []string {
	var out []string
	for i := range ns {
		n := &ns[i]
		if n.For != nil {
			out = append(out, n.For.Var)
			if n.For.Idx != "" {
				out = append(out, n.For.Idx)
			}
		}
		if n.Kind == KInc {
			for _, p := range n.Props {
				if !strings.HasPrefix(p.Name, "q") {
					out = append(out, p.Name)
				}
			}
			for _, s := range n.Supply {
				out = append(out, s.Destr...)
				out = append(out, boundIn(s.Kids)...)
			}
		}
		out = append(out, boundIn(n.Kids)...)
	}
	return out
}

// carrier generates the node a directive is written on: el, tpl or inc.
func (g *gstate) carrier(sc gscope, forceInc bool) (Node, []string) {
	hasTargets := len(g.targets(sc)) > 0
	r := g.intn(0, 99)
	switch {
	case hasTargets && (r < 30 || forceInc):
		return g.inc(sc)
	case r < 50 && g.left > 1:
		g.left--
		n := Node{Kind: KTpl, Kids: g.bodyNonEmpty(sc.deeper(), 2)}
		return n, boundIn(n.Kids)
	}
	n, b := g.el(sc)
	if hasTargets && g.left > 0 && sc.depth < MaxDepth-1 && g.pct(25) {
		// make includes inside looped / conditional elements common
		inc, b2 := g.inc(sc.deeper())
		n.Kids = append(n.Kids, inc)
		b = append(b, b2...)
		if g.left > 0 && g.pct(60) {
			n.Kids = append(n.Kids, g.probe(sc.deeper(), b2))
		}
	}
	return n, b
}

// newFor draws a v-for and the scope of its instances.
func (g *gstate) newFor(sc gscope) (*For, gscope) {
	f := &For{}
	lists := filter(sc.lists, sc.ok)
	switch {
	case len(lists) > 0 && g.pct(88):
		f.List = g.pick(lists)
	default:
		f.List = "l0" // a collection that exists nowhere: no instance
	}
	plain := filter(sc.sure, func(s string) bool { return sc.ok(s) && !strings.Contains(s, ".") })
	if len(plain) > 0 && g.pct(12) {
		f.Var = g.pick(plain) // collision: loop variable named like a visible variable
	} else {
		f.Var = g.name('x')
	}
	if g.pct(40) {
		f.Idx = g.name('i')
	}
	sc2 := sc.withScalars(true, f.Var)
	if f.Idx != "" {
		sc2 = sc2.withScalars(true, f.Idx)
	}
	sc2.loopVars = append(append([]string{}, sc.loopVars...), f.Var)
	g.bind(f.Var)
	if f.Idx != "" {
		g.bind(f.Idx)
	}
	return f, sc2
}

// forItem generates a looped carrier, maybe filtered by v-if, maybe followed by v-else.
func (g *gstate) forItem(sc gscope) ([]Node, []string) {
	f, sc2 := g.newFor(sc)
	n, bound := g.carrier(sc2, false)
	n.For = f
	bound = append(bound, f.Var)
	if f.Idx != "" {
		bound = append(bound, f.Idx)
	}
	if g.pct(18) {
		if g.pct(60) {
			n.If = f.Var
			if f.Idx != "" && g.pct(40) {
				n.If = f.Idx
			}
		} else {
			n.If = g.scalar(sc2)
		}
	}
	out := []Node{n}
	if n.Kind == KEl && g.left > 0 && g.pct(35) {
		// The looped element owns the v-else-if / v-else tail that follows it: 0-2 v-else-if
		// members, then maybe a v-else (at least one member).
		nElseIf := 0
		if g.pct(45) {
			nElseIf = g.intn(1, 2)
		}
		hasElse := nElseIf == 0 || g.pct(60)
		member := func() Node {
			var e Node
			var b []string
			if g.left > 1 && g.pct(40) {
				e, b = g.carrier(sc, false)
			} else {
				e, b = g.el(sc)
			}
			bound = append(bound, b...)
			return e
		}
		for k := 0; k < nElseIf && g.left > 0; k++ {
			e := member()
			e.ElseIf = g.scalar(sc)
			out = append(out, e)
		}
		if hasElse && (g.left > 0 || len(out) == 1) {
			e := member()
			e.Else = true
			out = append(out, e)
		}
	}
	return out, bound
}

// chain generates a v-if / v-else-if / v-else chain of 1-3 members.
func (g *gstate) chain(sc gscope) ([]Node, []string) {
	m := g.intn(1, 3)
	var out []Node
	var bound []string
	for j := 0; j < m && (j == 0 || g.left > 0); j++ {
		scm := sc
		var f *For
		if j > 0 && g.pct(10) {
			f, scm = g.newFor(sc) // a chosen later member that carries v-for runs as a loop
		}
		n, b := g.carrier(scm, false)
		n.For = f
		if f != nil {
			b = append(b, f.Var)
		}
		switch {
		case j == 0:
			n.If = g.scalar(sc)
		case j == m-1 && g.pct(60):
			n.Else = true
		default:
			n.ElseIf = g.scalar(sc)
		}
		out = append(out, n)
		bound = append(bound, b...)
	}
	return out, bound
}

// inc generates an include of a later component with props and slot content.
func (g *gstate) inc(sc gscope) (Node, []string) {
	g.left--
	ts := g.targets(sc)
	j := ts[g.intn(0, len(ts)-1)]
	fc := g.ifaces[j]
	n := Node{Kind: KInc, Comp: j, Short: g.pct(50)}
	used := map[string]bool{}
	var bound []string
	addProp := func(p Attr) {
		if used[p.Name] {
			return
		}
		used[p.Name] = true
		n.Props = append(n.Props, p)
	}
	for _, p := range fc.props {
		if !g.pct(75) {
			continue
		}
		switch r := g.intn(0, 99); {
		case r < 30:
			addProp(Attr{Mode: "static", Name: p, Text: g.token()})
		case r < 55:
			addProp(Attr{Mode: "interp", Name: p, Text: g.token(), Path: g.scalar(sc), Post: "z"})
		default:
			addProp(Attr{Mode: "bind", Name: p, Path: g.scalar(sc)})
		}
		bound = append(bound, p)
	}
	lists := filter(sc.lists, sc.ok)
	for _, p := range fc.lprops {
		if len(lists) > 0 && g.pct(80) {
			addProp(Attr{Mode: "bind", Name: p, Path: g.pick(lists)})
		}
	}
	// collision: the prop has the name of the loop variable it is bound to (:item="item")
	if k := len(sc.loopVars); k > 0 && sc.ok(sc.loopVars[k-1]) && g.pct(30) {
		lv := sc.loopVars[k-1]
		addProp(Attr{Mode: "bind", Name: lv, Path: lv})
		bound = append(bound, lv)
	}
	// collision: the prop has the name of another variable visible at the include site
	plain := filter(sc.sure, func(s string) bool { return sc.ok(s) && !strings.Contains(s, ".") && !used[s] })
	if len(plain) > 0 && g.pct(12) {
		name := g.pick(plain)
		if g.pct(50) {
			addProp(Attr{Mode: "static", Name: name, Text: g.token()})
		} else {
			addProp(Attr{Mode: "bind", Name: name, Path: g.pick(filter(sc.sure, sc.ok))})
		}
		bound = append(bound, name)
	}
	for _, b := range fc.fm {
		if b.Val.K != "l" {
			bound = append(bound, b.Name)
		}
	}
	g.bind(bound...)

	// slot content
	if g.left < 1 || sc.depth >= MaxDepth-1 {
		return n, bound
	}
	avoid := map[string]bool{}
	for k := range sc.avoid {
		avoid[k] = true
	}
	for jj := j; jj < len(g.ifaces); jj++ {
		for _, name := range g.ifaces[jj].boundNames() {
			avoid[name] = true
		}
	}
	for name := range used {
		avoid[name] = true
	}
	base := sc.deeper()
	base.avoid = avoid
	base.inContent = true
	base.pending = sc.pending // a component may pass its own slots on inside supplied content

	supply := func(name string, has bool, allowPlain bool) {
		if g.left < 1 {
			return
		}
		p := 65
		if !has {
			p = 8 // content for a slot the component lacks is never rendered
		}
		if !g.pct(p) {
			return
		}
		props := fc.slotProps(name)
		r := g.intn(0, 99)
		switch {
		case allowPlain && r < 35:
			n.Kids = g.bodyNonEmpty(base, 2)
		case r < 65 || (r < 90 && len(props) == 0):
			w := g.name('w')
			var paths []string
			for _, p := range props {
				paths = append(paths, w+"."+p)
			}
			g.bind(paths...)
			g.left--
			s := Supply{Name: name, Short: name != "" && g.pct(50), Var: w}
			s.Kids = g.bodyNonEmpty(base.withScalars(false, paths...), 2)
			n.Supply = append(n.Supply, s)
			bound = append(bound, paths...)
		case r < 90:
			var ds []string
			for _, p := range props {
				if g.pct(70) {
					ds = append(ds, p)
				}
			}
			if len(ds) == 0 {
				ds = []string{props[0]}
			}
			sc3 := base.withScalars(false, ds...)
			sc3.avoid = map[string]bool{}
			for k := range avoid {
				sc3.avoid[k] = true
			}
			for _, d := range ds {
				delete(sc3.avoid, d)
			}
			g.left--
			s := Supply{Name: name, Short: name != "" && g.pct(50), Destr: ds}
			s.Kids = g.bodyNonEmpty(sc3, 2)
			n.Supply = append(n.Supply, s)
		default:
			g.left--
			s := Supply{Name: name, Short: name != "" && g.pct(50)}
			s.Kids = g.bodyNonEmpty(base, 2)
			n.Supply = append(n.Supply, s)
		}
	}
	supply("a", fc.hasNamed, false)
	supply("", fc.hasDef, true)
	bound = append(bound, boundIn(n.Kids)...)
	return n, bound
}

// slotItem places the next pending <slot> of a component body, often inside a loop.
func (g *gstate) slotItem(sc gscope) ([]Node, []string) {
	name := (*sc.pending)[0]
	*sc.pending = (*sc.pending)[1:]
	fc := g.ifaces[sc.file-1]
	mk := func(sc gscope) Node {
		g.left--
		n := Node{Kind: KSlot, Name: name}
		for _, p := range fc.slotProps(name) {
			src := g.scalar(sc)
			if k := len(sc.loopVars); k > 0 && g.pct(60) {
				src = sc.loopVars[k-1]
			}
			n.SProps = append(n.SProps, KV{K: p, V: src})
		}
		if sc.depth < MaxDepth-1 && g.left > 0 && g.pct(50) {
			fsc := sc.deeper()
			fsc.pending = nil
			n.Kids = []Node{g.probe(fsc, nil)}
		}
		return n
	}
	lists := filter(sc.lists, sc.ok)
	switch {
	case g.left <= 1:
		// over budget: place the bare slot
	case len(sc.loopVars) == 0 && len(lists) > 0 && sc.depth < MaxDepth-1 && g.pct(40):
		f, sc2 := g.newFor(sc)
		if g.pct(30) {
			// v-for on the <slot> element itself
			n := mk(sc2)
			n.For = f
			return []Node{n}, []string{f.Var}
		}
		g.left--
		wrap := Node{Kind: KEl, Tag: g.pick(tags), M: g.marker("e"), For: f}
		wrap.Kids = []Node{mk(sc2.deeper())}
		return []Node{wrap}, []string{f.Var}
	case sc.depth < MaxDepth-1 && g.pct(12):
		g.left--
		wrap := Node{Kind: KEl, Tag: g.pick(tags), M: g.marker("e"), If: g.scalar(sc)}
		wrap.Kids = []Node{mk(sc.deeper())}
		return []Node{wrap}, nil
	case g.pct(30):
		// v-if on the <slot> element itself, optionally followed by a v-else element
		n := mk(sc)
		n.If = g.scalar(sc)
		out := []Node{n}
		if g.left > 0 && g.pct(50) {
			g.left--
			alt := Node{Kind: KEl, Tag: g.pick(tags), M: g.marker("e"), Else: true}
			if sc.depth < MaxDepth-1 {
				asc := sc.deeper()
				asc.pending = nil
				alt.Kids = []Node{g.probe(asc, nil)}
			}
			out = append(out, alt)
		}
		return out, nil
	case g.pct(30):
		// v-else-if / v-else on the <slot> element itself: the slot is a later member of a
		// chain headed by an element with v-if, or the tail of a looped element.
		g.left--
		head := Node{Kind: KEl, Tag: g.pick(tags), M: g.marker("e")}
		var bound []string
		hsc := sc
		if len(lists) > 0 && g.pct(30) {
			f, sc2 := g.newFor(sc)
			head.For = f
			hsc = sc2
			bound = append(bound, f.Var)
		} else {
			head.If = g.scalar(sc)
		}
		if sc.depth < MaxDepth-1 && g.left > 0 {
			psc := hsc.deeper()
			psc.pending = nil
			head.Kids = []Node{g.probe(psc, nil)}
		}
		n := mk(sc)
		if g.pct(60) {
			n.Else = true
		} else {
			n.ElseIf = g.scalar(sc)
		}
		return []Node{head, n}, bound
	}
	return []Node{mk(sc)}, nil
}

// Gen draws a program (construction, not rejection).
func Gen(t *rapid.T) Case {
	g := &gstate{t: t, cnt: map[byte]int{}}
	var c Case

	// storage dimension: ~40% of the cases present the file set through another store
	if g.pct(40) {
		c.Store = cat.Stores[g.intn(1, len(cat.Stores)-1)]
	}

	// page data: strings, bools, lists
	var dScalars, dLists []string
	for k, n := 0, g.intn(2, 3); k < n; k++ {
		name := g.name('d')
		c.Data = append(c.Data, Binding{name, Val{K: "s", S: g.token()}})
		dScalars = append(dScalars, name)
	}
	for k, n := 0, g.intn(2, 3); k < n; k++ {
		name := g.name('c')
		c.Data = append(c.Data, Binding{name, Val{K: "b", B: g.pct(55)}})
		dScalars = append(dScalars, name)
	}
	genList := func() Val {
		v := Val{K: "l", L: []string{}}
		for k, n := 0, g.intn(0, 3); k < n; k++ {
			if g.pct(10) {
				v.L = append(v.L, "") // a falsy item
			} else {
				v.L = append(v.L, g.token())
			}
		}
		return v
	}
	for k, n := 0, g.intn(1, 3); k < n; k++ {
		name := g.name('l')
		c.Data = append(c.Data, Binding{name, genList()})
		dLists = append(dLists, name)
	}

	// component interfaces
	names := []string{"KOne", "KTwo", "KThree"}
	for i, n := 0, g.intn(1, 3); i < n; i++ {
		var f iface
		for k, m := 0, g.intn(0, 2); k < m; k++ {
			f.props = append(f.props, g.name('p'))
		}
		if g.pct(40) {
			f.lprops = append(f.lprops, g.name('q'))
		}
		usedFM := map[string]bool{}
		for k, m := 0, g.intn(0, 2); k < m; k++ {
			var b Binding
			r := g.intn(0, 99)
			switch {
			case r < 15 && len(f.props) > 0:
				b = Binding{g.pick(f.props), Val{K: "s", S: g.token()}} // collision: front-matter key named like a prop
			case r < 25:
				b = Binding{g.pick(dScalars), Val{K: "s", S: g.token()}} // ... like a page variable
			case r < 45:
				b = Binding{g.name('g'), genList()}
			case r < 60:
				b = Binding{g.name('f'), Val{K: "b", B: g.pct(50)}}
			default:
				b = Binding{g.name('f'), Val{K: "s", S: g.token()}}
			}
			if !usedFM[b.Name] {
				usedFM[b.Name] = true
				f.fm = append(f.fm, b)
			}
		}
		f.hasDef = g.pct(60)
		f.hasNamed = g.pct(45)
		if f.hasDef {
			for k, m := 0, g.intn(0, 2); k < m; k++ {
				f.defProps = append(f.defProps, g.name('s'))
			}
		}
		if f.hasNamed {
			for k, m := 0, g.intn(0, 2); k < m; k++ {
				f.namedProps = append(f.namedProps, g.name('s'))
			}
		}
		g.ifaces = append(g.ifaces, f)
		c.Comps = append(c.Comps, Comp{Name: names[i], FM: f.fm, Root: g.pct(50)})
	}

	// the pool of names probes may print
	g.pool = append(g.pool, dScalars...)
	for _, f := range g.ifaces {
		g.pool = append(g.pool, f.props...)
		for _, b := range f.fm {
			if b.Val.K != "l" {
				g.pool = append(g.pool, b.Name)
			}
		}
		g.pool = append(g.pool, f.defProps...)
		g.pool = append(g.pool, f.namedProps...)
	}
	g.hot = append(g.hot, g.pool[len(dScalars):]...)
	g.pool = append(g.pool, "x1", "x2", "x3", "x4", "i1", "i2", "u0")

	// page
	g.left = pageBudget
	page := gscope{file: 0, scalars: dScalars, sure: dScalars, lists: dLists}
	for k, n := 0, g.intn(2, 4); k < n && g.left > 0; k++ {
		c.Page = append(c.Page, g.body(page, 1)...)
	}
	if len(c.Page) == 0 {
		c.Page = append(c.Page, g.probe(page, nil))
	}

	// component bodies
	for i, f := range g.ifaces {
		g.left = compBudget
		sc := gscope{file: i + 1}
		sc.scalars = append(sc.scalars, dScalars...)
		sc.scalars = append(sc.scalars, f.props...)
		sc.sure = append(sc.sure, dScalars...)
		sc.lists = append(sc.lists, dLists...)
		sc.lists = append(sc.lists, f.lprops...)
		for _, b := range f.fm {
			if b.Val.K == "l" {
				sc.lists = append(sc.lists, b.Name)
			} else {
				sc.scalars = append(sc.scalars, b.Name)
				sc.sure = append(sc.sure, b.Name)
			}
		}
		var pending []string
		if f.hasDef {
			pending = append(pending, "")
		}
		if f.hasNamed {
			pending = append(pending, "a")
		}
		if len(pending) == 2 && g.pct(50) {
			pending[0], pending[1] = pending[1], pending[0]
		}
		sc.pending = &pending
		body := g.body(sc, 3)
		for len(pending) > 0 {
			nodes, bound := g.slotItem(sc)
			body = append(body, nodes...)
			if g.left > 0 && g.pct(60) {
				body = append(body, g.probe(sc, bound))
			}
		}
		if len(body) == 0 {
			body = append(body, g.probe(sc, nil))
		}
		c.Comps[i].Body = body
		if (body[0].Kind == KTpl || body[0].Kind == KInc) && exclCompBodyStartsWithTemplateTag() {
			c.Comps[i].Root = true // ExclCompBodyStartsWithTemplateTag
		}
	}
	return c
}

var exclOnce sync.Once
var exclStartsWithTpl bool

// exclCompBodyStartsWithTemplateTag: the shape is generated unless the corresponding finding is
// listed as open in /verif/known_findings.json (it was repaired in /repo commit 71f20a2).
func exclCompBodyStartsWithTemplateTag() bool {
	exclOnce.Do(func() { exclStartsWithTpl = kf.Load().Open("C05-component-file-starts-with-template-tag") })
	return exclStartsWithTpl
}
