package compose

import (
	"strings"
	"testing"

	"pgregory.net/rapid"
)

func TestUnspecReasons(t *testing.T) {
	h := map[string]int{}
	g := rapid.Custom(Gen)
	for i := 0; i < 3000; i++ {
		c := g.Example(i)
		r := Interpret(c)
		if r.Unspecified != "" {
			k := r.Unspecified
			if j := strings.Index(k, "\""); j > 0 {
				k = k[:j]
			}
			h[k]++
		}
	}
	t.Log(h)
}
