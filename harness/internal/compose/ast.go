// Package compose generates vuego programs that COMBINE the features the per-property packages
// check in isolation (C03 conditional chains, C04 v-for scoping, C05 component props, C06 slots,
// C14 attribute binding) and predicts their output with a small reference interpreter of the
// template language (model.go) that never calls vuego.
//
// A Case is pure JSON-serialisable data: the AST of page.vuego, of up to three component files
// and the page data. Files() derives the template text by construction, the interpreter derives
// the expected sequence of marked elements from the same AST, Check renders the files through
// vuego and compares.
//
// The observable is the PROBE: <i data-m="pN" :data-v="A">{{ A }}|{{ B }}|{{ C }}</i> prints a
// handful of names chosen from all names of the program. Every binding site (page data key, loop
// variable, index, prop, front-matter key, slot prop, slot variable) has a globally unique name -
// except a deliberate minority of collisions - and every value is a unique token, so a value that
// shows up where the model says "not visible" is a leak that can be attributed.
//
// What the model asserts (grounded in the property statements / docs):
//
//	chain    first truthy member, else the v-else member, else nothing (C03)
//	v-for    one instance per item in order, bindings inside only; v-if on the same element is a
//	         per-item filter (suite-pinned); the v-else-if / v-else siblings that directly follow
//	         a looped ELEMENT belong to it: they are rendered as a chain iff the loop produced
//	         no instance, and skipped otherwise (C04, /repo a76c66e)
//	include  body evaluated with includer scope (+) props (+) front-matter (front-matter wins);
//	         nothing of it visible afterwards (C05); shorthand tag == explicit include
//	slot     supplied content for that name evaluated in the scope of the INCLUDE SITE plus the slot
//	         props under the declared name / destructured; else the fallback in the component scope
//	v-show   style contains display:none iff falsy; bound attribute present iff truthy (C14)
//	undefined prints as empty text and is falsy
//
// What it deliberately leaves unasserted (see model.go: "gray" reads and Result.Unspecified):
// vuego evaluates slot content on top of the component's dynamic scope, so supplied content also
// sees the component's props / front-matter / loop variables / unscoped slot props. The
// statements only promise the includer's variables plus the slot props. The interpreter therefore
// tracks both readings and asserts a read only where they agree; a condition, loop collection or
// prop source on which they disagree makes the whole case unspecified (Check passes it, Classify
// labels it). Gen keeps such reads rare by construction.
package compose

import (
	"fmt"
	"sort"
	"strings"
)

// Val is a page-data or front-matter value: K = "s" (string S), "b" (bool B), "l" (list of strings L).
type Val struct {
	K string   `json:"k"`
	S string   `json:"s,omitempty"`
	B bool     `json:"b,omitempty"`
	L []string `json:"l,omitempty"`
}

// Binding is a named value (ordered lists of bindings keep cases deterministic).
type Binding struct {
	Name string `json:"name"`
	Val  Val    `json:"val"`
}

// Case is a whole program.
type Case struct {
	Page  []Node    `json:"page"`
	Comps []Comp    `json:"comps,omitempty"`
	Data  []Binding `json:"data,omitempty"`
	// Store: how the file set is presented to the engine (cat.Stores: "" plain memfs,
	// "openonly", "overlay2", "overlay3"). The expected output does not depend on it.
	Store string `json:"store,omitempty"`
}

// Comp is the file components/<Name>.vuego (Name is PascalCase: KOne -> tag <k-one>).
type Comp struct {
	Name string    `json:"name"`
	FM   []Binding `json:"fm,omitempty"`   // YAML front-matter
	Root bool      `json:"root,omitempty"` // body wrapped in a <template> root
	Body []Node    `json:"body"`
}

// For is v-for="Var in List" or v-for="(Idx, Var) in List".
type For struct {
	Idx  string `json:"idx,omitempty"`
	Var  string `json:"var"`
	List string `json:"list"`
}

// Attr is an attribute of an element or a prop of an include.
//
//	static  Name="Text"      interp  Name="Text{{ Path }}Post"      bind  :Name="Path"
type Attr struct {
	Mode string `json:"mode"`
	Name string `json:"name"`
	Text string `json:"text,omitempty"`
	Path string `json:"path,omitempty"`
	Post string `json:"post,omitempty"`
}

// KV is a bound slot prop :K="V" on a <slot> element.
type KV struct {
	K string `json:"k"`
	V string `json:"v"`
}

// Supply is a <template v-slot...> child of an include tag.
//
//	Name ""  -> v-slot          Name "a", Short false -> v-slot:a        Short true -> #a
//	Var  -> ="Var" (props as an object)   Destr -> ="{ a, b }"   neither -> unscoped
type Supply struct {
	Name  string   `json:"name,omitempty"`
	Short bool     `json:"short,omitempty"`
	Var   string   `json:"var,omitempty"`
	Destr []string `json:"destr,omitempty"`
	Kids  []Node   `json:"kids"`
}

// Node kinds.
const (
	KEl    = "el"    // marked element <Tag data-m=M ...>Kids</Tag>
	KTpl   = "tpl"   // <template v-if/v-for...>Kids</template> (no other attributes)
	KProbe = "probe" // <i data-m=M :data-v=Bind>{{ Reads[0] }}|{{ Reads[1] }}|...</i>
	KInc   = "inc"   // <template include=...> or shorthand tag; Kids = plain default-slot content
	KSlot  = "slot"  // <slot name=Name :k="v">Kids (fallback)</slot>, component files only
)

// Node is one template node.
type Node struct {
	Kind string `json:"kind"`
	M    string `json:"m,omitempty"`
	Tag  string `json:"tag,omitempty"`

	// directives (el, tpl, inc); ElseIf / Else attach to the previous element sibling
	If     string `json:"if,omitempty"`
	ElseIf string `json:"elseif,omitempty"`
	Else   bool   `json:"else,omitempty"`
	For    *For   `json:"for,omitempty"`
	Show   string `json:"show,omitempty"` // el only

	Attrs []Attr `json:"attrs,omitempty"` // el only
	Kids  []Node `json:"kids,omitempty"`

	// probe
	Reads []string `json:"reads,omitempty"`
	Bind  string   `json:"bind,omitempty"`

	// inc
	Comp   int      `json:"comp,omitempty"` // index into Case.Comps
	Short  bool     `json:"short,omitempty"`
	Props  []Attr   `json:"props,omitempty"`
	Supply []Supply `json:"supply,omitempty"`

	// slot
	Name   string `json:"name,omitempty"` // "" = default slot
	SProps []KV   `json:"sprops,omitempty"`
}

// CompFile is the path of component i.
func (c Case) CompFile(i int) string { return "components/" + c.Comps[i].Name + ".vuego" }

// kebab mirrors the documented PascalCase -> kebab-case rule for shorthand tags.
func kebab(s string) string {
	var b strings.Builder
	for i, r := range s {
		if r >= 'A' && r <= 'Z' {
			if i > 0 {
				b.WriteByte('-')
			}
			r += 'a' - 'A'
		}
		b.WriteRune(r)
	}
	return b.String()
}

// Files renders the program: page.vuego and components/*.vuego.
func (c Case) Files() map[string]string {
	out := map[string]string{}
	var sb strings.Builder
	c.writeNodes(&sb, c.Page, 0)
	out["page.vuego"] = sb.String()
	for i, k := range c.Comps {
		sb.Reset()
		if len(k.FM) > 0 {
			sb.WriteString("---\n")
			for _, b := range k.FM {
				fmt.Fprintf(&sb, "%s: %s\n", b.Name, yamlVal(b.Val))
			}
			sb.WriteString("---\n")
		}
		if k.Root {
			sb.WriteString("<template>\n")
			c.writeNodes(&sb, k.Body, 1)
			sb.WriteString("</template>\n")
		} else {
			c.writeNodes(&sb, k.Body, 0)
		}
		out[c.CompFile(i)] = sb.String()
	}
	return out
}

// DataMap is the page data as passed to vuego.
func (c Case) DataMap() map[string]any {
	m := map[string]any{}
	for _, b := range c.Data {
		m[b.Name] = b.Val.goVal()
	}
	return m
}

func (v Val) goVal() any {
	switch v.K {
	case "b":
		return v.B
	case "l":
		l := make([]any, len(v.L))
		for i, s := range v.L {
			l[i] = s
		}
		return l
	}
	return v.S
}

func yamlVal(v Val) string {
	switch v.K {
	case "b":
		if v.B {
			return "true"
		}
		return "false"
	case "l":
		parts := make([]string, len(v.L))
		for i, s := range v.L {
			parts[i] = fmt.Sprintf("%q", s)
		}
		return "[" + strings.Join(parts, ", ") + "]"
	}
	return fmt.Sprintf("%q", v.S)
}

func (f *For) String() string {
	if f.Idx != "" {
		return fmt.Sprintf("(%s, %s) in %s", f.Idx, f.Var, f.List)
	}
	return f.Var + " in " + f.List
}

func directives(n *Node) string {
	var sb strings.Builder
	switch {
	case n.If != "":
		fmt.Fprintf(&sb, ` v-if="%s"`, n.If)
	case n.ElseIf != "":
		fmt.Fprintf(&sb, ` v-else-if="%s"`, n.ElseIf)
	case n.Else:
		sb.WriteString(` v-else`)
	}
	if n.For != nil {
		fmt.Fprintf(&sb, ` v-for="%s"`, n.For.String())
	}
	if n.Show != "" {
		fmt.Fprintf(&sb, ` v-show="%s"`, n.Show)
	}
	return sb.String()
}

func attrText(a Attr) string {
	switch a.Mode {
	case "bind":
		return fmt.Sprintf(` :%s="%s"`, a.Name, a.Path)
	case "interp":
		return fmt.Sprintf(` %s="%s{{ %s }}%s"`, a.Name, a.Text, a.Path, a.Post)
	}
	return fmt.Sprintf(` %s="%s"`, a.Name, a.Text)
}

func (c Case) writeNodes(sb *strings.Builder, ns []Node, ind int) {
	pad := strings.Repeat("  ", ind)
	for i := range ns {
		n := &ns[i]
		switch n.Kind {
		case KProbe:
			fmt.Fprintf(sb, `%s<i data-m="%s"`, pad, n.M)
			if n.Bind != "" {
				fmt.Fprintf(sb, ` :data-v="%s"`, n.Bind)
			}
			sb.WriteString(">")
			for j, r := range n.Reads {
				if j > 0 {
					sb.WriteString("|")
				}
				fmt.Fprintf(sb, "{{ %s }}", r)
			}
			sb.WriteString("</i>\n")
		case KEl:
			fmt.Fprintf(sb, `%s<%s data-m="%s"%s`, pad, n.Tag, n.M, directives(n))
			for _, a := range n.Attrs {
				sb.WriteString(attrText(a))
			}
			sb.WriteString(">\n")
			c.writeNodes(sb, n.Kids, ind+1)
			fmt.Fprintf(sb, "%s</%s>\n", pad, n.Tag)
		case KTpl:
			fmt.Fprintf(sb, "%s<template%s>\n", pad, directives(n))
			c.writeNodes(sb, n.Kids, ind+1)
			fmt.Fprintf(sb, "%s</template>\n", pad)
		case KSlot:
			fmt.Fprintf(sb, "%s<slot%s", pad, directives(n))
			if n.Name != "" {
				fmt.Fprintf(sb, ` name="%s"`, n.Name)
			}
			for _, kv := range n.SProps {
				fmt.Fprintf(sb, ` :%s="%s"`, kv.K, kv.V)
			}
			if len(n.Kids) == 0 {
				sb.WriteString("></slot>\n")
				break
			}
			sb.WriteString(">\n")
			c.writeNodes(sb, n.Kids, ind+1)
			fmt.Fprintf(sb, "%s</slot>\n", pad)
		case KInc:
			tag, inc := "template", ""
			if n.Comp >= 0 && n.Comp < len(c.Comps) {
				if n.Short {
					tag = kebab(c.Comps[n.Comp].Name)
				} else {
					inc = fmt.Sprintf(` include="%s"`, c.CompFile(n.Comp))
				}
			}
			fmt.Fprintf(sb, "%s<%s%s%s", pad, tag, inc, directives(n))
			for _, p := range n.Props {
				sb.WriteString(attrText(p))
			}
			if len(n.Kids) == 0 && len(n.Supply) == 0 {
				fmt.Fprintf(sb, "></%s>\n", tag)
				break
			}
			sb.WriteString(">\n")
			for _, s := range n.Supply {
				key := "v-slot"
				if s.Name != "" {
					if s.Short {
						key = "#" + s.Name
					} else {
						key = "v-slot:" + s.Name
					}
				}
				switch {
				case s.Var != "":
					fmt.Fprintf(sb, `%s  <template %s="%s">`+"\n", pad, key, s.Var)
				case len(s.Destr) > 0:
					fmt.Fprintf(sb, `%s  <template %s="{ %s }">`+"\n", pad, key, strings.Join(s.Destr, ", "))
				default:
					fmt.Fprintf(sb, "%s  <template %s>\n", pad, key)
				}
				c.writeNodes(sb, s.Kids, ind+2)
				fmt.Fprintf(sb, "%s  </template>\n", pad)
			}
			c.writeNodes(sb, n.Kids, ind+1)
			fmt.Fprintf(sb, "%s</%s>\n", pad, tag)
		}
	}
}

// Dump renders the files and the data for error messages.
func (c Case) Dump() string {
	files := c.Files()
	names := make([]string, 0, len(files))
	for k := range files {
		names = append(names, k)
	}
	sort.Strings(names)
	var sb strings.Builder
	for _, k := range names {
		fmt.Fprintf(&sb, "--- %s ---\n%s", k, files[k])
	}
	if c.Store != "" {
		fmt.Fprintf(&sb, "--- store: %s ---\n", c.Store)
	}
	sb.WriteString("--- data ---\n")
	for _, b := range c.Data {
		fmt.Fprintf(&sb, "%s = %s\n", b.Name, yamlVal(b.Val))
	}
	return sb.String()
}
