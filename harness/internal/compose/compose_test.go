package compose

import (
	"fmt"
	"os"
	"sort"
	"strconv"
	"sync"
	"testing"
	"time"

	"pgregory.net/rapid"
)

// TestCalibrate: every generated program renders as the reference interpreter predicts.
// Run with -v to see the class histogram, the sizes and the time spent:
//
//	go test -count=1 -v -run TestCalibrate ./internal/compose -rapid.checks=5000
func TestCalibrate(t *testing.T) {
	var mu sync.Mutex
	hist := map[string]int{}
	n, nontrivial, maxNodes, maxDepth, sumNodes := 0, 0, 0, 0, 0
	start := time.Now()
	defer func() {
		mu.Lock()
		defer mu.Unlock()
		keys := make([]string, 0, len(hist))
		for k := range hist {
			keys = append(keys, k)
		}
		sort.Strings(keys)
		out := fmt.Sprintf("cases=%d nontrivial=%d elapsed=%s nodes(avg/max)=%d/%d depth(max)=%d\n",
			n, nontrivial, time.Since(start).Round(time.Millisecond), sumNodes/max(n, 1), maxNodes, maxDepth)
		for _, k := range keys {
			out += fmt.Sprintf("  %-36s %6d  %5.1f%%\n", k, hist[k], 100*float64(hist[k])/float64(max(n, 1)))
		}
		t.Log(out)
	}()
	rapid.Check(t, func(rt *rapid.T) {
		c := Gen(rt)
		nt, classes := Classify(c)
		nodes, depth := Size(c)
		mu.Lock()
		n++
		if nt {
			nontrivial++
		}
		for _, k := range classes {
			hist[k]++
		}
		sumNodes += nodes
		maxNodes = max(maxNodes, nodes)
		maxDepth = max(maxDepth, depth)
		mu.Unlock()
		if err := Check(c); err != nil {
			rt.Fatalf("%v", err)
		}
	})
}

// TestDump prints a few generated programs with their classes (COMPOSE_DUMP=n).
func TestDump(t *testing.T) {
	n, _ := strconv.Atoi(os.Getenv("COMPOSE_DUMP"))
	if n == 0 {
		t.Skip("set COMPOSE_DUMP=n")
	}
	g := rapid.Custom(Gen)
	for i := 0; i < n; i++ {
		c := g.Example(i)
		_, classes := Classify(c)
		res := Interpret(c)
		t.Logf("seed %d classes=%v unspecified=%q gray=%d\n%s", i, classes, res.Unspecified, res.Gray, c.Dump())
	}
}
