package compose

import (
	"fmt"
	"sort"
	"sync"
	"testing"
	"time"

	"pgregory.net/rapid"
)

// TestCalibrate: every generated program renders as the reference interpreter predicts.
// Run with -v to see the class histogram and the time spent.
func TestCalibrate(t *testing.T) {
	var mu sync.Mutex
	hist := map[string]int{}
	n, nontrivial := 0, 0
	start := time.Now()
	defer func() {
		mu.Lock()
		defer mu.Unlock()
		keys := make([]string, 0, len(hist))
		for k := range hist {
			keys = append(keys, k)
		}
		sort.Strings(keys)
		out := fmt.Sprintf("cases=%d nontrivial=%d elapsed=%s\n", n, nontrivial, time.Since(start).Round(time.Millisecond))
		for _, k := range keys {
			out += fmt.Sprintf("  %-36s %6d  %5.1f%%\n", k, hist[k], 100*float64(hist[k])/float64(max(n, 1)))
		}
		t.Log(out)
	}()
	rapid.Check(t, func(rt *rapid.T) {
		c := Gen(rt)
		nt, classes := Classify(c)
		mu.Lock()
		n++
		if nt {
			nontrivial++
		}
		for _, k := range classes {
			hist[k]++
		}
		mu.Unlock()
		if err := Check(c); err != nil {
			rt.Fatalf("%v", err)
		}
	})
}
