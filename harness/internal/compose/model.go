package compose

import (
	"fmt"
	"strconv"
	"strings"
)

// ---------------------------------------------------------------------------------------------
// Reference interpreter. It never calls vuego.
//
// Scopes are immutable linked frames. An env carries TWO chains:
//
//	lex  the scope the property statements promise (slot content: scope of the include site
//	     plus the slot props it declares)
//	dyn  the alternative reading in which supplied slot content is evaluated where the <slot>
//	     stands, i.e. additionally sees the component's props, front-matter, loop variables and
//	     (for unscoped content) the slot props - which is what vuego does and what the
//	     statements neither promise nor forbid.
//
// A read is ASSERTED only if both chains resolve the name to the same binding; otherwise it is
// "gray" (Seg.Any / ExpAttr.Any). A gray value that steers control flow (condition, loop
// collection) or travels on as a prop makes the case Unspecified.
// ---------------------------------------------------------------------------------------------

type frame struct {
	id     int
	vars   map[string]any
	parent *frame
}

// boundUndef is the value of a name that is bound but has no value (destructured slot prop the
// slot does not provide): it shadows outer bindings and reads as undefined.
type boundUndef struct{}

// grayVal is the value of a read on which the two readings disagree.
type grayVal struct{}

type env struct{ lex, dyn *frame }

func (f *frame) find(name string) (any, int) {
	for ; f != nil; f = f.parent {
		if v, ok := f.vars[name]; ok {
			return v, f.id
		}
	}
	return nil, 0
}

// slotEnv is what one include site supplies, together with the scope it was written in.
type slotEnv struct {
	site   *Node
	env    env
	parent *slotEnv // slot environment in effect where the include tag is written
}

func (s *slotEnv) find(name string) (kids []Node, sup *Supply, ok bool) {
	for i := range s.site.Supply {
		if s.site.Supply[i].Name == name {
			return s.site.Supply[i].Kids, &s.site.Supply[i], true
		}
	}
	if name == "" && len(s.site.Kids) > 0 {
		return s.site.Kids, nil, true
	}
	return nil, nil, false
}

// Seg is one |-separated piece of a probe's text.
type Seg struct {
	V   string `json:"v"`
	Any bool   `json:"any,omitempty"`
}

// ExpAttr is the expectation for one attribute.
type ExpAttr struct {
	V      string `json:"v,omitempty"`
	Absent bool   `json:"absent,omitempty"`
	Any    bool   `json:"any,omitempty"`
}

// Exp is one expected marked element, in document order.
type Exp struct {
	ID    string             `json:"id"`
	Depth int                `json:"depth"` // number of marked ancestors
	Probe bool               `json:"probe,omitempty"`
	Segs  []Seg              `json:"segs,omitempty"`
	Attrs map[string]ExpAttr `json:"attrs,omitempty"` // every attribute except data-m and style
	// v-show: Show says the element carries it; Hidden that display:none is expected.
	Show    bool `json:"show,omitempty"`
	Hidden  bool `json:"hidden,omitempty"`
	ShowAny bool `json:"show_any,omitempty"`
}

// Result of interpreting a case.
type Result struct {
	Exp         []Exp
	Unspecified string // non-empty: the case leaves the asserted region (reason)
	Gray        int    // number of unasserted reads
	Includes    int    // component instances rendered
	SlotFills   int    // slots filled with supplied content
	Fallbacks   int    // slots rendered with their fallback
	Instances   int    // loop instances rendered
}

type interp struct {
	c      Case
	res    *Result
	nextID int
	steps  int
}

const maxSteps = 20000

const tooLarge = "program too large for the interpreter budget"

// Interpret computes the expected output of c.
func Interpret(c Case) (res Result) {
	m := &interp{c: c, res: &res}
	defer func() {
		if r := recover(); r != nil {
			if u, ok := r.(unspecified); ok {
				res.Unspecified = string(u)
				return
			}
			panic(r)
		}
	}()
	root := map[string]any{}
	for _, b := range c.Data {
		root[b.Name] = b.Val.goVal()
	}
	f := m.frame(root, nil)
	m.nodes(c.Page, env{f, f}, nil, 0)
	return res
}

type unspecified string

func (m *interp) unspec(format string, a ...any) {
	panic(unspecified(fmt.Sprintf(format, a...)))
}

func (m *interp) frame(vars map[string]any, parent *frame) *frame {
	m.nextID++
	return &frame{id: m.nextID, vars: vars, parent: parent}
}

// push adds the same binding frame to both chains.
func (m *interp) push(e env, vars map[string]any) env {
	m.nextID++
	return env{
		lex: &frame{id: m.nextID, vars: vars, parent: e.lex},
		dyn: &frame{id: m.nextID, vars: vars, parent: e.dyn},
	}
}

// read resolves "name" or "name.field". ok=false: undefined. gray: the readings disagree.
func (m *interp) read(e env, path string) (val any, ok bool, gray bool) {
	head, field, dotted := strings.Cut(path, ".")
	v, id := e.lex.find(head)
	if _, id2 := e.dyn.find(head); id2 != id {
		m.res.Gray++
		return grayVal{}, true, true
	}
	if _, isGray := v.(grayVal); isGray {
		m.res.Gray++
		return grayVal{}, true, true
	}
	if id == 0 {
		return nil, false, false
	}
	if _, u := v.(boundUndef); u {
		return nil, false, false
	}
	if dotted {
		obj, isObj := v.(map[string]any)
		if !isObj {
			return nil, false, false
		}
		fv, has := obj[field]
		if !has {
			return nil, false, false
		}
		if _, isGray := fv.(grayVal); isGray {
			m.res.Gray++
			return grayVal{}, true, true
		}
		return fv, true, false
	}
	return v, true, false
}

// str is the printed form of a defined scalar.
func str(v any) string {
	switch x := v.(type) {
	case string:
		return x
	case bool:
		return strconv.FormatBool(x)
	case int:
		return strconv.Itoa(x)
	}
	return fmt.Sprint(v)
}

// truthy is the documented rule: false, zero, "", nil and undefined are falsy, everything else
// truthy. (vuego additionally treats the string "false" as falsy; tokens never spell it.)
func truthy(v any, ok bool) bool {
	if !ok || v == nil {
		return false
	}
	switch x := v.(type) {
	case bool:
		return x
	case string:
		return x != ""
	case int:
		return x != 0
	}
	return true
}

// cond evaluates a condition; a gray condition leaves the asserted region.
func (m *interp) cond(e env, path string) bool {
	v, ok, gray := m.read(e, path)
	if gray {
		m.unspec("condition %q reads a name on which the includer-scope and component-scope readings of slot content disagree", path)
	}
	return truthy(v, ok)
}

func (m *interp) step() {
	m.steps++
	if m.steps > maxSteps {
		m.unspec(tooLarge)
	}
}

func isChainMember(n *Node) bool { return n.ElseIf != "" || n.Else }

// nodes evaluates a sibling list (chain formation happens here).
func (m *interp) nodes(ns []Node, e env, se *slotEnv, depth int) {
	for i := 0; i < len(ns); {
		n := &ns[i]
		m.step()
		switch {
		case n.If == "" && isChainMember(n):
			// member without a chain head: dropped
			i++
		case n.For != nil:
			// v-for (with v-if on the same element as a per-item filter)
			count := m.loop(n, e, se, depth, n.If)
			i++
			// A looped element owns the whole v-else-if / v-else tail that follows it: when
			// the loop produced nothing the tail is evaluated as a chain (first v-else-if
			// whose condition holds, else the v-else); otherwise all members are skipped.
			j := i
			for j < len(ns) && isChainMember(&ns[j]) {
				j++
			}
			if j > i {
				if n.Kind != KEl {
					m.unspec("v-else-if / v-else after a v-for on <template>, an include or a <slot>: 'produced nothing' is not defined for it")
				}
				if count == 0 {
					for k := i; k < j; k++ {
						mem := &ns[k]
						if mem.Else || m.cond(e, mem.ElseIf) {
							m.member(mem, e, se, depth)
							break
						}
					}
				}
				i = j
			}
		case n.If != "":
			j := i + 1
			for j < len(ns) && isChainMember(&ns[j]) {
				j++
			}
			if m.cond(e, n.If) {
				m.member(n, e, se, depth)
			} else {
				for k := i + 1; k < j; k++ {
					mem := &ns[k]
					if mem.Else || m.cond(e, mem.ElseIf) {
						m.member(mem, e, se, depth)
						break
					}
				}
			}
			i = j
		default:
			m.body(n, e, se, depth)
			i++
		}
	}
}

// member renders a chosen chain member (its own condition has been decided).
func (m *interp) member(n *Node, e env, se *slotEnv, depth int) {
	if n.For != nil {
		m.loop(n, e, se, depth, "")
		return
	}
	m.body(n, e, se, depth)
}

// loop renders one instance per item and returns how many instances it rendered.
func (m *interp) loop(n *Node, e env, se *slotEnv, depth int, filter string) int {
	v, ok, gray := m.read(e, n.For.List)
	if gray {
		m.unspec("v-for collection %q is a gray read", n.For.List)
	}
	if !ok {
		return 0 // missing collection: no instance
	}
	list, isList := v.([]any)
	if !isList {
		m.unspec("v-for over a non-list value (%q)", n.For.List)
	}
	count := 0
	for i, item := range list {
		m.step()
		vars := map[string]any{}
		if n.For.Idx != "" {
			vars[n.For.Idx] = i
		}
		vars[n.For.Var] = item
		e2 := m.push(e, vars)
		if filter != "" && !m.cond(e2, filter) {
			continue
		}
		count++
		m.res.Instances++
		m.body(n, e2, se, depth)
	}
	return count
}

// body renders a node whose chain / loop directives have been dealt with.
func (m *interp) body(n *Node, e env, se *slotEnv, depth int) {
	m.step()
	switch n.Kind {
	case KEl:
		x := Exp{ID: n.M, Depth: depth, Attrs: map[string]ExpAttr{}}
		for _, a := range n.Attrs {
			x.Attrs[a.Name] = m.attr(e, a)
		}
		if n.Show != "" {
			x.Show = true
			v, ok, gray := m.read(e, n.Show)
			x.ShowAny = gray
			x.Hidden = !gray && !truthy(v, ok)
		}
		m.res.Exp = append(m.res.Exp, x)
		m.nodes(n.Kids, e, se, depth+1)
	case KTpl:
		m.nodes(n.Kids, e, se, depth)
	case KProbe:
		x := Exp{ID: n.M, Depth: depth, Probe: true, Attrs: map[string]ExpAttr{}}
		for _, r := range n.Reads {
			v, ok, gray := m.read(e, r)
			switch {
			case gray:
				x.Segs = append(x.Segs, Seg{Any: true})
			case !ok || v == nil:
				x.Segs = append(x.Segs, Seg{})
			default:
				x.Segs = append(x.Segs, Seg{V: str(v)})
			}
		}
		if n.Bind != "" {
			x.Attrs["data-v"] = m.attr(e, Attr{Mode: "bind", Name: "data-v", Path: n.Bind})
		}
		m.res.Exp = append(m.res.Exp, x)
	case KInc:
		m.include(n, e, se, depth)
	case KSlot:
		m.slot(n, e, se, depth)
	}
}

// attr is the expectation for an element attribute.
func (m *interp) attr(e env, a Attr) ExpAttr {
	switch a.Mode {
	case "bind":
		v, ok, gray := m.read(e, a.Path)
		if gray {
			return ExpAttr{Any: true}
		}
		if !truthy(v, ok) {
			return ExpAttr{Absent: true}
		}
		return ExpAttr{V: str(v)}
	case "interp":
		v, ok, gray := m.read(e, a.Path)
		if gray {
			return ExpAttr{Any: true}
		}
		s := ""
		if ok && v != nil {
			s = str(v)
		}
		return ExpAttr{V: a.Text + s + a.Post}
	}
	return ExpAttr{V: a.Text}
}

// include renders a component instance: includer scope (+) props (+) front-matter.
func (m *interp) include(n *Node, e env, se *slotEnv, depth int) {
	if n.Comp < 0 || n.Comp >= len(m.c.Comps) {
		m.unspec("include of an unknown component")
	}
	comp := &m.c.Comps[n.Comp]
	vars := map[string]any{}
	for _, p := range n.Props {
		switch p.Mode {
		case "static":
			vars[p.Name] = p.Text
		case "interp":
			v, ok, gray := m.read(e, p.Path)
			switch {
			case gray:
				vars[p.Name] = grayVal{}
			case ok && v != nil:
				vars[p.Name] = p.Text + str(v) + p.Post
			default:
				vars[p.Name] = p.Text + p.Post
			}
		case "bind":
			v, ok, gray := m.read(e, p.Path)
			switch {
			case gray:
				vars[p.Name] = grayVal{}
			case ok:
				vars[p.Name] = v
			default:
				// Binding a prop to an undefined name: vuego binds nothing (the includer's
				// variable of that name, if any, stays visible), Vue would bind undefined.
				// The statements do not say; it only matters when the name is visible anyway.
				if _, id := e.lex.find(p.Name); id != 0 {
					m.unspec("prop %q bound to the undefined %q shadows (or not) a visible variable", p.Name, p.Path)
				}
				if _, id := e.dyn.find(p.Name); id != 0 {
					m.unspec("prop %q bound to the undefined %q shadows (or not) a visible variable", p.Name, p.Path)
				}
			}
		}
	}
	for _, b := range comp.FM {
		vars[b.Name] = b.Val.goVal() // front-matter wins
	}
	m.res.Includes++
	e2 := m.push(e, vars)
	se2 := &slotEnv{site: n, env: e, parent: se}
	m.nodes(comp.Body, e2, se2, depth)
}

// slot renders the supplied content (include-site scope + slot props) or the fallback.
func (m *interp) slot(n *Node, e env, se *slotEnv, depth int) {
	props := map[string]any{}
	for _, kv := range n.SProps {
		v, ok, gray := m.read(e, kv.V)
		switch {
		case gray:
			props[kv.K] = grayVal{}
		case ok && v != nil:
			props[kv.K] = v
		}
	}
	if se != nil {
		if kids, sup, ok := se.find(n.Name); ok {
			m.res.SlotFills++
			lexVars := map[string]any{}
			switch {
			case sup != nil && sup.Var != "":
				lexVars[sup.Var] = props
			case sup != nil && len(sup.Destr) > 0:
				for _, name := range sup.Destr {
					if v, has := props[name]; has {
						lexVars[name] = v
					} else {
						lexVars[name] = boundUndef{}
					}
				}
			}
			dynVars := lexVars
			m.nextID++
			lexID := m.nextID
			dynID := lexID
			if sup == nil || (sup.Var == "" && len(sup.Destr) == 0) {
				// Unscoped content: the statements give it no slot props; vuego binds them
				// directly. Different frames make every such read gray.
				if len(props) > 0 {
					dynVars = props
					m.nextID++
					dynID = m.nextID
				}
			}
			e2 := env{
				lex: &frame{id: lexID, vars: lexVars, parent: se.env.lex},
				dyn: &frame{id: dynID, vars: dynVars, parent: e.dyn},
			}
			m.nodes(kids, e2, se.parent, depth)
			return
		}
	}
	m.res.Fallbacks++
	m.nodes(n.Kids, e, se, depth)
}
