package compose

import (
	"bytes"
	"context"
	"fmt"
	"io/fs"
	"sort"
	"strings"

	"github.com/titpetric/vuego"
	"golang.org/x/net/html"

	"verif/internal/cat"
	"verif/internal/hx"
	"verif/internal/memfs"
)

// got is one marked element of the rendered output.
type got struct {
	id    string
	depth int
	text  string
	attrs map[string]string
}

// flatten lists the marked elements in document order and reports anything that is not one:
// every element of a generated program carries data-m and all text stands inside probes, so an
// unmarked element (<template>, <slot>, an unresolved shorthand tag ...) or stray text is wrong.
func flatten(ns []*hx.N, depth int, inProbe bool, out *[]got, stray *[]string) {
	for _, n := range ns {
		if n.Doctype {
			*stray = append(*stray, n.Brief())
			continue
		}
		if n.Tag == "" {
			if !inProbe {
				*stray = append(*stray, n.Brief())
			}
			continue
		}
		id, ok := n.Attrs["data-m"]
		if !ok || inProbe {
			*stray = append(*stray, n.Brief())
			flatten(n.Kids, depth, inProbe, out, stray)
			continue
		}
		var own []string
		for _, k := range n.Kids {
			if k.Tag == "" && !k.Doctype {
				own = append(own, k.Text)
			}
		}
		*out = append(*out, got{id: id, depth: depth, text: strings.Join(own, " "), attrs: n.Attrs})
		flatten(n.Kids, depth+1, n.Tag == "i", out, stray)
	}
}

func describeExp(x Exp) string {
	if x.Probe {
		parts := make([]string, len(x.Segs))
		for i, s := range x.Segs {
			if s.Any {
				parts[i] = "*"
			} else {
				parts[i] = s.V
			}
		}
		return fmt.Sprintf("%s@%d[%s]", x.ID, x.Depth, strings.Join(parts, "|"))
	}
	return fmt.Sprintf("%s@%d", x.ID, x.Depth)
}

func describeGot(g got) string {
	if g.text != "" {
		return fmt.Sprintf("%s@%d[%s]", g.id, g.depth, g.text)
	}
	return fmt.Sprintf("%s@%d", g.id, g.depth)
}

// compare checks one rendering against the expectation.
func compare(exp []Exp, output string) error {
	forest, err := hx.Frag(output, hx.Collapse)
	if err != nil {
		return fmt.Errorf("output does not parse: %v", err)
	}
	var gs []got
	var stray []string
	flatten(forest, 0, false, &gs, &stray)

	seq := func() string {
		var a, b []string
		for _, x := range exp {
			a = append(a, describeExp(x))
		}
		for _, g := range gs {
			b = append(b, describeGot(g))
		}
		return fmt.Sprintf("\n  expected: %s\n  got:      %s", strings.Join(a, " "), strings.Join(b, " "))
	}

	if len(stray) > 0 {
		return fmt.Errorf("output contains unmarked nodes %v%s", stray, seq())
	}
	for i := 0; i < len(exp) || i < len(gs); i++ {
		if i >= len(gs) {
			return fmt.Errorf("marker #%d: expected %s, output ends%s", i, describeExp(exp[i]), seq())
		}
		if i >= len(exp) {
			return fmt.Errorf("marker #%d: unexpected %s%s", i, describeGot(gs[i]), seq())
		}
		x, g := exp[i], gs[i]
		if x.ID != g.id || x.Depth != g.depth {
			return fmt.Errorf("marker #%d: expected %s, got %s%s", i, describeExp(x), describeGot(g), seq())
		}
		if x.Probe {
			parts := strings.Split(g.text, "|")
			if len(parts) != len(x.Segs) {
				return fmt.Errorf("marker #%d (%s): text %q does not have %d segments%s", i, x.ID, g.text, len(x.Segs), seq())
			}
			for j, s := range x.Segs {
				if !s.Any && strings.TrimSpace(parts[j]) != s.V {
					return fmt.Errorf("marker #%d (%s): segment %d prints %q, expected %q%s", i, x.ID, j, parts[j], s.V, seq())
				}
			}
		} else if g.text != "" {
			return fmt.Errorf("marker #%d (%s): unexpected text %q%s", i, x.ID, g.text, seq())
		}
		for name, ea := range x.Attrs {
			if ea.Any {
				continue
			}
			gv, has := g.attrs[name]
			switch {
			case ea.Absent && has:
				return fmt.Errorf("marker #%d (%s): attribute %s=%q must be omitted (falsy binding)%s", i, x.ID, name, gv, seq())
			case !ea.Absent && !has:
				return fmt.Errorf("marker #%d (%s): attribute %s=%q missing%s", i, x.ID, name, ea.V, seq())
			case !ea.Absent && gv != ea.V:
				return fmt.Errorf("marker #%d (%s): attribute %s=%q, expected %q%s", i, x.ID, name, gv, ea.V, seq())
			}
		}
		names := make([]string, 0, len(g.attrs))
		for name := range g.attrs {
			names = append(names, name)
		}
		sort.Strings(names)
		for _, name := range names {
			if name == "data-m" || name == "style" {
				continue
			}
			if _, expected := x.Attrs[name]; !expected {
				return fmt.Errorf("marker #%d (%s): unexpected attribute %s=%q%s", i, x.ID, name, g.attrs[name], seq())
			}
		}
		style, hasStyle := g.attrs["style"]
		hidden := strings.Contains(strings.ReplaceAll(style, " ", ""), "display:none")
		switch {
		case !x.Show && hasStyle:
			return fmt.Errorf("marker #%d (%s): unexpected style=%q%s", i, x.ID, style, seq())
		case x.Show && !x.ShowAny && hidden != x.Hidden:
			return fmt.Errorf("marker #%d (%s): v-show: style=%q, expected hidden=%v%s", i, x.ID, style, x.Hidden, seq())
		}
	}
	return nil
}

// noopProcessor is a registered node processor that does nothing: rendering with it must not
// change a byte (it only switches on the code paths that run when processors are registered).
type noopProcessor struct{}

func (noopProcessor) New() vuego.NodeProcessor       { return noopProcessor{} }
func (noopProcessor) PreProcess([]*html.Node) error  { return nil }
func (noopProcessor) PostProcess([]*html.Node) error { return nil }

// Entry points of Check.
const (
	entryTemplate = "Load.Fill.Render"
	entryFragment = "RenderFragment"
	entryNoop     = "Load.Fill.Render+WithProcessor(no-op)"
	entryLess     = "Load.Fill.Render+WithLessProcessor"
)

// render produces the renderings of the page, each on a fresh engine over a fresh mount of the
// file set in the case's Store.
func render(c Case) (map[string]string, map[string]error) {
	files := c.Files()
	outs, errs := map[string]string{}, map[string]error{}
	mount := func() fs.FS { return cat.Mount(c.Store, memfs.FromMap(files)) }

	tpl := func(entry string, extra ...vuego.LoadOption) {
		var b bytes.Buffer
		opts := append([]vuego.LoadOption{vuego.WithComponents()}, extra...)
		if err := vuego.NewFS(mount(), opts...).Load("page.vuego").Fill(c.DataMap()).Render(context.Background(), &b); err != nil {
			errs[entry] = err
		}
		outs[entry] = b.String()
	}
	tpl(entryTemplate)
	tpl(entryNoop, vuego.WithProcessor(noopProcessor{}))
	tpl(entryLess, vuego.WithLessProcessor())

	var b2 bytes.Buffer
	v := vuego.NewVue(mount())
	vuego.WithComponents()(v)
	if err := v.RenderFragment(&b2, "page.vuego", c.DataMap()); err != nil {
		errs[entryFragment] = err
	}
	outs[entryFragment] = b2.String()
	return outs, errs
}

// Check renders the case through vuego (Template API and Vue.RenderFragment, over the case's
// Store) and compares the marked elements of the output with the interpreter's expectation; it
// then renders again on engines with a registered no-op node processor and with the LESS
// processor (generated programs contain no LESS), which must not change a byte of the output.
// Cases outside the asserted region (Result.Unspecified) are only checked for the latter.
func Check(c Case) error {
	res := Interpret(c)
	if res.Unspecified == tooLarge {
		// nested loops x slots can multiply a 40-node program into tens of megabytes of output
		// (a legitimate but minutes-long render): outside the budget of this family
		return nil
	}
	outs, errs := render(c)
	if res.Unspecified == "" {
		for _, entry := range []string{entryTemplate, entryFragment} {
			if err := errs[entry]; err != nil {
				return fmt.Errorf("%s failed: %v\n%s", entry, err, c.Dump())
			}
			if err := compare(res.Exp, outs[entry]); err != nil {
				return fmt.Errorf("%s: %v\n%s--- output ---\n%s", entry, err, c.Dump(), outs[entry])
			}
		}
	}
	for _, entry := range []string{entryNoop, entryLess} {
		if (errs[entry] == nil) != (errs[entryTemplate] == nil) {
			return fmt.Errorf("%s: error %v, plain render: error %v\n%s", entry, errs[entry], errs[entryTemplate], c.Dump())
		}
		if outs[entry] != outs[entryTemplate] {
			return fmt.Errorf("%s: output differs from the plain render\n%s--- plain ---\n%s--- %s ---\n%s", entry, c.Dump(), outs[entryTemplate], entry, outs[entry])
		}
	}
	return nil
}

// ---------------------------------------------------------------------------------------------
// Classification
// ---------------------------------------------------------------------------------------------

type classCtx struct {
	file      int // 0 page, i+1 component i
	inFor     bool
	inChain   bool
	inContent bool
	loopVars  []string
	visible   map[string]bool // names bound by enclosing constructs of this file / page data
}

type classifier struct {
	c   Case
	set map[string]bool
}

func (k *classifier) add(s string) { k.set[s] = true }

func (k *classifier) walk(ns []Node, cx classCtx) {
	for i := range ns {
		n := &ns[i]
		cx2 := cx
		chain := n.If != "" || n.ElseIf != "" || n.Else
		if chain {
			cx2.inChain = true
		}
		if n.For != nil {
			cx2.inFor = true
			cx2.loopVars = append(append([]string{}, cx.loopVars...), n.For.Var)
			if cx.visible[n.For.Var] {
				k.add("collision:loopvar-outer")
			}
			cx2.visible = with(cx.visible, n.For.Var, n.For.Idx)
			if cx.inFor {
				k.add("nested-for")
			}
			if n.If != "" {
				k.add("for-if-filter")
			}
			if n.ElseIf != "" || n.Else {
				k.add("for-on-else-member")
			}
			if i+1 < len(ns) && ns[i+1].Else {
				k.add("for-else")
			}
			if i+1 < len(ns) && ns[i+1].ElseIf != "" {
				k.add("for-else-if-tail")
			}
			if cx.file > 0 {
				k.add("for-in-component")
			}
			if cx.inContent {
				k.add("for-in-slot-content")
			}
		}
		if chain && n.For == nil || (chain && n.For != nil && (n.ElseIf != "" || n.Else)) {
			if cx.file > 0 {
				k.add("chain-in-component")
			}
			if cx.inContent {
				k.add("chain-in-slot-content")
			}
			if cx.inFor {
				k.add("chain-in-for")
			}
		}
		switch n.Kind {
		case KEl:
			if n.Show != "" {
				k.add("v-show")
				if chain {
					k.add("v-show-on-chain-member")
				}
			}
			for _, a := range n.Attrs {
				if a.Mode != "static" && cx2.inFor {
					k.add("dynamic-attr-in-for")
				}
			}
			k.walk(n.Kids, cx2)
		case KTpl:
			if n.For != nil {
				k.add("template-for")
			}
			if chain {
				k.add("template-in-chain")
			}
			k.walk(n.Kids, cx2)
		case KInc:
			if n.Short {
				k.add("shorthand")
			} else {
				k.add("explicit-include")
			}
			if chain {
				k.add("include-in-chain")
			}
			if cx2.inFor {
				k.add("include-in-for")
			}
			if n.For != nil {
				k.add("for-on-include")
			}
			if cx.file > 0 {
				k.add("nested-include")
			}
			if cx.inContent {
				k.add("include-in-slot-content")
			}
			fm := map[string]bool{}
			if n.Comp >= 0 && n.Comp < len(k.c.Comps) {
				for _, b := range k.c.Comps[n.Comp].FM {
					fm[b.Name] = true
				}
			}
			for _, p := range n.Props {
				for _, lv := range cx2.loopVars {
					if p.Name == lv {
						k.add("prop-named-like-loopvar")
						if p.Mode == "bind" && p.Path == lv {
							k.add("prop-named-like-loopvar:self-bound")
						}
					}
				}
				selfBound := false
				for _, lv := range cx2.loopVars {
					selfBound = selfBound || (p.Name == lv && p.Mode == "bind" && p.Path == lv)
				}
				if cx2.visible[p.Name] && !selfBound {
					k.add("collision:prop-includer")
				}
				if fm[p.Name] {
					k.add("collision:fm-prop")
				}
				k.add("prop-" + p.Mode)
			}
			for name := range fm {
				if cx2.visible[name] {
					k.add("collision:fm-includer")
				}
			}
			hasContent := len(n.Kids) > 0 || len(n.Supply) > 0
			if hasContent {
				if cx2.inFor {
					k.add("slot-content-in-for")
				}
				if chain {
					k.add("slot-content-on-chain-member")
				}
			}
			cx3 := cx2
			cx3.inContent = true
			if len(n.Kids) > 0 {
				k.add("plain-default-content")
				k.walk(n.Kids, cx3)
			}
			for _, s := range n.Supply {
				cx4 := cx3
				switch {
				case s.Var != "":
					k.add("scoped-var")
					cx4.visible = with(cx3.visible, s.Var)
				case len(s.Destr) > 0:
					k.add("scoped-destructure")
					cx4.visible = with(cx3.visible, s.Destr...)
				default:
					k.add("unscoped-template")
				}
				if s.Short {
					k.add("hash-slot")
				}
				k.walk(s.Kids, cx4)
			}
		case KSlot:
			if cx.inFor {
				k.add("slot-in-for")
			}
			if cx.inChain {
				k.add("slot-in-chain")
			}
			if cx.inContent {
				k.add("slot-in-slot-content")
			}
			if n.If != "" {
				k.add("slot-own-v-if")
			}
			if n.ElseIf != "" || n.Else {
				k.add("slot-own-v-else")
				if i > 0 && ns[i-1].For != nil {
					k.add("slot-own-v-else-after-for")
				}
			}
			if n.For != nil {
				k.add("slot-own-v-for")
			}
			if len(n.SProps) > 0 {
				k.add("slot-props")
			}
			if len(n.Kids) > 0 {
				k.add("slot-with-fallback")
				k.walk(n.Kids, cx2)
			}
		}
	}
}

func with(m map[string]bool, names ...string) map[string]bool {
	out := make(map[string]bool, len(m)+len(names))
	for k := range m {
		out[k] = true
	}
	for _, n := range names {
		if n != "" {
			out[n] = true
		}
	}
	return out
}

// pairClasses are the labels that stand for an interaction of two features.
var pairClasses = map[string]bool{
	"include-in-chain": true, "include-in-for": true, "prop-named-like-loopvar": true,
	"slot-content-in-for": true, "chain-in-slot-content": true, "for-in-slot-content": true,
	"include-in-slot-content": true, "for-in-component": true, "chain-in-component": true,
	"slot-in-for": true, "slot-in-chain": true, "nested-include": true, "chain-in-for": true,
	"slot-in-slot-content": true, "for-on-include": true, "slot-content-on-chain-member": true,
	"collision:loopvar-outer": true, "collision:prop-includer": true, "collision:fm-prop": true,
	"collision:fm-includer": true,
}

// Classify labels the feature pairs a case contains. nontrivial: the case is inside the
// asserted region, renders at least one component instance and contains a feature pair.
func Classify(c Case) (nontrivial bool, classes []string) {
	k := &classifier{c: c, set: map[string]bool{}}
	vis := map[string]bool{}
	for _, b := range c.Data {
		vis[b.Name] = true
	}
	k.walk(c.Page, classCtx{file: 0, visible: vis})
	for i := range c.Comps {
		// what a component body sees of the includer is not known statically; front-matter is
		v := with(nil)
		for _, b := range c.Comps[i].FM {
			v[b.Name] = true
		}
		k.walk(c.Comps[i].Body, classCtx{file: i + 1, visible: v})
	}
	res := Interpret(c)
	pair := false
	for s := range k.set {
		if pairClasses[s] {
			pair = true
		}
	}
	if res.Unspecified != "" {
		k.add("unspecified")
	}
	if c.Store == "" {
		k.add("store:plain")
	} else {
		k.add("store:" + c.Store)
	}
	if res.Gray > 0 {
		k.add("gray-read")
	}
	if res.Includes > 0 {
		k.add("rendered:include")
	}
	if res.Includes > 1 {
		k.add("rendered:include>=2")
	}
	if res.SlotFills > 0 {
		k.add("rendered:slot-fill")
	}
	if res.Fallbacks > 0 {
		k.add("rendered:slot-fallback")
	}
	if res.Instances > 0 {
		k.add("rendered:loop-instance")
	}
	for s := range k.set {
		classes = append(classes, s)
	}
	sort.Strings(classes)
	return res.Unspecified == "" && res.Includes > 0 && pair, classes
}

// Size reports the number of AST nodes (slot templates included) and the deepest nesting.
func Size(c Case) (nodes, depth int) {
	var walk func(ns []Node, d int)
	walk = func(ns []Node, d int) {
		if len(ns) > 0 && d > depth {
			depth = d
		}
		for i := range ns {
			nodes++
			walk(ns[i].Kids, d+1)
			for _, s := range ns[i].Supply {
				nodes++
				walk(s.Kids, d+1)
			}
		}
	}
	walk(c.Page, 1)
	for i := range c.Comps {
		walk(c.Comps[i].Body, 1)
	}
	return
}

// TooLarge reports whether the case expands beyond the interpreter's step budget; callers that
// render generated programs themselves (C09, C10, C12) skip such cases.
func TooLarge(c Case) bool { return Interpret(c).Unspecified == tooLarge }
