package cat

import (
	"io"
	"io/fs"
	"sort"
	"strings"
	"time"

	"github.com/titpetric/vuego"

	"verif/internal/memfs"
)

// Stores are the ways one and the same file set can be presented to the engine (Program.Store).
// The described file set - and therefore the expected output - is the same for all of them:
//
//	""          the backing memfs itself (ReadDir, Stat, ReadFile available)
//	"openonly"  an fs.FS exposing ONLY Open around it
//	"overlay2"  vuego.NewOverlayFS(upper, lower): files split by index parity of their sorted
//	            names, page.vuego always in the upper layer
//	"overlay3"  vuego.NewOverlayFS(top, nil, lowest): all components/ files but the first in the
//	            lowest layer, everything else on top; the lowest layer additionally holds a STALE
//	            copy (StaleSource) of the first component, shadowed by the real one on top
//
// The layers are live views of the backing memfs (not copies): writes to it made after mounting
// (history / concurrency checks) show through; files created later appear in the top layer.
var Stores = []string{"", "openonly", "overlay2", "overlay3"}

// StaleSource is the content of the shadowed copy; its marker must never reach an output.
const StaleSource = `<i data-m="stale-layer">STALE-LAYER</i>` + "\n"

// openOnly hides every optional interface of a filesystem (Stat, ReadDir, ReadFile ...).
type openOnly struct{ f fs.FS }

func (o openOnly) Open(name string) (fs.File, error) { return o.f.Open(name) }

// view is one layer: the files of m that are in set (or, with exclude, all that are not), plus
// the static files of extra. It exposes only Open; directories list the visible entries.
type view struct {
	m       *memfs.FS
	set     map[string]bool
	exclude bool
	extra   *memfs.FS
}

func (v view) visible(name string) bool { return v.set[name] != v.exclude }

type dirFile struct {
	info fs.FileInfo
	ents []fs.DirEntry
	pos  int
}

func (d *dirFile) Stat() (fs.FileInfo, error) { return d.info, nil }
func (d *dirFile) Read([]byte) (int, error)   { return 0, io.EOF }
func (d *dirFile) Close() error               { return nil }
func (d *dirFile) ReadDir(n int) ([]fs.DirEntry, error) {
	rest := d.ents[d.pos:]
	if n <= 0 {
		d.pos = len(d.ents)
		return rest, nil
	}
	if len(rest) == 0 {
		return nil, io.EOF
	}
	if n > len(rest) {
		n = len(rest)
	}
	d.pos += n
	return rest[:n], nil
}

type dirInfo struct{ name string }

func (i dirInfo) Name() string               { return i.name }
func (i dirInfo) Size() int64                { return 0 }
func (i dirInfo) Mode() fs.FileMode          { return fs.ModeDir | 0o755 }
func (i dirInfo) ModTime() time.Time         { return time.Unix(1, 0) }
func (i dirInfo) IsDir() bool                { return true }
func (i dirInfo) Sys() any                   { return nil }
func (i dirInfo) Type() fs.FileMode          { return fs.ModeDir }
func (i dirInfo) Info() (fs.FileInfo, error) { return i, nil }

func (v view) Open(name string) (fs.File, error) {
	if !fs.ValidPath(name) {
		return nil, &fs.PathError{Op: "open", Path: name, Err: fs.ErrInvalid}
	}
	if v.extra != nil {
		if st, err := v.extra.Stat(name); err == nil && !st.IsDir() {
			return v.extra.Open(name)
		}
	}
	st, err := v.m.Stat(name)
	if err == nil && !st.IsDir() {
		if !v.visible(name) {
			return nil, &fs.PathError{Op: "open", Path: name, Err: fs.ErrNotExist}
		}
		return v.m.Open(name)
	}
	// a directory: list what this layer shows of it
	ents := map[string]fs.DirEntry{}
	var walk func(src *memfs.FS, dir string, all bool) bool
	walk = func(src *memfs.FS, dir string, all bool) bool {
		list, err := src.ReadDir(dir)
		if err != nil {
			return false
		}
		any := false
		for _, e := range list {
			p := e.Name()
			if dir != "." {
				p = dir + "/" + e.Name()
			}
			show := false
			if e.IsDir() {
				show = walk(src, p, all)
				if show && dir == name {
					ents[e.Name()] = dirInfo{e.Name()}
				}
			} else {
				show = all || v.visible(p)
				if show && dir == name {
					ents[e.Name()] = e
				}
			}
			any = any || show
		}
		return any
	}
	found := walk(v.m, name, false)
	if v.extra != nil {
		found = walk(v.extra, name, true) || found
	}
	if !found && name != "." {
		return nil, &fs.PathError{Op: "open", Path: name, Err: fs.ErrNotExist}
	}
	out := make([]fs.DirEntry, 0, len(ents))
	for _, e := range ents {
		out = append(out, e)
	}
	sort.Slice(out, func(i, j int) bool { return out[i].Name() < out[j].Name() })
	base := name
	if i := strings.LastIndex(name, "/"); i >= 0 {
		base = name[i+1:]
	}
	return &dirFile{info: dirInfo{base}, ents: out}, nil
}

// Mount presents the backing filesystem m the way store says (see Stores).
func Mount(store string, m *memfs.FS) fs.FS {
	names := make([]string, 0)
	for k := range m.Files() {
		names = append(names, k)
	}
	sort.Strings(names)
	switch store {
	case "openonly":
		return openOnly{m}
	case "overlay2":
		lower := map[string]bool{}
		for i, n := range names {
			if i%2 == 1 && n != "page.vuego" {
				lower[n] = true
			}
		}
		return vuego.NewOverlayFS(view{m: m, set: lower, exclude: true}, view{m: m, set: lower})
	case "overlay3":
		lower := map[string]bool{}
		stale := memfs.New()
		first := true
		for _, n := range names {
			if !strings.HasPrefix(n, "components/") {
				continue
			}
			if first {
				first = false
				stale.Write(n, StaleSource, time.Unix(1000, 0))
				continue
			}
			lower[n] = true
		}
		return vuego.NewOverlayFS(view{m: m, set: lower, exclude: true}, nil, view{m: m, set: lower, extra: stale})
	}
	return m
}

// Mount presents m the way the program's Store says.
func (p Program) Mount(m *memfs.FS) fs.FS { return Mount(p.Store, m) }

// mounted wraps a bare backing memfs for programs with a Store; anything else is already mounted.
func (p Program) mounted(fsys fs.FS) fs.FS {
	if m, ok := fsys.(*memfs.FS); ok && p.Store != "" {
		return Mount(p.Store, m)
	}
	return fsys
}
